"""Shared machinery of the checks: building the Coq development and the
extracted driver, evidence files, known findings, replay files."""
import hashlib
import json
import os
import re
import subprocess
import sys
import time

VERIF = os.environ.get("VERIF_HOME", "/verif")
REPO = os.environ.get("VERIF_REPO", "/repo")
COQ = os.path.join(VERIF, "coq")
BUILD = os.path.join(VERIF, "build")
NPROC = os.cpu_count() or 4

TRUSTED_BASE = [
    "Coq 8.16.1 kernel via coqc (full .vo build, no -vos, no native_compute); coqchk in the thorough tier",
    "axioms: as printed by Print Assumptions under each theorem of coq/Props/<id>.v (copied below as 'axioms')",
    "extraction: Coq Extraction with ExtrOcamlBasic and ExtrOcamlNativeString (their Extract Inductive/Constant directives for bool, option, unit, list, prod, sumbool, string, ascii); no Extract Constant of our own",
    "driver/main.ml: binary64 NumOps record with Python int/float semantics (libm exp/log), wire syntax, dispatch",
    "xlate/pyxlate.py: translation of the decision and arithmetic expressions, and of the whole bodies of 23 functions (Deme.size_at, Deme.end_time, Epoch.time_span, to_ms.get_growth_rate, Graph.in_generations, Graph.rename_demes, Graph.successors, Graph.predecessors, valid_deme_name (str.isidentifier = the model's ASCII is_identifier: trusted mapping), isclose_deme_proportions, the assert_close of Epoch, AsymmetricMigration, Deme, Pulse and Graph (attrs ordering of Deme / AsymmetricMigration = the model's deme_lt / mig_lt is a trusted table), the post-init checks of Epoch, AsymmetricMigration and Pulse, five validators), of /repo's source into Gallina (coq/Gen, regenerated and proved equal to the model on every run)",
    "IEEE binary64 comparisons satisfy NumLaws: proved for Coq primitive floats in coq/Base/NumF.v (depends on the standard library's FloatAxioms and the Reals/classical axioms Flocq uses; imported only by the binary64 refutation theorems of coq/Props/C11.v)",
    "standard-library axioms used by the exact-real-arithmetic theorems (coq/Base/NumR.v, Props C13 and C07 *_R theorems): ClassicalDedekindReals.sig_not_dec, sig_forall_dec, FunctionalExtensionality.functional_extensionality_dep, Classical_Prop.classic; by the binary64 theorems (Props C11 *_F): the same plus the primitive float / 63-bit integer types and operations and FloatAxioms' specifications; all other theorems are closed under the global context",
    "harness/*.py: generators, canonicalisation, comparison, classification of findings",
    "coq/Spec/*.v: the transcription of the Demes data-model rules and ms semantics that the theorems are stated against",
    "modelled, not verified: CPython 3.12 (attrs, dict order, stable sort, deepcopy), ruamel.yaml, json, argparse, str<->float conversion, libm",
]


def sh(cmd, timeout, cwd=None):
    t0 = time.time()
    try:
        p = subprocess.run(cmd, shell=True, cwd=cwd, capture_output=True, text=True, timeout=timeout)
        return p.returncode, p.stdout + p.stderr, time.time() - t0
    except subprocess.TimeoutExpired as e:
        return 124, "TIMEOUT after %ss: %s" % (timeout, cmd), time.time() - t0


def build_all(log):
    """Full .vo build of coq/, extraction, OCaml driver.  Returns (ok, message)."""
    os.makedirs(BUILD, exist_ok=True)
    if not os.path.exists(os.path.join(COQ, "Makefile")):
        rc, out, _ = sh("coq_makefile -f _CoqProject -o Makefile", 60, COQ)
        if rc:
            return False, "coq_makefile failed: " + out[-2000:]
    rc, out, dt = sh("make -j%d" % NPROC, 3000, COQ)
    log.append("coq make rc=%d %.1fs" % (rc, dt))
    if rc:
        return False, "coq build failed:\n" + out[-3000:]
    vo_newest = 0
    for root, _, files in os.walk(COQ):
        for f in files:
            if f.endswith(".vo"):
                vo_newest = max(vo_newest, os.path.getmtime(os.path.join(root, f)))
    drv = os.path.join(BUILD, "driver")
    src = os.path.join(VERIF, "driver", "main.ml")
    need = (not os.path.exists(drv) or os.path.getmtime(drv) < vo_newest
            or os.path.getmtime(drv) < os.path.getmtime(src))
    if need:
        rc, out, dt = sh("coqc -Q ../coq Demes ../coq/Extract/Extract.v", 600, BUILD)
        log.append("extraction rc=%d %.1fs" % (rc, dt))
        if rc:
            return False, "extraction failed:\n" + out[-3000:]
        rc, out, dt = sh("cp ../driver/main.ml . && ocamlfind ocamlopt -w -a model.mli model.ml main.ml -o driver",
                         600, BUILD)
        log.append("ocaml rc=%d %.1fs" % (rc, dt))
        if rc:
            return False, "driver build failed:\n" + out[-3000:]
    return True, "built"


def hygiene():
    """No admitted proofs, no axioms of ours, no switched-off checks."""
    bad = []
    pat = re.compile(r"\b(Admitted|admit|Axiom|Axioms|Parameter|Parameters|Conjecture|"
                     r"Unset Guard|bypass_check|Admit Obligations|type-in-type|impredicative-set)\b")
    for root, _, files in os.walk(COQ):
        for f in files:
            if not f.endswith(".v"):
                continue
            text = open(os.path.join(root, f)).read()
            text = re.sub(r"\(\*.*?\*\)", "", text, flags=re.S)
            for m in pat.finditer(text):
                bad.append("%s: %s" % (os.path.relpath(os.path.join(root, f), COQ), m.group(0)))
    return bad


def prop_theorems(pid):
    """(theorem names, axioms per theorem, ok) of coq/Props/<pid>.v, re-checked now."""
    path = os.path.join(COQ, "Props", pid + ".v")
    text = open(path).read()
    names = re.findall(r"^\s*Theorem\s+(\w+)", text, flags=re.M)
    rc, out, dt = sh("coqc -Q . Demes Props/%s.v" % pid, 900, COQ)
    # Print Assumptions prints either "Closed under the global context" or "Axioms:" followed by entries "name : type";
    # a long entry puts the name on a line of its own and continues, indented, with ": type"
    axioms = set()
    for l in out.splitlines():
        if not l or l[0].isspace() or l.startswith("Closed under") or l.startswith("Axioms:") or l.startswith("File "):
            continue
        m = re.match(r"^([A-Za-z_][\w.']*)(\s*:.*)?$", l)
        if m:
            axioms.add(m.group(1))
    axioms = sorted(axioms)
    closed = out.count("Closed under the global context")
    return names, axioms, closed, rc == 0, out[-2000:]


class Known:
    def __init__(self):
        p = os.path.join(VERIF, "known_findings.json")
        self.entries = json.load(open(p))["findings"] if os.path.exists(p) else []

    def match(self, pid, signature):
        for e in self.entries:
            if e.get("status") == "known" and e["property"] == pid and e["signature"] == signature:
                return e
        return None


class Check:
    def __init__(self, pid, tier, seed):
        self.pid, self.tier, self.seed = pid, tier, seed
        self.t0 = time.time()
        self.log = []
        self.evaluations = 0
        self.hashes = set()
        self.samples = []
        self.violations = []       # (signature, replay dict)
        self.known_hits = {}       # signature -> count
        self.known = Known()
        self.stats = {}
        self.disagreements = 0
        self.extra = {}

    # -- counting --
    def count(self, key, n=1):
        self.stats[key] = self.stats.get(key, 0) + n

    def case(self, obj, nontrivial=True):
        self.evaluations += 1
        if nontrivial:
            h = hashlib.sha1(json.dumps(obj, sort_keys=True, default=repr).encode()).hexdigest()
            self.hashes.add(h)

    def sample(self, obj, limit=5):
        if len(self.samples) < limit:
            self.samples.append(obj)

    # -- reporting --
    def violation(self, signature, what, replay):
        """A property failure on the implementation (replay has the input)."""
        e = self.known.match(self.pid, signature)
        if e is not None:
            self.known_hits[signature] = self.known_hits.get(signature, 0) + 1
            return
        if sum(1 for v in self.violations if not v[3]) < 20:
            self.violations.append((signature, what, replay, False))

    def unproven(self, signature, what, replay):
        """A proof obligation or the model/implementation correspondence broke and
        no failing input of the property itself was found."""
        if sum(1 for v in self.violations if v[3]) < 20:
            self.violations.append((signature, what, replay, True))

    def finish(self, level, obligations=None, discharged=None, axioms=None, rule="", explanation="",
               checker_cmd=None):
        os.makedirs(os.path.join(VERIF, "evidence"), exist_ok=True)
        os.makedirs(os.path.join(VERIF, "replays"), exist_ok=True)
        lines = []
        for sig, cnt in sorted(self.known_hits.items()):
            e = self.known.match(self.pid, sig)
            lines.append("KNOWN-FINDING: property=%s %s [%s; %d case(s) this run]"
                         % (self.pid, e["what"], e["id"], cnt))
        seen = set()
        nviol = 0
        # a broken proof obligation / correspondence is reported on its own (no-failing-input-found) only when the
        # search found no failing input; otherwise it is recorded inside the replay of the failing input found
        real = [v for v in self.violations if not v[3]]
        broken = [dict(signature=v[0], what=v[1], detail=v[2]) for v in self.violations if v[3]]
        todo = self.violations if not real else real
        for sig, what, replay, noinput in todo:
            if sig in seen:
                continue
            seen.add(sig)
            nviol += 1
            if real and broken and isinstance(replay, dict):
                replay = dict(replay, broken_obligations_in_this_run=broken[:10])
            path = os.path.join(VERIF, "replays", "%s_%s_%d.json"
                                % (self.pid, re.sub(r"\W+", "_", sig)[:60], self.seed))
            json.dump(dict(property=self.pid, signature=sig, what=what, seed=self.seed,
                           tier=self.tier, replay=replay), open(path, "w"), indent=1, default=repr)
            lines.append("VIOLATION property=%s replay=%s%s"
                         % (self.pid, path, " no-failing-input-found" if noinput else ""))
        cov = dict(evaluations=self.evaluations, distinct_nontrivial=len(self.hashes), rule=rule,
                   samples=self.samples or ["(none)"],
                   traces_validated_against_impl=self.evaluations,
                   disagreements_checked=self.disagreements,
                   checker_cmd=checker_cmd or "./check %s --tier %s" % (self.pid, self.tier),
                   trusted_base=TRUSTED_BASE + (["axioms: " + (", ".join(axioms) if axioms else
                                                 "none (Closed under the global context)")]
                                                if axioms is not None else []),
                   explanation=explanation, stats=self.stats,
                   known_findings_matched=self.known_hits, build_log=self.log)
        if obligations is not None:
            cov["obligations"] = obligations
            cov["discharged"] = discharged
        cov["programs"] = self.evaluations
        cov.update(self.extra)
        ev = dict(property_id=self.pid, tier=self.tier, seed=self.seed, level=level, coverage=cov,
                  assumptions=TRUSTED_BASE, wall_s=round(time.time() - self.t0, 2), violations=nviol)
        json.dump(ev, open(os.path.join(VERIF, "evidence", self.pid + ".json"), "w"), indent=1, default=repr)
        for l in lines:
            print(l)
        print("%s %s: %d evaluations, %d distinct non-trivial, %d violation(s), %d known finding kind(s), %.1fs"
              % (self.pid, self.tier, self.evaluations, len(self.hashes), nviol, len(self.known_hits),
                 time.time() - self.t0))
        sys.stdout.flush()
        return 1 if nviol else 0


def tie_stage(chk):
    """Source-derived guards (xlate/pyxlate.py): the decision expressions of /repo's current source are
    translated to Gallina and each is proved equal to the expression the model uses at that place.  A site
    that no longer translates or no longer ties, and on which this property rests, is a broken tie."""
    sys.path.insert(0, os.path.join(VERIF, "xlate"))
    try:
        import pyxlate
        report = pyxlate.cmd_gen(os.path.join(COQ, "Gen"), COQ)
    except Exception as e:
        chk.unproven("tie:translator", "the source translator failed to run", dict(error=repr(e)))
        return
    mine = [r for r in report if chk.pid in r.get("props", [])]
    chk.extra["source_guards"] = dict(sites_total=len(report), sites_tied=sum(1 for r in report if r["status"] == "ok"),
                                      whole_functions_tied=[r["function"] for r in report
                                                            if r["site"].startswith("f_") and r["status"] == "ok"],
                                      sites_of_this_property=[dict(site=r["site"], function=r["function"], source=r["source"],
                                                                   status=r["status"], **({"note": r["note"]} if "note" in r else {}))
                                                              for r in mine])
    chk.extra["tie_obligations"] = len(mine)
    chk.extra["tie_discharged"] = sum(1 for r in mine if r["status"] == "ok")
    for r in mine:
        if r["status"] != "ok":
            chk.unproven("tie:" + r["site"],
                         "a decision expression of %s no longer ties to the model: %s" % (r["function"], r["status"]),
                         dict(site=r["site"], file=r["file"], function=r["function"], source=r["source"], status=r["status"],
                              tie_lemma=("coq/Gen/FunTie.v: tie_" if r["site"].startswith("f_") else "coq/Gen/GuardTie.v: tie_")
                              + r["site"]))


def proof_stage(chk):
    """Build everything and re-check the property's theorem file.  Returns
    (obligations, discharged, axioms).  On failure records an 'unproven' violation."""
    bad = hygiene()
    ok, msg = build_all(chk.log)
    if bad:
        ok, msg = False, "forbidden constructs in the development: " + "; ".join(bad)
    if not ok:
        chk.unproven("build", "the Coq development or the driver no longer builds",
                     dict(theorem_file="coq/Props/%s.v" % chk.pid, detail=msg))
        return 1, 0, []
    tie_stage(chk)
    names, axioms, closed, pok, out = prop_theorems(chk.pid)
    if not pok:
        chk.unproven("theorems", "coq/Props/%s.v no longer checks" % chk.pid,
                     dict(theorem_file="coq/Props/%s.v" % chk.pid, detail=out))
        return len(names), 0, axioms
    chk.extra["theorems"] = names
    chk.extra["print_assumptions_closed"] = closed
    if chk.tier == "thorough":
        # independent re-check of the compiled theorem file and everything it depends on
        rc, out, dt = sh("coqchk -silent -o -Q . Demes Demes.Props.%s" % chk.pid, 1800, COQ)
        m = re.search(r"\* Axioms:(.*?)\n\s*\n\* Constants", out, flags=re.S)
        ax = [l.strip() for l in (m.group(1) if m else "").splitlines() if l.strip()]
        chk.extra["coqchk"] = dict(rc=rc, seconds=round(dt, 1), axioms=ax)
        chk.log.append("coqchk rc=%d %.1fs axioms=%s" % (rc, dt, ax))
        if rc != 0:
            chk.unproven("coqchk", "coqchk does not accept coq/Props/%s.vo" % chk.pid, dict(detail=out[-2000:]))
            return len(names) + chk.extra.get("tie_obligations", 0), chk.extra.get("tie_discharged", 0), axioms
    return (len(names) + chk.extra.get("tie_obligations", 0), len(names) + chk.extra.get("tie_discharged", 0), axioms)
