"""Pools of graphs resolved by the implementation under test."""
import glob
import os
import random
import warnings

import demes
import gen


def example_graphs():
    out = []
    for f in sorted(glob.glob(os.path.join(os.environ.get("VERIF_REPO", "/repo"), "examples/*.yaml"))):
        try:
            out.append(("example:" + f.split("/")[-1], demes.load(f)))
        except Exception:
            pass
    return out


def generated(seed, n, chk=None, **kw):
    """Yield (label, doc, graph) for n generated documents that the implementation accepts."""
    rng = random.Random(seed)
    made = 0
    tries = 0
    while made < n and tries < 20 * n + 100:
        tries += 1
        doc = gen.gen_model(rng, **kw)
        with warnings.catch_warnings():
            warnings.simplefilter("ignore")
            try:
                g = demes.Graph.fromdict(doc)
            except Exception as e:
                if chk is not None:
                    chk.count("generated_rejected")
                continue
        made += 1
        if chk is not None:
            chk.count("generated_accepted")
        yield ("gen:%d:%d" % (seed, tries), doc, g)


def pool(chk, quick_n, thorough_n, **kw):
    n = quick_n if chk.tier == "quick" else thorough_n
    out = [(l, None, g) for l, g in example_graphs()]
    out += list(generated(chk.seed, n, chk, **kw))
    return out


def payload_eq(impl_graph, model_pair):
    """impl Graph vs the model's (asdict, index) answer"""
    import wire
    p = gen.graph_payload(impl_graph)
    idx = p.pop("_index")
    return wire.deep_eq(p, model_pair[0]) and wire.deep_eq(idx, model_pair[1])


def still_valid(g):
    """a graph derived by in_generations can be invalid on binary64 (known finding F12: two times collapse, overflow,
    underflow); the properties about valid graphs do not speak of it"""
    try:
        with warnings.catch_warnings():
            warnings.simplefilter("ignore")
            demes.Graph.fromdict(g.asdict())
        return True
    except Exception:
        return False
