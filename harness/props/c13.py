"""C13: Deme.size_at against the proved model (coq/Model/SizeAt.v)."""
import json
import math

import common
import gen
import graphs
import wire

RULE = ("cases are (deme, time) pairs: every deme of generated valid graphs (times of one model drawn "
        "from one small pool) and of the example files, at every time value occurring in the graph, its "
        "float neighbours, points inside the isclose window, interval midpoints, 0, -0.0, inf and beyond "
        "the oldest time; non-trivial = time within the deme's closed lifetime hull or at a boundary "
        "neighbourhood, in a deme with >= 2 epochs or a non-constant epoch; distinct by (deme dict, time)")


def impl_size(d, t):
    try:
        return ("ok", d.size_at(t))
    except Exception as e:
        return ("err", type(e).__name__)


def same(a, b):
    if a[0] != b[0]:
        return False
    if a[0] == "err":
        return a[1] == b[1]
    return wire.num_eq(a[1], b[1])


def spec_check(d, t, r):
    """The statement of C13 evaluated directly on what the implementation returned.
    Returns None or (signature, text)."""
    eps = d.epochs
    start, end = d.start_time, eps[-1].end_time
    if r[0] == "err":
        return ("size_at:raises:" + r[1], "size_at raised %s" % r[1])
    v = r[1]
    if isinstance(v, float) and math.isnan(v):
        e0 = eps[0]
        if math.isinf(e0.start_time) and e0.size_function != "constant" and e0.start_time > t >= e0.end_time:
            return ("size_at:nan:infinite-epoch-nonconstant-size_function",
                    "NaN in an infinite-start epoch declared %s" % e0.size_function)
        return ("size_at:nan", "size_at returned NaN")
    if math.isinf(t) and math.isinf(start):
        if v != eps[0].start_size:
            return ("size_at:inf", "size at infinity is not the first epoch's size")
        return None
    if t >= start or t < end:
        if v != 0:
            return ("size_at:outside-nonzero", "non-zero size outside the lifetime")
        return None
    owner = [e for e in eps if e.start_time > t >= e.end_time]
    if len(owner) != 1:
        return ("size_at:owner", "no unique owner epoch")
    e = owner[0]
    if t == e.end_time and v != e.end_size:
        return ("size_at:epoch-end", "size at an epoch end is not the epoch's end size")
    lo, hi = min(e.start_size, e.end_size), max(e.start_size, e.end_size)
    if not (lo * (1 - 1e-9) <= v <= hi * (1 + 1e-9)):
        return ("size_at:not-between", "size outside [start_size, end_size]")
    if not (lo <= v <= hi):
        # outside in the last places only: binary64 rounding of the interpolation formula when its weight rounds to 1
        # (a time next to, but not isclose to, the epoch end).  This was finding F24, repaired in /repo by clamping
        # (7e3e094); since then between-ness is a theorem for every number instance, binary64 included
        # (coq/Proofs/SizeBetweenAny.v), and a recurrence is a violation.
        return ("size_at:not-between:last-place", "size outside [start_size, end_size] in the last place (%r not in [%r, %r])" % (v, lo, hi))
    return None


def run(chk):
    nobl, ndis, axioms = common.proof_stage(chk)
    if ndis == 0:
        return chk.finish("proof", nobl, ndis, axioms, RULE)
    drv = wire.Driver()
    n = 250 if chk.tier == "quick" else 4000
    pool = [(l, None, g) for l, g in graphs.example_graphs()]
    pool += list(graphs.generated(chk.seed, n, chk))
    # after the graph itself, graphs derived from it by the library's own operations (sizes were already asked of
    # the original by then): the answers must describe the graph they are asked of, whatever its history
    import demes as _demes
    rngd = __import__("random").Random(chk.seed + 13)

    def with_derived(items):
        for label, doc, g in items:
            yield label, doc, g
            try:
                d0 = g.asdict()
                if d0["time_units"] == "generations" and len(g.demes) and rngd.random() < 0.5:
                    d0 = dict(d0, time_units="years", generation_time=rngd.choice([2, 25, 29.5]))
                    g2 = _demes.Graph.fromdict(d0)
                    for dm in g2.demes:
                        dm.size_at(0)
                        dm.size_at(dm.epochs[-1].end_time)
                else:
                    g2 = g
                if g2.generation_time not in (None, 1) and rngd.random() < 0.7:
                    gi = g2.in_generations()
                    if graphs.still_valid(gi):       # invalid conversions (F12) are outside "for every valid deme"
                        yield label + "|in_generations", None, gi
                if len(g.demes) >= 2 and rngd.random() < 0.3:
                    a, c = g.demes[0].name, g.demes[-1].name
                    yield label + "|rename-swap", None, g.rename_demes({a: c, c: a})
            except Exception as e:
                chk.count("derived_failed_" + type(e).__name__)
    for label, doc, g in with_derived(pool):
        payload = g.asdict()
        times = gen.interesting_times(g)
        for i, d in enumerate(g.demes):
            dj = payload["demes"][i]
            try:
                model = drv.call("size_at", dj, times)
            except wire.DriverError as e:
                chk.unproven("driver", "the extracted model failed to run", dict(error=str(e), deme=dj))
                continue
            nontriv_deme = len(d.epochs) >= 2 or any(e.size_function != "constant" for e in d.epochs)
            for t, mr in zip(times, model):
                ir = impl_size(d, t)
                mr = (mr[0], mr[1])
                if mr[0] == "err":
                    mr = ("err", mr[1])
                chk.case([dj, repr(t)], nontrivial=nontriv_deme and (d.epochs[-1].end_time <= t))
                chk.count("impl_" + (ir[0] if ir[0] == "ok" else ir[1]))
                bad = spec_check(d, t, ir)
                if bad:
                    chk.violation(bad[0], bad[1], dict(op="size_at", deme=dj, time=repr(t),
                                  time_hex=float(t).hex(), impl=repr(ir), model=repr(mr), graph=label))
                if not same(ir, mr):
                    chk.disagreements += 1
                    close = (ir[0] == "ok" and mr[0] == "ok" and isinstance(ir[1], (int, float))
                             and math.isclose(ir[1], mr[1], rel_tol=1e-9))
                    rep = dict(op="size_at", deme=dj, time=repr(t), time_hex=float(t).hex(),
                               impl=repr(ir), model=repr(mr), graph=label,
                               theorem="coq/Props/C13.v (all theorems are about Model/SizeAt.v:size_at)")
                    if close or bad:
                        chk.unproven("size_at:correspondence",
                                     "implementation and proved model differ (within tolerance or already reported)", rep)
                    else:
                        chk.violation("size_at:value-differs-from-documented-interpolation",
                                      "size differs from the documented interpolation beyond 1e-9", rep)
        chk.sample(dict(graph=label, demes=len(g.demes), times=len(times),
                        first=dict(deme=payload["demes"][0]["name"], time=repr(times[0]),
                                   size=repr(impl_size(g.demes[0], times[0])))))
    drv.close()
    return chk.finish("proof", nobl, ndis, axioms, RULE,
                      explanation="theorems of coq/Props/C13.v re-checked by coqc; Model/SizeAt.v run (extracted) "
                                  "against Deme.size_at bit-for-bit; C13's statement evaluated on the implementation's answers")


def replay(chk, path):
    import demes
    r = json.load(open(path))["replay"]
    dj = r["deme"]
    b = demes.Builder()
    t = float.fromhex(r["time_hex"])
    print("replay: deme", dj["name"], "time", t)
    # rebuild the deme alone (ancestors dropped: size_at does not use them)
    dj2 = dict(dj, ancestors=[], proportions=[])
    from demes.demes import Deme, Epoch
    eps = []
    st = dj["start_time"]
    for e in dj["epochs"]:
        eps.append(Epoch(start_time=st, **e))
        st = e["end_time"]
    d = Deme(name=dj["name"], description="", start_time=dj["start_time"], ancestors=[], proportions=[], epochs=eps)
    ir = impl_size(d, t)
    print("implementation:", ir, " recorded:", r["impl"], " model:", r["model"])
    bad = spec_check(d, t, ir)
    print("property:", bad or "holds")
    return 1 if bad else 0
