"""C10: Graph.isclose / assert_close against the proved model (coq/Model/Close.v)."""
import copy
import json
import math
import random

import common
import gen
import graphs
import wire

RULE = ("cases are pairs (g, g'): g' = g, g with non-semantic fields changed, g with demes / migrations / "
        "ancestors re-ordered in every allowed way, and g with exactly one semantic attribute perturbed by "
        "a relative 2e-10 (inside the tolerance) or 1e-8 (outside), or one element (epoch, migration, pulse) "
        "added or dropped, or two pulses swapped; non-trivial = the two graphs differ; distinct by the pair")


def rebuild(d):
    import demes
    d = copy.deepcopy(d)
    return demes.Graph.fromdict(d)


def toposhuffle(rng, demes_list):
    """a random deme order that keeps ancestors before descendants"""
    out, placed, rest = [], set(), list(demes_list)
    while rest:
        ready = [d for d in rest if all(a in placed for a in d["ancestors"])]
        d = rng.choice(ready)
        rest.remove(d)
        out.append(d)
        placed.add(d["name"])
    return out


def variants(rng, g):
    """yield (kind, expect_close or None, dict) ; None = no expectation (only forms/symmetry/model agreement)"""
    base = g.asdict()
    yield ("same", True, copy.deepcopy(base))
    d = copy.deepcopy(base)
    d["description"] = "other"; d["doi"] = ["x"]; d["metadata"] = {"a": 1}
    for dm in d["demes"]:
        dm["description"] = "zzz"
    yield ("nonsemantic", True, d)
    d = copy.deepcopy(base); rng.shuffle(d["migrations"])
    yield ("migration-order", True, d)
    d = copy.deepcopy(base); d["demes"] = toposhuffle(rng, d["demes"])
    yield ("deme-order", True, d)
    d = copy.deepcopy(base)
    for dm in d["demes"]:
        if len(dm["ancestors"]) > 1:
            z = list(zip(dm["ancestors"], dm["proportions"])); rng.shuffle(z)
            dm["ancestors"], dm["proportions"] = [a for a, _ in z], [p for _, p in z]
    yield ("ancestor-order", True, d)

    for i, dm in enumerate(base["demes"]):
        pr = dm["proportions"]
        if len(pr) >= 2 and not math.isclose(pr[0], pr[1], rel_tol=1e-9, abs_tol=1e-12):
            d = copy.deepcopy(base)
            d["demes"][i]["proportions"] = [pr[1], pr[0]] + pr[2:]
            yield ("swap-ancestor-proportions", False, d)
            break
    for i, p in enumerate(base["pulses"]):
        pr = p["proportions"]
        if len(pr) >= 2 and not math.isclose(pr[0], pr[1], rel_tol=1e-9, abs_tol=1e-12):
            d = copy.deepcopy(base)
            d["pulses"][i]["proportions"] = [pr[1], pr[0]] + pr[2:]
            yield ("swap-pulse-proportions", False, d)
            break

    def bump(x, f):
        return x * f if x != 0 and not math.isinf(x) else x + (f - 1)
    # one numeric attribute, inside and outside the tolerance
    paths = []
    for i, dm in enumerate(base["demes"]):
        if not math.isinf(dm["start_time"]):
            paths.append(("demes", i, "start_time"))
        for j, ep in enumerate(dm["epochs"]):
            for k in ("start_size", "end_size", "selfing_rate", "cloning_rate"):
                paths.append(("demes", i, "epochs", j, k))
            if ep["end_time"] != 0:
                paths.append(("demes", i, "epochs", j, "end_time"))
    for i, m in enumerate(base["migrations"]):
        paths.append(("migrations", i, "rate"))
        paths.append(("migrations", i, "end_time"))
        if not math.isinf(m["start_time"]):
            paths.append(("migrations", i, "start_time"))
    for i, p in enumerate(base["pulses"]):
        paths.append(("pulses", i, "time"))
        paths.append(("pulses", i, "proportions", 0))
    rng.shuffle(paths)
    for path in paths[:6]:
        for f, exp in ((1 + 2e-10, True), (1 - 1e-7, False)):
            d = copy.deepcopy(base)
            x = d
            for k in path[:-1]:
                x = x[k]
            old = x[path[-1]]
            new = bump(float(old), f)
            if old == 0:
                exp = None if f > 1 else False
                new = 1e-13 if f > 1 else 1e-7
            x[path[-1]] = new
            if exp is False and math.isclose(float(old), new, rel_tol=1e-9, abs_tol=1e-12):
                exp = None      # the difference is below the documented absolute tolerance
            if path[0] == "pulses" and path[-1] == "time" and \
                    sum(1 for q in base["pulses"] if min(old, new) <= q["time"] <= max(old, new)) > 1:
                exp = None      # re-resolution re-sorts pulses whose times coincide or cross: the pulse lists differ in order
            yield ("perturb:" + ".".join(str(k) for k in path if isinstance(k, str)) + (":in" if exp else ":out"), exp, d)
    # an infinite time against a finite one (never close, whatever the tolerances)
    for i, m in enumerate(base["migrations"]):
        if math.isinf(m["start_time"]):
            d = copy.deepcopy(base)
            d["migrations"][i]["start_time"] = max(2 * m["end_time"] + 1, rng.choice([5000.0, 1e12, 1e300]))
            yield ("infinite-vs-finite:migration.start_time", False, d)
            break
    d = copy.deepcopy(base); d["time_units"] = "years" if base["time_units"] != "years" else "ka"
    if base["time_units"] == "generations":
        d["generation_time"] = 1
    yield ("time_units", False, d)
    if base["time_units"] != "generations":
        d = copy.deepcopy(base); d["generation_time"] = base["generation_time"] * 2
        yield ("generation_time", False, d)
    # drop the last epoch of a deme nobody depends on at that time
    for i, dm in enumerate(base["demes"]):
        if len(dm["epochs"]) >= 2:
            d = copy.deepcopy(base)
            d["demes"][i]["epochs"].pop()
            yield ("drop-last-epoch", False, d)
            break
    for i, dm in enumerate(base["demes"]):
        for j, ep in enumerate(dm["epochs"]):
            if ep["size_function"] == "exponential" and ep["start_size"] != ep["end_size"]:
                d = copy.deepcopy(base); d["demes"][i]["epochs"][j]["size_function"] = "linear"
                yield ("size_function", False, d)
                break
    if base["migrations"]:
        d = copy.deepcopy(base); d["migrations"].pop(rng.randrange(len(d["migrations"])))
        yield ("drop-migration", False, d)
    if base["pulses"]:
        d = copy.deepcopy(base); d["pulses"].pop(rng.randrange(len(d["pulses"])))
        yield ("drop-pulse", False, d)
    if len(base["pulses"]) >= 2:
        for i in range(len(base["pulses"]) - 1):
            a, b = base["pulses"][i], base["pulses"][i + 1]
            if a["time"] == b["time"] and a != b:
                d = copy.deepcopy(base); d["pulses"][i], d["pulses"][i + 1] = b, a
                yield ("swap-same-time-pulses", False, d)
                break
    if len(base["demes"]) >= 1:
        d = copy.deepcopy(base)
        nm = d["demes"][-1]["name"]
        users = any(nm in x["ancestors"] for x in d["demes"]) or any(nm in (m["source"], m["dest"]) for m in d["migrations"]) \
            or any(nm == p["dest"] or nm in p["sources"] for p in d["pulses"])
        if not users and len(d["demes"]) > 1:
            d["demes"].pop()
            yield ("drop-deme", False, d)


def forms(a, b):
    """(isclose, assert_close did not raise)"""
    r1 = a.isclose(b)
    try:
        a.assert_close(b)
        r2 = True
    except AssertionError:
        r2 = False
    return r1, r2


def run(chk):
    nobl, ndis, axioms = common.proof_stage(chk)
    if ndis == 0:
        return chk.finish("proof", nobl, ndis, axioms, RULE)
    drv = wire.Driver()
    rng = random.Random(chk.seed + 10)
    for label, doc, g in graphs.pool(chk, 120, 2500):
        pg = gen.graph_payload(g)
        for kind, expect, d in variants(rng, g):
            try:
                import warnings
                with warnings.catch_warnings():
                    warnings.simplefilter("ignore")
                    h = rebuild(d)
            except Exception:
                chk.count("variant_rejected")
                continue
            ph = gen.graph_payload(h)
            chk.case([pg, ph], nontrivial=kind != "same")
            chk.count("kind_" + kind.split(":")[0])
            rep = dict(op="isclose", a=pg, b=ph, kind=kind, label=label)
            ab, ab2 = forms(g, h)
            ba, ba2 = forms(h, g)
            if ab != ab2 or ba != ba2:
                chk.violation("close:forms-disagree", "isclose and assert_close disagree", rep)
            if ab != ba:
                chk.violation("close:not-symmetric", "isclose(a,b) != isclose(b,a)", rep)
            if kind == "same" and not ab:
                chk.violation("close:not-reflexive", "a graph is not close to itself", rep)
            if expect is True and not ab:
                chk.violation("close:rejects-allowed-change:" + kind.split(":")[0],
                              "graphs differing only by %s are reported different" % kind, rep)
            if expect is False and ab:
                chk.violation("close:misses-difference:" + kind.split(":")[0].replace("perturb", "attribute"),
                              "graphs that differ (%s) are reported close" % kind, rep)
            mab = drv.call("close", pg, ph, 1e-9, 1e-12)
            mba = drv.call("close", ph, pg, 1e-9, 1e-12)
            if mab != ab or mba != ba:
                chk.disagreements += 1
                chk.unproven("close:correspondence", "implementation and proved model differ",
                             dict(rep, impl=[ab, ba], model=[mab, mba]))
            # caller-supplied tolerances: looser and stricter than the default
            for rel, abst in ((1e-5, 1e-8), (1e-12, 0.0)):
                it = g.isclose(h, rel_tol=rel, abs_tol=abst)
                try:
                    g.assert_close(h, rel_tol=rel, abs_tol=abst)
                    it2 = True
                except AssertionError:
                    it2 = False
                mt = drv.call("close", pg, ph, rel, abst)
                if it != it2:
                    chk.violation("close:forms-disagree", "isclose and assert_close disagree with tolerances (%g, %g)" % (rel, abst), rep)
                if mt != it:
                    chk.disagreements += 1
                    looser = rel > 1e-9
                    if kind.startswith("perturb") and kind.endswith(":in") and looser and not it:
                        chk.violation("close:tolerance-not-honoured", "a difference inside the requested tolerance (%g) is reported" % rel, rep)
                    elif kind.startswith("perturb") and kind.endswith(":in") and not looser and it:
                        chk.violation("close:tolerance-not-honoured", "a difference outside the requested tolerance (%g) is missed" % rel, rep)
                    else:
                        chk.unproven("close:correspondence-tolerance",
                                     "implementation and proved model differ with tolerances (%g, %g)" % (rel, abst),
                                     dict(rep, impl=it, model=mt))
        # graphs derived from one that has already been compared (so whatever it memoises is filled): the renamed
        # graph (names chosen to reverse the sorted order of demes and of migrations) and the graph in generations
        # must be close, in both directions and both forms, to the same model resolved afresh
        ranked = sorted(d.name for d in g.demes)
        rmap = {nm: "r%03d" % (len(ranked) - i) for i, nm in enumerate(ranked)}
        for how, derive in (("rename_demes", lambda: g.rename_demes(rmap)), ("in_generations", lambda: g.in_generations()),
                            ("rename_demes-of-in_generations", lambda: g.in_generations().rename_demes(rmap))):
            try:
                import warnings
                with warnings.catch_warnings():
                    warnings.simplefilter("ignore")
                    r = derive()
                    if not graphs.still_valid(r):
                        continue
                    fresh = rebuild(r.asdict())
            except Exception:
                chk.count("derived_failed")
                continue
            chk.count("derived_" + how)
            pr, pf = gen.graph_payload(r), gen.graph_payload(fresh)
            chk.case([pr, pf, how], nontrivial=len(g.demes) > 1)
            rep = dict(op="isclose", a=pr, b=pf, kind="derived:" + how, label=label, original=pg, rename=rmap)
            ab, ab2 = forms(r, fresh)
            ba, ba2 = forms(fresh, r)
            rr, rr2 = forms(r, r)
            if not (ab and ab2 and ba and ba2 and rr and rr2):
                chk.violation("close:derived-graph-not-close-to-its-own-model:" + how,
                              "a graph obtained by %s from a graph that had been compared before is not close to the same "
                              "model resolved afresh (isclose %r/%r, assert_close %r/%r, itself %r/%r)"
                              % (how, ab, ba, ab2, ba2, rr, rr2), rep)
            if drv.call("close", pr, pf, 1e-9, 1e-12) != ab:
                chk.disagreements += 1
                chk.unproven("close:correspondence", "implementation and proved model differ", dict(rep, impl=ab))
        chk.sample(dict(graph=label, demes=len(g.demes), migrations=len(g.migrations), pulses=len(g.pulses)))
    drv.close()
    return chk.finish("proof", nobl, ndis, axioms, RULE,
                      explanation="theorems of coq/Props/C10.v re-checked; Model/Close.v compared with Graph.isclose in both "
                                  "directions; reflexivity, symmetry, form agreement, invariances and sensitivity evaluated on the implementation")


def replay(chk, path):
    r = json.load(open(path))["replay"]
    a = dict(r["a"]); a.pop("_index", None)
    b = dict(r["b"]); b.pop("_index", None)
    g, h = rebuild(a), rebuild(b)
    print("isclose(a,b) =", g.isclose(h), " isclose(b,a) =", h.isclose(g), " kind:", r["kind"])
    return 0
