"""C05: the simplified form is a valid model that resolves back to the same graph."""
import collections
import copy
import json
import random
import warnings

import common
import gen
import graphs
import wire

RULE = ("cases are valid graphs: generated models (times from one pool, so that deme / epoch / migration bounds "
        "coincide), example files, and clique-layout families (for each of 1-2 (rate,start,end) keys a random union "
        "of cliques over 2-6 coexisting demes with some ordered pairs removed or added); non-trivial = simplification "
        "dropped or merged at least one field; distinct by fully-resolved dictionary")


def mig_key(m):
    return (m["source"], m["dest"], float(m["start_time"]), float(m["end_time"]), float(m["rate"]))


def compare_resolved(a, b):
    """a, b fully-resolved dicts: equal everywhere, migrations as a multiset"""
    a, b = copy.deepcopy(a), copy.deepcopy(b)
    ma, mb = a.pop("migrations"), b.pop("migrations")
    if not wire.deep_eq(a, b):
        for da, db in zip(a["demes"], b["demes"]):
            if not wire.deep_eq(da, db):
                for k in da:
                    if not wire.deep_eq(da[k], db.get(k)):
                        if k == "epochs":
                            for ea, eb in zip(da[k], db[k]):
                                for f in ea:
                                    if not wire.deep_eq(ea[f], eb.get(f)):
                                        return "deme %s epoch field %s: %r -> %r" % (da["name"], f, ea[f], eb.get(f))
                        return "deme %s field %s: %r -> %r" % (da["name"], k, da[k], db.get(k))
        return "non-migration part differs"
    if collections.Counter(map(mig_key, ma)) != collections.Counter(map(mig_key, mb)):
        return "migrations differ as a multiset"
    return None


def run(chk):
    import demes
    nobl, ndis, axioms = common.proof_stage(chk)
    if ndis == 0:
        return chk.finish("proof", nobl, ndis, axioms, RULE)
    drv = wire.Driver()
    rng = random.Random(chk.seed + 5)
    pool = graphs.pool(chk, 250, 5000)
    nfam = 300 if chk.tier == "quick" else 6000
    for i in range(nfam):
        doc = gen.clique_family(rng, keys=rng.choice([1, 1, 2, 2, 3]))
        try:
            with warnings.catch_warnings():
                warnings.simplefilter("ignore")
                pool.append(("clique:%d" % i, doc, demes.Graph.fromdict(doc)))
        except Exception:
            chk.count("family_rejected")
    for i in range(60 if chk.tier == "quick" else 1200):
        doc = gen.size_return_family(rng)
        try:
            pool.append(("size-return:%d" % i, doc, demes.Graph.fromdict(doc)))
        except Exception:
            chk.count("family_rejected")
    # graphs derived by the library's own operations from a graph that was simplified before: the simplified
    # form must describe the graph it is asked of
    derived = []
    for label, doc, g in pool[:]:
        try:
            if g.generation_time not in (None, 1) and rng.random() < 0.5:
                g.asdict_simplified()
                str(g)
                gi = g.in_generations()
                if graphs.still_valid(gi):
                    derived.append((label + "|in_generations", None, gi))
                else:
                    chk.count("derived_invalid_in_generations_F12")
            elif len(g.demes) >= 2 and rng.random() < 0.15:
                g.asdict_simplified()
                a, c = g.demes[0].name, g.demes[-1].name
                derived.append((label + "|rename-swap", None, g.rename_demes({a: c, c: a})))
        except Exception as e:
            chk.count("derived_failed_" + type(e).__name__)
    pool = pool + derived
    for label, doc, g in pool:
        payload = gen.graph_payload(g)
        full = g.asdict()
        rep = dict(op="asdict_simplified", graph=payload, label=label)
        try:
            s = g.asdict_simplified()
        except Exception as e:
            chk.case(payload)
            chk.violation("simplify:raises:" + type(e).__name__, "asdict_simplified raised on a valid graph", dict(rep, error=repr(e)))
            continue
        nfull = sum(1 for _ in gen._paths(full))
        nsimp = sum(1 for _ in gen._paths(s))
        chk.case(payload, nontrivial=nsimp < nfull)
        chk.count("symmetric_groups", sum(1 for m in s.get("migrations", []) if "demes" in m))
        rep["simplified"] = s
        try:
            with warnings.catch_warnings():
                warnings.simplefilter("ignore")
                back = demes.Graph.fromdict(copy.deepcopy(s))
        except Exception as e:
            chk.violation("simplify:not-accepted", "the simplified dictionary is rejected by resolution (%s)" % type(e).__name__,
                          dict(rep, error=repr(e)))
            back = None
        if back is not None:
            why = compare_resolved(full, back.asdict())
            if why:
                sig = "simplify:resolves-differently"
                if "size_function" in why:
                    sig += ":size_function"
                elif "proportions" in why:
                    sig += ":proportions"
                elif "migrations" in why:
                    sig += ":migrations"
                chk.violation(sig, "the simplified dictionary resolves to a different model: " + why, rep)
        mr = drv.call("asdict_simplified", payload)
        if not (mr[0] == "ok" and wire.deep_eq(s, mr[1])):
            chk.disagreements += 1
            chk.unproven("simplify:correspondence", "implementation and proved model simplify differently", dict(rep, model=mr))
        if label.startswith("clique"):
            chk.sample(dict(graph=label, migrations=len(g.migrations),
                            simplified_migrations=s.get("migrations")), limit=3)
    drv.close()
    return chk.finish("proof", nobl, ndis, axioms, RULE,
                      explanation="Model/Simplify.v (extracted) compared exactly with Graph.asdict_simplified; the simplified dictionary "
                                  "re-resolved by the implementation and compared with the original (migrations as a multiset)")


def replay(chk, path):
    import demes
    r = json.load(open(path))["replay"]
    d = dict(r["graph"]); d.pop("_index", None)
    g = demes.Graph.fromdict(d)
    s = g.asdict_simplified()
    back = demes.Graph.fromdict(copy.deepcopy(s))
    why = compare_resolved(g.asdict(), back.asdict())
    print("property:", why or "holds")
    return 1 if why else 0
