"""C11: Graph.in_generations against the proved model (coq/Model/InGen.v)."""
import copy
import json
import math

import common
import gen
import graphs
import wire

RULE = ("cases are valid graphs with every kind of time-carrying element (deme starts, epoch ends, "
        "migration bounds, pulse times) and generation times from {1, 2, 25, 29, 0.5, 1e-3, 25.5, 10}; "
        "non-trivial = generation_time != 1 and at least one migration or pulse; distinct by dictionary")


def snapshot(g):
    return (gen.graph_payload(g), [id(d) for d in g.demes], [id(e) for d in g.demes for e in d.epochs])


def spec_check(g, h, before, after):
    gt = g.generation_time
    if h.time_units != "generations" or h.generation_time != 1:
        return ("ingen:units", "result is not in generations with generation_time 1")
    if not wire.deep_eq(before, after):
        return ("ingen:receiver-modified", "the original graph was modified")
    a, b = g.asdict(), h.asdict()
    if [d["name"] for d in a["demes"]] != [d["name"] for d in b["demes"]]:
        return ("ingen:frame", "deme list changed")
    for da, db in zip(a["demes"], b["demes"]):
        if not wire.num_eq(db["start_time"], da["start_time"] / gt):
            return ("ingen:deme-start", "deme start time not divided by the generation time")
        if len(da["epochs"]) != len(db["epochs"]):
            return ("ingen:frame", "epoch list changed")
        for ea, eb in zip(da["epochs"], db["epochs"]):
            if not wire.num_eq(eb["end_time"], ea["end_time"] / gt):
                return ("ingen:epoch-end", "epoch end time not divided by the generation time")
            if {k: v for k, v in ea.items() if k != "end_time"} != {k: v for k, v in eb.items() if k != "end_time"}:
                return ("ingen:frame", "epoch fields other than times changed")
        for k in ("name", "description", "ancestors", "proportions"):
            if da[k] != db[k]:
                return ("ingen:frame", "deme field %s changed" % k)
    for dg, dh in zip(g.demes, h.demes):
        for eg, eh in zip(dg.epochs, dh.epochs):
            if not wire.num_eq(eh.start_time, eg.start_time / gt):
                return ("ingen:epoch-start", "epoch start time not divided by the generation time")
    if len(a["migrations"]) != len(b["migrations"]) or len(a["pulses"]) != len(b["pulses"]):
        return ("ingen:frame", "migration or pulse list changed")
    for ma, mb in zip(a["migrations"], b["migrations"]):
        if not (wire.num_eq(mb["start_time"], ma["start_time"] / gt) and wire.num_eq(mb["end_time"], ma["end_time"] / gt)):
            return ("ingen:migration-times", "migration bounds not divided by the generation time")
        if (ma["source"], ma["dest"], ma["rate"]) != (mb["source"], mb["dest"], mb["rate"]):
            return ("ingen:frame", "migration fields other than times changed")
    for pa, pb in zip(a["pulses"], b["pulses"]):
        if not wire.num_eq(pb["time"], pa["time"] / gt):
            return ("ingen:pulse-time", "pulse time not divided by the generation time")
        if (pa["sources"], pa["dest"], pa["proportions"]) != (pb["sources"], pb["dest"], pb["proportions"]):
            return ("ingen:frame", "pulse fields other than time changed")
    for k in ("description", "doi", "metadata"):
        if a[k] != b[k]:
            return ("ingen:frame", "%s changed" % k)
    if [k for k in h._deme_map] != [d.name for d in h.demes] or any(h[d.name] is not d for d in h.demes):
        return ("ingen:index", "name index of the result does not mirror its deme list")
    if any(x is y for x, y in zip(g.demes, h.demes)):
        return ("ingen:shared-state", "result shares Deme objects with the original")
    hh = h.in_generations()
    if not wire.deep_eq(gen.graph_payload(hh), gen.graph_payload(h)):
        return ("ingen:not-idempotent", "second conversion changed the graph")
    return None


def run(chk):
    nobl, ndis, axioms = common.proof_stage(chk)
    if ndis == 0:
        return chk.finish("proof", nobl, ndis, axioms, RULE)
    drv = wire.Driver()
    import validity
    for label, doc, g in graphs.pool(chk, 400, 8000):
        payload = gen.graph_payload(g)
        chk.case(payload, nontrivial=g.generation_time != 1 and bool(g.migrations or g.pulses))
        before = snapshot(g)
        try:
            h = g.in_generations()
        except Exception as e:
            chk.violation("ingen:raises:" + type(e).__name__, "in_generations raised on a valid graph",
                          dict(graph=payload, error=repr(e)))
            continue
        after = snapshot(g)
        rep = dict(op="in_generations", graph=payload, label=label, result=gen.graph_payload(h))
        bad = spec_check(g, h, before, after)
        if bad:
            chk.violation(bad[0], bad[1], rep)
        vb = validity.check_graph(drv, h)
        if vb:
            sig = "ingen:invalid-result:" + validity.float_collapse_signature(g, h, vb)
            chk.violation(sig, "in_generations returned an invalid graph: " + vb, rep)
        mr = drv.call("in_generations", payload)
        if not (mr[0] == "ok" and graphs.payload_eq(h, mr[1])):
            chk.disagreements += 1
            chk.unproven("ingen:correspondence", "implementation and proved model differ", dict(rep, model=mr))
        # histories: the graph has just been converted once (and so has whatever it memoises); a renamed copy of it,
        # and a copy edited through the dictionary form, must still convert to *their own* content
        ranked = sorted(d.name for d in g.demes)
        rmap = {nm: "r%03d" % (len(ranked) - i) for i, nm in enumerate(ranked)}
        try:
            import warnings
            import demes
            with warnings.catch_warnings():
                warnings.simplefilter("ignore")
                demes.to_ms(g, N0=1) if False else None
                r = g.rename_demes(rmap)
                rb = snapshot(r)
                rh = r.in_generations()
        except Exception:
            r = None
        if r is not None:
            chk.count("history_rename_then_convert")
            bad = spec_check(r, rh, rb, snapshot(r))
            rep2 = dict(op="in_generations", history=["in_generations", "rename_demes", "in_generations"], original=payload,
                        rename=rmap, graph=gen.graph_payload(r), result=gen.graph_payload(rh))
            if bad:
                chk.violation(bad[0] + ":after-rename", "converted once, renamed, converted again: " + bad[1], rep2)
            mr2 = drv.call("in_generations", gen.graph_payload(r))
            if not (mr2[0] == "ok" and graphs.payload_eq(rh, mr2[1])):
                chk.disagreements += 1
                chk.unproven("ingen:correspondence", "implementation and proved model differ (renamed graph)", dict(rep2, model=mr2))
        chk.count("gt_%r" % g.generation_time)
        chk.sample(dict(graph=label, generation_time=g.generation_time, demes=len(g.demes)))
    drv.close()
    return chk.finish("proof", nobl, ndis, axioms, RULE,
                      explanation="theorems of coq/Props/C11.v re-checked; Model/InGen.v compared exactly with "
                                  "Graph.in_generations; statement evaluated on the implementation (including receiver unchanged, idempotence)")


def replay(chk, path):
    import demes
    r = json.load(open(path))["replay"]
    d = dict(r["graph"]); d.pop("_index", None)
    g = demes.Graph.fromdict(d)
    before = snapshot(g)
    h = g.in_generations()
    bad = spec_check(g, h, before, snapshot(g))
    print("property:", bad or "holds")
    return 1 if bad else 0
