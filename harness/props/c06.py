"""C06: the fully-resolved form is explicit, self-contained and a fixed point."""
import copy
import decimal
import fractions
import json
import math
import random
import warnings

import numpy as np

import common
import gen
import graphs
import wire

RULE = ("cases are valid graphs (generated, examples) plus graphs built from numeric / string subclasses "
        "(numpy scalars, Fraction, Decimal, str subclass); non-trivial = >= 2 demes and at least one migration or "
        "pulse, or a subclass-valued graph; distinct by fully-resolved dictionary")

DEME_KEYS = ["name", "description", "start_time", "ancestors", "proportions", "epochs"]
EPOCH_KEYS = ["end_time", "start_size", "end_size", "size_function", "selfing_rate", "cloning_rate"]
MIG_KEYS = ["source", "dest", "start_time", "end_time", "rate"]
PULSE_KEYS = ["sources", "dest", "time", "proportions"]
TOP_KEYS = ["description", "time_units", "generation_time", "doi", "metadata", "demes", "migrations", "pulses"]


def plain(v, path="", in_meta=False):
    """only int/float/str/list/dict (exact types) outside metadata"""
    if type(v) in (int, float, str):
        return None
    if v is None and in_meta:
        return None
    if type(v) is list:
        for i, x in enumerate(v):
            r = plain(x, path + "/%d" % i, in_meta)
            if r:
                return r
        return None
    if type(v) is dict:
        for k, x in v.items():
            if type(k) is not str:
                return path + " key " + repr(k)
            r = plain(x, path + "/" + k, in_meta or (path == "" and k == "metadata"))
            if r:
                return r
        return None
    return "%s has type %s" % (path, type(v).__name__)


def schema(d):
    if list(d) != TOP_KEYS:
        return "top-level keys %r" % list(d)
    for dm in d["demes"]:
        if list(dm) != DEME_KEYS:
            return "deme keys %r" % list(dm)
        for e in dm["epochs"]:
            if list(e) != EPOCH_KEYS:
                return "epoch keys %r" % list(e)
    for m in d["migrations"]:
        if list(m) != MIG_KEYS:
            return "migration keys %r" % list(m)
    for p in d["pulses"]:
        if list(p) != PULSE_KEYS:
            return "pulse keys %r" % list(p)
    return plain(d)


class MyStr(str):
    pass


def subclass_docs(rng):
    """documents whose numbers / strings are subclass or foreign numeric types"""
    conv = [lambda x: np.float64(x), lambda x: np.float32(x) if float(np.float32(x)) == x else np.float64(x),
            lambda x: np.int64(x) if float(x).is_integer() and abs(x) < 2**53 else np.float64(x),
            lambda x: fractions.Fraction(x), lambda x: decimal.Decimal(x)]
    f = rng.choice(conv)
    base = gen.gen_model(rng, max_demes=4)

    def walk(v, key=None):
        if isinstance(v, bool):
            return v
        if isinstance(v, (int, float)) and not math.isinf(v):
            return f(v)
        if isinstance(v, str):
            return MyStr(v) if rng.random() < 0.5 else np.str_(v)
        if isinstance(v, list):
            return [walk(x) for x in v]
        if isinstance(v, dict):
            return {k: (walk(x) if k != "metadata" else x) for k, x in v.items()}
        return v
    return walk(base)


def scramble(d, rng):
    """mutate every container of a returned dictionary in place"""
    for p, v in list(gen._paths(d)):
        if isinstance(v, list):
            v.append("junk")
            rng.shuffle(v)
        elif isinstance(v, dict):
            for k in list(v):
                if not isinstance(v[k], (list, dict)):
                    v[k] = "junk"
            v["junk"] = 1


def run(chk):
    import demes
    nobl, ndis, axioms = common.proof_stage(chk)
    if ndis == 0:
        return chk.finish("proof", nobl, ndis, axioms, RULE)
    drv = wire.Driver()
    rng = random.Random(chk.seed + 6)
    pool = graphs.pool(chk, 300, 6000)
    nsub = 80 if chk.tier == "quick" else 1500
    for i in range(nsub):
        doc = subclass_docs(rng)
        try:
            with warnings.catch_warnings():
                warnings.simplefilter("ignore")
                pool.append(("subclass:%d" % i, None, demes.Graph.fromdict(doc)))
        except Exception:
            chk.count("subclass_rejected")
    for label, doc, g in pool:
        d = g.asdict()
        sub = label.startswith("subclass")
        why = schema(d)
        try:
            chk.case(json.loads(json.dumps(d, default=repr)),
                     nontrivial=sub or (len(g.demes) >= 2 and bool(g.migrations or g.pulses)))
        except Exception:
            chk.case(repr(d))
        rep = dict(op="asdict", label=label, dictionary=json.loads(json.dumps(d, default=repr)))
        if why:
            chk.violation("asdict:schema" + (":subclass-type" if "has type" in why else ""),
                          "fully-resolved dictionary is not the explicit machine data model: " + why, rep)
            continue
        try:
            with warnings.catch_warnings():
                warnings.simplefilter("ignore")
                h = demes.Graph.fromdict(copy.deepcopy(d))
        except Exception as e:
            chk.violation("asdict:not-accepted", "the fully-resolved dictionary is rejected (%s)" % type(e).__name__, dict(rep, error=repr(e)))
            continue
        d2 = h.asdict()
        if not wire.deep_eq(d, d2) or json.dumps(d, sort_keys=False) != json.dumps(d2, sort_keys=False):
            chk.violation("asdict:not-fixed-point", "re-resolving the dictionary gives a different dictionary", dict(rep, again=d2))
        if not sub:
            if not (h == g):
                chk.violation("asdict:graph-not-equal", "re-resolving the dictionary gives a graph that is not == the original", rep)
            # model: asdict of the decoded graph, and fromdict of it
            payload = gen.graph_payload(g)
            mr = drv.call("roundtrip_graph", payload)
            mf = drv.call("fromdict", d)
            idx = payload.pop("_index")
            if not (mr[0] == "ok" and wire.deep_eq(mr[1][0], d) and mf[0] == "ok" and wire.deep_eq(mf[1][0], d)
                    and wire.deep_eq(mf[1][1], idx)):
                chk.disagreements += 1
                chk.unproven("asdict:correspondence", "implementation and proved model differ on asdict / re-resolution",
                             dict(rep, model=[mr, mf]))
        else:
            chk.count("subclass_graphs")
        # changing the returned dictionary never changes the graph
        before = copy.deepcopy(g.asdict())
        victim = g.asdict()
        scramble(victim, rng)
        if not wire.deep_eq(g.asdict(), before) or json.dumps(g.asdict()) != json.dumps(before):
            chk.violation("asdict:aliases-graph", "mutating the returned dictionary changed the graph", rep)
        chk.sample(dict(graph=label, demes=len(g.demes)), limit=4)
    drv.close()
    return chk.finish("proof", nobl, ndis, axioms, RULE,
                      explanation="schema of Graph.asdict() checked key by key; Graph.fromdict(asdict) compared with the original graph and "
                                  "dictionary; Model/Codec.v asdict and Model/Resolve.v fromdict compared exactly; returned dictionary scrambled")


def replay(chk, path):
    r = json.load(open(path))["replay"]
    print(r.get("label"), "see file")
    return 0
