"""C06: the fully-resolved form is explicit, self-contained and a fixed point."""
import copy
import decimal
import fractions
import json
import math
import random
import warnings

import numpy as np

import common
import gen
import graphs
import wire

RULE = ("cases are valid graphs (generated, examples) plus graphs built from numeric / string subclasses "
        "(numpy scalars, Fraction, Decimal, str subclass); non-trivial = >= 2 demes and at least one migration or "
        "pulse, or a subclass-valued graph; distinct by fully-resolved dictionary")

DEME_KEYS = ["name", "description", "start_time", "ancestors", "proportions", "epochs"]
EPOCH_KEYS = ["end_time", "start_size", "end_size", "size_function", "selfing_rate", "cloning_rate"]
MIG_KEYS = ["source", "dest", "start_time", "end_time", "rate"]
PULSE_KEYS = ["sources", "dest", "time", "proportions"]
TOP_KEYS = ["description", "time_units", "generation_time", "doi", "metadata", "demes", "migrations", "pulses"]


def plain(v, path="", in_meta=False):
    """only int/float/str/list/dict (exact types) outside metadata"""
    if type(v) in (int, float, str):
        return None
    if v is None and in_meta:
        return None
    if type(v) is list:
        for i, x in enumerate(v):
            r = plain(x, path + "/%d" % i, in_meta)
            if r:
                return r
        return None
    if type(v) is dict:
        for k, x in v.items():
            if type(k) is not str:
                return path + " key " + repr(k)
            r = plain(x, path + "/" + k, in_meta or (path == "" and k == "metadata"))
            if r:
                return r
        return None
    return "%s has type %s" % (path, type(v).__name__)


def schema(d):
    if list(d) != TOP_KEYS:
        return "top-level keys %r" % list(d)
    for dm in d["demes"]:
        if list(dm) != DEME_KEYS:
            return "deme keys %r" % list(dm)
        for e in dm["epochs"]:
            if list(e) != EPOCH_KEYS:
                return "epoch keys %r" % list(e)
    for m in d["migrations"]:
        if list(m) != MIG_KEYS:
            return "migration keys %r" % list(m)
    for p in d["pulses"]:
        if list(p) != PULSE_KEYS:
            return "pulse keys %r" % list(p)
    return plain(d)


class MyStr(str):
    pass


PLAIN = []      # the plain-number twin of the latest subclass document


def subclass_docs(rng):
    """documents whose numbers / strings are subclass or foreign numeric types"""
    conv = [lambda x: np.float64(x), lambda x: np.float32(x) if float(np.float32(x)) == x else np.float64(x),
            lambda x: np.int64(x) if float(x).is_integer() and abs(x) < 2**53 else np.float64(x),
            lambda x: fractions.Fraction(x), lambda x: decimal.Decimal(x)]
    f = rng.choice(conv)
    if rng.random() < 0.3:
        # every number picks its own type, unsigned and narrow numpy integers included (values they hold exactly)
        def mixed(x):
            if float(x).is_integer() and 0 <= x < 200 and rng.random() < 0.7:
                return rng.choice([t for t in (np.uint8, np.uint16, np.uint32, np.uint64, np.int8, np.int16, np.int32, np.int64)
                                   if int(x) <= np.iinfo(t).max])(int(x))
            if float(x).is_integer() and 0 <= x < 2 ** 31 and rng.random() < 0.5:
                return rng.choice([np.uint32, np.uint64, np.int64])(int(x))
            return rng.choice([lambda y: y, np.float64, lambda y: np.float32(y) if float(np.float32(y)) == y else y])(x)
        f = mixed
    base = gen.gen_model(rng, max_demes=4)
    if f is not conv[3] and f is not conv[4] and rng.random() < 0.5 and len(base["demes"]) >= 2:
        # several pulses at distinct integer times between two demes that coexist (their order must be oldest first)
        a, b = base["demes"][0]["name"], base["demes"][1]["name"]
        lo = max(base["demes"][0]["epochs"][-1]["end_time"], base["demes"][1]["epochs"][-1]["end_time"])
        hi = min(base["demes"][0]["start_time"], base["demes"][1]["start_time"])
        ts = [t for t in range(int(lo) + 1, int(min(hi, lo + 150))) if lo < t < hi]
        if len(ts) >= 3:
            base["pulses"] = [dict(sources=[a], dest=b, time=t, proportions=[0.01]) for t in sorted(rng.sample(ts, 3), reverse=True)]
    if rng.random() < 0.25:
        # sizes as numpy integers beyond 2**53 (exactly representable as int, not as float)
        for dm in base["demes"]:
            for ep in dm["epochs"]:
                for k in ("start_size", "end_size"):
                    if float(ep[k]).is_integer() and 0 < ep[k] < 2 ** 20:
                        ep[k] = int(ep[k]) * 2 ** 40 + 1
        bigf = f

        def f(x, bigf=bigf):
            return np.int64(x) if isinstance(x, int) and abs(x) > 2 ** 53 else bigf(x)
    PLAIN.append(copy.deepcopy(base))

    def walk(v, key=None):
        if isinstance(v, bool):
            return v
        if isinstance(v, (int, float)) and not math.isinf(v):
            return f(v)
        if isinstance(v, str):
            return MyStr(v) if rng.random() < 0.5 else np.str_(v)
        if isinstance(v, list):
            return [walk(x) for x in v]
        if isinstance(v, dict):
            return {k: (walk(x) if k != "metadata" else x) for k, x in v.items()}
        return v
    return walk(base)


def scramble(d, rng):
    """mutate every container of a returned dictionary in place"""
    for p, v in list(gen._paths(d)):
        if isinstance(v, list):
            v.append("junk")
            rng.shuffle(v)
        elif isinstance(v, dict):
            for k in list(v):
                if not isinstance(v[k], (list, dict)):
                    v[k] = "junk"
            v["junk"] = 1


def run(chk):
    import demes
    nobl, ndis, axioms = common.proof_stage(chk)
    if ndis == 0:
        return chk.finish("proof", nobl, ndis, axioms, RULE)
    drv = wire.Driver()
    rng = random.Random(chk.seed + 6)
    pool = graphs.pool(chk, 300, 6000)
    nsub = 80 if chk.tier == "quick" else 1500
    for i in range(nsub):
        doc = subclass_docs(rng)
        try:
            with warnings.catch_warnings():
                warnings.simplefilter("ignore")
                gs = demes.Graph.fromdict(doc)
                pool.append(("subclass:%d" % i, None, gs))
                # the same model written with plain Python numbers of exactly the same values gives the same dictionary
                twin = PLAIN[-1]
                if not any(isinstance(x, (fractions.Fraction, decimal.Decimal, np.float32)) for _, x in gen._paths(doc)):
                    want = demes.Graph.fromdict(twin).asdict()
                    got = gs.asdict()
                    if not wire.deep_eq(got, want):
                        chk.violation("asdict:subclass-value-changed",
                                      "a model given with numpy scalars resolves to a dictionary with different values than the same model "
                                      "given with plain numbers", dict(op="asdict", label="subclass:%d" % i,
                                                                       got=json.loads(json.dumps(got, default=repr)), want=want))
        except Exception:
            chk.count("subclass_rejected")
    for label, doc, g in pool:
        d = g.asdict()
        sub = label.startswith("subclass")
        why = schema(d)
        try:
            chk.case(json.loads(json.dumps(d, default=repr)),
                     nontrivial=sub or (len(g.demes) >= 2 and bool(g.migrations or g.pulses)))
        except Exception:
            chk.case(repr(d))
        rep = dict(op="asdict", label=label, dictionary=json.loads(json.dumps(d, default=repr)))
        if why:
            chk.violation("asdict:schema" + (":subclass-type" if "has type" in why else ""),
                          "fully-resolved dictionary is not the explicit machine data model: " + why, rep)
            continue
        try:
            with warnings.catch_warnings():
                warnings.simplefilter("ignore")
                h = demes.Graph.fromdict(copy.deepcopy(d))
        except Exception as e:
            chk.violation("asdict:not-accepted", "the fully-resolved dictionary is rejected (%s)" % type(e).__name__, dict(rep, error=repr(e)))
            continue
        d2 = h.asdict()
        if not wire.deep_eq(d, d2) or json.dumps(d, sort_keys=False) != json.dumps(d2, sort_keys=False):
            chk.violation("asdict:not-fixed-point", "re-resolving the dictionary gives a different dictionary", dict(rep, again=d2))
        if not sub:
            if not (h == g):
                chk.violation("asdict:graph-not-equal", "re-resolving the dictionary gives a graph that is not == the original", rep)
            # model: asdict of the decoded graph, and fromdict of it
            payload = gen.graph_payload(g)
            mr = drv.call("roundtrip_graph", payload)
            mf = drv.call("fromdict", d)
            idx = payload.pop("_index")
            if not (mr[0] == "ok" and wire.deep_eq(mr[1][0], d) and mf[0] == "ok" and wire.deep_eq(mf[1][0], d)
                    and wire.deep_eq(mf[1][1], idx)):
                chk.disagreements += 1
                chk.unproven("asdict:correspondence", "implementation and proved model differ on asdict / re-resolution",
                             dict(rep, model=[mr, mf]))
        else:
            chk.count("subclass_graphs")
        # changing the returned dictionary never changes the graph
        before = copy.deepcopy(g.asdict())
        victim = g.asdict()
        scramble(victim, rng)
        if not wire.deep_eq(g.asdict(), before) or json.dumps(g.asdict()) != json.dumps(before):
            chk.violation("asdict:aliases-graph", "mutating the returned dictionary changed the graph", rep)
        # ... nor the graph that was resolved FROM the dictionary (self-contained: the form can be edited, re-used or
        # discarded after it has been read back)
        try:
            with warnings.catch_warnings():
                warnings.simplefilter("ignore")
                src = g.asdict()
                g2 = demes.Graph.fromdict(src)
                before2 = copy.deepcopy(g2.asdict())
                scramble(src, rng)
                after2 = g2.asdict()
            if not wire.deep_eq(after2, before2) or json.dumps(after2) != json.dumps(before2):
                chk.violation("asdict:reresolved-graph-aliases-dictionary",
                              "changing the fully-resolved dictionary after it was resolved changed the graph resolved from it", rep)
        except Exception as e:
            chk.count("reresolve_failed")
        chk.sample(dict(graph=label, demes=len(g.demes)), limit=4)
    drv.close()
    return chk.finish("proof", nobl, ndis, axioms, RULE,
                      explanation="schema of Graph.asdict() checked key by key; Graph.fromdict(asdict) compared with the original graph and "
                                  "dictionary; Model/Codec.v asdict and Model/Resolve.v fromdict compared exactly; returned dictionary scrambled")


def replay(chk, path):
    r = json.load(open(path))["replay"]
    print(r.get("label"), "see file")
    return 0
