"""C09: graph -> ms -> graph preserves the model; option strings print and parse back."""
import json
import math
import random
import re
import warnings

import common
import gen
import graphs
import msparse
import semcheck
import wire

RULE = ("cases are (a) (ms-expressible valid graph, N0): to_ms then from_ms with the same N0 and deme names, result compared "
        "semantically with the original in generations (sizes, rates at two interior points of every interval, lineage movements "
        "at every event time; tolerance 1e-6 for the fixed-point rendering of negative growth rates); (b) option records of every "
        "kind with finite parameters, including negative, tiny, huge and subnormal values: printed with str(), parsed back by the "
        "library's parser, kinds / indices / values compared (exact for non-negative, 5e-11 for negative), and the fixed-point text "
        "compared digit for digit with coq/Model/FloatStr.v; non-trivial = >= 2 populations or a negative parameter; distinct by case")

VALUES = [0.0, 1.0, 0.5, 1e-5, 1e-11, 3e-12, 5e-324, 2.2250738585072014e-308, 0.1, 1 / 3, 123456.789, 1e16, 1e22, 1e100,
          1.7976931348623157e308, 2.5e-7, 0.30000000000000004]
NEG = [-1.0, -0.5, -1e-5, -1e-11, -4.9e-11, -5e-11, -5.1e-11, -3e-12, -5e-324, -0.1, -1 / 3, -123456.789, -1e16, -1e22,
       -0.00000000005, -0.99999999995, -2.5e-7, -1.00000000015]


def option_cases(rng, n):
    import demes.ms as ms
    out = []
    for _ in range(n):
        t = rng.choice(VALUES[:12])
        a = rng.choice(VALUES[:14] + NEG)
        x = rng.choice(VALUES)
        i, j = rng.randint(1, 9), rng.randint(1, 9)
        p = rng.choice([0.0, 1.0, 0.5, 1e-11, 1 / 3])
        kind = rng.choice(["eG", "eg", "eN", "en", "eM", "em", "es", "ej", "G", "g", "n", "m", "ema", "I"])
        if kind == "eG":
            out.append((ms.GrowthRateChange(t or 0.1, a), ["-eG"]))
        elif kind == "G":
            out.append((ms.GrowthRateChange(0, a), ["-G"]))
        elif kind == "eg":
            out.append((ms.PopulationGrowthRateChange(t or 0.1, i, a), ["-eg"]))
        elif kind == "g":
            out.append((ms.PopulationGrowthRateChange(0, i, a), ["-g"]))
        elif kind == "eN":
            out.append((ms.SizeChange(t, x), ["-eN"]))
        elif kind == "en":
            out.append((ms.PopulationSizeChange(t or 0.1, i, x), ["-en"]))
        elif kind == "n":
            out.append((ms.PopulationSizeChange(0, i, x), ["-n"]))
        elif kind == "eM":
            out.append((ms.MigrationRateChange(t, x), ["-eM"]))
        elif kind == "em":
            out.append((ms.MigrationMatrixEntryChange(t or 0.1, i, j, x), ["-em"]))
        elif kind == "m":
            out.append((ms.MigrationMatrixEntryChange(0, i, j, x), ["-m"]))
        elif kind == "es":
            out.append((ms.Split(t, i, p), ["-es"]))
        elif kind == "ej":
            out.append((ms.Join(t, i, j), ["-ej"]))
        elif kind == "ema":
            k = rng.randint(1, 3)
            out.append((ms.MigrationMatrixChange(t or 0.1, k, [str(rng.choice(VALUES[:10])) for _ in range(k * k)]), ["-ema"]))
        else:
            k = rng.randint(1, 4)
            out.append((ms.Structure.from_nargs(k, *[rng.randint(0, 5) for _ in range(k)], *( [rng.choice(VALUES[1:8])] if rng.random() < 0.5 else [])), ["-I"]))
    return out


def fields(o):
    import attr
    d = {}
    for a in attr.fields(type(o)):
        if a.name == "option_strings":
            continue
        d[a.name] = getattr(o, a.name)
    return d


def run(chk):
    import demes
    import demes.ms as ms
    nobl, ndis, axioms = common.proof_stage(chk)
    if ndis == 0:
        return chk.finish("translation_validation", nobl, ndis, axioms, RULE)
    drv = wire.Driver()
    rng = random.Random(chk.seed + 9)
    # ---- (b) option strings ----
    nopt = 800 if chk.tier == "quick" else 20000
    for o, flag in option_cases(rng, nopt):
        text = str(o)
        vals = fields(o)
        neg = any(isinstance(v, float) and v < 0 for v in vals.values())
        chk.case(["option", text], nontrivial=neg or len(text.split()) > 3)
        chk.count("option_" + flag[0])
        rep = dict(op="option-print-parse", text=text, fields={k: repr(v) for k, v in vals.items()})
        try:
            args = ms.build_parser().parse_args(text.split())
        except BaseException as e:
            chk.violation("option:not-parseable", "the printed option does not parse: %r" % (e,), rep)
            continue
        got = None
        if flag[0] == "-I":
            got = args.structure
        else:
            lst = args.initial_state + args.demographic_events
            if len(lst) == 1:
                got = lst[0]
        if got is None or type(got) is not type(o):
            chk.violation("option:kind", "printed option parses to a different kind of option", rep)
            continue
        gv = fields(got)
        for k, v in vals.items():
            w = gv[k]
            if k == "mm_vector":
                v, w = list(o.M), list(got.M)
                if v != w:
                    chk.violation("option:value", "matrix entries change through print/parse", rep)
                continue
            if isinstance(v, float):
                if v >= 0 or v != v:
                    if not (v == w):
                        chk.violation("option:value-nonneg", "non-negative value %r parses back as %r" % (v, w), rep)
                else:
                    from fractions import Fraction
                    if not abs(Fraction(v) - Fraction(w)) <= Fraction(5, 10 ** 11) + Fraction(math.ulp(w)) / 2:
                        chk.violation("option:value-negative", "negative value %r parses back as %r (more than ten decimals off)" % (v, w), rep)
                    # digit-for-digit against the fixed-point model
                    num, den = v.as_integer_ratio()
                    m = drv.call("fixed10", str(num), str(den))
                    digits = format(v, ".10f").replace(".", "")
                    if int(digits) != int(m) or not re.match(r"^-\d+\.\d{10}$", format(v, ".10f")):
                        chk.disagreements += 1
                        chk.unproven("option:fixed10-correspondence", "format(a, '.10f') differs from the model", dict(rep, model=m))
                    tok = [t for t in text.split() if t.startswith("-") and not t.startswith(tuple(flag))]
                    if not all(re.match(r"^-\d*\.\d+$", t) or re.match(r"^-\d+$", t) for t in tok):
                        chk.violation("option:negative-not-number-like", "a negative parameter is not printed in fixed-point form", rep)
            elif v != w and not (k == "n" and [str(x) for x in v] == [str(x) for x in w]):
                chk.violation("option:value", "field %s: %r parses back as %r" % (k, v, w), rep)
    # ---- (a) graph -> ms -> graph ----
    n = 200 if chk.tier == "quick" else 4000
    pool = list(graphs.generated(chk.seed + 90, n, chk, want_ms=True))
    for i in range(n // 5):
        doc = gen.sawtooth_family(rng)
        pool.append(("sawtooth:%d" % i, doc, demes.Graph.fromdict(doc)))
    for i in range(n // 10):
        doc = gen.merge_family(rng)
        try:
            pool.append(("merge:%d" % i, doc, demes.Graph.fromdict(doc)))
        except Exception:
            chk.count("family_rejected")
    from props.c07 import expressible
    for label, doc, g in pool:
        if not expressible(g):
            continue
        N0 = rng.choice([1, 100, 1e4, 0.37, 2.5])
        names = [d.name for d in g.demes]
        payload = gen.graph_payload(g)
        rep = dict(op="to_ms-from_ms", graph=payload, N0=N0, label=label)
        chk.case(["roundtrip", payload, N0], nontrivial=len(g.demes) >= 2)
        try:
            with warnings.catch_warnings():
                warnings.simplefilter("ignore")
                cmd = demes.to_ms(g, N0=N0)
        except Exception as e:
            chk.count("to_ms_error_" + type(e).__name__)
            continue
        rep["command"] = cmd
        gg = g.in_generations()
        if semcheck.near_coincident(gg) or semcheck.near_coincident(g):
            chk.count("skipped_near_coincident_times")
            continue
        full_pulse = any(p.proportions[0] == 1 for p in g.pulses)
        try:
            with warnings.catch_warnings():
                warnings.simplefilter("ignore")
                h = demes.from_ms(cmd, N0=N0, deme_names=names)
        except Exception as e:
            sig = "roundtrip:from_ms-raises:" + type(e).__name__
            if full_pulse:
                sig = "roundtrip:pulse-of-proportion-one"
            chk.violation(sig, "from_ms(to_ms(g)) raised %r" % (e,), rep)
            continue
        if h.time_units != "generations" or sorted(d.name for d in h.demes) != sorted(names):
            chk.violation("roundtrip:names-or-units", "round trip changes deme names or is not in generations", rep)
            continue
        hidx = {d.name: k for k, d in enumerate(h.demes)}
        pairs = [[k, hidx[d.name]] for k, d in enumerate(gg.demes)]
        pc, _ = msparse.parse(cmd)
        times, bounds = semcheck.plan(gg, pc, N0)
        # negative growth rates are printed with ten decimals: an error of 5e-11 in alpha acting over the
        # longest time span (in ms units) bounds the relative error of a size
        tmax = max([b for b in bounds] + [0.0]) / (4 * N0)
        rel = 1e-6 + 1.2e-10 * tmax
        res = drv.call("graphs_check", gen.graph_payload(gg), gen.graph_payload(h), pairs, times, bounds, rel, 1e-12)
        bad = [(c[0], (c[1], c[2]), t) for t, cs in res[0] for c in cs] + [(c[0], (c[1], c[2]), b) for b, cs in res[1] for c in cs]
        if bad:
            kinds = sorted(set(k for k, _, _ in bad))
            sig = "roundtrip:semantics:" + "+".join(kinds)
            if full_pulse and kinds == ["move"]:
                sig = "roundtrip:pulse-of-proportion-one"
            chk.violation(sig, "graph -> ms -> graph changes the demography: %s at t=%r (%r)" % (bad[0][0], bad[0][2], bad[0][1]),
                          dict(rep, back=gen.graph_payload(h), discrepancies=bad[:10]))
        chk.count("roundtrips_compared")
    chk.sample(dict(option=str(option_cases(random.Random(1), 1)[0][0])))
    drv.close()
    return chk.finish("translation_validation", nobl, ndis, axioms, RULE,
                      explanation="to_ms output converted back by from_ms and compared semantically (coq/Spec/SemEquiv.v, extracted) with the original; "
                                  "printed option strings parsed back with the library's parser; fixed-point text compared with coq/Model/FloatStr.v")


def replay(chk, path):
    r = json.load(open(path))["replay"]
    print(r.get("op"), r.get("command") or r.get("text"))
    return 0
