"""C07: ms arguments emitted for a graph describe the same demography."""
import json
import math
import random
import warnings

import common
import gen
import graphs
import msparse
import semcheck
import wire

RULE = ("cases are (ms-expressible valid graph, N0) with N0 in {1, 100, 1e4, 0.37, 2.5}: generated graphs restricted to "
        "constant/exponential epochs and single-source pulses, any ancestry shape, coincident event times, extinct demes, "
        "chained same-time pulses, consecutive exponential epochs; plus graphs outside the class (linear epochs, multi-source "
        "pulses) which must be refused; non-trivial = >= 2 populations and at least one event beyond size changes; distinct by "
        "(dictionary, N0)")


def exact_to_ms(g, N0):
    """to_ms with numbers rendered exactly (hex) so that the event list can be compared bit for bit"""
    import demes
    import demes.ms as ms
    old = ms.float_str
    ms.float_str = lambda a: float(a).hex()
    try:
        return demes.to_ms(g, N0=N0)
    finally:
        ms.float_str = old


def expressible(g):
    return all(e.size_function in ("constant", "exponential") for d in g.demes for e in d.epochs) and \
        all(len(p.sources) == 1 for p in g.pulses)


def run(chk):
    import demes
    nobl, ndis, axioms = common.proof_stage(chk)
    if ndis == 0:
        return chk.finish("translation_validation", nobl, ndis, axioms, RULE)
    drv = wire.Driver()
    rng = random.Random(chk.seed + 7)
    n = 250 if chk.tier == "quick" else 5000
    pool = list(graphs.generated(chk.seed + 70, n, chk, want_ms=True)) + list(graphs.generated(chk.seed + 71, n // 5, chk))
    pool += [(l, None, g) for l, g in graphs.example_graphs()]
    for i in range(n // 5):
        doc = gen.sawtooth_family(rng)
        pool.append(("sawtooth:%d" % i, doc, demes.Graph.fromdict(doc)))
    for i in range(max(10, n // 10)):
        doc = gen.merge_family(rng)
        try:
            pool.append(("merge:%d" % i, doc, demes.Graph.fromdict(doc)))
        except Exception:
            chk.count("family_rejected")
    fixed_N0 = {}
    for i in range(max(10, n // 10)):
        doc, n0_ = gen.sister_family(rng)
        pool.append(("sisters:%d" % i, doc, demes.Graph.fromdict(doc)))
        fixed_N0["sisters:%d" % i] = n0_
    for label, doc, g in pool:
        N0 = fixed_N0.get(label, rng.choice([1, 100, 1e4, 0.37, 2.5]))
        payload = gen.graph_payload(g)
        rep = dict(op="to_ms", graph=payload, N0=N0, label=label)
        try:
            with warnings.catch_warnings():
                warnings.simplefilter("ignore")
                text = demes.to_ms(g, N0=N0)
                xtext = exact_to_ms(g, N0)
            ir = ("ok", text)
        except Exception as e:
            ir = ("err", type(e).__name__)
        nontriv = len(g.demes) >= 2 and bool(g.migrations or g.pulses or any(d.ancestors for d in g.demes))
        chk.case([payload, N0], nontrivial=nontriv)
        if not expressible(g):
            chk.count("inexpressible")
            if ir[0] == "ok":
                chk.violation("to_ms:inexpressible-accepted", "a graph outside the ms-expressible class yields a command", rep)
            continue
        if ir[0] == "err":
            chk.count("impl_error_" + ir[1])
            mr = drv.call("to_ms", payload, N0)
            if mr[0] != "err":
                chk.disagreements += 1
                chk.violation("to_ms:raises:" + ir[1], "to_ms raised %s on an ms-expressible graph" % ir[1], rep)
            continue
        rep["command"] = text
        # (1) correspondence with the model of to_ms, on the exactly rendered command
        cmdx, unk = msparse.parse(xtext)
        mr = drv.call("to_ms", payload, N0)
        same = mr[0] == "ok" and (mr[1][0] == cmdx["npop"] or (mr[1][0] == 1 and not cmdx["structure"])) \
            and wire.deep_eq(mr[1][1], cmdx["init"] + cmdx["events"]) if mr[0] == "ok" else False
        if mr[0] == "ok":
            # the model keeps -n/-g/-m at time 0 as timed events; render both sides uniformly
            def norm(ev):
                ev = list(ev)
                if ev[0] == "n":
                    ev = ev[:4]
                return ev
            same = [norm(e) for e in mr[1][1]] == [norm(e) for e in cmdx["init"] + cmdx["events"]] or \
                wire.deep_eq([norm(e) for e in mr[1][1]], [norm(e) for e in cmdx["init"] + cmdx["events"]])
        if not same:
            chk.disagreements += 1
            chk.unproven("to_ms:correspondence", "implementation and model emit different event lists",
                         dict(rep, exact=xtext, model=mr))
        # (2) semantic comparison of the emitted command (as printed) with the graph
        # on the exactly rendered command (the loss of the fixed-point rendering of negative
        # numbers is the subject of C09's option print/parse clause, checked there)
        cmd = cmdx
        if msparse.parse(text)[0]["npop"] != cmdx["npop"] or len(msparse.parse(text)[0]["events"]) != len(cmdx["events"]):
            chk.violation("to_ms:rendering", "the printed command has a different shape from the exactly rendered one", rep)
        gg = g.in_generations()
        if semcheck.near_coincident(gg) or semcheck.near_coincident(g):
            chk.count("skipped_near_coincident_times")
            continue
        popmap = list(range(len(gg.demes)))
        try:
            bad = semcheck.run(drv, gg, N0, cmd, popmap, rel=1e-9, abst=1e-13)
        except wire.DriverError as e:
            chk.unproven("to_ms:driver", "semantic checker failed to run", dict(rep, error=str(e)))
            continue
        if bad:
            kinds = sorted(set(k for k, _, _ in bad))
            sig = "to_ms:semantics:" + "+".join(kinds)
            chk.violation(sig, "the emitted command does not describe the graph's demography: %s at t=%r (deme/pop %r)"
                          % (bad[0][0], bad[0][2], bad[0][1]), dict(rep, discrepancies=bad[:10]))
        chk.count("events_%d" % min(len(cmd["events"]), 12))
        chk.sample(dict(label=label, N0=N0, command=text[:300]), limit=3)
    drv.close()
    return chk.finish("translation_validation", nobl, ndis, axioms, RULE,
                      explanation="each emitted command is interpreted by the ms semantics of coq/Spec/MsSem.v (extracted) and compared with the "
                                  "graph (sizes, rates at two interior points of every interval of the common refinement, lineage movements at every "
                                  "event time); Model/ToMs.v compared bit for bit with the implementation's event list")


def replay(chk, path):
    import demes
    r = json.load(open(path))["replay"]
    d = dict(r["graph"]); d.pop("_index", None)
    g = demes.Graph.fromdict(d)
    print(demes.to_ms(g, N0=r["N0"]))
    drv = wire.Driver()
    cmd, _ = msparse.parse(demes.to_ms(g, N0=r["N0"]))
    gg = g.in_generations()
    bad = semcheck.run(drv, gg, r["N0"], cmd, list(range(len(gg.demes))))
    print("discrepancies:", bad[:5])
    return 1 if bad else 0
