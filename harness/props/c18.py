"""C18: resolution is a pure function of its input.
Model: coq/Model/Heap.v (a store with references: the copy that fromdict takes shares nothing
with the caller's data, so no program working on the copy can reach or modify it).
Implementation: documents built from tracking containers that log every mutation."""
import copy
import json
import math
import random
import warnings

import common
import gen
import wire

NESTED_META = {"k": [1, 2, {"a": [3, 4]}], "m": {"n": {"o": [True, "x"]}, "l": []}, "flag": True, "s": "text"}

RULE = ("cases are histories: (a) a document, valid or invalid (explicit, re-spelt, with defaults, value- and structure-mutated, "
        "with shared sub-objects), built from tracking dict/list subclasses, resolved twice through Graph.fromdict; (b) sequences "
        "of add_deme / add_migration / add_pulse / in-place mutation / resolve steps on one Builder, with later mutation of the "
        "Builder data and of previously returned dictionaries; non-trivial = history with >= 2 resolves; distinct by history")

LOG = []


class TDict(dict):
    def _log(self, what):
        LOG.append((id(self), what))

    def __setitem__(self, k, v):
        self._log("set"); super().__setitem__(k, v)

    def __delitem__(self, k):
        self._log("del"); super().__delitem__(k)

    def pop(self, *a):
        self._log("pop"); return super().pop(*a)

    def popitem(self):
        self._log("popitem"); return super().popitem()

    def update(self, *a, **k):
        self._log("update"); super().update(*a, **k)

    def setdefault(self, *a):
        self._log("setdefault"); return super().setdefault(*a)

    def clear(self):
        self._log("clear"); super().clear()


class TList(list):
    def _log(self, what):
        LOG.append((id(self), what))

    def __setitem__(self, k, v):
        self._log("set"); super().__setitem__(k, v)

    def __delitem__(self, k):
        self._log("del"); super().__delitem__(k)

    def append(self, v):
        self._log("append"); super().append(v)

    def extend(self, v):
        self._log("extend"); super().extend(v)

    def insert(self, i, v):
        self._log("insert"); super().insert(i, v)

    def pop(self, *a):
        self._log("pop"); return super().pop(*a)

    def remove(self, v):
        self._log("remove"); super().remove(v)

    def sort(self, **k):
        self._log("sort"); super().sort(**k)

    def reverse(self):
        self._log("reverse"); super().reverse()

    def clear(self):
        self._log("clear"); super().clear()


def track(v):
    if isinstance(v, dict):
        return TDict((k, track(x)) for k, x in v.items())
    if isinstance(v, list):
        return TList(track(x) for x in v)
    return v


def plain(v):
    if isinstance(v, dict):
        return {k: plain(x) for k, x in v.items()}
    if isinstance(v, list):
        return [plain(x) for x in v]
    return v


def outcome(fn):
    with warnings.catch_warnings():
        warnings.simplefilter("ignore")
        try:
            return ("ok", fn())
        except Exception as e:
            return ("err", type(e).__name__)


def run(chk):
    import demes
    nobl, ndis, axioms = common.proof_stage(chk)
    if ndis == 0:
        return chk.finish("proof", nobl, ndis, axioms, RULE)
    from props import c02
    rng = random.Random(chk.seed + 18)
    n = 150 if chk.tier == "quick" else 3000
    for i in range(n):
        base = gen.gen_model(rng)
        docs = [("explicit", base), ("respell", gen.respell(rng, base, 0.6)),
                ("defaults", gen.hoist_defaults(rng, gen.respell(rng, base, 0.4)))]
        docs += [("mut-value", gen.mutate_value(rng, base)[1]) for _ in range(2)]
        docs += [("mut-struct", gen.mutate_structure(rng, base)[1]) for _ in range(2)]
        docs += [("targeted", m) for _, m in gen.mutate_targeted(rng, base)[:3]]
        sv, nshared = c02.share(rng, gen.respell(rng, base, 0.3))
        if nshared:
            docs.append(("shared", sv))
        # infinities spelt as the string "Infinity" (what a JSON document holds before the loader converts it): Graph.fromdict
        # and Builder.resolve must refuse them, again and again, without touching the data
        si = copy.deepcopy(rng.choice([base, docs[1][1]]))
        nstr = 0
        for dm in si["demes"]:
            if isinstance(dm.get("start_time"), float) and math.isinf(dm["start_time"]) and rng.random() < 0.7:
                dm["start_time"] = "Infinity"
                nstr += 1
        for m in si.get("migrations", []):
            if isinstance(m.get("start_time"), float) and math.isinf(m["start_time"]) and rng.random() < 0.7:
                m["start_time"] = "Infinity"
                nstr += 1
        if rng.random() < 0.3:
            si.setdefault("defaults", {}).setdefault("deme", {})["start_time"] = "Infinity"
            nstr += 1
        if nstr:
            docs.append(("str-infinity", si))
        for kind, d in docs:
            chk.case([kind, json.loads(json.dumps(d, default=repr))], nontrivial=True)
            t = track(d) if kind != "shared" else d
            before = copy.deepcopy(plain(t))
            del LOG[:]
            r1 = outcome(lambda: demes.Graph.fromdict(t))
            chk.count("kind_%s_%s" % (kind, r1[0]))
            rep = dict(op="fromdict", kind=kind, document=before)
            if LOG:
                chk.violation("pure:input-mutated", "Graph.fromdict called a mutating method (%s) on the caller's data" % LOG[0][1], dict(rep, log=[w for _, w in LOG[:10]]))
            if not wire.deep_eq(plain(t), before):
                chk.violation("pure:input-changed", "the caller's data changed during Graph.fromdict (%s)" % r1[0], rep)
            r2 = outcome(lambda: demes.Graph.fromdict(t))
            if r1[0] != r2[0] or (r1[0] == "err" and r1[1] != r2[1]):
                chk.violation("pure:not-repeatable", "resolving the same data again gives %r after %r" % (r2[:2], r1[:2]), rep)
            elif r1[0] == "ok":
                if not (r1[1] == r2[1]) or r1[1].asdict() != r2[1].asdict():
                    chk.violation("pure:not-repeatable", "resolving the same data again gives a different graph", rep)
                # later changes to the input do not reach the graph
                snap = r1[1].asdict()
                victim = t if kind != "shared" else d
                for p, v in list(gen._paths(victim)):
                    if isinstance(v, list):
                        list.append(v, "junk") if isinstance(v, TList) else v.append("junk")
                    elif isinstance(v, dict):
                        dict.__setitem__(v, "junk", 1) if isinstance(v, TDict) else v.__setitem__("junk", 1)
                if r1[1].asdict() != snap:
                    chk.violation("pure:graph-aliases-input", "changing the input after resolution changed the graph", rep)
                # later changes to a returned dictionary form do not reach the graph either: every container of
                # asdict() / asdict_simplified() is changed in place, nested metadata included
                gm = outcome(lambda: demes.Graph.fromdict(dict(copy.deepcopy(plain(before)), metadata=copy.deepcopy(NESTED_META))))
                if gm[0] == "ok":
                    g = gm[1]
                    snap = copy.deepcopy(g.asdict())
                    msnap = copy.deepcopy(g.metadata)
                    for form in (g.asdict(), g.asdict_simplified(), g.asdict()):
                        for p, v in list(gen._paths(form)):
                            if isinstance(v, list):
                                v.append("junk")
                                v.reverse()
                            elif isinstance(v, dict):
                                v["junk"] = 1
                        if not wire.deep_eq(g.asdict(), snap) or not wire.deep_eq(g.metadata, msnap):
                            chk.violation("pure:graph-aliases-output", "changing a returned dictionary form changed the graph",
                                          dict(rep, metadata=NESTED_META))
                            break
        # ---- a Builder made from the document: resolving does not change the Builder's data ----
        for kind, d in docs:
            if kind == "shared":
                continue
            t = track(copy.deepcopy(plain(d)) if kind != "str-infinity" else copy.deepcopy(d))
            before = copy.deepcopy(plain(t))
            try:
                bld = demes.Builder.fromdict(t)
            except Exception:
                continue
            g_before = outcome(lambda: demes.Graph.fromdict(copy.deepcopy(before)))
            del LOG[:]
            r1 = outcome(bld.resolve)
            rep = dict(op="Builder.fromdict.resolve", kind=kind, document=before)
            chk.count("builder_fromdict_%s_%s" % (kind, r1[0]))
            if LOG:
                chk.violation("pure:builder-data-mutated", "Builder.resolve called a mutating method (%s) on the Builder's data" % LOG[0][1],
                              dict(rep, log=[w for _, w in LOG[:10]]))
            if not wire.deep_eq(plain(bld.data), before):
                chk.violation("pure:builder-data-changed", "the Builder's data changed during resolve (%s)" % r1[0], rep)
            r2 = outcome(bld.resolve)
            g_after = outcome(lambda: demes.Graph.fromdict(copy.deepcopy(plain(bld.data))))
            if r1[:1] != r2[:1] or (r1[0] == "err" and r1[1] != r2[1]) or g_before[:1] != g_after[:1] \
                    or (g_before[0] == "err" and g_before[1] != g_after[1]) or r1[:1] != g_before[:1]:
                chk.violation("pure:builder-not-repeatable",
                              "resolve / Graph.fromdict on the same data: %r then %r; fromdict before %r, after %r"
                              % (r1[:2] if r1[0] == "err" else r1[0], r2[:2] if r2[0] == "err" else r2[0],
                                 g_before[:2] if g_before[0] == "err" else g_before[0], g_after[:2] if g_after[0] == "err" else g_after[0]), rep)
        # ---- Builder histories ----
        b = demes.Builder(time_units=base["time_units"], generation_time=base["generation_time"],
                          description=base["description"], doi=list(base["doi"]), metadata=copy.deepcopy(base["metadata"]))
        steps = []
        results = []
        demes_todo = list(base["demes"])
        migs = list(base["migrations"])
        pulses = list(base["pulses"])
        for step in range(rng.randint(3, 10)):
            op = rng.choice(["add_deme", "add_deme", "add_migration", "add_pulse", "resolve", "resolve", "mutate", "mutate_returned"])
            if op == "add_deme" and demes_todo:
                d = copy.deepcopy(demes_todo.pop(0)); nm = d.pop("name"); b.add_deme(nm, **d)
            elif op == "add_migration" and migs and not demes_todo:
                b.add_migration(**copy.deepcopy(migs.pop(0)))
            elif op == "add_pulse" and pulses and not demes_todo:
                b.add_pulse(**copy.deepcopy(pulses.pop(0)))
            elif op == "mutate" and b.data.get("demes"):
                dm = rng.choice(b.data["demes"])
                dm["description"] = "changed %d" % step
                if dm["epochs"]:
                    dm["epochs"][-1]["start_size"] = dm["epochs"][-1].get("start_size", 1) * 2
                    dm["epochs"][-1].pop("end_size", None)
                    dm["epochs"][-1].pop("size_function", None)
            elif op == "mutate_returned" and results:
                g_old, snap_old, dict_old = results[-1]
                for p, v in list(gen._paths(dict_old)):
                    if isinstance(v, list):
                        v.append("junk")
                    elif isinstance(v, dict):
                        v["junk"] = 1
            elif op == "resolve":
                data_before = copy.deepcopy(b.data)
                r = outcome(lambda: b.resolve())
                if not wire.deep_eq(b.data, data_before):
                    chk.violation("pure:builder-data-changed", "Builder.resolve changed the Builder's data (%s)" % r[0],
                                  dict(op="builder", steps=steps, data=data_before))
                want = outcome(lambda: demes.Graph.fromdict(copy.deepcopy(data_before)))
                if r[0] != want[0] or (r[0] == "ok" and r[1].asdict() != want[1].asdict()) or (r[0] == "err" and r[1] != want[1]):
                    chk.violation("pure:builder-resolve-differs", "Builder.resolve differs from Graph.fromdict of the data at that moment",
                                  dict(op="builder", steps=steps, data=data_before))
                if r[0] == "ok":
                    results.append((r[1], r[1].asdict(), r[1].asdict()))
            steps.append(op)
            for g_old, snap_old, _ in results:
                if g_old.asdict() != snap_old:
                    chk.violation("pure:earlier-graph-changed", "a graph returned earlier changed after step %s" % op,
                                  dict(op="builder", steps=steps))
        chk.case(["builder", steps, i], nontrivial=steps.count("resolve") >= 2)
        chk.sample(dict(builder_steps=steps), limit=3)
    return chk.finish("proof", nobl, ndis, axioms, RULE,
                      explanation="coq/Props/C18.v: frame theorem of the store model; the implementation is run on mutation-logging containers: "
                                  "no mutating call on caller data, data equal before/after on success and failure, repeatability, no aliasing")


def replay(chk, path):
    r = json.load(open(path))["replay"]
    print(r.get("op"), r.get("kind"), r.get("steps"))
    return 0
