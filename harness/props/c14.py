"""C14: predecessors / successors / discrete_demographic_events vs coq/Model/Ancestry.v."""
import json

import common
import gen
import graphs
import wire

RULE = ("cases are valid graphs with generated ancestry DAGs whose start times are drawn from the same "
        "pool as the ancestors' end times (so that split/branch and merger/admixture both occur); "
        "non-trivial = at least one deme with ancestors; distinct by fully-resolved dictionary")


def impl_events(g):
    ev = g.discrete_demographic_events()
    return dict(
        splits=sorted([[s.parent, sorted(s.children), s.time] for s in ev["splits"]]),
        branches=[[b.parent, b.child, b.time] for b in ev["branches"]],
        mergers=[[list(m.parents), list(m.proportions), m.child, m.time] for m in ev["mergers"]],
        admixtures=[[list(m.parents), list(m.proportions), m.child, m.time] for m in ev["admixtures"]],
    ), ev


def spec_check(g, pred, succ, evn, ev):
    names = [d.name for d in g.demes]
    if list(pred.keys()) != names or set(succ.keys()) != set(names):
        return ("ancestry:keys", "predecessor/successor maps do not have one entry per deme")
    for d in g.demes:
        if pred[d.name] != list(d.ancestors):
            return ("ancestry:pred", "predecessors differ from the deme's ancestors")
    for a in names:
        want = [d.name for d in g.demes if a in d.ancestors]
        if succ[a] != want:
            return ("ancestry:succ", "successors are not the transpose of predecessors")
    if ev["pulses"] != g.pulses:
        return ("ancestry:pulses", "pulse list changed")
    seen = {}
    for p, cs, t in evn["splits"]:
        for c in cs:
            seen.setdefault(c, []).append(("split", [p], None, t))
    for p, c, t in evn["branches"]:
        seen.setdefault(c, []).append(("branch", [p], None, t))
    for ps, pr, c, t in evn["mergers"]:
        seen.setdefault(c, []).append(("merger", ps, pr, t))
    for ps, pr, c, t in evn["admixtures"]:
        seen.setdefault(c, []).append(("admixture", ps, pr, t))
    for d in g.demes:
        got = seen.get(d.name, [])
        if not d.ancestors:
            if got:
                return ("ancestry:root-classified", "a deme without ancestors appears in an event")
            continue
        if len(got) != 1:
            return ("ancestry:not-exactly-once", "deme %s classified %d times" % (d.name, len(got)))
        kind, ps, pr, t = got[0]
        ends = [g[a].end_time for a in d.ancestors]
        if len(d.ancestors) == 1:
            want = "split" if ends[0] == d.start_time else "branch"
        else:
            want = "merger" if all(e == d.start_time for e in ends) else "admixture"
        if kind != want:
            return ("ancestry:kind", "deme %s is a %s but reported as %s" % (d.name, want, kind))
        if kind == "split":
            if t != g[ps[0]].end_time or t != d.start_time or ps != list(d.ancestors):
                return ("ancestry:split-fields", "split time/parent wrong")
        else:
            if t != d.start_time or list(ps) != list(d.ancestors):
                return ("ancestry:event-fields", "event time/parents differ from the deme's")
            if pr is not None and list(pr) != list(d.proportions):
                return ("ancestry:event-proportions", "event proportions differ from the deme's")
    for p, cs, t in evn["splits"]:
        want = sorted(d.name for d in g.demes if list(d.ancestors) == [p] and d.start_time == g[p].end_time)
        if cs != want:
            return ("ancestry:split-children", "children of split differ")
    return None


def run(chk):
    nobl, ndis, axioms = common.proof_stage(chk)
    if ndis == 0:
        return chk.finish("proof", nobl, ndis, axioms, RULE)
    drv = wire.Driver()
    rngd = __import__("random").Random(chk.seed + 14)

    def with_derived(items):
        """the graph, then graphs derived from it by the library's own operations after its views were asked for"""
        for label, doc, g in items:
            yield label, doc, g
            try:
                if len(g.demes) >= 2 and rngd.random() < 0.5:
                    g.predecessors(), g.successors(), g.discrete_demographic_events()
                    names = [d.name for d in g.demes]
                    a, c = rngd.sample(names, 2)
                    m = rngd.choice([{a: c, c: a}, {a: a + "_x"}, {n: n + "_r" for n in names}])
                    yield label + "|rename", None, g.rename_demes(m)
                if g.generation_time not in (None, 1) and rngd.random() < 0.3:
                    g.predecessors()
                    gi = g.in_generations()
                    if graphs.still_valid(gi):       # invalid conversions (F12) are outside "for every valid graph"
                        yield label + "|in_generations", None, gi
                if any(len(d.ancestors) >= 1 for d in g.demes) and rngd.random() < 0.25:
                    # the same graph with numpy scalars for every time (what users computing times with numpy pass in)
                    import numpy as np
                    import demes as _demes
                    dd = g.asdict()
                    for dm in dd["demes"]:
                        dm["start_time"] = np.float64(dm["start_time"])
                        for ep in dm["epochs"]:
                            ep["end_time"] = np.float64(ep["end_time"])
                    for m in dd["migrations"]:
                        m["start_time"], m["end_time"] = np.float64(m["start_time"]), np.float64(m["end_time"])
                    for p in dd["pulses"]:
                        p["time"] = np.float64(p["time"])
                    yield label + "|numpy-times", None, _demes.Graph.fromdict(dd)
            except Exception as e:
                chk.count("derived_failed_" + type(e).__name__)
    for label, doc, g in with_derived(graphs.pool(chk, 500, 10000)):
        payload = gen.graph_payload(g)
        chk.case(payload, nontrivial=any(d.ancestors for d in g.demes))
        rep = dict(op="ancestry", graph=payload, label=label)
        try:
            pred, succ = g.predecessors(), g.successors()
            evn, ev = impl_events(g)
        except Exception as e:
            chk.violation("ancestry:raises:" + type(e).__name__, "a view raised on a valid graph",
                          dict(rep, error=repr(e)))
            continue
        bad = spec_check(g, pred, succ, evn, ev)
        if bad:
            chk.violation(bad[0], bad[1], dict(rep, pred=pred, succ=succ, events=evn))
        mp = drv.call("predecessors", payload)
        ms = drv.call("successors", payload)
        me = drv.call("events", payload)
        ok = (mp == [[k, v] for k, v in pred.items()] and ms == [[k, v] for k, v in succ.items()]
              and me[0] == "ok")
        if ok:
            m = me[1]
            msp = sorted([[p, sorted(cs), t] for p, cs, t in m["splits"]])
            ok = (wire.deep_eq(msp, evn["splits"]) and wire.deep_eq(m["branches"], evn["branches"])
                  and wire.deep_eq(m["mergers"], evn["mergers"])
                  and wire.deep_eq(m["admixtures"], evn["admixtures"]))
        if not ok:
            chk.disagreements += 1
            chk.unproven("ancestry:correspondence", "implementation and proved model differ",
                         dict(rep, impl=[pred, succ, evn], model=[mp, ms, me]))
        for k in ("splits", "branches", "mergers", "admixtures"):
            chk.count(k, len(evn[k]))
        chk.sample(dict(graph=label, pred=pred, events={k: len(v) for k, v in evn.items()}))
    drv.close()
    return chk.finish("proof", nobl, ndis, axioms, RULE,
                      explanation="theorems of coq/Props/C14.v re-checked; Model/Ancestry.v (extracted) compared with the "
                                  "three views; the classification rule evaluated independently on the implementation's events")


def replay(chk, path):
    import demes
    r = json.load(open(path))["replay"]
    d = dict(r["graph"]); d.pop("_index", None)
    g = demes.Graph.fromdict(d)
    evn, ev = impl_events(g)
    bad = spec_check(g, g.predecessors(), g.successors(), evn, ev)
    print("property:", bad or "holds")
    return 1 if bad else 0
