"""C03: rule-breaking documents are rejected, never resolved.
Oracles: (1) the proved model coq/Model/Resolve.v (accept/reject must agree);
(2) for fully explicit documents, an independent validator written from the data-model
rules (harness/validity.py) must agree with acceptance in both directions."""
import copy
import json
import random
import warnings

import common
import gen
import graphs
import validity
import wire

RULE = ("cases are documents obtained from generated explicit valid models by (a) rule-targeted value mutations: "
        "one number replaced by a boundary value (0, -0.0, 1, nextafter(1), 1+1e-9, inf, -inf, nan, booleans, "
        "or another time of the model and its float neighbours), one string replaced by another deme name / "
        "an invalid name / another keyword; (b) structural mutations: drop, null, retype, duplicate, swap, add "
        "a node at any path; non-trivial = the unmutated parent was accepted and the mutant differs; distinct by document")


def resolve(doc):
    import demes
    with warnings.catch_warnings():
        warnings.simplefilter("ignore")
        try:
            return ("ok", demes.Graph.fromdict(copy.deepcopy(doc)))
        except Exception as e:
            return ("err", type(e).__name__)


def explicit_wellformed(doc):
    if "defaults" in doc:
        return False
    """all fields present with the right kinds, so that validity.check_dict applies"""
    def num(x):
        return isinstance(x, (int, float)) and not isinstance(x, bool)
    try:
        if set(doc) != {"description", "time_units", "generation_time", "doi", "metadata", "demes", "migrations", "pulses"}:
            return False
        if not (isinstance(doc["description"], str) and isinstance(doc["time_units"], str) and num(doc["generation_time"])):
            return False
        if not (isinstance(doc["doi"], list) and all(isinstance(s, str) for s in doc["doi"]) and isinstance(doc["metadata"], dict)):
            return False
        if not all(isinstance(doc[k], list) and all(isinstance(x, dict) for x in doc[k])
                   for k in ("demes", "migrations", "pulses")):
            return False
        for d in doc["demes"]:
            if set(d) != {"name", "description", "start_time", "ancestors", "proportions", "epochs"}:
                return False
            if not (isinstance(d["name"], str) and isinstance(d["description"], str) and num(d["start_time"])):
                return False
            if not (isinstance(d["ancestors"], list) and all(isinstance(a, str) for a in d["ancestors"])):
                return False
            if not (isinstance(d["proportions"], list) and all(num(a) for a in d["proportions"])):
                return False
            if not (isinstance(d["epochs"], list) and all(isinstance(x, dict) for x in d["epochs"])):
                return False
            for e in d["epochs"]:
                if set(e) != {"end_time", "start_size", "end_size", "size_function", "selfing_rate", "cloning_rate"}:
                    return False
                if not all(num(e[k]) for k in e if k != "size_function") or not isinstance(e["size_function"], str):
                    return False
        for m in doc["migrations"]:
            if set(m) != {"source", "dest", "start_time", "end_time", "rate"}:
                return False
            if not (isinstance(m["source"], str) and isinstance(m["dest"], str) and all(num(m[k]) for k in ("start_time", "end_time", "rate"))):
                return False
        for p in doc["pulses"]:
            if set(p) != {"sources", "dest", "time", "proportions"}:
                return False
            if not (isinstance(p["sources"], list) and all(isinstance(a, str) for a in p["sources"]) and isinstance(p["dest"], str)
                    and num(p["time"]) and isinstance(p["proportions"], list) and all(num(a) for a in p["proportions"])):
                return False
        return True
    except Exception:
        return False


def canonical_pulse_order(doc):
    d = copy.deepcopy(doc)
    d["pulses"] = sorted(d["pulses"], key=lambda p: -p["time"] if p["time"] == p["time"] else 0)
    return d


def run(chk):
    nobl, ndis, axioms = common.proof_stage(chk)
    if ndis == 0:
        return chk.finish("proof", nobl, ndis, axioms, RULE)
    drv = wire.Driver()
    rng = random.Random(chk.seed + 3)
    n = 120 if chk.tier == "quick" else 1200
    made = 0
    while made < n:
        base = gen.gen_model(rng)
        if resolve(base)[0] != "ok":
            continue
        made += 1
        muts = ([gen.mutate_value(rng, base) for _ in range(6)] + [gen.mutate_structure(rng, base) for _ in range(5)]
                + gen.mutate_targeted(rng, base)[:60 if chk.tier == 'quick' else 140])
        if made == 1:
            muts = gen.boundary_families(rng) + muts
        for kind, m in muts:
            if kind == "noop":
                continue
            chk.case(m, nontrivial=True)
            r = resolve(m)
            chk.count("impl_" + ("accepted" if r[0] == "ok" else "rejected"))
            chk.count("kind_" + kind.split(":")[0] + ("_acc" if r[0] == "ok" else "_rej"))
            rep = dict(op="fromdict", document=m, kind=kind, impl=r[0] if r[0] == "err" else "ok")
            mr = drv.call("fromdict", m)
            if r[0] == "ok" and kind in ("defaults.unused-invalid", "defaults.overridden-invalid"):
                # invalid by construction (a default whose value breaks its field's rule), whatever the model says
                chk.violation("reject:accepts-invalid:default", "a document with an invalid default value is accepted (the default is used "
                              "nowhere, which the specification does not excuse)", dict(rep, defaults=m.get("defaults")))
                continue
            if r[0] == "ok" and kind == "symmetric.repeated-deme":
                chk.violation("reject:accepts-invalid:symmetric-repeated-deme", "a symmetric migration that lists one deme more than once "
                              "(a migration from a deme to itself) is accepted", dict(rep, migrations=m.get("migrations")))
                continue
            if r[0] != mr[0]:
                chk.disagreements += 1
                # who is right?  ask the independent validator when it applies
                if explicit_wellformed(m):
                    why = validity.check_dict(canonical_pulse_order(m))
                    if r[0] == "ok" and why:
                        chk.violation("reject:accepts-invalid:" + why.split(" ")[0], "an invalid document is accepted: " + why, rep)
                        continue
                    if r[0] == "err" and not why:
                        chk.violation("reject:rejects-valid", "a valid explicit document is rejected (%s)" % r[1], rep)
                        continue
                if r[0] == "ok":
                    # the model (proved to accept only what resolves to a valid graph) rejects: is the returned graph valid?
                    vb = validity.check_graph(drv, r[1])
                    if vb:
                        chk.violation("reject:accepts-invalid:" + vb.split(" ")[0],
                                      "a rule-breaking document is accepted; the returned graph is invalid: " + vb, rep)
                        continue
                chk.unproven("reject:correspondence", "implementation and proved model disagree on acceptance",
                             dict(rep, model=mr[0] if mr[0] == "ok" else mr))
                continue
            if r[0] == "ok":
                if not graphs.payload_eq(r[1], mr[1]):
                    chk.disagreements += 1
                    chk.unproven("reject:correspondence-value", "implementation and proved model resolve differently",
                                 dict(rep, impl=gen.graph_payload(r[1]), model=mr))
                vb = validity.check_graph(drv, r[1])
                if vb:
                    chk.violation("reject:accepts-invalid:" + vb.split(" ")[0],
                                  "a rule-breaking document is accepted; the returned graph is invalid: " + vb, rep)
            if explicit_wellformed(m):
                why = validity.check_dict(canonical_pulse_order(m))
                chk.count("explicit_" + ("valid" if not why else "invalid"))
                if r[0] == "ok" and why:
                    chk.violation("reject:accepts-invalid:" + why.split(" ")[0], "an invalid document is accepted: " + why, rep)
                if r[0] == "err" and not why:
                    chk.violation("reject:rejects-valid", "a valid explicit document is rejected (%s)" % r[1], rep)
            if mr[0] == "err" and r[0] == "err" and mr[1] != r[1]:
                chk.count("error_class_differs_%s_%s" % (r[1], mr[1]))
        chk.sample(dict(kind=muts[0][0], accepted=resolve(muts[0][1])[0]), limit=5)
    drv.close()
    return chk.finish("proof", nobl, ndis, axioms, RULE,
                      explanation="accept/reject of Graph.fromdict compared with the proved model on every mutant and, for "
                                  "fully explicit mutants, with an independent validator in both directions; returned graphs re-validated")


def replay(chk, path):
    r = json.load(open(path))["replay"]
    a = resolve(r["document"])
    print("implementation:", a[0] if a[0] == "ok" else a)
    if explicit_wellformed(r["document"]):
        why = validity.check_dict(canonical_pulse_order(r["document"]))
        print("independent validator:", why or "valid")
        return 1 if (a[0] == "ok") != (not why) else 0
    return 0
