"""C19: the command line prints exactly what the library would.
Model: coq/Model/Cli.v (dispatch and two-document look-ahead, proved).  Implementation:
demes.__main__.cli run in-process with stdout / stdin replaced, and as a subprocess for exit status."""
import contextlib
import io
import json
import os
import random
import shutil
import subprocess
import sys
import tempfile
import warnings

import common
import gen
import gen_ms
import wire

RULE = ("cases are (flags, document count, source): flags in {none, -s, -j, -j -s, --ms N0, --ms N0 -s, --ms 0} x files with "
        "0, 1, 2, 3, 5 YAML documents, a JSON document, a file whose k-th document is invalid, x {path, stdin '-'}; and `demes ms "
        "-N0 n <args>` on generated ms argument vectors; non-trivial = every triple; distinct by triple")


def run_cli(argv, stdin_text=None):
    from demes.__main__ import cli
    out, err = io.StringIO(), io.StringIO()
    old_stdin = sys.stdin
    status = 0
    try:
        if stdin_text is not None:
            sys.stdin = io.StringIO(stdin_text)
        with contextlib.redirect_stdout(out), contextlib.redirect_stderr(err), warnings.catch_warnings():
            warnings.simplefilter("ignore")
            try:
                cli(argv)
            except SystemExit as e:
                status = e.code if isinstance(e.code, int) else (0 if e.code is None else 1)
            except BaseException as e:
                status = "raised:" + type(e).__name__
    finally:
        sys.stdin = old_stdin
    return status, out.getvalue()


def expected(flags, graphs_or_err):
    """what the library calls give for the loaded graphs; returns (ok, text)"""
    import demes
    gs, err_at = graphs_or_err
    simplified = "-s" in flags
    ms = None
    if "--ms" in flags:
        ms = float(flags[flags.index("--ms") + 1])
    js = "-j" in flags
    n = len(gs) + (1 if err_at is not None else 0)
    if err_at is not None and err_at < 2:
        return False, ""
    if n == 0:
        return True, ""
    if n == 1:
        if ms is not None:
            try:
                return True, demes.to_ms(gs[0], N0=ms) + "\n"
            except Exception:
                return False, ""
        return True, demes.dumps(gs[0], format="json" if js else "yaml", simplified=simplified)
    if js or ms is not None:
        return False, ""
    s = io.StringIO()
    demes.dump_all(gs, s, simplified=simplified)
    return err_at is None, s.getvalue()


def run(chk):
    import demes
    nobl, ndis, axioms = common.proof_stage(chk)
    if ndis == 0:
        return chk.finish("proof", nobl, ndis, axioms, RULE)
    rng = random.Random(chk.seed + 19)
    tmp = tempfile.mkdtemp(prefix="verif_c19_")
    try:
        good = []
        while len(good) < 6:
            doc = gen.gen_model(rng, max_demes=4, want_ms=True)
            try:
                with warnings.catch_warnings():
                    warnings.simplefilter("ignore")
                    good.append(demes.Graph.fromdict(doc))
            except Exception:
                pass
        bad_doc = "time_units: generations\ndemes:\n- name: A\n  epochs:\n  - {start_size: -1}\n"
        flagsets = [[], ["-s"], ["-j"], ["-j", "-s"], ["--ms", "100"], ["--ms", "0.5", "-s"], ["--ms", "0"]]
        reps = 1 if chk.tier == "quick" else 6
        for rep_i in range(reps):
            rng.shuffle(good)
            files = []
            for k in (0, 1, 2, 3, 5):
                gs = good[:k]
                s = io.StringIO()
                demes.dump_all(gs, s, simplified=rng.random() < 0.5)
                files.append(("%d-docs" % k, s.getvalue(), (gs, None)))
            files.append(("1-doc-plain", demes.dumps(good[0]), ([good[0]], None)))
            files.append(("json", demes.dumps(good[1], format="json"), ([good[1]], None)))
            for k in (0, 1, 2, 3):
                parts = [demes.dumps(g) for g in good[:k]] + [bad_doc] + [demes.dumps(good[4])]
                files.append(("bad-at-%d" % k, "---\n" + "\n---\n".join(parts) + "\n", (good[:k], k)))
            for fname, text, loaded in files:
                # "the corresponding library call on the loaded graph": reload from the text
                try:
                    with warnings.catch_warnings():
                        warnings.simplefilter("ignore")
                        got = []
                        for gr in demes.load_all(io.StringIO(text)):
                            got.append(gr)
                    loaded = (got, None)
                except Exception:
                    loaded = (got, len(got))
                p = os.path.join(tmp, "in.yaml")
                with open(p, "w", encoding="utf-8") as f:
                    f.write(text)
                for flags in flagsets:
                    for source in ("path", "stdin"):
                        chk.case([flags, fname, source, rep_i], nontrivial=True)
                        chk.count("docs_" + fname)
                        argv = ["parse"] + flags + ([p] if source == "path" else ["-"])
                        status, out = run_cli(argv, None if source == "path" else text)
                        ok, want = expected(flags, loaded)
                        rep = dict(op="demes parse", argv=argv, file=fname, status=repr(status), out=out[:2000], expected=want[:2000])
                        if ok:
                            if status != 0:
                                chk.violation("cli:fails-on-valid", "demes parse fails (%r) where the library call succeeds" % (status,), rep)
                            elif out != want:
                                chk.violation("cli:output-differs", "demes parse output differs from the library call", rep)
                        else:
                            if status == 0:
                                sig = "cli:error-not-reported"
                                if flags[:2] == ["--ms", "0"] and len(loaded[0]) >= 2:
                                    sig = "cli:ms-zero-multidoc"
                                chk.violation(sig, "demes parse exits 0 for invalid input or an unsupported combination", rep)
                            elif loaded[1] is None and out != "":
                                chk.violation("cli:partial-output", "output printed although the combination is unsupported", rep)
                            elif loaded[1] is not None and not want.startswith(out) and out != "":
                                chk.violation("cli:ms-zero-multidoc" if flags[:2] == ["--ms", "0"] else "cli:partial-output", "output before the failing document differs from the library's", rep)
        # demes ms
        n = 120 if chk.tier == "quick" else 2500
        for i in range(n):
            cmd, _ = gen_ms.gen_ms(rng)
            N0 = rng.choice([1, 100, 1e4, 0.37])
            chk.case(["ms", cmd, N0], nontrivial=True)
            try:
                with warnings.catch_warnings():
                    warnings.simplefilter("ignore")
                    want = demes.dumps(demes.from_ms(cmd, N0=float(N0)))
                ok = True
            except Exception:
                ok, want = False, ""
            status, out = run_cli(["ms", "-N0", repr(float(N0))] + cmd.split())
            rep = dict(op="demes ms", command=cmd, N0=N0, status=repr(status), out=out[:1500], expected=want[:1500])
            if ok and (status != 0 or out != want):
                # unknown options are ignored by from_ms but rejected by the CLI's argparse: not a graph difference
                if status != 0 and any(t in cmd.split() for t in ("-t", "-r", "-s", "-T", "-seeds", "-p")):
                    chk.count("ms_cli_rejects_ignored_option")
                else:
                    chk.violation("cli:ms-differs", "demes ms output differs from dumps(from_ms(...))", rep)
            if not ok and status == 0:
                chk.violation("cli:ms-error-not-reported", "demes ms exits 0 where from_ms raises", rep)
            chk.count("ms_" + ("ok" if ok else "rejected"))
        # exit status through a real process
        p = os.path.join(tmp, "one.yaml")
        open(p, "w").write(demes.dumps(good[0]))
        p2 = os.path.join(tmp, "bad.yaml")
        open(p2, "w").write(bad_doc)
        for argv, want_ok in ((["parse", p], True), (["parse", "-j", p], True), (["parse", p2], False), ([], False),
                              (["parse", "-j", "--ms", "1", p], False)):
            r = subprocess.run(["/venv/bin/python", "-m", "demes"] + argv, cwd=common.REPO, capture_output=True, text=True,
                               env=dict(os.environ, PYTHONPATH=common.REPO))
            chk.case(["subprocess", argv], nontrivial=True)
            if (r.returncode == 0) != want_ok:
                chk.violation("cli:exit-status", "python -m demes %r exits %d" % (argv, r.returncode), dict(argv=argv, stderr=r.stderr[-500:]))
        chk.sample(dict(argv=["parse", "-s", "in.yaml"], documents=3))
    finally:
        shutil.rmtree(tmp, ignore_errors=True)
    return chk.finish("proof", nobl, ndis, axioms, RULE,
                      explanation="coq/Props/C19.v: the dispatch and the two-document look-ahead (nothing lost, duplicated or reordered; unsupported "
                                  "combinations are errors with no output); the implementation's stdout compared byte for byte with the library calls")


def replay(chk, path):
    r = json.load(open(path))["replay"]
    print(r.get("argv") or r.get("command"), r.get("status"))
    return 0
