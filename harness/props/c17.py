"""C17: file handles are never leaked and caller streams never closed.
Model: coq/Model/Files.v (context manager + generator state machine, proved).  Implementation:
builtins.open is wrapped to track every handle the library opens; each entry point is run on
each target kind with a failure injected at each point along open / parse / null check /
resolve / serialise / document k of a stream / generator closed early."""
import builtins
import gc
import io
import json
import os
import pathlib
import random
import shutil
import tempfile
import warnings

import common
import gen
import wire

RULE = ("cases are triples (entry point, target kind, failure point): entry points load, load_asdict, load_all, "
        "dump, dump_all, loads, dumps; targets str path, pathlib.Path, a user-defined os.PathLike, a bytes path, an os.DirEntry, caller-supplied text stream; failure points: "
        "none, missing file / unwritable path, YAML or JSON syntax error, null value, validation error, an "
        "unserialisable metadata value while writing, a failing document at position k of a multi-document stream, the "
        "multi-document iterator abandoned after j documents (close() or garbage collection), an unknown format; "
        "non-trivial = every triple; distinct by triple")


def open_fds():
    """file descriptors of this process that point at regular files (whoever opened them, by whatever route)"""
    out = {}
    try:
        for fd in os.listdir("/proc/self/fd"):
            try:
                tgt = os.readlink("/proc/self/fd/" + fd)
            except OSError:
                continue
            if tgt.startswith("/") and not tgt.startswith(("/dev/", "/proc/")):
                out[int(fd)] = tgt
    except OSError:
        pass
    return out


class Tracker:
    """tracks the handles the library opens: builtins.open and io.open are wrapped (pathlib.Path.open goes through
    io.open), and the process's descriptor table is compared before and after, which catches every other route"""
    def __init__(self):
        self.handles = []
        self.real = builtins.open
        self.real_io = io.open

    def __enter__(self):
        def tracked(*a, **k):
            f = self.real(*a, **k)
            self.handles.append((a[0] if a else k.get("file"), f))
            return f
        builtins.open = tracked
        io.open = tracked
        self.before = open_fds()
        return self

    def __exit__(self, *exc):
        builtins.open = self.real
        io.open = self.real_io
        gc.collect()
        self.after = open_fds()

    def leaked(self):
        named = [str(n) for n, f in self.handles if not f.closed]
        extra = [t for fd, t in self.after.items() if self.before.get(fd) != t and t not in named
                 and not t.endswith((".pyc", ".so"))]
        return named + extra


class Stream(io.StringIO):
    """a caller stream that records whether close() was ever called"""
    def __init__(self, *a):
        super().__init__(*a)
        self.close_calls = 0

    def close(self):
        self.close_calls += 1
        super().close()


class Unserialisable:
    pass


def run(chk):
    import demes
    nobl, ndis, axioms = common.proof_stage(chk)
    if ndis == 0:
        return chk.finish("fault_enumeration", nobl, ndis, axioms, RULE)
    rng = random.Random(chk.seed + 17)
    tmp = tempfile.mkdtemp(prefix="verif_c17_")
    reps = 1 if chk.tier == "quick" else 12
    try:
        good = []
        while len(good) < 4:
            doc = gen.gen_model(rng, max_demes=4)
            try:
                with warnings.catch_warnings():
                    warnings.simplefilter("ignore")
                    good.append(demes.Graph.fromdict(doc))
            except Exception:
                pass
        texts = {
            "ok-yaml": demes.dumps(good[0]),
            "ok-json": demes.dumps(good[0], format="json"),
            "syntax-yaml": "demes: [ {name: A, epochs: [ {start_size: 1 ]\n  : : :",
            "syntax-json": '{"demes": [ {"name": "A", ',
            "null": demes.dumps(good[0]).replace("time_units: ", "time_units: null # "),
            "invalid": demes.dumps(good[0]).replace("start_size: ", "start_size: -", 1),
            "empty": "",
            "not-a-mapping": "- 1\n- 2\n",
        }
        bad_graph = demes.Graph.fromdict(dict(time_units="generations", metadata={"x": Unserialisable()},
                                              demes=[dict(name="A", epochs=[dict(start_size=1)])]))

        def record(entry, kind, fault, fn, stream=None):
            chk.case([entry, kind, fault], nontrivial=True)
            chk.count("entry_" + entry)
            chk.count("fault_" + fault)
            outcome = "ok"
            with Tracker() as tr:
                try:
                    with warnings.catch_warnings():
                        warnings.simplefilter("ignore")
                        fn()
                except BaseException as e:
                    outcome = type(e).__name__
                gc.collect()
            chk.count("outcome_" + ("ok" if outcome == "ok" else "raised"))
            rep = dict(entry=entry, target=kind, fault=fault, outcome=outcome)
            leaked = tr.leaked()
            if leaked:
                chk.violation("handles:leak:%s" % entry, "%s on a %s leaves a file open after %s (fault: %s)"
                              % (entry, kind, "returning" if outcome == "ok" else "raising " + outcome, fault), dict(rep, leaked=leaked))
            if stream is not None and (getattr(stream, "close_calls", 0) or stream.closed):
                chk.violation("handles:caller-stream-closed:%s" % entry, "%s closed a stream supplied by the caller (a %s; fault: %s)"
                              % (entry, kind, fault), rep)
            if stream is not None and not isinstance(stream, Stream):
                stream.close()          # a real file the harness opened for this call

        def targets(text, suffix):
            p = os.path.join(tmp, "in" + suffix)
            with open(p, "w", encoding="utf-8") as f:
                f.write(text)
            s = Stream(text)
            # streams the caller opened itself on a real file, in text mode with various codecs and in binary mode
            own = []
            for enc in ("utf-8", "latin-1", "ascii", "cp1252", "utf-8-sig"):
                fh = open(p, "r", encoding=enc, errors="replace")
                own.append(("file-stream-" + enc, fh, fh))
            fb = open(p, "rb")
            own.append(("file-stream-binary", fb, fb))
            return [("str", p, None), ("Path", pathlib.Path(p), None), ("stream", s, s)] + own + \
                [(k, t, None) for k, t in other_paths(p)]

        class FsPath:
            """an os.PathLike that is neither str nor a pathlib path"""
            def __init__(self, p):
                self.p = p

            def __fspath__(self):
                return self.p

        def other_paths(p):
            """further things open() accepts as a path: a user-defined PathLike, a bytes path, an os.DirEntry"""
            out = [("fspath", FsPath(p)), ("bytes", os.fsencode(p))]
            if os.path.exists(p):
                with os.scandir(os.path.dirname(p)) as it:
                    out += [("DirEntry", e) for e in it if e.name == os.path.basename(p)]
            return out

        for _ in range(reps):
            # ---- readers ----
            for fault, text in texts.items():
                fmt = "json" if fault.endswith("json") else "yaml"
                for kind, tg, st in targets(text, "." + fmt):
                    record("load", kind, fault, lambda: demes.load(tg, format=fmt), st)
                for kind, tg, st in targets(text, "." + fmt):
                    record("load_asdict", kind, fault, lambda: demes.load_asdict(tg, format=fmt), st)
                record("loads", "string", fault, lambda: demes.loads(text, format=fmt))
            for kind, tg in (("str", os.path.join(tmp, "missing.yaml")), ("Path", pathlib.Path(tmp) / "missing.yaml")):
                record("load", kind, "missing-file", lambda: demes.load(tg))
                record("load_all", kind, "missing-file", lambda: list(demes.load_all(tg)))
            for kind, tg, st in targets(texts["ok-yaml"], ".yaml"):
                record("load", kind, "unknown-format", lambda: demes.load(tg, format="toml"), st)
            # ---- files with unusual content at the start: a UTF-8 byte order mark, an empty file, only comments ----
            for tag, blob in (("bom", b"\xef\xbb\xbf" + texts["ok-yaml"].encode()), ("bom-json", b"\xef\xbb\xbf" + texts["ok-json"].encode()),
                              ("empty", b""), ("comment-only", b"# nothing\n"), ("utf16", texts["ok-yaml"].encode("utf-16"))):
                fp = os.path.join(tmp, "odd-" + tag + ".yaml")
                with open(fp, "wb") as fh:
                    fh.write(blob)
                for kind, tg in (("str", fp), ("Path", pathlib.Path(fp))):
                    record("load", kind, "content-" + tag, lambda: demes.load(tg))
                    record("load_asdict", kind, "content-" + tag, lambda: demes.load_asdict(tg))
                    record("load", kind, "content-" + tag + "-as-json", lambda: demes.load(tg, format="json"))
                    record("load_all", kind, "content-" + tag, lambda: list(demes.load_all(tg)))
            # ---- load_all: failing document at position k, iterator abandoned after j documents ----
            docs_ok = [demes.dumps(g) for g in good]
            for k in range(0, 4):
                for failkind in ("syntax-yaml", "null", "invalid"):
                    parts = docs_ok[:k] + [texts[failkind]] + docs_ok[k:k + 1]
                    text = "---\n" + "\n---\n".join(parts) + "\n"
                    for kind, tg, st in targets(text, ".yaml"):
                        record("load_all", kind, "%s-at-%d" % (failkind, k), lambda: list(demes.load_all(tg)), st)
            text = "---\n" + "\n---\n".join(docs_ok) + "\n"
            for j in range(0, 5):
                for how in ("close", "drop", "exhaust"):
                    for kind, tg, st in targets(text, ".yaml"):
                        def use():
                            it = demes.load_all(tg)
                            for _ in range(j):
                                next(it)
                            if how == "close":
                                it.close()
                            elif how == "exhaust":
                                for _ in it:
                                    pass
                            else:
                                del it
                        record("load_all", kind, "%s-after-%d" % (how, j), use, st)
            # ---- writers ----
            for fmt in ("yaml", "json"):
                for simplified in (True, False):
                    for gname, g in (("ok", good[0]), ("unserialisable", bad_graph)):
                        p = os.path.join(tmp, "out." + fmt)
                        s = Stream()
                        for kind, tg, st in [("str", p, None), ("Path", pathlib.Path(p), None), ("stream", s, s)] + [(k, t, None) for k, t in other_paths(p)]:
                            record("dump", kind, "%s-%s-%s" % (gname, fmt, simplified),
                                   lambda: demes.dump(g, tg, format=fmt, simplified=simplified), st)
                        record("dumps", "string", "%s-%s-%s" % (gname, fmt, simplified),
                               lambda: demes.dumps(g, format=fmt, simplified=simplified))
            for kind, tg in (("str", os.path.join(tmp, "nodir", "x.yaml")), ("Path", pathlib.Path(tmp) / "nodir" / "x.yaml")):
                record("dump", kind, "unwritable-path", lambda: demes.dump(good[0], tg))
                record("dump_all", kind, "unwritable-path", lambda: demes.dump_all(good, tg))
            for kind, tg in (("str", os.path.join(tmp, "o.yaml")),):
                record("dump", kind, "unknown-format", lambda: demes.dump(good[0], tg, format="toml"))
            for k in range(0, 4):
                gs = good[:k] + [bad_graph] + good[k:]
                p = os.path.join(tmp, "multi.yaml")
                s = Stream()
                for kind, tg, st in [("str", p, None), ("Path", pathlib.Path(p), None), ("stream", s, s)] + [(k_, t, None) for k_, t in other_paths(p)]:
                    record("dump_all", kind, "unserialisable-at-%d" % k, lambda: demes.dump_all(gs, tg), st)

                def failing_iter():
                    for i, g in enumerate(good):
                        if i == k:
                            raise RuntimeError("iterator failed")
                        yield g
                s2 = Stream()
                for kind, tg, st in (("str", p, None), ("stream", s2, s2)):
                    record("dump_all", kind, "graph-iterator-fails-at-%d" % k, lambda: demes.dump_all(failing_iter(), tg), st)
            s = Stream()
            for kind, tg, st in (("str", os.path.join(tmp, "multi.yaml"), None), ("stream", s, s)):
                record("dump_all", kind, "ok", lambda: demes.dump_all(good, tg), st)
        chk.sample(dict(entry="load_all", target="Path", fault="null-at-2"))
        chk.sample(dict(entry="dump", target="stream", fault="unserialisable-json-True"))
    finally:
        shutil.rmtree(tmp, ignore_errors=True)
    return chk.finish("fault_enumeration", nobl, ndis, axioms, RULE,
                      explanation="coq/Props/C17.v: the context-manager and generator state machines close every owned handle on every exit and "
                                  "never touch caller streams (proved for all bodies / all operation sequences); the implementation is driven through "
                                  "every (entry point, target, failure point) triple with builtins.open wrapped")


def replay(chk, path):
    r = json.load(open(path))["replay"]
    print(r)
    return 0
