"""C12: Graph.migration_matrices against the proved model (coq/Model/MigMat.v)."""
import math
import json

import common
import gen
import graphs
import wire

RULE = ("cases are valid graphs (generated, times from one small pool per model so that migration "
        "bounds coincide, plus the example files); each graph's matrices are compared with the model's "
        "and checked pointwise against the migration list at every end time, its float neighbours, "
        "interval midpoints and beyond the oldest boundary; non-trivial = at least one migration; "
        "distinct by fully-resolved dictionary")


def probe_times(end_times):
    ts = []
    fin = [float(t) for t in end_times]
    for t in fin:
        ts += [t, gen.up(t), gen.down(t)]
    for a, b in zip(fin, fin[1:]):
        ts.append((a + b) / 2)
    if fin:
        ts += [fin[0] * 2 + 1, fin[0] + 1e300, 1e308]
    return [t for t in ts if t >= 0]


def spec_check(g, mm, ets):
    """C12's statement evaluated on the implementation's answer."""
    n = len(g.demes)
    if len(ets) < 1 or len(mm) != len(ets):
        return ("migmat:shape", "no matrix, or matrices and end times differ in number")
    if ets[-1] != 0:
        return ("migmat:last-not-zero", "end times do not finish at 0")
    if any(not (a > b) for a, b in zip(ets, ets[1:])):
        return ("migmat:not-decreasing", "end times not strictly decreasing")
    for m in mm:
        if len(m) != n or any(len(r) != n for r in m):
            return ("migmat:shape", "matrix is not n x n")
        for r in m:
            s = sum(r)
            if s > 1 and not math.isclose(s, 1):
                return ("migmat:row-sum", "a row sums to more than one")
    idx = {d.name: j for j, d in enumerate(g.demes)}
    for t in probe_times(ets):
        start = math.inf
        k = None
        for i, e in enumerate(ets):
            if start > t >= e:
                k = i
            start = e
        if k is None:
            return ("migmat:no-interval", "no interval contains time %r" % t)
        want = [[0.0] * n for _ in range(n)]
        cnt = {}
        for mg in g.migrations:
            if mg.end_time <= t < mg.start_time:
                want[idx[mg.dest]][idx[mg.source]] = float(mg.rate)
                cnt[(mg.source, mg.dest)] = cnt.get((mg.source, mg.dest), 0) + 1
        if any(c > 1 for c in cnt.values()):
            return ("migmat:overlap-in-valid-graph", "two migrations of one pair active at %r" % t)
        if mm[k] != want:
            return ("migmat:pointwise", "matrix of the interval containing %r differs from the active migrations" % t)
    return None


def run(chk):
    nobl, ndis, axioms = common.proof_stage(chk)
    if ndis == 0:
        return chk.finish("proof", nobl, ndis, axioms, RULE)
    drv = wire.Driver()
    import demes
    import copy
    rng = __import__("random").Random(chk.seed + 12)

    def derived(label, g):
        """the graph itself, and graphs obtained from it by the library's own operations (the matrices must
        describe the graph they are asked of, whatever its history)"""
        yield label, g
        try:
            d = g.asdict()
            if d["time_units"] == "generations":
                d = dict(d, time_units="years", generation_time=rng.choice([2, 25, 29.5]))
            g2 = demes.Graph.fromdict(d)
            g2.migration_matrices()
            gi = g2.in_generations()
            if graphs.still_valid(gi):               # invalid conversions (F12) are outside "for every valid graph"
                yield label + "|in_generations", gi
                b = demes.Builder.fromdict(copy.deepcopy(d))
                yield label + "|builder|in_generations", b.resolve().in_generations()
            if len(g.demes) >= 2:
                a, c = g.demes[0].name, g.demes[-1].name
                yield label + "|rename-swap", g2.rename_demes({a: c, c: a})
        except Exception as e:
            chk.count("derived_failed_" + type(e).__name__)
        # the same model with every finite time an integer that binary64 cannot hold (t -> t * 2**54 + 1): Python compares
        # ints exactly, so the matrices must still match the migrations; checked on the implementation only (the model's
        # numbers are binary64)
        try:
            d = g.asdict()
            ts = [dm["start_time"] for dm in d["demes"]] + [e["end_time"] for dm in d["demes"] for e in dm["epochs"]] \
                + [x for m in d["migrations"] for x in (m["start_time"], m["end_time"])] + [p["time"] for p in d["pulses"]]
            if d["migrations"] and all(math.isinf(t) or float(t).is_integer() for t in ts) and rng.random() < 0.5:
                big = lambda t: t if math.isinf(t) else (int(t) * 2 ** 54 + 1 if t > 0 else 0)
                for dm in d["demes"]:
                    dm["start_time"] = big(dm["start_time"])
                    for e in dm["epochs"]:
                        e["end_time"] = big(e["end_time"])
                for m in d["migrations"]:
                    m["start_time"], m["end_time"] = big(m["start_time"]), big(m["end_time"])
                for p in d["pulses"]:
                    p["time"] = big(p["time"])
                yield label + "|huge-int-times", demes.Graph.fromdict(d)
        except Exception as e:
            chk.count("derived_failed_" + type(e).__name__)
    for label0, doc, g0 in graphs.pool(chk, 400, 8000):
      for label, g in derived(label0, g0):
          payload = gen.graph_payload(g)
          try:
              ir = ("ok", g.migration_matrices())
          except Exception as e:
              ir = ("err", type(e).__name__)
          mr = drv.call("migmat", payload)
          chk.case(payload, nontrivial=len(g.migrations) > 0)
          chk.count("migrations_%d" % min(len(g.migrations), 6))
          rep = dict(op="migration_matrices", graph=payload, label=label, impl=repr(ir), model=repr(mr))
          bad = None
          if ir[0] == "err":
              bad = ("migmat:raises:" + ir[1], "migration_matrices raised on a valid graph")
          else:
              bad = spec_check(g, ir[1][0], ir[1][1])
          if bad:
              chk.violation(bad[0], bad[1], rep)
          same = label.endswith("|huge-int-times") or (ir[0] == mr[0] and (ir[0] == "err" and ir[1] == mr[1]
                                      or ir[0] == "ok" and wire.deep_eq([ir[1][0], ir[1][1]], mr[1])))
          if not same:
              chk.disagreements += 1
              chk.unproven("migmat:correspondence", "implementation and proved model differ", rep)
          if ir[0] == "ok":
              chk.sample(dict(graph=label, demes=len(g.demes), migrations=len(g.migrations),
                              end_times=[repr(t) for t in ir[1][1]]))
    drv.close()
    return chk.finish("proof", nobl, ndis, axioms, RULE,
                      explanation="theorems of coq/Props/C12.v re-checked; Model/MigMat.v (extracted) compared with "
                                  "Graph.migration_matrices exactly; pointwise statement evaluated on the implementation's matrices")


def replay(chk, path):
    import demes
    r = json.load(open(path))["replay"]
    d = dict(r["graph"])
    d.pop("_index", None)
    g = demes.Graph.fromdict(d)
    mm, ets = g.migration_matrices()
    bad = spec_check(g, mm, ets)
    print("property:", bad or "holds")
    return 1 if bad else 0
