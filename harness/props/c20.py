"""C20: the work done to resolve, convert and serialise grows polynomially.
Deterministic executed-line counts (sys.settrace over /repo/demes/*.py) of each public operation on
ten model families at growing sizes; the growth exponent is estimated from the two largest sizes and
compared with a low-degree bound; a count budget stops runaway cases; for six operations the counts are
also compared with the cost model of coq/Model/Steps.v (proved polynomial): lines <= K * (steps + 1), and the
ratio lines/steps may not grow with the model size.  coq/Props/C20.v holds the
theorem side: the subset search of simplification examines every subset larger than the largest
clique (an exponential lower bound on rings / paths / stars that share one rate)."""
import json
import math
import sys
import time
import warnings

import common

RULE = ("cases are (operation, family, size): operations fromdict, asdict, asdict_simplified, migration_matrices, in_generations, "
        "to_ms, dumps(yaml, simplified), dumps(json, resolved), discrete_demographic_events; families islands (clique, one rate), a clique plus one or two leftover migrations of the same rate, two cliques joined by one migration, star and clique with rates that change once, chains and fans of same-time pulses, ring, "
        "path, star (one shared rate), ring with distinct rates, ancestry chain, admixture ladder, dense ancestry, many epochs, many pulses, two-rate clique-with-holes, "
        "binary split tree; sizes 2..12 step 2 (every family), 16, 24, 32 where the count stays under the budget; non-trivial = size "
        ">= 6; distinct by triple")

BUDGET = 3_000_000
MAX_DEGREE = 4.2
# cost model (coq/Model/Steps.v, polynomial by coq/Proofs/StepsProofs.v): executed lines <= K * (steps + 1); K = 1.5 x the
# largest ratio seen on the unchanged tree, and the ratio may not grow with the size of the model (that would mean the
# implementation's degree exceeds the model's)
STEP_K = {"fromdict": 130.0, "asdict": 90.0, "migration_matrices": 12.0, "in_generations": 6.5, "to_ms": 50.0, "events": 32.0}
RATIO_GROWTH = 1.6


def families():
    def demes_n(n):
        return [dict(name="d%d" % i, epochs=[dict(start_size=100 + i)]) for i in range(n)]

    def islands(n):
        return dict(time_units="generations", demes=demes_n(n), migrations=[dict(demes=["d%d" % i for i in range(n)], rate=1e-4)] if n > 1 else [])

    def ring(n, distinct=False):
        ms = []
        for i in range(n):
            j = (i + 1) % n
            if i != j:
                r = 1e-4 * (1 + i) if distinct else 1e-4
                ms.append(dict(source="d%d" % i, dest="d%d" % j, rate=r))
                if n > 2:
                    ms.append(dict(source="d%d" % j, dest="d%d" % i, rate=r))
        seen, out = set(), []
        for m in ms:
            k = (m["source"], m["dest"])
            if k not in seen:
                seen.add(k); out.append(m)
        return dict(time_units="generations", demes=demes_n(n), migrations=out)

    def path(n):
        ms = []
        for i in range(n - 1):
            ms += [dict(source="d%d" % i, dest="d%d" % (i + 1), rate=1e-4), dict(source="d%d" % (i + 1), dest="d%d" % i, rate=1e-4)]
        return dict(time_units="generations", demes=demes_n(n), migrations=ms)

    def star(n):
        ms = []
        for i in range(1, n):
            ms += [dict(source="d0", dest="d%d" % i, rate=1e-5), dict(source="d%d" % i, dest="d0", rate=1e-5)]
        return dict(time_units="generations", demes=demes_n(n), migrations=ms)

    def chain(n):
        ds = [dict(name="d0", epochs=[dict(start_size=100, end_time=10 * n)])]
        for i in range(1, n):
            ds.append(dict(name="d%d" % i, ancestors=["d%d" % (i - 1)], epochs=[dict(start_size=100, end_time=10 * (n - i))]))
        return dict(time_units="generations", demes=ds)

    def epochs(n):
        return dict(time_units="generations", demes=[dict(name="A", epochs=[dict(start_size=100 + i, end_time=10 * (n - 1 - i)) for i in range(n)])])

    def pulses(n):
        return dict(time_units="generations", demes=demes_n(2),
                    pulses=[dict(sources=["d0"], dest="d1", time=1 + i, proportions=[0.01]) for i in range(n)])

    def holes(n):
        ms = []
        for i in range(n):
            for j in range(n):
                if i != j and (i + j) % 3 != 0:
                    ms.append(dict(source="d%d" % i, dest="d%d" % j, rate=1e-5 if (i * j) % 2 else 2e-5))
        return dict(time_units="generations", demes=demes_n(n), migrations=ms)

    def tree(n):
        ds = [dict(name="d0", epochs=[dict(start_size=100, end_time=100)])]
        for i in range(1, n):
            par = (i - 1) // 2
            ds.append(dict(name="d%d" % i, ancestors=["d%d" % par], start_time=100 / (1 + math.floor(math.log2(i + 1))),
                           epochs=[dict(start_size=100, end_time=(100 / (2 + math.floor(math.log2(i + 1))) if 2 * i + 1 < n else 0))]))
        ds[0]["epochs"][0]["end_time"] = 100 / 2 if n > 1 else 0
        return dict(time_units="generations", demes=ds)

    def ladder(n):
        ds = []
        for i in range(n):
            anc = ["d%d" % j for j in (i - 1, i - 2) if j >= 0]
            d = dict(name="d%d" % i, epochs=[dict(start_size=100)])
            if anc:
                d.update(ancestors=anc, start_time=10.0 * (n - i), proportions=[1.0] if len(anc) == 1 else [0.5, 0.5])
            ds.append(d)
        return dict(time_units="generations", demes=ds)

    def dense_ancestry(n):
        ds = []
        for i in range(n):
            anc = ["d%d" % j for j in range(max(0, i - 3), i)]
            d = dict(name="d%d" % i, epochs=[dict(start_size=100)])
            if anc:
                k = len(anc)
                d.update(ancestors=anc, start_time=10.0 * (n - i), proportions=[1.0 / k] * k)
            ds.append(d)
        return dict(time_units="generations", demes=ds)

    def merger(n):
        # one deme with n - 1 ancestors (a many-way admixture), every ancestor living on
        k = max(n - 1, 1)
        ds = [dict(name="d%d" % i, epochs=[dict(start_size=100 + i)]) for i in range(k)]
        ds.append(dict(name="m", ancestors=["d%d" % i for i in range(k)], proportions=[1.0 / k] * k, start_time=50,
                       epochs=[dict(start_size=500)]))
        return dict(time_units="generations", demes=ds)

    def multi_source_pulse(n):
        # one pulse with n - 1 sources
        k = max(n - 1, 1)
        return dict(time_units="generations", demes=demes_n(k + 1),
                    pulses=[dict(sources=["d%d" % i for i in range(k)], dest="d%d" % k, time=10, proportions=[0.5 / k] * k)])

    def pulse_chain(n):
        # pulses d0 -> d1 -> d2 -> ... all at one time
        return dict(time_units="generations", demes=demes_n(n),
                    pulses=[dict(sources=["d%d" % i], dest="d%d" % (i + 1), time=10, proportions=[0.01]) for i in range(n - 1)])

    def pulse_fan(n):
        # many pulses into one deme and out of one deme at one time
        return dict(time_units="generations", demes=demes_n(n),
                    pulses=[dict(sources=["d0"], dest="d%d" % i, time=10, proportions=[0.01]) for i in range(1, n)]
                    + [dict(sources=["d%d" % i], dest="d0", time=20, proportions=[0.5 / n]) for i in range(1, n)])

    def star_two_periods(n):
        # every spoke sends migrants to the hub in two periods with different rates; the per-period totals are valid
        # (0.6 and 0.5) but the rates summed over all time exceed 1
        ms = []
        for i in range(1, n):
            w = 1 + 0.01 * i / n          # distinct rates: the simplification search (F15) is not what this family is about
            ms += [dict(source="d%d" % i, dest="d0", rate=0.6 * w / max(n - 1, 1), end_time=50),
                   dict(source="d%d" % i, dest="d0", rate=0.5 * w / max(n - 1, 1), start_time=50)]
        return dict(time_units="generations", demes=demes_n(n), migrations=ms)

    def clique_two_periods(n):
        ms = []
        for i in range(n):
            for j in range(n):
                if i != j:
                    ms += [dict(source="d%d" % i, dest="d%d" % j, rate=0.6 / max(n - 1, 1), end_time=50),
                           dict(source="d%d" % i, dest="d%d" % j, rate=0.5 / max(n - 1, 1), start_time=50)]
        return dict(time_units="generations", demes=demes_n(n), migrations=ms)

    def continent_islands(n, both=False):
        # an (n-1)-way symmetric block plus one (or a pair of) leftover migration(s) at the same rate and window
        ms = [dict(demes=["d%d" % i for i in range(1, n)], rate=1e-4)] if n > 2 else []
        ms.append(dict(source="d0", dest="d1", rate=1e-4))
        if both:
            ms.append(dict(source="d1", dest="d0", rate=1e-4))
        return dict(time_units="generations", demes=demes_n(n), migrations=ms)

    def two_cliques(n):
        # two symmetric blocks of the same rate joined by one directed migration of that rate
        a, b = ["d%d" % i for i in range(n // 2)], ["d%d" % i for i in range(n // 2, n)]
        ms = [dict(demes=x, rate=1e-4) for x in (a, b) if len(x) > 1] + [dict(source=a[0], dest=b[0], rate=1e-4)]
        return dict(time_units="generations", demes=demes_n(n), migrations=ms)

    return {"continent-islands": continent_islands, "continent-islands-both": lambda n: continent_islands(n, True), "two-cliques-bridge": two_cliques,
            "pulse-chain-same-time": pulse_chain, "pulse-fan-same-time": pulse_fan, "star-two-periods": star_two_periods, "clique-two-periods": clique_two_periods, "ladder": ladder, "dense-ancestry": dense_ancestry, "merger": merger, "multi-source-pulse": multi_source_pulse, "islands": islands, "ring": ring, "ring-distinct": lambda n: ring(n, True), "path": path, "star": star,
            "chain": chain, "epochs": epochs, "pulses": pulses, "holes": holes, "tree": tree}


class Counter:
    def __init__(self, budget):
        self.n = 0
        self.budget = budget
        self.over = False

    def tracer(self, frame, event, arg):
        if not frame.f_code.co_filename.startswith(common.REPO + "/demes/"):
            return None
        return self.local

    def local(self, frame, event, arg):
        if event == "line":
            self.n += 1
            if self.n > self.budget:
                self.over = True
                raise TimeoutError("line budget exceeded")
        return self.local


def count(fn, budget=BUDGET):
    c = Counter(budget)
    sys.settrace(c.tracer)
    try:
        with warnings.catch_warnings():
            warnings.simplefilter("ignore")
            fn()
    except TimeoutError:
        pass
    except Exception:
        sys.settrace(None)
        return None, False
    finally:
        sys.settrace(None)
    return c.n, c.over


def run(chk):
    import demes
    import gen
    import wire
    nobl, ndis, axioms = common.proof_stage(chk)
    if ndis == 0:
        return chk.finish("other", nobl, ndis, axioms, RULE)
    drv = wire.Driver()
    fams = families()
    ratio_stats = {}
    sizes = [2, 4, 6, 8, 10, 12] + ([16, 24, 32] if True else [])
    if chk.tier == "thorough":
        sizes += [48, 64]
    table = {}
    for fname, mk in fams.items():
        graphs = {}
        build_series = []
        for n in sizes:
            doc = mk(n)
            # building the graph is itself a measured fromdict: a runaway resolution must not hang the check
            box = {}

            def build():
                box["g"] = demes.Graph.fromdict(doc)
            c, over = count(build)
            if c is None:
                chk.count("family_rejected_%s_%d" % (fname, n))
                continue
            build_series.append((n, c, over))
            if over or "g" not in box:
                break
            graphs[n] = (doc, box["g"])
        if build_series and build_series[-1][2]:
            done = [x for x in build_series if not x[2]]
            slope_done = (math.log(max(done[-1][1], 1) / max(done[-2][1], 1)) / math.log(done[-1][0] / done[-2][0])) if len(done) >= 2 else 99.0
            if not (slope_done <= MAX_DEGREE and len(done) >= 2 and done[-1][0] >= 24):
                chk.violation("cost:superpolynomial:fromdict:%s" % fname,
                              "fromdict on family %s: exceeds %d executed lines at %d demes (growth exponent %.1f over the completed sizes)"
                              % (fname, BUDGET, build_series[-1][0], slope_done),
                              dict(operation="fromdict", family=fname, series=build_series, slope=round(slope_done, 2)))
        ops = {
            "fromdict": lambda d, g: demes.Graph.fromdict(d),
            "asdict": lambda d, g: g.asdict(),
            "asdict_simplified": lambda d, g: g.asdict_simplified(),
            "migration_matrices": lambda d, g: g.migration_matrices(),
            "in_generations": lambda d, g: g.in_generations(),
            "to_ms": lambda d, g: demes.to_ms(g, N0=100),
            "dumps_yaml_simplified": lambda d, g: demes.dumps(g),
            "dumps_json_resolved": lambda d, g: demes.dumps(g, format="json", simplified=False),
            "events": lambda d, g: g.discrete_demographic_events(),
        }
        steps = {}
        for n, (d, g) in graphs.items():
            try:
                steps[n] = drv.call("steps", gen.graph_payload(g))
            except Exception as e:
                chk.unproven("cost:steps-model", "the cost model could not be evaluated", dict(family=fname, size=n, error=repr(e)))
        for oname, op in ops.items():
            series = []
            for n in sizes:
                if n not in graphs:
                    continue
                if series and series[-1][2]:
                    break          # already over budget at a smaller size
                d, g = graphs[n]
                c, over = count(lambda: op(d, g))
                if c is None:
                    break
                series.append((n, c, over))
                chk.case([oname, fname, n], nontrivial=n >= 6)
            table["%s/%s" % (oname, fname)] = series
            if oname in STEP_K:
                rs = [(n, c / (steps[n][oname] + 1.0), c, steps[n][oname]) for n, c, ov in series if not ov and n in steps]
                for n, r, c, st in rs:
                    ratio_stats.setdefault(oname, []).append(r)
                    if r > STEP_K[oname]:
                        chk.unproven("cost:exceeds-model:%s:%s" % (oname, fname),
                                      "%s on family %s at size %d executes %d lines, more than %.1f x the %d steps of the proved-polynomial "
                                      "cost model" % (oname, fname, n, c, STEP_K[oname], st),
                                      dict(correspondence="executed lines of %s <= %.1f * (coq/Model/Steps.v steps_%s + 1)" % (oname, STEP_K[oname], oname),
                                           theorem="coq/Props/C20.v: C20_steps_in_generations_linear etc.", operation=oname, family=fname, size=n, lines=c, steps=st,
                                           ratio=round(r, 2), bound=STEP_K[oname]))
                        break
                mid = [r for n, r, _, _ in rs if 8 <= n < rs[-1][0]] if rs else []
                if mid and rs[-1][0] >= 16 and rs[-1][1] > RATIO_GROWTH * max(mid):
                    chk.unproven("cost:outgrows-model:%s:%s" % (oname, fname),
                                  "%s on family %s: executed lines per model step grow with the size (%.2f at size %d against at most %.2f "
                                  "at sizes 8..%d): the implementation's degree exceeds the proved-polynomial cost model's"
                                  % (oname, fname, rs[-1][1], rs[-1][0], max(mid), rs[-2][0]),
                                  dict(correspondence="executed lines of %s per step of coq/Model/Steps.v steps_%s do not grow with the size" % (oname, oname),
                                       theorem="coq/Props/C20.v: C20_steps_in_generations_linear etc.", operation=oname, family=fname,
                                       ratios=[(n, round(r, 2)) for n, r, _, _ in rs]))
            if len(series) < 3:
                continue
            over = series[-1][2]
            (n1, c1, _), (n2, c2, _) = series[-2], series[-1]
            slope = math.log(max(c2, 1) / max(c1, 1)) / math.log(n2 / n1)
            if over and len(series) >= 4:
                # the budget only stops the measurement; whether the growth is polynomial is judged on the completed sizes
                # (fromdict on n islands has n(n-1) migrations and compares each with all earlier ones: degree 4 in n,
                # 2 in the number of migrations, and passes the budget at n = 48 without being superpolynomial)
                (n1, c1, _), (n2, c2, _) = series[-3], series[-2]
                slope_done = math.log(max(c2, 1) / max(c1, 1)) / math.log(n2 / n1)
                fac = [b[1] / a[1] for a, b in zip(series[:-1], series[1:-1]) if a[1] > 0 and b[0] - a[0] == 2]
                if slope_done <= MAX_DEGREE and n2 >= 24:
                    over = False
                    slope = slope_done
                    chk.count("budget_reached_at_polynomial_growth")
            # successive growth factors per +2 demes at small sizes (exponential growth shows as a constant factor > 1)
            small = [(n, c) for n, c, _ in series if n <= 12]
            factors = [b[1] / a[1] for a, b in zip(small, small[1:]) if a[1] > 0]
            rep = dict(operation=oname, family=fname, series=series, slope=round(slope, 2), factors=[round(f, 2) for f in factors])
            if over or slope > MAX_DEGREE:
                chk.violation("cost:superpolynomial:%s:%s" % (oname, fname),
                              "%s on family %s: %s" % (oname, fname,
                                                       "exceeds %d executed lines at %d demes" % (BUDGET, series[-1][0]) if over
                                                       else "growth exponent %.1f between sizes %d and %d" % (slope, n1, n2)), rep)
            chk.count("series_ok" if not (over or slope > MAX_DEGREE) else "series_superpolynomial")
    drv.close()
    chk.extra["line_counts"] = {k: v for k, v in table.items()}
    chk.extra["lines_per_model_step"] = {o: dict(min=round(min(r), 2), max=round(max(r), 2), bound=STEP_K[o]) for o, r in ratio_stats.items()}
    chk.sample(dict(series="asdict_simplified/ring", counts=table.get("asdict_simplified/ring")))
    chk.sample(dict(series="fromdict/islands", counts=table.get("fromdict/islands")))
    return chk.finish("other", nobl, ndis, axioms, RULE,
                      explanation="executed-line counts of each operation on each family at sizes up to 32 (64 in thorough), growth exponent from the two "
                                  "largest sizes compared with degree %.1f, with a budget of %d lines; exponential behaviour of the subset search in "
                                  "asdict_simplified (and everything that prints the simplified form) is a known finding, with a proved lower bound in coq/Props/C20.v"
                                  % (MAX_DEGREE, BUDGET))


def replay(chk, path):
    r = json.load(open(path))["replay"]
    print(r["operation"], r["family"], r["series"])
    return 0
