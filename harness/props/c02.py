"""C02: resolution fills in omitted fields as the specification says.
Oracles: (1) the proved model coq/Model/Resolve.v (extracted), compared exactly;
(2) metamorphic: equivalent spellings of one model resolve to the identical dictionary,
through all entry routes (dict, YAML text, JSON text, Builder) and under object sharing."""
import copy
import io
import json
import math
import random
import warnings

import ruamel.yaml

import common
import gen
import graphs
import validity
import wire

RULE = ("cases are documents: each generated explicit model is re-spelt (inferable fields omitted at random, "
        "common values hoisted into deme-level / top-level defaults, integral numbers flipped between int and "
        "float, one symmetric migration group vs its hand expansion) and sent through Graph.fromdict, YAML text, "
        "JSON text and Builder; plus variants in which sub-objects are shared by reference (same Python object, "
        "YAML anchors/aliases); non-trivial = at least one field omitted or defaulted that resolution had to fill; "
        "distinct by document")


def resolve(doc):
    import demes
    with warnings.catch_warnings():
        warnings.simplefilter("ignore")
        try:
            return ("ok", demes.Graph.fromdict(doc))
        except Exception as e:
            return ("err", type(e).__name__)


def count_fields(doc):
    return sum(1 for _ in gen._paths(doc))


def to_yaml(doc):
    s = io.StringIO()
    y = ruamel.yaml.YAML(typ="safe")
    y.default_flow_style = False
    y.sort_base_mapping_type_on_output = False
    y.dump(doc, s)
    return s.getvalue()


def jsonable(doc):
    d = copy.deepcopy(doc)
    for dm in d.get("demes", []):
        if isinstance(dm.get("start_time"), float) and math.isinf(dm["start_time"]):
            dm["start_time"] = "Infinity"
    for m in d.get("migrations", []):
        if isinstance(m.get("start_time"), float) and math.isinf(m["start_time"]):
            m["start_time"] = "Infinity"
    for k in ("deme", "migration"):
        dd = d.get("defaults", {}).get(k, {})
        if isinstance(dd.get("start_time"), float) and math.isinf(dd["start_time"]):
            dd["start_time"] = "Infinity"
    return d


def via_builder(doc):
    import demes
    b = demes.Builder(description=doc.get("description"), time_units=doc["time_units"],
                      generation_time=doc.get("generation_time"), doi=doc.get("doi"),
                      defaults=doc.get("defaults"), metadata=doc.get("metadata"))
    for dm in doc["demes"]:
        kw = {k: v for k, v in dm.items() if k != "name"}
        b.add_deme(dm["name"], **kw)
    for m in doc.get("migrations", []):
        b.add_migration(**m)
    for p in doc.get("pulses", []):
        b.add_pulse(**p)
    return b.resolve()


def share(rng, doc):
    """A copy of doc in which equal sub-objects are one Python object (when possible)."""
    d = copy.deepcopy(doc)
    pools = {}
    shared = 0

    def walk(x):
        nonlocal shared
        if isinstance(x, dict):
            for k in list(x):
                x[k] = walk(x[k])
        elif isinstance(x, list):
            for i in range(len(x)):
                x[i] = walk(x[i])
        if isinstance(x, (dict, list)) and x:
            key = json.dumps(x, sort_keys=True, default=repr)
            if key in pools and rng.random() < 0.8:
                shared += 1
                return pools[key]
            pools[key] = x
        return x
    for k in ("demes", "migrations", "pulses", "defaults"):
        if k in d:
            d[k] = walk(d[k])
    return d, shared


def epochs_omitted_family(rng):
    """(explicit, spelt) pairs in which several demes omit `epochs` altogether and take their single epoch from the
    top-level epoch defaults, from their own deme-level epoch defaults, or from both (the deme-level ones winning
    field by field) -- with effective defaults that differ from deme to deme, in every order of the demes."""
    n = rng.randint(2, 5)
    names = ["a", "b", "c", "d", "e"][:n]
    T = rng.choice([100, 250.0, 1000])
    top = dict(start_size=rng.choice([100, 150.5, 3000]), selfing_rate=rng.choice([0, 0.25]))
    if rng.random() < 0.5:
        top["cloning_rate"] = rng.choice([0.1, 0.5])
    exp = dict(description="", time_units="generations", generation_time=1, doi=[], metadata={}, demes=[], migrations=[], pulses=[])
    spelt = dict(time_units="generations", defaults=dict(epoch=dict(top)), demes=[])
    for i, nm in enumerate(names):
        own = {}
        mode = rng.choice(["top", "own", "both", "both"]) if i else rng.choice(["top", "both"])
        if mode in ("own", "both"):
            own["start_size"] = rng.choice([200, 77.5, 12345]) + i
            if rng.random() < 0.5:
                own["selfing_rate"] = rng.choice([0.5, 0.125])
        if mode == "own" or rng.random() < 0.3:
            own["end_time"] = 0 if i else rng.choice([0, 10])
        if i and rng.random() < 0.4:
            own["end_size"] = own.get("start_size", top["start_size"]) * rng.choice([2, 0.5])
        eff = dict(top)
        eff.update(own)
        start = float("inf") if i == 0 else T
        ss = eff["start_size"]
        es = eff.get("end_size", ss)
        exp["demes"].append(dict(name=nm, description="", start_time=start, ancestors=[] if i == 0 else [names[0]],
                                 proportions=[] if i == 0 else [1.0],
                                 epochs=[dict(end_time=eff.get("end_time", 0), start_size=ss, end_size=es,
                                              size_function="constant" if ss == es else "exponential",
                                              selfing_rate=eff.get("selfing_rate", 0), cloning_rate=eff.get("cloning_rate", 0))]))
        dm = dict(name=nm)
        if i:
            dm.update(start_time=T, ancestors=[names[0]])
        if own:
            dm["defaults"] = dict(epoch=own)
        spelt["demes"].append(dm)
    # the root must outlive its descendants' start
    if exp["demes"][0]["epochs"][0]["end_time"] >= T:
        return None
    if rng.random() < 0.5:
        k = rng.randrange(1, n)
        perm = [0] + rng.sample(range(1, n), n - 1)
        exp["demes"] = [exp["demes"][j] for j in perm]
        spelt["demes"] = [spelt["demes"][j] for j in perm]
    return exp, spelt


def run(chk):
    import demes
    nobl, ndis, axioms = common.proof_stage(chk)
    if ndis == 0:
        return chk.finish("proof", nobl, ndis, axioms, RULE)
    drv = wire.Driver()
    rng = random.Random(chk.seed + 2)
    n = 150 if chk.tier == "quick" else 900
    made = 0
    while made < n:
        base = gen.gen_model(rng)
        if rng.random() < 0.2:
            # sizes that differ by less than any closeness tolerance are still different sizes: the inferred size
            # function is "exponential", not "constant"
            for dm in base["demes"]:
                for j, ep in enumerate(dm["epochs"]):
                    if not (j == 0 and math.isinf(dm["start_time"])) and rng.random() < 0.5:
                        ep["end_size"] = float(ep["start_size"]) * rng.choice([1 + 1e-10, 1 - 1e-12, 1 + 2.0 ** -52])
                        if ep["end_size"] != ep["start_size"] and ep["size_function"] == "constant":
                            ep["size_function"] = "exponential"
        r0 = resolve(base)
        if r0[0] != "ok":
            continue
        made += 1
        hdm, exp = gen.with_symmetric(rng, base)
        rexp = resolve(exp)
        if rexp[0] != "ok":
            hdm, exp, rexp = base, base, r0
        want = rexp[1].asdict()
        variants = [("explicit", exp), ("symmetric", hdm)]
        for i in range(3):
            variants.append(("respell", gen.respell(rng, rng.choice([exp, hdm]), p=rng.choice([0.3, 0.6, 1.0]))))
        for i in range(2):
            variants.append(("defaults", gen.hoist_defaults(rng, gen.respell(rng, rng.choice([exp, hdm]), p=0.4))))
        variants.append(("keyorder", gen.shuffle_keys(rng, rng.choice([v for _, v in variants]))))
        nfull = count_fields(exp)
        for kind, v in variants:
            chk.case(v, nontrivial=count_fields(v) < nfull or "defaults" in v or kind in ("symmetric", "keyorder"))
            chk.count("variant_" + kind)
            rep = dict(op="fromdict", document=v, kind=kind, reference=exp)
            r = resolve(v)
            if r[0] != "ok":
                chk.violation("resolve:equivalent-spelling-rejected:" + kind,
                              "an equivalent spelling (%s) of an accepted model is rejected with %s" % (kind, r[1]), rep)
                continue
            got = r[1].asdict()
            if not wire.deep_eq(got, want):
                chk.violation("resolve:equivalent-spelling-differs:" + kind,
                              "an equivalent spelling (%s) resolves to a different dictionary" % kind,
                              dict(rep, got=got, want=want))
            mr = drv.call("fromdict", v)
            if not (mr[0] == "ok" and graphs.payload_eq(r[1], mr[1])):
                chk.disagreements += 1
                chk.unproven("resolve:correspondence", "implementation and proved model resolve differently",
                             dict(rep, impl=gen.graph_payload(r[1]), model=mr))
            # entry routes
            try:
                routes = {"yaml": demes.loads(to_yaml(v)).asdict(),
                          "json": demes.loads(json.dumps(jsonable(v)), format="json").asdict(),
                          "json-as-yaml": demes.loads(json.dumps(jsonable(v))).asdict(),
                          "builder": via_builder(copy.deepcopy(v)).asdict()}
            except Exception as e:
                chk.violation("resolve:route-rejects", "an entry route rejects a document Graph.fromdict accepts",
                              dict(rep, error=repr(e)))
                routes = {}
            for rk, rv in routes.items():
                chk.count("route_" + rk)
                if not wire.deep_eq(rv, got):
                    chk.violation("resolve:route-differs:" + rk, "route %s resolves differently from the dict route" % rk,
                                  dict(rep, route=rk, got=rv, want=got))
            # sharing
            sv, nshared = share(rng, v)
            if nshared:
                chk.count("shared_docs")
                for how, res in (("python-object", lambda: resolve(sv)),
                                 ("yaml-alias", lambda: ("ok", demes.loads(to_yaml(sv))))):
                    try:
                        rs = res()
                    except Exception as e:
                        rs = ("err", type(e).__name__)
                    if rs[0] != "ok":
                        chk.violation("resolve:shared-subobject-rejected",
                                      "a document whose repeated sub-objects are shared by reference (%s) is rejected (%s)"
                                      % (how, rs[1]), dict(rep, how=how, yaml=to_yaml(sv)[:2000]))
                    elif not wire.deep_eq(rs[1].asdict(), got):
                        chk.violation("resolve:shared-subobject-differs",
                                      "a document whose repeated sub-objects are shared by reference (%s) resolves differently"
                                      % how, dict(rep, how=how, yaml=to_yaml(sv)[:2000], got=rs[1].asdict(), want=got))
        chk.sample(dict(kind=variants[2][0], document=variants[2][1]), limit=3)
    # demes that omit `epochs` altogether, with effective epoch defaults that differ from deme to deme
    for _ in range(40 if chk.tier == "quick" else 300):
        pair = epochs_omitted_family(rng)
        if pair is None:
            continue
        exp, v = pair
        rexp = resolve(exp)
        if rexp[0] != "ok":
            continue
        want = rexp[1].asdict()
        chk.case(v, nontrivial=True)
        chk.count("variant_epochs_omitted")
        rep = dict(op="fromdict", document=v, kind="epochs-omitted", reference=exp)
        outs = {"dict": lambda: resolve(copy.deepcopy(v)), "yaml": lambda: ("ok", demes.loads(to_yaml(v))),
                "builder": lambda: ("ok", via_builder(copy.deepcopy(v)))}
        for rk, f in outs.items():
            try:
                r = f()
            except Exception as e:
                r = ("err", type(e).__name__)
            if r[0] != "ok":
                chk.violation("resolve:equivalent-spelling-rejected:epochs-omitted",
                              "a document whose demes omit `epochs` and rely on epoch defaults is rejected with %s (route %s)"
                              % (r[1], rk), rep)
            elif not wire.deep_eq(r[1].asdict(), want):
                chk.violation("resolve:equivalent-spelling-differs:epochs-omitted",
                              "demes that omit `epochs` do not each get their own effective epoch defaults (route %s)" % rk,
                              dict(rep, route=rk, got=r[1].asdict(), want=want))
        r = resolve(copy.deepcopy(v))
        mr = drv.call("fromdict", v)
        if r[0] == "ok" and not (mr[0] == "ok" and graphs.payload_eq(r[1], mr[1])):
            chk.disagreements += 1
            chk.unproven("resolve:correspondence", "implementation and proved model resolve differently",
                         dict(rep, impl=gen.graph_payload(r[1]), model=mr))
    drv.close()
    return chk.finish("proof", nobl, ndis, axioms, RULE,
                      explanation="Model/Resolve.v (extracted) compared exactly with Graph.fromdict on every spelling; "
                                  "equivalent spellings, routes and shared sub-objects compared on the implementation")


def replay(chk, path):
    r = json.load(open(path))["replay"]
    a, b = resolve(r["document"]), resolve(r["reference"])
    print("document:", a[0], " reference:", b[0])
    if a[0] == "ok" and b[0] == "ok":
        same = wire.deep_eq(a[1].asdict(), b[1].asdict())
        print("same dictionary:", same)
        return 0 if same else 1
    return 1
