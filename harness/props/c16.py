"""C16: strict JSON, "Infinity" strings, nulls refused — against coq/Model/IO.v."""
import copy
import io
import json
import math
import os
import pathlib
import random
import shutil
import tempfile
import warnings

import ruamel.yaml

import common
import gen
import graphs
import wire
from props.c05 import compare_resolved

RULE = ("cases are (a) valid graphs (every one has an infinite deme start; many have infinite migration starts; "
        "some carry the string Infinity as a deme name, description, DOI or metadata value) dumped as JSON and read "
        "back through every loader in JSON and YAML; (b) documents with a null injected at one path (every path of "
        "the document in turn, inside and outside metadata, including inside nested lists) given to every loader; "
        "non-trivial = document has a null or an infinity; distinct by (document, entry point)")


def strict_json(text):
    def bad(c):
        raise ValueError("non-standard JSON constant " + c)
    return json.loads(text, parse_constant=bad)


def yaml_text(doc):
    s = io.StringIO()
    y = ruamel.yaml.YAML(typ="safe")
    y.sort_base_mapping_type_on_output = False
    y.dump(doc, s)
    return s.getvalue()


def loaders(tmp):
    """name -> function(text, fmt) -> dict (asdict of graph, or the asdict-level result)"""
    import demes

    def w(text, suffix):
        p = os.path.join(tmp, "doc" + suffix)
        with open(p, "w", encoding="utf-8") as f:
            f.write(text)
        return p
    L = {
        "loads": lambda t, f: demes.loads(t, format=f).asdict(),
        "load:str": lambda t, f: demes.load(w(t, "." + f), format=f).asdict(),
        "load:Path": lambda t, f: demes.load(pathlib.Path(w(t, "." + f)), format=f).asdict(),
        "load:stream": lambda t, f: demes.load(io.StringIO(t), format=f).asdict(),
        "loads_asdict": lambda t, f: demes.Graph.fromdict(demes.loads_asdict(t, format=f)).asdict(),
        "load_asdict": lambda t, f: demes.Graph.fromdict(demes.load_asdict(w(t, "." + f), format=f)).asdict(),
        "load_all": lambda t, f: [g.asdict() for g in demes.load_all(io.StringIO(t))][0],
        "cli": None,
    }
    return L


def cli_parse(text, tmp):
    """demes parse (in-process): returns asdict of the printed YAML"""
    import contextlib
    import demes
    from demes.__main__ import cli
    p = os.path.join(tmp, "cli.yaml")
    with open(p, "w", encoding="utf-8") as f:
        f.write(text)
    out = io.StringIO()
    with contextlib.redirect_stdout(out):
        cli(["parse", p])
    return demes.loads(out.getvalue()).asdict()


def infinity_variants(rng, doc):
    d = copy.deepcopy(doc)
    r = rng.random()
    if r < 0.3:
        old = d["demes"][0]["name"]
        def ren(x):
            return "Infinity" if x == old else x
        for dm in d["demes"]:
            dm["name"] = ren(dm["name"])
            dm["ancestors"] = [ren(a) for a in dm["ancestors"]]
        for m in d["migrations"]:
            m["source"], m["dest"] = ren(m["source"]), ren(m["dest"])
        for p in d["pulses"]:
            p["sources"] = [ren(s) for s in p["sources"]]
            p["dest"] = ren(p["dest"])
    if rng.random() < 0.4:
        d["description"] = "Infinity"
        d["demes"][-1]["description"] = "Infinity"
    if rng.random() < 0.4:
        d["metadata"] = {"Infinity": "Infinity", "start_time": "Infinity", "l": ["Infinity", None], "n": None,
                         "demes": [{"start_time": "Infinity"}]}
        d["doi"] = ["Infinity"]
    return d


def run(chk):
    import demes
    nobl, ndis, axioms = common.proof_stage(chk)
    if ndis == 0:
        return chk.finish("proof", nobl, ndis, axioms, RULE)
    drv = wire.Driver()
    rng = random.Random(chk.seed + 16)
    tmp = tempfile.mkdtemp(prefix="verif_c16_")
    L = loaders(tmp)
    try:
        n = 25 if chk.tier == "quick" else 110
        made = 0
        while made < n:
            base = gen.gen_model(rng, max_demes=5)
            doc = infinity_variants(rng, base)
            try:
                with warnings.catch_warnings():
                    warnings.simplefilter("ignore")
                    g = demes.Graph.fromdict(doc)
            except Exception:
                continue
            made += 1
            want = g.asdict()
            for simplified in (True, False):
                text = demes.dumps(g, format="json", simplified=simplified)
                chk.case([doc, simplified, "json"], nontrivial=True)
                rep = dict(op="dumps-json", document=doc, simplified=simplified, text=text[:3000])
                try:
                    parsed = strict_json(text)
                except ValueError as e:
                    chk.violation("json:non-standard-token", "JSON output contains a non-standard token: %s" % e, rep)
                    continue
                # where "Infinity" may appear as a start_time
                for dm, orig in zip(parsed["demes"], g.demes):
                    if math.isinf(orig.start_time) and dm.get("start_time", "Infinity") != "Infinity":
                        chk.violation("json:infinite-start-not-string", "infinite deme start_time not written as the string", rep)
                # model of the dumper side
                md = drv.call("dump_pre", True, simplified, gen.graph_payload(g))
                if not (md[0] == "ok" and wire.deep_eq(md[1], parsed)):
                    chk.disagreements += 1
                    chk.unproven("json:correspondence-dump", "model and implementation produce different JSON data", dict(rep, model=md))
                ytext = yaml_text(parsed)
                for lname, fn in L.items():
                    for fmt, t in (("json", text), ("yaml", text), ("yaml", ytext)):
                        if lname == "load_all" and fmt == "json":
                            continue
                        if lname == "cli" and (fmt == "json" or rng.random() < 0.5):
                            continue
                        try:
                            got = cli_parse(t, tmp) if lname == "cli" else fn(t, fmt)
                        except Exception as e:
                            chk.violation("json:loader-rejects:" + lname, "%s (%s) fails on JSON written by the library: %r" % (lname, fmt, e), rep)
                            continue
                        chk.count("loader_" + lname)
                        if compare_resolved(want, got):
                            chk.violation("json:loader-differs:" + lname, "%s (%s) does not read the JSON output back to the same graph" % (lname, fmt),
                                          dict(rep, loader=lname, fmt=fmt))
                # model of the loader side
                ml = drv.call("load_post", parsed)
                if not (ml[0] == "ok" and not compare_resolved(want, ml[1][0])):
                    chk.disagreements += 1
                    chk.unproven("json:correspondence-load", "model loader pipeline differs", dict(rep, model=ml))
            # "Infinity" in every place a human-written document can carry it: explicit on a migration while the
            # demes omit their start time, and in defaults.deme / defaults.migration
            def inf_to_str(d):
                d = copy.deepcopy(d)
                for dm in d.get("demes", []):
                    if isinstance(dm.get("start_time"), float) and math.isinf(dm["start_time"]):
                        dm["start_time"] = "Infinity"
                for m in d.get("migrations", []):
                    if isinstance(m.get("start_time"), float) and math.isinf(m["start_time"]):
                        m["start_time"] = "Infinity"
                for k in ("deme", "migration"):
                    dd = d.get("defaults", {}).get(k, {})
                    if isinstance(dd.get("start_time"), float) and math.isinf(dd["start_time"]):
                        dd["start_time"] = "Infinity"
                return d
            spell = gen.respell(rng, doc, p=0.8)          # root demes usually lose their start_time
            roots = [dm["name"] for dm in doc["demes"] if math.isinf(dm["start_time"])]
            variants_inf = [spell]
            if len(roots) >= 2:
                v2 = copy.deepcopy(spell)
                v2.setdefault("migrations", []).append(dict(source=roots[0], dest=roots[1], start_time=math.inf, end_time=max(
                    dm["epochs"][-1]["end_time"] for dm in doc["demes"] if dm["name"] in roots[:2]) + 1e-3, rate=1e-6))
                used = any(m.get("source") == roots[0] and m.get("dest") == roots[1] for m in spell.get("migrations", []))
                if not used:
                    variants_inf.append(v2)
            v3 = copy.deepcopy(spell)
            v3.setdefault("defaults", {}).setdefault("deme", {})["start_time"] = math.inf
            for dm in v3["demes"]:
                if dm["name"] in roots:
                    dm.pop("start_time", None)
            variants_inf.append(v3)
            v4 = copy.deepcopy(variants_inf[-2] if len(variants_inf) > 2 else spell)
            v4.setdefault("defaults", {}).setdefault("migration", {})["start_time"] = math.inf
            variants_inf.append(v4)
            for vi in variants_inf:
                try:
                    with warnings.catch_warnings():
                        warnings.simplefilter("ignore")
                        ref = demes.Graph.fromdict(copy.deepcopy(vi)).asdict()
                except Exception:
                    continue
                sv = inf_to_str(vi)
                chk.case([sv, "infinity-spelling"], nontrivial=True)
                chk.count("infinity_spellings")
                jt, yt = json.dumps(sv), yaml_text(sv)
                rep = dict(op="load-infinity-string", document=sv)
                for lname, fn in L.items():
                    if lname == "cli":
                        continue
                    for fmt, t in (("json", jt), ("yaml", yt)):
                        if lname == "load_all" and fmt == "json":
                            continue
                        try:
                            got = fn(t, fmt)
                        except Exception as e:
                            chk.violation("infinity:loader-rejects:" + lname, "%s (%s) fails on a document that spells infinity as the string: %r" % (lname, fmt, e),
                                          dict(rep, loader=lname, fmt=fmt))
                            continue
                        if compare_resolved(ref, got):
                            chk.violation("infinity:loader-differs:" + lname, "%s (%s) reads the string form differently from the number" % (lname, fmt),
                                          dict(rep, loader=lname, fmt=fmt))
                ml = drv.call("load_post", sv)
                if not (ml[0] == "ok" and not compare_resolved(ref, ml[1][0])):
                    chk.disagreements += 1
                    chk.unproven("infinity:correspondence", "model loader pipeline differs on a string-spelt infinity", dict(rep, model=ml[0]))
            # null injection: every path, one at a time
            hd = g.asdict_simplified() if rng.random() < 0.5 else g.asdict()
            hd = json.loads(json.dumps(demes.loads_asdict(demes.dumps(g, format="json", simplified=False), format="json")
                                       if False else strict_json(demes.dumps(g, format="json", simplified=rng.random() < 0.5))))
            paths = [p for p, v in gen._paths(hd) if p]
            if chk.tier == "quick":
                paths = rng.sample(paths, min(len(paths), 12))
            for p in paths:
                m = copy.deepcopy(hd)
                gen._set(m, p, None)
                if rng.random() < 0.2:
                    m2 = copy.deepcopy(hd)
                    gen._set(m2, p, [None] if rng.random() < 0.5 else [[None]])
                    variants = [m, m2]
                else:
                    variants = [m]
                for mv in variants:
                    in_meta = p[0] == "metadata"
                    chk.case([mv, "null"], nontrivial=True)
                    chk.count("null_in_metadata" if in_meta else "null_outside_metadata")
                    jt, yt = json.dumps(mv), yaml_text(mv)
                    rep = dict(op="load-null", document=mv, path=list(p))
                    mres = drv.call("load_post", mv)
                    for lname, fn in L.items():
                        for fmt, t in (("json", jt), ("yaml", yt)):
                            if lname == "load_all" and fmt == "json":
                                continue
                            if lname == "cli" and (fmt == "json" or rng.random() < 0.7):
                                continue
                            try:
                                with warnings.catch_warnings():
                                    warnings.simplefilter("ignore")
                                    got = cli_parse(t, tmp) if lname == "cli" else fn(t, fmt)
                                ok = True
                            except BaseException as e:
                                ok, got = False, type(e).__name__
                            if not in_meta and ok:
                                chk.violation("null:accepted:" + lname, "%s (%s) accepts a document with a null outside metadata at %r" % (lname, fmt, list(p)),
                                              dict(rep, loader=lname, fmt=fmt))
                            if in_meta and mv is m and len(p) > 1:
                                if not ok:
                                    chk.violation("null:metadata-rejected:" + lname, "%s (%s) rejects a null inside metadata" % (lname, fmt), dict(rep, loader=lname))
                                else:
                                    x = got["metadata"]
                                    for k in p[1:]:
                                        x = x[k]
                                    if x is not None:
                                        chk.violation("null:metadata-lost", "a null inside metadata is not preserved", dict(rep, loader=lname))
                            if (mres[0] == "ok") != ok:
                                chk.disagreements += 1
                                chk.unproven("null:correspondence", "model and %s disagree on accepting a document with a null" % lname,
                                             dict(rep, loader=lname, fmt=fmt, model=mres[0], impl=got if not ok else "ok"))
            chk.sample(dict(demes=len(g.demes), json_head=demes.dumps(g, format="json")[:200]), limit=2)
    finally:
        shutil.rmtree(tmp, ignore_errors=True)
        drv.close()
    return chk.finish("proof", nobl, ndis, axioms, RULE,
                      explanation="JSON text parsed with a strict parser; read back through load/loads/load_asdict/loads_asdict/load_all/CLI in "
                                  "JSON and YAML; a null injected at every path; Model/IO.v pipelines compared on the same documents")


def replay(chk, path):
    r = json.load(open(path))["replay"]
    print(r.get("op"), r.get("path"))
    return 0
