"""C08: a graph built from an ms command line describes the same demography."""
import json
import math
import random
import re
import warnings

import common
import gen
import gen_ms
import msparse
import semcheck
import validity
import wire

RULE = ("cases are generated ms command lines over -I -n -g -G -m -ma -eG -eg -eN -en -eM -em -ema -es -ej plus ignored "
        "options, event times drawn from a small pool (coincident times), in time order or shuffled, N0 in {1, 100, 1e4, 0.37}; "
        "each is converted, compared with the model of build_graph, and interpreted by the ms semantics of coq/Spec/MsSem.v "
        "against the returned graph; variants: ignored options removed, same-time commuting events swapped, deme names given; "
        "non-trivial = >= 2 populations and at least one event beyond size changes; distinct by (command, N0)")


def from_ms(cmd, N0, names=None):
    import demes
    with warnings.catch_warnings():
        warnings.simplefilter("ignore")
        try:
            return ("ok", demes.from_ms(cmd, N0=N0, deme_names=names))
        except Exception as e:
            return ("err", type(e).__name__)


def strip_ignored(cmd, ignored):
    if not ignored:
        return cmd
    s = " ".join(ignored)
    return (" " + cmd + " ").replace(" " + s + " ", " ").strip()


def swap_same_time(rng, drv, pc):
    """swap two adjacent same-time timed events that commute under the ms semantics
    (same state in force from that time on, same lineage movements at that time)"""
    ev = pc["events"]
    idx = [i for i in range(len(ev) - 1) if ev[i][1] == ev[i + 1][1]]
    rng.shuffle(idx)
    for i in idx[:3]:
        a, b = ev[i], ev[i + 1]
        out = dict(pc, events=ev[:i] + [b, a] + ev[i + 2:])
        t = a[1]
        s1 = drv.call("ms_state", pc, t)
        s2 = drv.call("ms_state", out, t)
        if s1[0] == "ok" and s2[0] == "ok" and wire.deep_eq(s1[1], s2[1]):
            return out
    return None


def render(pc):
    """a command line for a parsed command (used for swapped variants)"""
    out = []
    if pc["structure"]:
        out += ["-I", str(pc["npop"])] + ["0"] * pc["npop"] + ([repr(pc["irate"])] if pc["irate"] else [])
    names = {"G": "-eG", "g": "-eg", "N": "-eN", "n": "-en", "M": "-eM", "m": "-em", "s": "-es", "j": "-ej"}
    for e in pc["init"]:
        if e[0] == "ma":
            out += ["-ma"] + [("x" if r == c else repr(e[3][r][c])) for r in range(e[2]) for c in range(e[2])]
        else:
            out += ["-" + e[0]] + [repr(x) if isinstance(x, float) else str(x) for x in e[2:] if not isinstance(x, bool)]
    for e in pc["events"]:
        if e[0] == "ma":
            out += ["-ema", repr(e[1]), str(e[2])] + [("x" if r == c else repr(e[3][r][c])) for r in range(e[2]) for c in range(e[2])]
        else:
            out += [names[e[0]]] + [repr(x) if isinstance(x, float) else str(x) for x in e[1:] if not isinstance(x, bool)]
    return " ".join(out)


def popmap_of(g):
    pm = []
    for d in g.demes:
        m = re.match(r"deme(\d+)$", d.name)
        pm.append(int(m.group(1)) - 1)
    return pm


def run(chk):
    import demes
    nobl, ndis, axioms = common.proof_stage(chk)
    if ndis == 0:
        return chk.finish("translation_validation", nobl, ndis, axioms, RULE)
    drv = wire.Driver()
    rng = random.Random(chk.seed + 8)
    n = 600 if chk.tier == "quick" else 12000
    for i in range(n):
        cmd, ignored = gen_ms.gen_ms(rng)
        N0 = rng.choice([1, 100, 1e4, 0.37])
        pc, unk = msparse.parse(cmd)
        ir = from_ms(cmd, N0)
        nontriv = pc["npop"] + sum(1 for e in pc["events"] if e[0] == "s") >= 2 and any(e[0] in "mMjs" or e[0] == "ma" for e in pc["init"] + pc["events"])
        chk.case([cmd, N0], nontrivial=nontriv)
        chk.count("impl_" + (ir[0] if ir[0] == "ok" else ir[1]))
        rep = dict(op="from_ms", command=cmd, N0=N0)
        mr = drv.call("from_ms", pc, N0, None)
        if ir[0] != mr[0] or (ir[0] == "ok" and not __import__("graphs").payload_eq(ir[1], mr[1])):
            chk.disagreements += 1
            chk.unproven("from_ms:correspondence", "implementation and model of build_graph differ",
                         dict(rep, impl=ir[0] if ir[0] == "err" else gen.graph_payload(ir[1]), model=mr))
        # ignored options have no effect
        if ignored:
            ir2 = from_ms(strip_ignored(cmd, ignored), N0)
            if ir2[0] != ir[0] or (ir[0] == "ok" and ir2[1].asdict() != ir[1].asdict()):
                chk.violation("from_ms:ignored-option-matters", "removing %r changes the result" % (ignored,), rep)
        if ir[0] == "ok":
            g = ir[1]
            vb = validity.check_graph(drv, g)
            if vb:
                chk.violation("from_ms:invalid-graph", "from_ms returned an invalid graph: " + vb, rep)
            if g.time_units != "generations":
                chk.violation("from_ms:units", "result is not in generations", rep)
            # deme k is population k
            if not semcheck.near_coincident(g):
                try:
                    bad = semcheck.run(drv, g, N0, pc, popmap_of(g), rel=1e-9, abst=1e-13)
                except wire.DriverError as e:
                    bad = [("driver:" + str(e), None, None)]
                if bad:
                    kinds = sorted(set(k.split(":")[0] for k, _, _ in bad))
                    classes = []
                    if kinds == ["move"]:
                        # classify every discrepant time by the known defect of the same-time group at that time
                        tb = set(t for _, _, t in bad)
                        zero = set(e[1] * 4 * N0 for e in pc["events"] if e[0] == "s" and e[3] == 0)
                        nsplits = lambda t: sum(1 for e in pc["events"] if e[0] == "s" and math.isclose(e[1] * 4 * N0, t, rel_tol=1e-9))

                        def join_chain(t):
                            """-ej x i followed, at the same time, by -ej i j, with further movements after it"""
                            grp = [e for e in pc["events"] if e[0] in "js" and math.isclose(e[1] * 4 * N0, t, rel_tol=1e-9)]
                            for a, e in enumerate(grp):
                                if e[0] == "j":
                                    for b in range(a + 1, len(grp)):
                                        f = grp[b]
                                        if f[0] == "j" and f[2] == e[3] and b + 1 < len(grp):
                                            return True
                            return False

                        def zero_split_of_new(t):
                            """some -es at t keeps nothing, and some -es at t is applied to a population that an
                            earlier -es of the same time created (a chain of splits through new populations)"""
                            cur, created, chain = pc["npop"], set(), False
                            for e in sorted(pc["events"], key=lambda e: e[1]):
                                here = math.isclose(e[1] * 4 * N0, t, rel_tol=1e-9)
                                if e[0] == "s":
                                    if here and e[2] in created:
                                        chain = True
                                    cur += 1
                                    if here:
                                        created.add(cur)
                            return chain

                        def cls(t):
                            iszero = any(math.isclose(t, z, rel_tol=1e-9) for z in zero)
                            if iszero and zero_split_of_new(t):
                                return "split-of-new-keeps-nothing"
                            if nsplits(t) >= 2:
                                # several -es of one time (whatever they keep) whose new populations are joined crosswise: F21
                                return "several-same-time-splits"
                            if iszero:
                                return "split-keeps-nothing"
                            if join_chain(t):
                                return "join-chain"
                            return None
                        classes = sorted(set(cls(t) for t in tb), key=str)
                    if classes and None not in classes:
                        for c in classes:
                            chk.violation("from_ms:semantics:move+" + c,
                                          "the graph does not describe the command's demography: %s at t=%r (%r)" % (bad[0][0], bad[0][2], bad[0][1]),
                                          dict(rep, graph=gen.graph_payload(g), discrepancies=bad[:10]))
                        continue_ = True
                    else:
                        continue_ = False
                    if not continue_:
                        chk.violation("from_ms:semantics:" + "+".join(kinds),
                                  "the graph does not describe the command's demography: %s at t=%r (%r)" % (bad[0][0], bad[0][2], bad[0][1]),
                                  dict(rep, graph=gen.graph_payload(g), discrepancies=bad[:10]))
            # optional names are applied in population order
            if rng.random() < 0.3:
                k = len(g.demes)
                names = ["p%d" % j for j in range(k)]
                irn = from_ms(cmd, N0, names)
                want = [names[int(re.match(r"deme(\d+)$", d.name).group(1)) - 1] if int(re.match(r"deme(\d+)$", d.name).group(1)) <= k else None for d in g.demes]
                if irn[0] == "ok":
                    if [d.name for d in irn[1].demes] != want:
                        chk.violation("from_ms:names", "deme names are not applied in population order", dict(rep, names=names))
                    mrn = drv.call("from_ms", pc, N0, names)
                    if not (mrn[0] == "ok" and __import__("graphs").payload_eq(irn[1], mrn[1])):
                        chk.disagreements += 1
                        chk.unproven("from_ms:correspondence-names", "implementation and model differ with deme_names", dict(rep, names=names))
                else:
                    chk.count("names_rejected_" + irn[1])
        # order of commuting same-time options
        sw = swap_same_time(rng, drv, pc)
        if sw is not None:
            cmd2 = render(sw)
            ir3 = from_ms(cmd2, N0)
            chk.count("swapped_pairs")
            if (ir3[0] == "ok") != (ir[0] == "ok"):
                a, b = (cmd, cmd2) if ir[0] == "ok" else (cmd2, cmd)
                rej = msparse.parse(b)[0]["events"]
                after_join = False
                for x, e in enumerate(rej):
                    if e[0] == "j":
                        for f in rej[x + 1:]:
                            if f[1] == e[1] and e[2] in [y for y in f[2:4] if isinstance(y, int)]:
                                after_join = True
                # where do the two orders differ?  a same-time group with several -es is the territory of F21
                ev_a, ev_b = msparse.parse(a)[0]["events"], rej
                diff_t = set(x[1] for x, y in zip(ev_a, ev_b) if x != y)
                many_splits = bool(diff_t) and all(sum(1 for e in rej if e[0] == "s" and e[1] == t) >= 2 for t in diff_t)

                def split_into_chain(t):
                    """exactly one -es at t, and at t a population is joined into a population that is itself joined onward"""
                    js = [e for e in rej if e[0] == "j" and e[1] == t]
                    return (sum(1 for e in rej if e[0] == "s" and e[1] == t) == 1
                            and any(a[3] == b[2] for a in js for b in js if a is not b))
                one_split_chain = bool(diff_t) and all(split_into_chain(t) for t in diff_t)
                chk.violation("from_ms:order-dependent-acceptance" + (":option-after-same-time-join" if after_join else
                                                                     ":several-same-time-splits" if many_splits else
                                                                     ":split-and-join-chain" if one_split_chain else ""),
                              "two orders of commuting same-time options: one accepted, one rejected", dict(rep, accepted=a, rejected=b))
        chk.sample(dict(command=cmd, N0=N0, result=ir[0] if ir[0] == "ok" else ir[1]), limit=4)
    drv.close()
    return chk.finish("translation_validation", nobl, ndis, axioms, RULE,
                      explanation="Model/FromMs.v (extracted) compared exactly with demes.from_ms; each returned graph validated and compared with the "
                                  "ms semantics of the command (sizes, rates, lineage movements); ignored options, names, order of commuting options checked")


def replay(chk, path):
    r = json.load(open(path))["replay"]
    print(r.get("command"), r.get("N0"))
    ir = from_ms(r["command"], r["N0"])
    print(ir[0] if ir[0] == "ok" else ir)
    return 0
