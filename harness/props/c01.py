"""C01: every graph the library hands out is a valid fully-resolved model.
Every graph returned by any entry point is validated by two independent validators:
validity.check_dict (Python, from the data-model rules) and the Coq-verified checker
validb (coq/Model/Validb.v, proved equivalent to Valid in coq/Props/C01.v)."""
import copy
import io
import json
import random
import warnings

import common
import gen
import gen_ms
import graphs
import validity
import wire
from props import c02

RULE = ("cases are graphs returned by: Graph.fromdict / loads (YAML, JSON) / Builder on generated documents (explicit, "
        "re-spelt, with defaults, value-mutated at rule boundaries, structurally mutated); from_ms on generated ms command "
        "lines with N0 in {1, 100, 1e4, 0.37}; in_generations; rename_demes with injective maps to fresh names and with "
        "non-injective / non-identifier targets; non-trivial = >= 2 demes and a migration or pulse; distinct by "
        "(operation, fully-resolved dictionary)")


def run(chk):
    import demes
    nobl, ndis, axioms = common.proof_stage(chk)
    if ndis == 0:
        return chk.finish("proof", nobl, ndis, axioms, RULE)
    drv = wire.Driver()
    rng = random.Random(chk.seed + 1)
    n = 200 if chk.tier == "quick" else 4000

    def judge(op, g, inp, classify=None):
        d = g.asdict()
        chk.case([op, json.loads(json.dumps(d, default=repr))], nontrivial=len(g.demes) >= 2 and bool(g.migrations or g.pulses))
        chk.count("op_" + op)
        why = validity.check_graph(drv, g)
        if why:
            sig = "valid:%s:%s" % (op, classify(why) if classify else why.split(" ")[0])
            chk.violation(sig, "%s returned an invalid graph: %s" % (op, why), dict(op=op, input=inp, graph=gen.graph_payload(g)))

    def attempt(op, fn, inp, classify=None):
        try:
            with warnings.catch_warnings():
                warnings.simplefilter("ignore")
                g = fn()
        except Exception:
            chk.count("rejected_" + op)
            return None
        judge(op, g, inp, classify)
        return g

    made = 0
    while made < n:
        base = gen.gen_model(rng)
        made += 1
        docs = [("explicit", base)]
        docs.append(("respell", gen.respell(rng, base, p=0.6)))
        docs.append(("defaults", gen.hoist_defaults(rng, gen.respell(rng, base, p=0.3))))
        docs += [("mut-value", gen.mutate_value(rng, base)[1]) for _ in range(3)]
        docs += [("mut-struct", gen.mutate_structure(rng, base)[1]) for _ in range(2)]
        docs += [("mut-target", m) for _, m in gen.mutate_targeted(rng, base)[:8]]
        if not getattr(chk, "_families_done", False):
            chk._families_done = True
            docs += [("family", m) for _, m in gen.boundary_families(rng)]
        g0 = None
        for kind, d in docs:
            g = attempt("fromdict:" + kind, lambda: demes.Graph.fromdict(copy.deepcopy(d)), d)
            if kind == "explicit":
                g0 = g
            if g is not None and rng.random() < 0.3:
                try:
                    yt = c02.to_yaml(d)
                    attempt("loads:yaml", lambda: demes.loads(yt), d)
                    attempt("builder", lambda: c02.via_builder(copy.deepcopy(d)), d)
                except Exception:
                    pass
        if g0 is not None:
            attempt("in_generations", lambda: g0.in_generations(), base,
                    classify=lambda why: validity.float_collapse_signature(g0, g0.in_generations(), why))
            names = [d.name for d in g0.demes]
            fresh = {a: a + "_r" for a in rng.sample(names, rng.randint(1, len(names)))}
            attempt("rename:fresh", lambda: g0.rename_demes(fresh), [base, fresh])
            if len(names) >= 2:
                a, b = rng.sample(names, 2)
                attempt("rename:onto-existing", lambda: g0.rename_demes({a: b}), [base, {a: b}],
                        classify=lambda why: "duplicate-name")
            from props import c15
            for nm in c15.maps_for(rng, names, False)[-14:]:
                attempt("rename:any-map", lambda: g0.rename_demes(nm), [base, list(nm.items())],
                        classify=lambda why: "invalid-or-duplicate-name")
            attempt("rename:non-identifier", lambda: g0.rename_demes({names[0]: rng.choice(["not valid", "1x", ""])}),
                    [base, names[0]], classify=lambda why: "invalid-name")
    # documents whose demes / pulses take one list object from the top-level defaults (shared after resolution), renamed
    # with chains and swaps
    from props import c15 as _c15
    for i in range(10 if chk.tier == "quick" else 80):
        d = gen.shared_defaults_family(rng)
        gs = attempt("fromdict:shared-defaults", lambda: demes.Graph.fromdict(copy.deepcopy(d)), d)
        if gs is None:
            continue
        nms = [x.name for x in gs.demes]
        for nm in _c15.maps_for(rng, nms, False):
            attempt("rename:shared-lists", lambda: gs.rename_demes(nm), [d, list(nm.items())],
                    classify=lambda why: "invalid-or-duplicate-name")
    for i in range(n):
        cmd, _ = gen_ms.gen_ms(rng)
        N0 = rng.choice([1, 100, 1e4, 0.37])
        attempt("from_ms", lambda: demes.from_ms(cmd, N0=N0), [cmd, N0])
    chk.sample(dict(last_command=cmd))
    drv.close()
    return chk.finish("proof", nobl, ndis, axioms, RULE,
                      explanation="theorems of coq/Props/C01.v re-checked (resolve_valid for every document; validb decides Valid; "
                                  "rename preserves Valid); every returned graph validated by the extracted validb and by an independent Python validator")


def replay(chk, path):
    import demes
    r = json.load(open(path))["replay"]
    d = dict(r["graph"]); idx = d.pop("_index")
    why = validity.check_dict(d, idx)
    print(r["op"], "->", why or "valid")
    return 1 if why else 0
