"""C04: dump then load reproduces the graph exactly, in every format and style."""
import copy
import io
import json
import math
import os
import pathlib
import random
import shutil
import tempfile
import warnings

import common
import gen
import graphs
import wire
from props.c05 import compare_resolved

RULE = ("cases are (graph, format, simplified, target) with graphs carrying awkward strings (null, ~, yes, on, 1e3, "
        "0x10, .inf, Infinity, colons, #, quotes, blanks, newlines, tabs, non-ASCII BMP and astral characters) in "
        "descriptions, DOIs, metadata, and awkward numbers (-0.0, subnormals, 17-digit floats, huge exponents, ints "
        "vs floats), dumped to string / str path / Path / stream and as multi-document streams of 0..5 graphs, then "
        "loaded back; JSON text also through the YAML loader; str(graph); non-trivial = at least one awkward string or "
        "non-integral number; distinct by (dictionary, format, style)")

AWKWARD = ["null", "~", "yes", "on", "No", "true", "1e3", "0x10", "1_000", ".inf", "-.inf", ".nan", "Infinity", "NaN",
           "a: b", "# not a comment", "it's", 'say "hi"', " leading", "trailing ", "two\nlines", "tab\there",
           "\x7f", "café", "中文", " sep", "emoji \U0001F600", "[1, 2]", "{a: 1}", "- dash", "? q",
           "|", ">", "%TAG", "@at", "`tick", "!!str x", "&anchor", "*alias", "", "0", "012", "1.", "+1", "=",
           "2001-01-01", "12:30:45", "\\n literal", "﻿bom", "x" * 200,
           "first\x85second", "a\u2028b", "a\u2029b", "nbsp\xa0here", "bell\x07", "esc\x1b[0m", "del\x7fmid", "\x85", "c1\x9f",
           "zero\u200bwidth", "rtl\u202eoverride", "sur\ufffdrep", "tab\tnl\n", "cr\rlf", "\u00e9\u0301", "line1\n\nline3", "trail\n"]
NUMS = [0, 1, -0.0, 5e-324, 2.2250738585072014e-308, 0.1, 0.30000000000000004, 1 / 3, 1e22, 1e23, 1.7976931348623157e308,
        123456789012345678, 2 ** 53, 2 ** 53 + 1, 9007199254740993, 1e-7, 100.0, 1e16, 1.5e300]


def qmark(doc):
    """a string starting with '? ' inside a leaf collection (doi list, metadata mapping)"""
    def strs(v):
        if isinstance(v, str):
            yield v
        elif isinstance(v, list):
            for x in v:
                yield from strs(x)
        elif isinstance(v, dict):
            for k, x in v.items():
                yield k
                yield from strs(x)
    return any(t.startswith("? ") for t in list(strs(doc.get("doi", []))) + list(strs(doc.get("metadata", {}))))


def decorate(rng, doc):
    d = copy.deepcopy(doc)
    pick = lambda: rng.choice(AWKWARD)
    d["description"] = pick()
    d["doi"] = [s for s in (pick(), pick()) if s]
    for dm in d["demes"]:
        if rng.random() < 0.5:
            dm["description"] = pick()
    meta = {}
    for _ in range(rng.randint(0, 4)):
        k = pick() or "k"
        meta[k] = rng.choice([pick(), rng.choice(NUMS), [pick(), rng.choice(NUMS), None], {pick() or "z": rng.choice(NUMS)},
                              None, True, False])
    d["metadata"] = meta
    # awkward but valid numbers
    for dm in d["demes"]:
        for ep in dm["epochs"]:
            if rng.random() < 0.3:
                v = rng.choice([1e-300, 1 / 3, 1e22, 123456789012345678, 0.30000000000000004, 5e-324, 2 ** 53 + 1])
                if ep["start_size"] == ep["end_size"]:
                    ep["start_size"] = ep["end_size"] = v
                else:
                    ep["end_size"] = v
            if rng.random() < 0.2:
                ep["selfing_rate"] = rng.choice([-0.0, 0.0, 1e-300, 1 / 3])
    for m in d["migrations"]:
        if rng.random() < 0.3:
            m["rate"] = rng.choice([-0.0, 5e-324, 1e-17, 0.1, 1 / 3])
    return d


def run(chk):
    import demes
    nobl, ndis, axioms = common.proof_stage(chk)
    if ndis == 0:
        return chk.finish("proof", nobl, ndis, axioms, RULE)
    drv = wire.Driver()
    rng = random.Random(chk.seed + 4)
    tmp = tempfile.mkdtemp(prefix="verif_c04_")
    try:
        n = 60 if chk.tier == "quick" else 1500
        pool = []
        while len(pool) < n:
            doc = decorate(rng, gen.gen_model(rng, max_demes=5))
            if rng.random() < 0.4:
                doc = gen.near_bounds(rng, doc)
            try:
                with warnings.catch_warnings():
                    warnings.simplefilter("ignore")
                    pool.append((doc, demes.Graph.fromdict(doc)))
            except Exception:
                continue
        for _ in range(40 if chk.tier == "quick" else 600):
            fam = gen.size_return_family(rng)
            fam.setdefault("migrations", [])
            fam.setdefault("pulses", [])
            doc = decorate(rng, fam)
            try:
                pool.append((doc, demes.Graph.fromdict(doc)))
            except Exception:
                chk.count("family_rejected")
        # clique-layout families: ordered pairs that belong to a collapsible symmetric group and also carry a separate
        # migration in another interval or at another rate (what simplified output has to keep apart)
        for _ in range(60 if chk.tier == "quick" else 900):
            fam = gen.clique_family(rng, keys=rng.choice([1, 2, 2, 3]))
            try:
                with warnings.catch_warnings():
                    warnings.simplefilter("ignore")
                    pool.append((fam, demes.Graph.fromdict(fam)))
                chk.count("family_clique")
            except Exception:
                chk.count("family_rejected")
        for i, (doc, g) in enumerate(pool):
            want = g.asdict()
            for fmt in ("yaml", "json"):
                for simplified in (True, False):
                    chk.case([doc, fmt, simplified], nontrivial=True)
                    rep = dict(op="dump-load", document=doc, format=fmt, simplified=simplified)
                    try:
                        text = demes.dumps(g, format=fmt, simplified=simplified)
                    except Exception as e:
                        chk.violation("roundtrip:dump-raises:" + type(e).__name__, "dumps raised on a valid graph: %r" % e, rep)
                        continue
                    rep["text"] = text[:4000]
                    targets = {}
                    p = os.path.join(tmp, "g.%s" % fmt)
                    demes.dump(g, p, format=fmt, simplified=simplified)
                    targets["str-path"] = open(p, encoding="utf-8").read()
                    demes.dump(g, pathlib.Path(p), format=fmt, simplified=simplified)
                    targets["Path"] = open(p, encoding="utf-8").read()
                    s = io.StringIO()
                    demes.dump(g, s, format=fmt, simplified=simplified)
                    targets["stream"] = s.getvalue()
                    for tk, tv in targets.items():
                        if tv != text:
                            chk.violation("roundtrip:targets-differ", "dump to %s writes different text than dumps" % tk, rep)
                    readers = {"loads": lambda: demes.loads(text, format=fmt),
                               "load-path": lambda: demes.load(p, format=fmt),
                               "load-stream": lambda: demes.load(io.StringIO(text), format=fmt)}
                    if fmt == "json":
                        readers["json-via-yaml"] = lambda: demes.loads(text, format="yaml")
                    for rk, rf in readers.items():
                        try:
                            with warnings.catch_warnings():
                                warnings.simplefilter("ignore")
                                back = rf().asdict()
                        except Exception as e:
                            if fmt == "yaml" and qmark(doc):
                                chk.violation("roundtrip:yaml-flow-question-mark", "%s: %r" % (rk, e), dict(rep, reader=rk))
                                continue
                            chk.violation("roundtrip:load-raises:" + type(e).__name__,
                                          "%s cannot read text written by the library: %r" % (rk, e), dict(rep, reader=rk))
                            continue
                        why = compare_resolved(want, back)
                        if why:
                            sig = "roundtrip:differs"
                            if any(ord(c) > 0xFFFF for c in json.dumps(doc, ensure_ascii=False)) and rk == "json-via-yaml":
                                sig = "roundtrip:json-via-yaml-astral"
                            elif fmt == "yaml" and qmark(doc):
                                sig = "roundtrip:yaml-flow-question-mark"
                            chk.violation(sig, "%s %s simplified=%s via %s does not reproduce the graph: %s" % (fmt, "", simplified, rk, why),
                                          dict(rep, reader=rk, back=back))
                        chk.count("reader_" + rk)
            if str(g) != demes.dumps(g, format="yaml", simplified=True):
                chk.violation("roundtrip:str", "str(graph) is not its simplified YAML", dict(document=doc))
            # data-level model of dump: the dictionary handed to the text layer
            # (the model's numbers are doubles: graphs with ints beyond 2^53 are compared on the implementation only)
            big = any(isinstance(v, int) and abs(v) > 2 ** 53 for _, v in gen._paths(want))
            for js in (() if big else (True, False)):
                for simp in (True, False):
                    md = drv.call("dump_pre", js, simp, gen.graph_payload(g))
                    data = g.asdict_simplified() if simp else g.asdict()
                    if js:
                        from demes.load_dump import _stringify_infinities
                        _stringify_infinities(data)
                    if not (md[0] == "ok" and wire.deep_eq(md[1], data)):
                        chk.disagreements += 1
                        chk.unproven("roundtrip:correspondence", "model and implementation hand different data to the text layer",
                                     dict(document=doc, json=js, simplified=simp))
        # multi-document streams of 0..5 graphs
        for k in range(0, 6):
            for rep_i in range(2 if chk.tier == "quick" else 20):
                gs = [g for _, g in rng.sample(pool, k)]
                for simplified in (True, False):
                    chk.case(["multi", k, rep_i, simplified], nontrivial=k > 0)
                    s = io.StringIO()
                    demes.dump_all(gs, s, simplified=simplified)
                    p = os.path.join(tmp, "multi.yaml")
                    demes.dump_all(gs, p, simplified=simplified)
                    if open(p, encoding="utf-8").read() != s.getvalue():
                        chk.violation("roundtrip:targets-differ", "dump_all to a path differs from a stream", dict(k=k))
                    for src in (io.StringIO(s.getvalue()), p, pathlib.Path(p)):
                        try:
                            with warnings.catch_warnings():
                                warnings.simplefilter("ignore")
                                back = [x.asdict() for x in demes.load_all(src)]
                        except Exception as e:
                            chk.violation("roundtrip:yaml-flow-question-mark" if any(qmark(x.asdict()) for x in gs)
                                          else "roundtrip:load_all-raises", "load_all failed on dump_all output: %r" % e,
                                          dict(k=k, text=s.getvalue()[:3000]))
                            continue
                        if len(back) != k or any(compare_resolved(a.asdict(), b) for a, b in zip(gs, back)):
                            chk.violation("roundtrip:yaml-flow-question-mark" if any(qmark(x.asdict()) for x in gs)
                                          else "roundtrip:multi-differs", "a stream of %d graphs does not round-trip" % k,
                                          dict(k=k, text=s.getvalue()[:3000]))
                    chk.count("multi_%d" % k)
                    # the stream read lazily while other loads and dumps happen in between (two streams consumed in
                    # step; every graph dumped and loaded again before the next one is asked for)
                    if k >= 2 and not any(qmark(x.asdict()) for x in gs):
                        chk.case(["multi-interleaved", k, rep_i, simplified], nontrivial=True)
                        try:
                            with warnings.catch_warnings():
                                warnings.simplefilter("ignore")
                                it1, it2 = demes.load_all(io.StringIO(s.getvalue())), demes.load_all(p)
                                got = []
                                for a, b in zip(it1, it2):
                                    again = demes.loads(demes.dumps(a, simplified=simplified))
                                    got.append((a.asdict(), b.asdict(), again.asdict()))
                            bad = len(got) != k or any(compare_resolved(g0.asdict(), x) for g0, t in zip(gs, got) for x in t)
                        except Exception as e:
                            bad = repr(e)
                        if bad:
                            chk.violation("roundtrip:multi-interleaved", "a multi-document stream read lazily, with other loads in between, "
                                          "does not give back its graphs (%s)" % (bad if isinstance(bad, str) else "different graphs"),
                                          dict(k=k, text=s.getvalue()[:3000]))
        chk.sample(dict(description=pool[0][0]["description"], metadata=pool[0][0]["metadata"]), limit=2)
    finally:
        shutil.rmtree(tmp, ignore_errors=True)
        drv.close()
    return chk.finish("proof", nobl, ndis, axioms, RULE,
                      explanation="text written by dump/dumps/dump_all read back by load/loads/load_all (string, path, Path, stream) and "
                                  "compared exactly (no tolerance; migrations as a multiset); data handed to the text layer compared with Model/IO.v")


def replay(chk, path):
    import demes
    r = json.load(open(path))["replay"]
    g = demes.Graph.fromdict(r["document"])
    text = demes.dumps(g, format=r["format"], simplified=r["simplified"])
    fmt = "yaml" if r.get("reader") == "json-via-yaml" else r["format"]
    back = demes.loads(text, format=fmt).asdict()
    why = compare_resolved(g.asdict(), back)
    print("property:", why or "holds")
    return 1 if why else 0
