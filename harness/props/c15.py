"""C15: Graph.rename_demes against the proved model (coq/Model/Rename.v)."""
import itertools
import json
import random

import common
import gen
import graphs
import validity
import wire

RULE = ("cases are (valid graph, partial injective name map) pairs: identity, single renames, renames of all "
        "demes to fresh names, swaps, rotations / chains (A->B, B->C, C->fresh) and random injective maps "
        "onto old-or-fresh names; exhaustive over all partial injections for graphs with <= 3 demes in the "
        "thorough tier; non-trivial = at least one deme renamed; distinct by (dictionary, map)")

DRV = [None]
FRESH = ["N1", "N2", "N3", "N4", "N5", "N6", "N7", "N8", "N9"]


def maps_for(rng, names, exhaustive):
    n = len(names)
    out = [{}]
    out.append({names[0]: "N1"})
    out.append({a: a + "X" for a in names})
    if n >= 2:
        a, b = rng.sample(names, 2)
        out.append({a: b, b: a})                                   # swap
        out.append({a: b, b: "N1"})                                # chain
        out.append({b: "N1", a: b})                                # chain, other insertion order
        perm = names[:]
        rng.shuffle(perm)
        out.append(dict(zip(names, perm)))                         # permutation
        out.append({x: y for x, y in zip(names, perm[1:] + ["N2"])})
    if n >= 2:
        a, b = rng.sample(names, 2)
        out.append({a: b})                                         # onto an existing name: must be refused
    out.append({names[0]: rng.choice(["not valid", "1x", "", "a-b"])})   # not an identifier: must be refused
    # arbitrary (possibly non-injective) functions, with identity entries and keys that are not demes
    for _ in range(5):
        k = rng.randint(1, n)
        dom = rng.sample(names, k)
        m = {x: rng.choice(names + FRESH[:2] + [x, x]) for x in dom}
        if rng.random() < 0.3:
            m["not_a_deme"] = rng.choice(names + ["N9"])
        out.append(m)
    if n >= 2:
        a, b = rng.sample(names, 2)
        out.append({b: b, a: b})                                   # identity entry + collision
        out.append({a: b, b: b})
        out.append({x: x.lower() for x in names})
        out.append({x: "same" for x in names})
    for _ in range(4):
        k = rng.randint(1, n)
        dom = rng.sample(names, k)
        untouched = [x for x in names if x not in dom]
        targets = rng.sample([x for x in names + FRESH if x not in untouched], k)
        out.append(dict(zip(dom, targets)))
    if exhaustive and n <= 3:
        universe = names + FRESH[:n]
        for k in range(1, n + 1):
            for dom in itertools.permutations(names, k):
                untouched = [x for x in names if x not in dom]
                for tg in itertools.permutations([u for u in universe if u not in untouched], k):
                    out.append(dict(zip(dom, tg)))
    return out


def spec_check(g, names_map, h, before, after):
    if not wire.deep_eq(before, after):
        return ("rename:receiver-modified", "the original graph was modified")
    f = lambda x: names_map.get(x, x)
    a, b = g.asdict(), h.asdict()
    want = json.loads(json.dumps(a).replace("Infinity", "1e999"))
    for d in want["demes"]:
        d["name"] = f(d["name"])
        d["ancestors"] = [f(x) for x in d["ancestors"]]
    for m in want["migrations"]:
        m["source"], m["dest"] = f(m["source"]), f(m["dest"])
    for p in want["pulses"]:
        p["sources"] = [f(x) for x in p["sources"]]
        p["dest"] = f(p["dest"])
    if not wire.deep_eq(want, b):
        return ("rename:fields", "renamed graph is not the original with every name mapped (or a number changed)")
    new_names = [d.name for d in h.demes]
    for i, d in enumerate(h.demes):
        try:
            if h[d.name] is not d:
                return ("rename:lookup-wrong-deme", "lookup by new name returns another deme")
        except KeyError:
            return ("rename:lookup-missing", "lookup by a new name fails")
        if d.name not in h:
            return ("rename:membership-missing", "membership by a new name fails")
    for old in [d.name for d in g.demes] + FRESH:
        if old not in new_names and old in h:
            return ("rename:stale-name", "a name no longer used is still found")
    inv = {v: k for k, v in names_map.items() if k in g}
    back = h.rename_demes(inv)
    if not (wire.deep_eq(gen.graph_payload(back), before[0])):
        return ("rename:not-invertible", "renaming back does not restore the graph")
    vb = validity.check_graph(DRV[0], h)
    if vb:
        return ("rename:invalid-result", "renamed graph is invalid: " + vb)
    return None


def run(chk):
    nobl, ndis, axioms = common.proof_stage(chk)
    if ndis == 0:
        return chk.finish("proof", nobl, ndis, axioms, RULE)
    drv = wire.Driver()
    DRV[0] = drv
    rng = random.Random(chk.seed + 15)
    import demes as _demes
    extra = []
    for i in range(12 if chk.tier == "quick" else 120):
        d = gen.shared_defaults_family(rng)
        try:
            extra.append(("shared-defaults:%d" % i, d, _demes.Graph.fromdict(d)))
        except Exception as e:
            chk.count("family_rejected_" + type(e).__name__)
    for label, doc, g in list(graphs.pool(chk, 120, 1500)) + extra:
        payload = gen.graph_payload(g)
        names = [d.name for d in g.demes]
        for nm in maps_for(rng, names, chk.tier == "thorough"):
            chk.case([payload, sorted(nm.items())], nontrivial=any(k != v for k, v in nm.items()))
            before = (gen.graph_payload(g), [id(d) for d in g.demes])
            rep = dict(op="rename_demes", graph=payload, names=list(nm.items()), label=label)
            newnames = [nm.get(x, x) for x in names]
            good = len(set(newnames)) == len(newnames) and all(x.isidentifier() for x in newnames)
            try:
                h = g.rename_demes(nm)
            except Exception as e:
                if good:
                    chk.violation("rename:raises:" + type(e).__name__, "rename_demes raised for an injective map to fresh names",
                                  dict(rep, error=repr(e)))
                else:
                    chk.count("bad_map_refused")
                    mr = drv.call("rename", payload, [list(x) for x in nm.items()], [])
                    if mr[0] != "err":
                        chk.disagreements += 1
                        chk.unproven("rename:correspondence", "model accepts a map the implementation refuses", rep)
                continue
            if not good:
                chk.violation("rename:bad-map-accepted", "rename_demes returned a graph for a non-injective or non-identifier renaming",
                              dict(rep, result=gen.graph_payload(h)))
                continue
            after = (gen.graph_payload(g), [id(d) for d in g.demes])
            bad = spec_check(g, nm, h, before, after)
            if bad:
                chk.violation(bad[0], bad[1], dict(rep, result=gen.graph_payload(h)))
            probes = sorted(set(names + list(nm.values()) + FRESH[:2]))
            mr = drv.call("rename", payload, [list(x) for x in nm.items()], probes)
            impl_probe = []
            for p in probes:
                try:
                    nmx = h[p].name
                except KeyError:
                    nmx = None
                impl_probe.append([p, p in h, nmx])
            if not (mr[0] == "ok" and graphs.payload_eq(h, mr[1][0]) and impl_probe == mr[1][1]):
                chk.disagreements += 1
                chk.unproven("rename:correspondence", "implementation and proved model differ",
                             dict(rep, impl=[gen.graph_payload(h), impl_probe], model=mr))
            kind = "identity" if not nm else ("permutes-existing" if set(nm.values()) & set(names) else "fresh")
            chk.count("map_" + kind)
        chk.sample(dict(graph=label, names=names))
    drv.close()
    return chk.finish("proof", nobl, ndis, axioms, RULE,
                      explanation="theorems of coq/Props/C15.v re-checked; Model/Rename.v compared exactly (dictionary, name "
                                  "index, lookups, membership) with Graph.rename_demes; statement evaluated on the implementation")


def replay(chk, path):
    import demes
    r = json.load(open(path))["replay"]
    d = dict(r["graph"]); d.pop("_index", None)
    g = demes.Graph.fromdict(d)
    nm = dict(r["names"])
    before = (gen.graph_payload(g), [id(x) for x in g.demes])
    h = g.rename_demes(nm)
    bad = spec_check(g, nm, h, before, (gen.graph_payload(g), [id(x) for x in g.demes]))
    print("property:", bad or "holds")
    return 1 if bad else 0
