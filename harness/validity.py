"""Independent validation of graphs returned by the implementation.  Until the
verified checker (coq validb) is wired in, this re-derives the data-model rules
in Python from the graph's fully-resolved dictionary."""
import math


def _isid(s):
    return isinstance(s, str) and s.isidentifier()


def check_dict(d, index=None):
    """Returns None or a short description of the first rule broken."""
    def num(x):
        return isinstance(x, (int, float)) and not isinstance(x, bool) and x == x
    try:
        if not (isinstance(d["time_units"], str) and d["time_units"]):
            return "time_units"
        gt = d["generation_time"]
        if not (num(gt) and gt > 0 and not math.isinf(gt)):
            return "generation_time"
        if d["time_units"] == "generations" and gt != 1:
            return "generation_time != 1 in generations"
        if not isinstance(d["metadata"], dict):
            return "metadata"
        if any(not (isinstance(s, str) and s) for s in d["doi"]):
            return "doi"
        if not d["demes"]:
            return "no demes"
        seen = {}
        for dm in d["demes"]:
            nm = dm["name"]
            if not _isid(nm) or nm in seen:
                return "deme name %r invalid or duplicate" % (nm,)
            st = dm["start_time"]
            if not (num(st) and st > 0):
                return "deme start_time"
            anc = dm["ancestors"]
            if len(set(anc)) != len(anc) or nm in anc:
                return "ancestors duplicate/self"
            for a in anc:
                if a not in seen:
                    return "ancestor %s not earlier" % a
                s0, e0 = seen[a]
                if not (s0 > st >= e0):
                    return "start_time outside ancestor %s" % a
            if (len(anc) == 0) != math.isinf(st):
                return "infinite start iff no ancestors"
            pr = dm["proportions"]
            if len(pr) != len(anc):
                return "proportions length"
            if any(not (num(p) and 0 < p <= 1) for p in pr):
                return "proportion range"
            if pr and not math.isclose(sum(pr), 1.0):
                return "proportions sum"
            if not dm["epochs"]:
                return "no epochs"
            t = st
            for ep in dm["epochs"]:
                en = ep["end_time"]
                if not (num(en) and en >= 0 and not math.isinf(en) and t > en):
                    return "epoch times"
                for k in ("start_size", "end_size"):
                    if not (num(ep[k]) and ep[k] > 0 and not math.isinf(ep[k])):
                        return "epoch size"
                if ep["size_function"] not in ("constant", "exponential", "linear"):
                    return "size_function"
                if ep["size_function"] == "constant" and ep["start_size"] != ep["end_size"]:
                    return "constant with different sizes"
                if math.isinf(t) and ep["start_size"] != ep["end_size"]:
                    return "infinite epoch not constant"
                for k in ("selfing_rate", "cloning_rate"):
                    if not (num(ep[k]) and 0 <= ep[k] <= 1):
                        return k
                t = en
            seen[nm] = (st, t)
        names = [dm["name"] for dm in d["demes"]]
        for m in d["migrations"]:
            s, t_ = m["source"], m["dest"]
            if s == t_ or s not in seen or t_ not in seen:
                return "migration demes"
            lo = max(seen[s][1], seen[t_][1])
            hi = min(seen[s][0], seen[t_][0])
            if not (num(m["start_time"]) and num(m["end_time"]) and m["start_time"] > m["end_time"]):
                return "migration start <= end"
            if math.isinf(m["end_time"]) or m["end_time"] < 0:
                return "migration end"
            if not (lo <= m["start_time"] <= hi and lo <= m["end_time"] <= hi):
                return "migration outside coexistence interval"
            if not (num(m["rate"]) and 0 <= m["rate"] <= 1):
                return "migration rate"
        ms = d["migrations"]
        for i in range(len(ms)):
            for j in range(i + 1, len(ms)):
                a, b = ms[i], ms[j]
                if a["source"] == b["source"] and a["dest"] == b["dest"]:
                    if a["end_time"] < b["start_time"] and b["end_time"] < a["start_time"]:
                        return "overlapping migrations %s->%s" % (a["source"], a["dest"])
        bounds = sorted({m["end_time"] for m in ms} | {0})
        for t in bounds:
            for dst in names:
                row = []
                for src in names:
                    r = 0.0
                    for m in ms:
                        if m["source"] == src and m["dest"] == dst and m["end_time"] <= t < m["start_time"]:
                            r = float(m["rate"])
                    row.append(r)
                s = sum(row)
                if s > 1 and not math.isclose(s, 1):
                    return "ingress into %s above one at %r" % (dst, t)
        prev = math.inf
        for p in d["pulses"]:
            if not p["sources"] or len(set(p["sources"])) != len(p["sources"]) or p["dest"] in p["sources"]:
                return "pulse sources"
            if len(p["proportions"]) != len(p["sources"]):
                return "pulse proportions length"
            if any(not (num(x) and 0 < x <= 1) for x in p["proportions"]) or sum(p["proportions"]) > 1:
                return "pulse proportions"
            t = p["time"]
            if not (num(t) and t > 0 and not math.isinf(t)):
                return "pulse time"
            if p["dest"] not in seen or any(s not in seen for s in p["sources"]):
                return "pulse demes"
            for s in p["sources"]:
                lo = max(seen[s][1], seen[p["dest"]][1])
                hi = min(seen[s][0], seen[p["dest"]][0])
                if not (lo <= t <= hi):
                    return "pulse outside coexistence interval"
                if t == seen[s][0]:
                    return "pulse at source start"
            if t == seen[p["dest"]][1]:
                return "pulse at dest end"
            if t > prev:
                return "pulses not ordered oldest first"
            prev = t
        if index is not None:
            if [list(x) for x in index] != [[n, i] for i, n in enumerate(names)]:
                return "name index does not mirror the deme list"
    except (KeyError, TypeError, IndexError) as e:
        return "malformed dictionary: %r" % (e,)
    return None


def check_graph(drv, g):
    """None when the graph is valid; otherwise what is wrong.  Two independent validators:
    the Python re-derivation above and, when a driver is given, the Coq-verified checker
    validb (proved equivalent to the declarative predicate Valid: coq/Props/C01.v)."""
    import gen
    p = gen.graph_payload(g)
    full = dict(p)
    idx = p.pop("_index")
    why = check_dict(p, idx)
    if drv is not None:
        try:
            vb = drv.call("validb", full)
        except Exception as e:
            vb = "driver: %s" % e
        if vb is not True and not why:
            return "verified checker validb rejects the graph (%r) although the Python validator accepts it" % (vb,)
        if vb is True and why:
            return why + " [but the verified checker validb accepts it]"
    return why


def float_collapse_signature(g, h, what):
    """Classify an invalid in_generations result: is it explained by the float
    quotient t -> t/gt not being injective / finite on this graph's times?"""
    gt = g.generation_time
    ts = set()
    for d in g.demes:
        ts.add(d.start_time)
        for e in d.epochs:
            ts.add(e.end_time)
    for m in g.migrations:
        ts.update([m.start_time, m.end_time])
    for p in g.pulses:
        ts.add(p.time)
    q = {}
    for t in ts:
        q.setdefault(t / gt, set()).add(t)
    if any(len(v) > 1 for v in q.values()):
        return "float-quotient-not-injective"
    if any(math.isinf(t / gt) and not math.isinf(t) for t in ts):
        return "float-quotient-overflows"
    if any(t / gt == 0 and t != 0 for t in ts):
        return "float-quotient-underflows"
    return "other"
