"""Generators: structured, mostly-valid Demes models with many coincident
times (all times of one model come from one small pool), as fully explicit
documents; plus helpers shared by the per-property checks."""
import math
import random

INF = math.inf

NAMES = ["A", "B", "C", "D", "E", "F", "G", "H", "X1", "_y", "pop_3", "Zz", "a", "b0"]
RATES = [1e-5, 1e-4, 1e-3, 0.01, 0.1, 0.25, 0.5, 0, 1e-4, 1e-4, 1]
SIZES = [100, 1000, 5000.0, 1e4, 250.5, 1, 0.5, 12345, 3e6, 100, 1000]
PROPS2 = [[0.5, 0.5], [0.25, 0.75], [0.1, 0.9], [0.3, 0.7], [1e-3, 0.999]]
PROPS3 = [[0.2, 0.3, 0.5], [1 / 3, 1 / 3, 1 / 3], [0.25, 0.25, 0.5], [0.1, 0.1, 0.8]]


def up(x):
    return math.nextafter(x, INF)


def down(x):
    return math.nextafter(x, -INF)


def time_pool(rng):
    style = rng.choice(["int", "int", "float", "mixed", "tiny", "neigh"])
    k = rng.randint(3, 9)
    if style == "int":
        vals = rng.sample(range(1, 40), k)
        vals = [v * rng.choice([1, 10, 100]) for v in vals]
    elif style == "float":
        vals = [round(rng.uniform(0.5, 5000), rng.choice([0, 1, 3, 12])) for _ in range(k)]
    elif style == "mixed":
        vals = [rng.choice([rng.randint(1, 3000), float(rng.randint(1, 3000)),
                            rng.uniform(1, 3000)]) for _ in range(k)]
    elif style == "tiny":
        vals = [rng.choice([1e-3, 1e-9, 0.1, 0.2, 0.30000000000000004, 0.3, 1.5, 2.5e-7,
                            1e6, 123456789.125]) for _ in range(k)]
    else:
        base = [rng.randint(1, 50) * 10.0 for _ in range(max(2, k // 2))]
        vals = []
        for b in base:
            vals += [b, rng.choice([up(b), down(b), b * (1 + 5e-10), b * (1 + 2e-9), int(b)])]
    out = []
    for v in vals:
        if v > 0 and not any(v == w for w in out):
            out.append(v)
    out.sort(reverse=True)
    return out


def pick_between(rng, pool, lo, hi, lo_incl, hi_incl):
    """pool values t with lo <(=) t <(=) hi"""
    c = [t for t in pool if (t > lo or (lo_incl and t == lo)) and (t < hi or (hi_incl and t == hi))]
    return rng.choice(c) if c else None


def gen_model(rng, max_demes=7, want_ms=False):
    """A fully explicit (machine-data-model shaped) document, valid by
    construction in most cases.  want_ms: restrict to what ms can express."""
    pool = time_pool(rng)
    n = rng.choice([1, 2, 2, 3, 3, 4, 5, 6, max_demes])
    names = rng.sample(NAMES, n)
    demes = []
    span = {}  # name -> (start, end)
    for i, name in enumerate(names):
        k = 0 if i == 0 else rng.choice([0, 1, 1, 1, 1, 2, 2, 3])
        k = min(k, i)
        anc, start = [], INF
        if k:
            for _ in range(4):
                cand = rng.sample(names[:i], k)
                hi = min(span[a][0] for a in cand)
                lo = max(span[a][1] for a in cand)
                if lo < hi:
                    opts = [t for t in pool if lo <= t < hi]
                    if lo > 0 and rng.random() < 0.5:
                        opts.append(lo)
                    if opts:
                        anc, start = cand, rng.choice(opts)
                        break
        if not anc:
            start = INF
        if len(anc) == 1:
            props = [rng.choice([1, 1.0])]
        elif len(anc) == 2:
            props = list(rng.choice(PROPS2))
        elif len(anc) == 3:
            props = list(rng.choice(PROPS3))
        else:
            props = []
        # epochs
        below = [t for t in pool if t < start]
        final_end = 0
        if below and rng.random() < 0.3:
            final_end = rng.choice(below)
        inner = [t for t in below if t > final_end]
        m = min(len(inner), rng.choice([0, 0, 1, 1, 2, 3]))
        ends = sorted(rng.sample(inner, m), reverse=True) + [final_end]
        epochs = []
        prev_size = rng.choice(SIZES)
        for j, en in enumerate(ends):
            ss = prev_size if rng.random() < 0.6 else rng.choice(SIZES)
            es = ss if rng.random() < 0.5 else rng.choice(SIZES)
            if j == 0 and math.isinf(start):
                es = ss
            if ss == es:
                sf = rng.choice(["constant"] * 8 + ["exponential", "linear"])
                if want_ms and sf == "linear":
                    sf = "constant"
            else:
                sf = rng.choice(["exponential", "exponential", "linear"])
                if want_ms:
                    sf = "exponential"
            ep = dict(end_time=en, start_size=ss, end_size=es, size_function=sf,
                      selfing_rate=rng.choice([0, 0, 0, 0.1, 0.5, 1]),
                      cloning_rate=rng.choice([0, 0, 0, 0.2, 1.0]))
            epochs.append(ep)
            prev_size = es
        span[name] = (start, final_end)
        demes.append(dict(name=name, description=rng.choice(["", "", "d " + name]),
                          start_time=start, ancestors=anc, proportions=props, epochs=epochs))

    def overlap(a, b):
        lo = max(span[a][1], span[b][1])
        hi = min(span[a][0], span[b][0])
        return lo, hi

    migs = []
    if n >= 2:
        for _ in range(rng.choice([0, 0, 1, 2, 3, 5, 8])):
            a, b = rng.sample(names, 2)
            lo, hi = overlap(a, b)
            if not lo < hi:
                continue
            st = hi if rng.random() < 0.5 else (pick_between(rng, pool, lo, hi, False, True) or hi)
            en = lo if rng.random() < 0.5 else (pick_between(rng, pool, lo, st, True, False))
            if en is None:
                en = lo
            migs.append(dict(source=a, dest=b, start_time=st, end_time=en, rate=rng.choice(RATES)))
        # symmetric-looking groups: all ordered pairs among a subset, one rate
        if n >= 2 and rng.random() < 0.5:
            grp = rng.sample(names, rng.randint(2, min(n, 4)))
            rate = rng.choice(RATES[:6])
            drop = rng.random() < 0.4
            for a in grp:
                for b in grp:
                    if a != b:
                        lo, hi = overlap(a, b)
                        if lo < hi and not (drop and rng.random() < 0.25):
                            migs.append(dict(source=a, dest=b, start_time=hi, end_time=lo, rate=rate))
        # drop exact overlaps most of the time (keep a few to exercise rejection)
        if rng.random() < 0.85:
            keep = []
            for mg in migs:
                clash = any(k["source"] == mg["source"] and k["dest"] == mg["dest"]
                            and k["end_time"] < mg["start_time"] and mg["end_time"] < k["start_time"]
                            for k in keep)
                if not clash:
                    keep.append(mg)
            migs = keep
        rng.shuffle(migs)

    pulses = []
    if n >= 2:
        for _ in range(rng.choice([0, 0, 1, 1, 2, 4])):
            ns = 1 if (want_ms or n < 3) else rng.choice([1, 1, 1, 2])
            picks = rng.sample(names, ns + 1)
            dest, srcs = picks[0], picks[1:]
            lo = max(span[x][1] for x in picks)
            hi = min(span[x][0] for x in picks)
            if not lo < hi:
                continue
            t = pick_between(rng, pool, lo, hi, True, True)
            if t is None:
                continue
            if t == span[dest][1] or any(t == span[s][0] for s in srcs):
                if rng.random() < 0.9:
                    continue
            pr = [rng.choice([0.1, 0.25, 0.5, 1e-3, 0.3, 1.0])] if ns == 1 else list(rng.choice(PROPS2 + [[0.1, 0.2]]))
            pulses.append(dict(sources=srcs, dest=dest, time=t, proportions=pr))

    units = rng.choice(["generations", "generations", "years", "ka"])
    if units == "generations":
        gt = 1
    else:
        gt = rng.choice([1, 25, 29, 0.5, 2, 1e-3, 25.5, 10])
    doc = dict(description=rng.choice(["", "a model", "x: y"]), time_units=units,
               generation_time=gt, doi=rng.choice([[], [], ["10.1/abc"]]),
               metadata=rng.choice([{}, {}, {"k": [1, 2.5, "s"], "n": {"m": None}}]),
               demes=demes, migrations=migs, pulses=pulses)
    return doc


def graph_payload(g):
    """asdict() plus the name index (name -> position of the referenced Deme)."""
    d = g.asdict()
    pos = {id(dm): i for i, dm in enumerate(g.demes)}
    d["_index"] = [[k, pos.get(id(v), -1)] for k, v in g._deme_map.items()]
    return d


def interesting_times(g):
    """All time values in a graph, their float neighbours, and a few others."""
    ts = set()
    for d in g.demes:
        ts.add(d.start_time)
        for e in d.epochs:
            ts.add(e.end_time)
    for m in g.migrations:
        ts.add(m.start_time)
        ts.add(m.end_time)
    for p in g.pulses:
        ts.add(p.time)
    out = []
    for t in ts:
        out.append(t)
        if not math.isinf(t):
            ft = float(t)
            out += [up(ft), down(ft), ft * (1 + 5e-10), ft * (1 - 5e-10), ft * (1 + 3e-9)]
    fin = sorted(x for x in ts if not math.isinf(x))
    for a, b in zip(fin, fin[1:]):
        out.append((a + b) / 2)
    if fin:
        out += [fin[-1] * 2 + 1, fin[0] / 2]
    out += [0, 0.0, -0.0, INF, 1e-300, 1e300]
    return [t for t in out if not (isinstance(t, float) and math.isnan(t))]
