"""Generators: structured, mostly-valid Demes models with many coincident
times (all times of one model come from one small pool), as fully explicit
documents; plus helpers shared by the per-property checks."""
import math
import random

INF = math.inf

NAMES = ["A", "B", "C", "D", "E", "F", "G", "H", "X1", "_y", "pop_3", "Zz", "a", "b0"]
RATES = [1e-5, 1e-4, 1e-3, 0.01, 0.1, 0.25, 0.5, 0, 1e-4, 1e-4, 1]
SIZES = [100, 1000, 5000.0, 1e4, 250.5, 1, 0.5, 12345, 3e6, 100, 1000]
PROPS2 = [[0.5, 0.5], [0.25, 0.75], [0.1, 0.9], [0.3, 0.7], [1e-3, 0.999],
          [0.3333333333, 0.6666666666], [0.5151395938, 0.4848604063]]      # the last two sum to 1 only within the tolerance
PROPS3 = [[0.2, 0.3, 0.5], [1 / 3, 1 / 3, 1 / 3], [0.25, 0.25, 0.5], [0.1, 0.1, 0.8],
          [0.5151395938, 0.2771172579, 0.2077431484], [0.3333333333, 0.3333333333, 0.3333333333]]


def up(x):
    return math.nextafter(x, INF)


def down(x):
    return math.nextafter(x, -INF)


def time_pool(rng):
    style = rng.choice(["int", "int", "float", "mixed", "tiny", "neigh"])
    k = rng.randint(3, 9)
    if style == "int":
        vals = rng.sample(range(1, 40), k)
        vals = [v * rng.choice([1, 10, 100]) for v in vals]
    elif style == "float":
        vals = [round(rng.uniform(0.5, 5000), rng.choice([0, 1, 3, 12])) for _ in range(k)]
    elif style == "mixed":
        vals = [rng.choice([rng.randint(1, 3000), float(rng.randint(1, 3000)),
                            rng.uniform(1, 3000)]) for _ in range(k)]
    elif style == "tiny":
        vals = [rng.choice([1e-3, 1e-9, 0.1, 0.2, 0.30000000000000004, 0.3, 1.5, 2.5e-7,
                            1e6, 123456789.125]) for _ in range(k)]
    else:
        base = [rng.randint(1, 50) * 10.0 for _ in range(max(2, k // 2))]
        vals = []
        for b in base:
            vals += [b, rng.choice([up(b), down(b), b * (1 + 5e-10), b * (1 + 2e-9), int(b)])]
    out = []
    for v in vals:
        if v > 0 and not any(v == w for w in out):
            out.append(v)
    out.sort(reverse=True)
    return out


def pick_between(rng, pool, lo, hi, lo_incl, hi_incl):
    """pool values t with lo <(=) t <(=) hi"""
    c = [t for t in pool if (t > lo or (lo_incl and t == lo)) and (t < hi or (hi_incl and t == hi))]
    return rng.choice(c) if c else None


def gen_model(rng, max_demes=7, want_ms=False):
    """A fully explicit (machine-data-model shaped) document, valid by
    construction in most cases.  want_ms: restrict to what ms can express."""
    pool = time_pool(rng)
    n = rng.choice([1, 2, 2, 3, 3, 4, 5, 6, max_demes])
    names = rng.sample(NAMES, n)
    demes = []
    span = {}  # name -> (start, end)
    for i, name in enumerate(names):
        k = 0 if i == 0 else rng.choice([0, 1, 1, 1, 1, 2, 2, 3])
        k = min(k, i)
        anc, start = [], INF
        if k:
            for _ in range(4):
                cand = rng.sample(names[:i], k)
                hi = min(span[a][0] for a in cand)
                lo = max(span[a][1] for a in cand)
                if lo < hi:
                    opts = [t for t in pool if lo <= t < hi]
                    if lo > 0 and rng.random() < 0.5:
                        opts.append(lo)
                    if opts:
                        anc, start = cand, rng.choice(opts)
                        break
        if not anc:
            start = INF
        if len(anc) == 1:
            props = [rng.choice([1, 1.0, 1, 1.0, 1, 0.9999999999, 1 - 1e-12])]
        elif len(anc) == 2:
            props = list(rng.choice(PROPS2))
        elif len(anc) == 3:
            props = list(rng.choice(PROPS3))
        else:
            props = []
        # epochs
        below = [t for t in pool if t < start]
        final_end = 0
        if below and rng.random() < 0.3:
            final_end = rng.choice(below)
        inner = [t for t in below if t > final_end]
        m = min(len(inner), rng.choice([0, 0, 1, 1, 2, 3]))
        ends = sorted(rng.sample(inner, m), reverse=True) + [final_end]
        epochs = []
        prev_size = rng.choice(SIZES)
        for j, en in enumerate(ends):
            ss = prev_size if rng.random() < 0.6 else rng.choice(SIZES)
            es = ss if rng.random() < 0.5 else rng.choice(SIZES)
            if j == 0 and math.isinf(start):
                es = ss
            if ss == es:
                sf = rng.choice(["constant"] * 8 + ["exponential", "linear"])
                if want_ms and sf == "linear":
                    sf = "constant"
            else:
                sf = rng.choice(["exponential", "exponential", "linear"])
                if want_ms:
                    sf = "exponential"
            ep = dict(end_time=en, start_size=ss, end_size=es, size_function=sf,
                      selfing_rate=rng.choice([0, 0, 0, 0.1, 0.5, 1]),
                      cloning_rate=rng.choice([0, 0, 0, 0.2, 1.0]))
            epochs.append(ep)
            prev_size = es
        span[name] = (start, final_end)
        demes.append(dict(name=name, description=rng.choice(["", "", "d " + name]),
                          start_time=start, ancestors=anc, proportions=props, epochs=epochs))

    def overlap(a, b):
        lo = max(span[a][1], span[b][1])
        hi = min(span[a][0], span[b][0])
        return lo, hi

    migs = []
    if n >= 2:
        for _ in range(rng.choice([0, 0, 1, 2, 3, 5, 8])):
            a, b = rng.sample(names, 2)
            lo, hi = overlap(a, b)
            if not lo < hi:
                continue
            st = hi if rng.random() < 0.5 else (pick_between(rng, pool, lo, hi, False, True) or hi)
            en = lo if rng.random() < 0.5 else (pick_between(rng, pool, lo, st, True, False))
            if en is None:
                en = lo
            migs.append(dict(source=a, dest=b, start_time=st, end_time=en, rate=rng.choice(RATES)))
        # one pair switched on, off and on again with exactly the same rate (two records, a gap in between)
        if rng.random() < 0.2:
            a, b = rng.sample(names, 2)
            lo, hi = overlap(a, b)
            cuts = sorted(set(t for t in pool if lo < t < hi and not math.isinf(t)))
            if len(cuts) >= 2 and lo < hi:
                c1, c2 = sorted(rng.sample(cuts, 2))
                r = rng.choice([x for x in RATES if x] or [1e-3])
                migs.append(dict(source=a, dest=b, start_time=hi, end_time=c2, rate=r))
                migs.append(dict(source=a, dest=b, start_time=c1, end_time=lo, rate=r))
        # symmetric-looking groups: all ordered pairs among a subset, one rate
        if n >= 2 and rng.random() < 0.5:
            grp = rng.sample(names, rng.randint(2, min(n, 4)))
            rate = rng.choice(RATES[:6])
            drop = rng.random() < 0.4
            for a in grp:
                for b in grp:
                    if a != b:
                        lo, hi = overlap(a, b)
                        if lo < hi and not (drop and rng.random() < 0.25):
                            migs.append(dict(source=a, dest=b, start_time=hi, end_time=lo, rate=rate))
        # drop exact overlaps most of the time (keep a few to exercise rejection)
        if rng.random() < 0.85:
            keep = []
            for mg in migs:
                clash = any(k["source"] == mg["source"] and k["dest"] == mg["dest"]
                            and k["end_time"] < mg["start_time"] and mg["end_time"] < k["start_time"]
                            for k in keep)
                if not clash:
                    keep.append(mg)
            migs = keep
        rng.shuffle(migs)

    pulses = []
    if n >= 2:
        for _ in range(rng.choice([0, 0, 1, 1, 2, 4])):
            ns = 1 if (want_ms or n < 3) else rng.choice([1, 1, 1, 2])
            picks = rng.sample(names, ns + 1)
            dest, srcs = picks[0], picks[1:]
            lo = max(span[x][1] for x in picks)
            hi = min(span[x][0] for x in picks)
            if not lo < hi:
                continue
            t = pick_between(rng, pool, lo, hi, True, True)
            if t is None:
                continue
            if t == span[dest][1] or any(t == span[s][0] for s in srcs):
                if rng.random() < 0.9:
                    continue
            pr = [rng.choice([0.1, 0.25, 0.5, 1e-3, 0.3, 1.0])] if ns == 1 else list(rng.choice(PROPS2 + [[0.1, 0.2]]))
            pulses.append(dict(sources=srcs, dest=dest, time=t, proportions=pr))

    units = rng.choice(["generations", "generations", "years", "ka"])
    if units == "generations":
        gt = 1
    else:
        gt = rng.choice([1, 25, 29, 0.5, 2, 1e-3, 25.5, 10])
    doc = dict(description=rng.choice(["", "a model", "x: y"]), time_units=units,
               generation_time=gt, doi=rng.choice([[], [], ["10.1/abc"]]),
               metadata=rng.choice([{}, {}, {"k": [1, 2.5, "s"], "n": {"m": None}}]),
               demes=demes, migrations=migs, pulses=pulses)
    return doc


def graph_payload(g):
    """asdict() plus the name index (name -> position of the referenced Deme)."""
    d = g.asdict()
    pos = {id(dm): i for i, dm in enumerate(g.demes)}
    d["_index"] = [[k, pos.get(id(v), -1)] for k, v in g._deme_map.items()]
    return d


def interesting_times(g):
    """All time values in a graph, their float neighbours, and a few others."""
    ts = set()
    for d in g.demes:
        ts.add(d.start_time)
        for e in d.epochs:
            ts.add(e.end_time)
    for m in g.migrations:
        ts.add(m.start_time)
        ts.add(m.end_time)
    for p in g.pulses:
        ts.add(p.time)
    out = []
    for t in ts:
        out.append(t)
        if not math.isinf(t):
            ft = float(t)
            out += [up(ft), down(ft), ft * (1 + 5e-10), ft * (1 - 5e-10), ft * (1 + 3e-9)]
    fin = sorted(x for x in ts if not math.isinf(x))
    for a, b in zip(fin, fin[1:]):
        out.append((a + b) / 2)
    if fin:
        out += [fin[-1] * 2 + 1, fin[0] / 2]
    out += [0, 0.0, -0.0, INF, 1e-300, 1e300]
    return [t for t in out if not (isinstance(t, float) and math.isnan(t))]


# ---------------------------------------------------------------------------
# Equivalent spellings of one model (C02) and rule-breaking mutations (C03)
# ---------------------------------------------------------------------------
import copy


def _ends(doc):
    """name -> (start, end) from an explicit document"""
    out = {}
    for d in doc["demes"]:
        out[d["name"]] = (d["start_time"], d["epochs"][-1]["end_time"])
    return out


def with_symmetric(rng, doc):
    """Return (hdm_doc, explicit_doc): hdm_doc has some symmetric migrations with
    omitted bounds; explicit_doc is the same model with them expanded by hand in
    itertools.permutations order (bounds still omitted)."""
    doc = copy.deepcopy(doc)
    names = [d["name"] for d in doc["demes"]]
    span = _ends(doc)
    if len(names) < 2:
        return doc, copy.deepcopy(doc)
    grp = rng.sample(names, rng.randint(2, min(4, len(names))))
    ok = all(max(span[a][1], span[b][1]) < min(span[a][0], span[b][0]) for a in grp for b in grp if a != b)
    if not ok:
        return doc, copy.deepcopy(doc)
    rate = rng.choice([1e-6, 2e-5, 3e-4])
    used = {(m["source"], m["dest"]) for m in doc["migrations"]}
    if any((a, b) in used for a in grp for b in grp if a != b):
        return doc, copy.deepcopy(doc)
    hdm = copy.deepcopy(doc)
    exp = copy.deepcopy(doc)
    pos = rng.randint(0, len(doc["migrations"]))
    hdm["migrations"].insert(pos, dict(demes=list(grp), rate=rate))
    expanded = [dict(source=a, dest=b, rate=rate) for i, a in enumerate(grp) for j, b in enumerate(grp) if i != j]
    exp["migrations"][pos:pos] = expanded
    return hdm, exp


def respell(rng, doc, p=0.5):
    """An equivalent spelling of an explicit (or partly explicit) document: omit
    fields whose value is what resolution infers, move common values into
    defaults, flip int/float representation of integral numbers."""
    d = copy.deepcopy(doc)
    span = {}
    for dm in d["demes"]:
        if "start_time" in dm and dm.get("epochs") and "end_time" in dm["epochs"][-1]:
            span[dm["name"]] = (dm["start_time"], dm["epochs"][-1]["end_time"])
    full = len(span) == len(d["demes"])

    def flip(x):
        if isinstance(x, bool):
            return x
        if isinstance(x, int) and rng.random() < 0.3 and abs(x) < 2 ** 53:
            return float(x)
        if isinstance(x, float) and x.is_integer() and rng.random() < 0.3 and abs(x) < 2 ** 53:
            return int(x)
        return x

    def coin():
        return rng.random() < p
    for dm in d["demes"]:
        anc = dm.get("ancestors", [])
        if "start_time" in dm:
            st = dm["start_time"]
            if math.isinf(st) and coin():
                del dm["start_time"]
            elif len(anc) == 1 and full and st == span[anc[0]][1] and coin():
                del dm["start_time"]
            else:
                dm["start_time"] = flip(st)
        if "proportions" in dm:
            if len(anc) == 1 and dm["proportions"] in ([1], [1.0]) and coin():
                del dm["proportions"]
            elif len(anc) == 0 and coin():
                del dm["proportions"]
        if "ancestors" in dm and not anc and coin():
            del dm["ancestors"]
        if dm.get("description") == "" and coin():
            del dm["description"]
        eps = dm.get("epochs", [])
        prev_end_size = None
        for j, ep in enumerate(eps):
            ss, es, sf = ep.get("start_size"), ep.get("end_size"), ep.get("size_function")
            if ss is None or es is None or sf is None:
                prev_end_size = es
                continue
            infer = "constant" if ss == es else "exponential"
            if sf == infer and coin():
                del ep["size_function"]
            drop_ss = j > 0 and prev_end_size is not None and ss == prev_end_size and type(ss) == type(prev_end_size) and coin()
            if ss == es and type(ss) == type(es):
                r = rng.random()
                if drop_ss:
                    del ep["start_size"]
                    if coin():
                        del ep["end_size"]
                elif r < p / 2:
                    del ep["end_size"]
                elif r < p and (j == 0):
                    del ep["start_size"]
            elif drop_ss:
                del ep["start_size"]
            for k in ("selfing_rate", "cloning_rate"):
                if ep.get(k) == 0 and isinstance(ep.get(k), int) and coin():
                    del ep[k]
            if j == len(eps) - 1 and ep.get("end_time") == 0 and isinstance(ep.get("end_time"), int) and coin():
                del ep["end_time"]
            elif "end_time" in ep:
                ep["end_time"] = ep["end_time"]
            prev_end_size = es
    for m in d.get("migrations", []):
        if "source" in m and full and m["source"] in span and m["dest"] in span:
            lo = max(span[m["source"]][1], span[m["dest"]][1])
            hi = min(span[m["source"]][0], span[m["dest"]][0])
            if "start_time" in m and m["start_time"] == hi and type(m["start_time"]) == type(hi) and coin():
                del m["start_time"]
            if "end_time" in m and m["end_time"] == lo and type(m["end_time"]) == type(lo) and coin():
                del m["end_time"]
    for k, empty in (("migrations", []), ("pulses", []), ("doi", []), ("metadata", {}), ("description", "")):
        if d.get(k) == empty and coin():
            del d[k]
    if d.get("time_units") == "generations" and d.get("generation_time") == 1 and coin():
        del d["generation_time"]
    return d


def near_bounds(rng, doc):
    """An explicit valid document with some times moved a hair inside their bound: a single-ancestor deme starting
    just above its ancestor's end instead of exactly at it, migrations starting just below / ending just above the
    two demes' common interval.  Valid, and different from the document with the exact values."""
    d = copy.deepcopy(doc)
    span = _ends(d)

    def hair_up(x):
        return rng.choice([up(float(x)), float(x) * (1 + 1e-11) if x else 1e-11, float(x) + 1e-9 * max(1.0, float(x))])

    def hair_down(x):
        return rng.choice([down(float(x)), float(x) * (1 - 1e-11), float(x) - 1e-9 * max(1.0, float(x))])
    for dm in d["demes"]:
        anc = dm.get("ancestors", [])
        if len(anc) == 1 and dm.get("start_time") == span[anc[0]][1] and rng.random() < 0.6:
            v = hair_up(dm["start_time"])
            if v < span[anc[0]][0] and all(e["end_time"] < v for e in dm["epochs"]):
                dm["start_time"] = v
    span = _ends(d)
    for m in d.get("migrations", []):
        if "source" not in m or m["source"] not in span or m["dest"] not in span:
            continue
        lo = max(span[m["source"]][1], span[m["dest"]][1])
        hi = min(span[m["source"]][0], span[m["dest"]][0])
        if m.get("start_time") == hi and not math.isinf(hi) and rng.random() < 0.5:
            v = hair_down(hi)
            if v > m.get("end_time", lo):
                m["start_time"] = v
        if m.get("end_time") == lo and rng.random() < 0.5:
            v = hair_up(lo)
            if v < m.get("start_time", hi):
                m["end_time"] = v
    return d


def shuffle_keys(rng, doc):
    """The same document with the keys of every mapping in another order (the
    user's metadata is left as it is)."""
    def walk(x, top=False):
        if isinstance(x, dict):
            ks = list(x.keys())
            rng.shuffle(ks)
            return {k: (copy.deepcopy(x[k]) if (top and k == "metadata") else walk(x[k])) for k in ks}
        if isinstance(x, list):
            return [walk(y) for y in x]
        return x
    return walk(doc, top=True)


def hoist_defaults(rng, doc):
    """Move values shared by several places into defaults (deme-level epoch
    defaults, top-level epoch / migration / pulse / deme defaults); the places
    that differ keep their explicit value."""
    d = copy.deepcopy(doc)
    defaults = {}
    # deme-level epoch defaults
    for dm in d["demes"]:
        eps = dm.get("epochs", [])
        for k in ("selfing_rate", "cloning_rate", "size_function", "end_size"):
            vals = [ep[k] for ep in eps if k in ep]
            if len(vals) == len(eps) and len(eps) >= 1 and rng.random() < 0.4:
                v = rng.choice(vals)
                if k == "end_size":
                    continue
                for ep in eps:
                    if ep[k] == v and type(ep[k]) == type(v):
                        del ep[k]
                dm.setdefault("defaults", {}).setdefault("epoch", {})[k] = v
    # top-level epoch defaults: every epoch must carry the field explicitly
    for k in ("selfing_rate", "cloning_rate"):
        eps = [ep for dm in d["demes"] for ep in dm.get("epochs", [])]
        shadow = any(k in dm.get("defaults", {}).get("epoch", {}) for dm in d["demes"])
        if eps and all(k in ep for ep in eps) and not shadow and rng.random() < 0.4:
            v = rng.choice([ep[k] for ep in eps])
            for ep in eps:
                if ep[k] == v and type(ep[k]) == type(v):
                    del ep[k]
            defaults.setdefault("epoch", {})[k] = v
    ms = d.get("migrations", [])
    if ms and all("rate" in m for m in ms) and rng.random() < 0.5:
        v = rng.choice([m["rate"] for m in ms])
        for m in ms:
            if m["rate"] == v and type(m["rate"]) == type(v):
                del m["rate"]
        defaults.setdefault("migration", {})["rate"] = v
    ps = d.get("pulses", [])
    if ps and rng.random() < 0.5:
        k = rng.choice(["time", "dest", "proportions", "sources"])
        v = copy.deepcopy(rng.choice(ps)[k])
        for q in ps:
            if q[k] == v and repr(q[k]) == repr(v):
                del q[k]
        defaults.setdefault("pulse", {})[k] = v
    dms = d["demes"]
    if all("description" in dm for dm in dms) and rng.random() < 0.3:
        v = rng.choice(dms)["description"]
        for dm in dms:
            if dm["description"] == v:
                del dm["description"]
        defaults.setdefault("deme", {})["description"] = v
    if defaults:
        d["defaults"] = defaults
    return d


BAD_NUMS = [0, -0.0, -1, -1e-300, 1e-300, 1, up(1.0), down(1.0), 1 + 1e-9, 1 + 1e-10, 2, INF, -INF,
            math.nan, True, False]


def _paths(node, path=()):
    yield path, node
    if isinstance(node, dict):
        for k, v in node.items():
            yield from _paths(v, path + (k,))
    elif isinstance(node, list):
        for i, v in enumerate(node):
            yield from _paths(v, path + (i,))


def _set(doc, path, val):
    x = doc
    for k in path[:-1]:
        x = x[k]
    x[path[-1]] = val


def _del(doc, path):
    x = doc
    for k in path[:-1]:
        x = x[k]
    del x[path[-1]]


def mutate_value(rng, doc):
    """Explicit document -> (kind, mutant): one numeric / string value replaced by a
    boundary value of some rule; every field stays present and of a plausible type."""
    d = copy.deepcopy(doc)
    nums = [(p, v) for p, v in _paths(d) if isinstance(v, (int, float)) and not isinstance(v, bool)
            and (not p or p[0] != "metadata")]
    span = _ends(doc)
    times = sorted({t for s in span.values() for t in s if not math.isinf(t)})
    cands = list(BAD_NUMS)
    for t in times:
        cands += [t, up(float(t)), down(float(t))]
    r = rng.random()
    if r < 0.75 and nums:
        p, v = rng.choice(nums)
        new = rng.choice(cands)
        _set(d, p, new)
        return ("num:" + ".".join(str(k) for k in p if isinstance(k, str)), d)
    strs = [(p, v) for p, v in _paths(d) if isinstance(v, str) and (not p or p[0] != "metadata")]
    p, v = rng.choice(strs)
    names = [dm["name"] for dm in doc["demes"]]
    new = rng.choice(names + ["", "not a name", "1abc", "nope", "constant", "exponential", "linear", "generations", "x"])
    _set(d, p, new)
    return ("str:" + ".".join(str(k) for k in p if isinstance(k, str)), d)


def mutate_structure(rng, doc):
    """(kind, mutant): drop / retype / null / duplicate / add a node anywhere."""
    d = copy.deepcopy(doc)
    nodes = [(p, v) for p, v in _paths(d) if p]
    p, v = rng.choice(nodes)
    op = rng.choice(["drop", "null", "retype", "dup", "extra", "swap"])
    try:
        if op == "drop":
            _del(d, p)
        elif op == "null":
            _set(d, p, None)
        elif op == "retype":
            _set(d, p, rng.choice(["str", 3, 2.5, [], {}, [1], ["A"], {"a": 1}, True]))
        elif op == "dup":
            parent = d
            for k in p[:-1]:
                parent = parent[k]
            if isinstance(parent, list):
                parent.insert(p[-1], copy.deepcopy(v))
            else:
                return ("noop", d)
        elif op == "extra":
            tgt = [q for q, w in _paths(d) if isinstance(w, dict) and (not q or q[0] != "metadata")]
            q = rng.choice(tgt)
            x = d
            for k in q:
                x = x[k]
            x[rng.choice(["extra", "start_time", "rate", "name", "defaults", "epochs", "time"])] = rng.choice([1, "x", [], {}])
        else:
            parent = d
            for k in p[:-1]:
                parent = parent[k]
            if isinstance(parent, list) and len(parent) > 1:
                i = p[-1]
                j = (i + 1) % len(parent)
                parent[i], parent[j] = parent[j], parent[i]
            else:
                return ("noop", d)
    except Exception:
        return ("noop", d)
    return (op + ":" + ".".join(str(k) for k in p if isinstance(k, str)), d)


def clique_family(rng, n=None, keys=1):
    """An island-like model on n coexisting demes in which the directional migrations
    of each (rate, start, end) key are a random subset of all ordered pairs, biased
    towards unions of cliques with some pairs missing."""
    n = n or rng.randint(2, 6)
    names = NAMES[:n]
    split = rng.choice([None, 50, 80.5])
    demes = []
    for i, nm in enumerate(names):
        if i == 0 or split is None or rng.random() < 0.4:
            demes.append(dict(name=nm, epochs=[dict(start_size=100 + i, end_time=0)]))
        else:
            demes.append(dict(name=nm, ancestors=[names[0]], start_time=split,
                              epochs=[dict(start_size=100 + i, end_time=0)]))
    migs = []
    used = set()
    windows = rng.random() < 0.4      # the same ordered pair in two abutting time windows
    for k in range(keys):
        rate = [1e-3, 2e-3, 5e-4][k % 3]
        bounds = rng.choice([{}, {}, dict(start_time=40), dict(end_time=10), dict(start_time=30, end_time=5)])
        if windows:
            bounds = [dict(end_time=20), dict(start_time=20), dict(start_time=20, end_time=5)][k % 3]
            rate = rng.choice([1e-3, 1e-3, 2e-3])
            used = set()
        pairs = set()
        for _ in range(rng.randint(1, 3)):
            grp = rng.sample(names, rng.randint(2, n))
            for a in grp:
                for b in grp:
                    if a != b:
                        pairs.add((a, b))
        for p in list(pairs):
            if rng.random() < 0.15:
                pairs.discard(p)
        for _ in range(rng.randint(0, 2)):
            a, b = rng.sample(names, 2)
            pairs.add((a, b))
        pl = [p for p in pairs if p not in used]
        rng.shuffle(pl)
        for a, b in pl:
            used.add((a, b))
            migs.append(dict(source=a, dest=b, rate=rate, **bounds))
    return dict(time_units="generations", demes=demes, migrations=migs)


def mutate_targeted(rng, doc):
    """Rule-targeted mutants of an explicit valid document: for each rule of the data
    model, a value placed exactly on / one ulp either side of that rule's boundary."""
    out = []
    span = _ends(doc)
    names = [d["name"] for d in doc["demes"]]

    def around(t):
        if isinstance(t, float) and math.isinf(t):
            return [t, 1.7976931348623157e308]
        ft = float(t)
        return [t, up(ft), down(ft)]

    def emit(kind, fn):
        d = copy.deepcopy(doc)
        try:
            fn(d)
        except Exception:
            return
        out.append((kind, d))
    for i, dm in enumerate(doc["demes"]):
        for a in dm["ancestors"]:
            for v in around(span[a][0]) + around(span[a][1]):
                emit("deme.start~ancestor", lambda d, v=v: d["demes"][i].__setitem__("start_time", v))
        if dm["ancestors"]:
            emit("deme.start=inf-with-ancestors", lambda d: d["demes"][i].__setitem__("start_time", INF))
            emit("deme.ancestor-self", lambda d: d["demes"][i]["ancestors"].__setitem__(0, dm["name"]))
            emit("deme.ancestor-later", lambda d: d["demes"][i]["ancestors"].__setitem__(0, names[-1]))
        else:
            emit("deme.finite-start-no-ancestors", lambda d: d["demes"][i].__setitem__("start_time", 1e6))
        if len(dm["ancestors"]) >= 2:
            for f in (1 + 1e-9, 1 + 3e-9, 1 - 3e-9, 1 - 1e-10):
                emit("deme.proportions-sum", lambda d, f=f: d["demes"][i]["proportions"].__setitem__(0, dm["proportions"][0] * f))
            emit("deme.ancestors-dup", lambda d: d["demes"][i]["ancestors"].__setitem__(1, dm["ancestors"][0]))
        prev = dm["start_time"]
        for j, ep in enumerate(dm["epochs"]):
            for v in around(prev):
                emit("epoch.end~start", lambda d, v=v: d["demes"][i]["epochs"][j].__setitem__("end_time", v))
            for k in ("start_size", "end_size"):
                for v in (0, -0.0, 5e-324, INF, -1):
                    emit("epoch.size", lambda d, k=k, v=v: d["demes"][i]["epochs"][j].__setitem__(k, v))
            for k in ("selfing_rate", "cloning_rate"):
                for v in (1, up(1.0), -0.0, down(0.0), 0):
                    emit("epoch.rate", lambda d, k=k, v=v: d["demes"][i]["epochs"][j].__setitem__(k, v))
            if ep["start_size"] != ep["end_size"]:
                emit("epoch.constant-different-sizes", lambda d: d["demes"][i]["epochs"][j].__setitem__("size_function", "constant"))
            emit("epoch.size_function", lambda d: d["demes"][i]["epochs"][j].__setitem__("size_function", rng.choice(["", "Exponential", "N(t)"])))
            prev = ep["end_time"]
        if math.isinf(dm["start_time"]):
            emit("epoch.infinite-not-constant", lambda d: d["demes"][i]["epochs"][0].__setitem__("end_size", dm["epochs"][0]["start_size"] * 2))
        emit("deme.name", lambda d: d["demes"][i].__setitem__("name", rng.choice(["", "1a", "a b", "a-b", dm["name"] + "\n", "x\u00b2", "a\u2460", "x\u00bd", names[0] if i else names[-1]])))
    for i, m in enumerate(doc["migrations"]):
        lo = max(span[m["source"]][1], span[m["dest"]][1])
        hi = min(span[m["source"]][0], span[m["dest"]][0])
        for v in around(lo) + around(hi):
            emit("migration.start~bound", lambda d, v=v: d["migrations"][i].__setitem__("start_time", v))
            emit("migration.end~bound", lambda d, v=v: d["migrations"][i].__setitem__("end_time", v))
        emit("migration.end=start", lambda d: d["migrations"][i].__setitem__("end_time", m["start_time"]))
        for v in (1, up(1.0), -0.0, down(0.0), 1 - sum(x["rate"] for x in doc["migrations"] if x is not m and x["dest"] == m["dest"])):
            emit("migration.rate", lambda d, v=v: d["migrations"][i].__setitem__("rate", v))
        emit("migration.same-deme", lambda d: d["migrations"][i].__setitem__("dest", m["source"]))
        emit("migration.duplicate", lambda d: d["migrations"].append(dict(m, rate=0)))
        emit("migration.duplicate-first-zero", lambda d: d["migrations"].insert(0, dict(m, rate=0)))
        emit("migration.abutting", lambda d: d["migrations"].append(dict(m, start_time=m["end_time"], end_time=lo)) if m["end_time"] > lo else None)
        # a second migration of the same pair whose interval lies strictly inside / strictly around this one, with rate 0
        # on one of them, in both listing orders (an overlap that the rate check of the matrices cannot see)
        hi_ = m["start_time"] if not math.isinf(m["start_time"]) else m["end_time"] + 100.0
        w_ = hi_ - m["end_time"]
        if w_ > 0:
            inner = dict(m, start_time=m["end_time"] + 0.75 * w_, end_time=m["end_time"] + 0.25 * w_)
            emit("migration.contained-zero-first", lambda d: (d["migrations"].__setitem__(i, dict(m, rate=m["rate"])),
                                                             d["migrations"].insert(0, dict(inner, rate=0))))
            emit("migration.contained-zero-after", lambda d: d["migrations"].append(dict(inner, rate=0)))
            emit("migration.containing-zero-first", lambda d: (d["migrations"].__setitem__(i, dict(inner, rate=m["rate"])),
                                                              d["migrations"].insert(0, dict(m, rate=0))))
            emit("migration.three-with-disjoint-between",
                 lambda d: (d["migrations"].__setitem__(i, dict(m, rate=0, end_time=m["end_time"] + 0.6 * w_)),
                            d["migrations"].append(dict(m, start_time=m["end_time"] + 0.3 * w_, end_time=m["end_time"] + 0.1 * w_)),
                            d["migrations"].append(dict(m, start_time=m["end_time"] + 0.8 * w_, end_time=m["end_time"] + 0.7 * w_))))
    for i, p in enumerate(doc["pulses"]):
        dst = p["dest"]
        for s in p["sources"]:
            lo = max(span[s][1], span[dst][1])
            hi = min(span[s][0], span[dst][0])
            for v in around(lo) + around(hi) + around(span[s][0]) + around(span[dst][1]):
                emit("pulse.time~bound", lambda d, v=v: d["pulses"][i].__setitem__("time", v))
        for f in (1.0, up(1.0), 1 + 1e-9):
            emit("pulse.proportions-sum", lambda d, f=f: d["pulses"][i]["proportions"].__setitem__(0, f - sum(p["proportions"][1:])))
        emit("pulse.proportion-zero", lambda d: d["pulses"][i]["proportions"].__setitem__(0, rng.choice([0, -0.0])))
        emit("pulse.source=dest", lambda d: d["pulses"][i]["sources"].__setitem__(0, dst))
        if len(p["sources"]) > 1:
            emit("pulse.sources-dup", lambda d: d["pulses"][i]["sources"].__setitem__(1, p["sources"][0]))
            for s in p["sources"]:
                emit("pulse.time=source-start", lambda d, s=s: d["pulses"][i].__setitem__("time", span[s][0]))
        emit("pulse.time-zero", lambda d: d["pulses"][i].__setitem__("time", 0))
    # total ingress through ONE migrations entry: a single symmetric migration over k mutually coexisting demes puts
    # (k-1) * rate into every one of them; just above, exactly at and just below 1
    grp = []
    for nm in names:
        if all(max(span[nm][1], span[o][1]) < min(span[nm][0], span[o][0]) for o in grp):
            grp.append(nm)
    if len(grp) >= 3:
        k = len(grp)
        for r in (1.0 / (k - 1) + 1e-6, 0.6 if k == 3 else 0.4, up(1.0 / (k - 1)) if (k - 1) * up(1.0 / (k - 1)) > 1 + 1e-9 else 1.0 / (k - 1), 1.0 / (k - 1), 0.999 / (k - 1)):
            if r <= 1:
                emit("migration.single-symmetric-ingress", lambda d, r=r: d.__setitem__("migrations", [dict(demes=list(grp), rate=r)]))
        emit("migration.single-symmetric-ingress-pair", lambda d: d.__setitem__("migrations", [dict(demes=grp[:2], rate=1.0)]))
    if len(grp) >= 2:
        emit("migration.single-asymmetric-full", lambda d: d.__setitem__("migrations", [dict(source=grp[0], dest=grp[1], rate=1.0)]))
        emit("migration.two-entries-ingress", lambda d: d.__setitem__("migrations", [dict(source=grp[0], dest=grp[1], rate=0.7)] + (
            [dict(source=grp[2], dest=grp[1], rate=0.7)] if len(grp) >= 3 else [])))
    emit("graph.generation_time", lambda d: d.__setitem__("generation_time", rng.choice([0, -1, INF, 2 if d["time_units"] == "generations" else 0])))
    emit("graph.time_units", lambda d: d.__setitem__("time_units", ""))
    emit("graph.doi", lambda d: d.__setitem__("doi", [""]))
    emit("graph.no-demes", lambda d: d.__setitem__("demes", []))
    # a symmetric migration that names one deme more than once: it asks for a migration from a deme to itself (invalid by
    # construction, whatever else the entry says -- an undefined name, a rate above one)
    for lst, extra in (([names[0], names[0]], {}), ([names[-1]] * 3, {}), (["nosuchdeme", "nosuchdeme"], {}),
                       ([names[0], names[0]], {"rate": 1.5})):
        emit("symmetric.repeated-deme", lambda d, lst=lst, extra=extra: d["migrations"].append(dict(dict(demes=list(lst), rate=0.01), **extra)))
    # defaults that are invalid even though unused
    for sect, key, val in (("epoch", "start_size", 0), ("epoch", "end_time", INF), ("epoch", "selfing_rate", 2),
                           ("deme", "start_time", 0), ("deme", "ancestors", ["not valid"]), ("migration", "rate", 1.5),
                           ("migration", "source", "1x"), ("pulse", "time", INF), ("pulse", "proportions", [0.7, 0.7]),
                           ("pulse", "sources", []), ("deme", "proportions", [0]), ("epoch", "size_function", 3),
                           ("migration", "end_time", -1), ("pulse", "dest", "")):
        emit("defaults.unused-invalid", lambda d, s=sect, k=key, v=val: d.__setitem__("defaults", {s: {k: v}}))
    # the same, with every deme overriding the invalid top-level value in its own defaults (the top-level value is then used
    # nowhere, and is still invalid)
    for key, val, good in (("start_size", -1, 100), ("selfing_rate", 1.5, 0.5), ("cloning_rate", "x", 0), ("end_size", INF, 100),
                           ("size_function", 3, "constant")):
        def over(d, k=key, v=val, g=good):
            d["defaults"] = {"epoch": {k: v}}
            for dm in d["demes"]:
                gg = dm["epochs"][0].get(k, g) if k in ("start_size", "end_size") else g
                dm.setdefault("defaults", {}).setdefault("epoch", {})[k] = gg
        emit("defaults.overridden-invalid", over)
    rng.shuffle(out)
    # one mutant of every kind first (so that truncating the list never drops a rule), then the rest
    seen, first, rest = set(), [], []
    for kind, d in out:
        (rest if kind in seen else first).append((kind, d))
        seen.add(kind)
    return first + rest


def boundary_families(rng):
    """Hand-built explicit documents around rules that random models reach rarely: pulses with several sources
    timed at the start / end of each source in either listing order; ancestors that start or end exactly at
    the descendant's start; migrations bounded by the younger deme's start."""
    out = []

    def ep(size, end):
        return dict(end_time=end, start_size=size, end_size=size, size_function="constant", selfing_rate=0, cloning_rate=0)

    def deme(name, start, anc, props, end=0, size=100):
        return dict(name=name, description="", start_time=start, ancestors=anc, proportions=props, epochs=[ep(size, end)])
    INF_ = float("inf")
    for tb, tc in ((100, 80), (80, 100), (100, 100), (100.0, 99.99999999999999)):
        base = dict(description="", time_units="generations", generation_time=1, doi=[], metadata={},
                    demes=[deme("A", INF_, [], []), deme("B", tb, ["A"], [1]), deme("C", tc, ["A"], [1]),
                           deme("D", INF_, [], [])], migrations=[], pulses=[])
        for srcs in (["B", "C"], ["C", "B"]):
            for t in sorted(set([tb, tc, down(float(min(tb, tc))), up(float(max(tb, tc))), 1])):
                d = copy.deepcopy(base)
                d["pulses"] = [dict(sources=srcs, dest="D", time=t, proportions=[0.1, 0.2])]
                out.append(("family.pulse-sources-at-start", d))
        # destination timed at its own end, sources timed at their end
        d = copy.deepcopy(base)
        d["demes"][1]["epochs"][0]["end_time"] = 10
        for t in (10, up(10.0), down(10.0)):
            e = copy.deepcopy(d)
            e["pulses"] = [dict(sources=["C", "B"], dest="D", time=t, proportions=[0.1, 0.2])]
            out.append(("family.pulse-source-at-end", e))
            e = copy.deepcopy(d)
            e["pulses"] = [dict(sources=["C"], dest="B", time=t, proportions=[0.1])]
            out.append(("family.pulse-dest-at-end", e))
        # a grandchild starting exactly at its ancestor's start / end
        for st in (tb, up(float(tb)), down(float(tb)), 10):
            e = copy.deepcopy(d)
            e["demes"].append(deme("E", st, ["B"], [1]))
            out.append(("family.descendant-at-ancestor-bound", e))
        # migration bounded by the younger deme
        for st in (tb, up(float(tb)), min(tb, tc), down(float(min(tb, tc)))):
            e = copy.deepcopy(base)
            e["migrations"] = [dict(source="B", dest="C", start_time=st, end_time=0, rate=0.1)]
            out.append(("family.migration-at-younger-start", e))
        # ancestry proportions of one, two and three ancestors around a sum of one
        for anc, props in ((["A"], [0.5]), (["A"], [0.999999]), (["A"], [1 - 1e-12]), (["A"], [1.0000001]), (["A"], [1]),
                           (["A", "D"], [0.5, 0.4]), (["A", "D"], [0.5, 0.5]), (["A", "D"], [0.3, 0.7000001]),
                           (["A", "D", "B"], [0.2, 0.3, 0.4]), (["A", "D", "B"], [0.2, 0.3, 0.5])):
            e = copy.deepcopy(base)
            e["demes"].append(deme("E", min(tb, tc) / 2, anc, props))
            out.append(("family.ancestry-proportions-sum", e))
        # pulse proportions of one, two and three sources around a sum of one (the bound is exact: no tolerance), written
        # on the pulse or taken from defaults.pulse
        for srcs, props in ((["B"], [1]), (["B"], [1.0000000001]), (["B", "C"], [0.5, 0.5]), (["B", "C"], [0.5, 0.5000000001]),
                            (["B", "C"], [1.0, 1e-10]), (["B", "C"], [0.3, 0.7]), (["B", "C"], [0.1, 0.2]),
                            (["B", "C", "A"], [0.5, 0.25, 0.25]), (["B", "C", "A"], [0.5, 0.25, 0.2500000001]),
                            (["B", "C", "A"], [0.6, 0.3, 0.1000000000000001])):
            e = copy.deepcopy(base)
            e["pulses"] = [dict(sources=srcs, dest="D", time=1, proportions=props)]
            out.append(("family.pulse-proportions-sum", e))
            e = copy.deepcopy(base)
            e["defaults"] = dict(pulse=dict(proportions=props))
            e["pulses"] = [dict(sources=srcs, dest="D", time=1)]
            out.append(("family.pulse-default-proportions-sum", e))
    rng.shuffle(out)
    return out


def sister_family(rng):
    """two to four demes with IDENTICAL size histories (same exponential or constant last epoch), optionally branching
    from a common root; returns (document, N0) with N0 equal to the common present-day size or not"""
    k = rng.randint(2, 4)
    s0, s1 = rng.choice([(100, 1000), (1000.0, 250.0), (500, 500), (40, 4000.0)])
    root = rng.random() < 0.5
    demes = []
    if root:
        demes.append(dict(name="R", epochs=[dict(start_size=300, end_time=200)]))
    for i in range(k):
        d = dict(name="s%d" % i, epochs=[dict(start_size=s0, end_size=s1, end_time=0)])
        if s0 == s1:
            d["epochs"][0].pop("end_size")
        if root:
            d.update(ancestors=["R"], start_time=200)
        else:
            d["epochs"].insert(0, dict(start_size=s0, end_time=150))
        demes.append(d)
    doc = dict(time_units="generations", demes=demes)
    return doc, rng.choice([s1, float(s1), s0, 100])


def shared_defaults_family(rng):
    """documents whose demes take `ancestors` (and pulses `sources`) from the top-level defaults, so that the resolved
    objects share one list; two to four such demes below a root, optional chain of names for renaming"""
    k = rng.randint(2, 4)
    root = rng.choice(["A", "anc", "pop_0"])
    kids = ["B", "C", "D", "E"][:k]
    demes = [dict(name=root, epochs=[dict(start_size=1000, end_time=rng.choice([0, 50]))])]
    for i, nm in enumerate(kids):
        demes.append(dict(name=nm, epochs=[dict(start_size=100 + i, end_time=0)]))
    doc = dict(time_units="generations", defaults=dict(deme=dict(ancestors=[root], start_time=rng.choice([100, 60.5]))),
               demes=demes)
    demes[0]["ancestors"] = []
    demes[0]["start_time"] = float("inf")
    if rng.random() < 0.6:
        doc["defaults"]["pulse"] = dict(sources=[kids[0]], proportions=[0.1])
        doc["pulses"] = [dict(dest=kids[1], time=10 + j) for j in range(rng.randint(2, 3))]
    return doc


def size_return_family(rng):
    """demes whose epoch sizes are drawn from two values only, so that a size recurs after an epoch that changed it
    (constant S, S -> T, constant S again, ...); all size functions; one or two demes"""
    def epochs(k, top):
        S, T = rng.choice([(100, 200), (1000.0, 250.0), (50, 50.5), (7, 7000)])
        out, prev = [], None
        for i in range(k):
            ss = rng.choice([S, T]) if prev is None or rng.random() < 0.7 else prev
            es = ss if (i == 0 and top) or rng.random() < 0.5 else rng.choice([S, T])
            ep = dict(start_size=ss, end_size=es, end_time=(k - 1 - i) * 10)
            if ss != es and rng.random() < 0.3:
                ep["size_function"] = "linear"
            out.append(ep)
            prev = es
        return out
    k = rng.randint(3, 6)
    demes = [dict(name="A", epochs=epochs(k, True))]
    if rng.random() < 0.5:
        demes.append(dict(name="B", ancestors=["A"], start_time=(k - 1) * 10 - 5, epochs=epochs(rng.randint(2, k - 1), False)))
        demes[1]["epochs"] = [e for e in demes[1]["epochs"] if e["end_time"] < demes[1]["start_time"]]
    return dict(time_units="generations", demes=demes)


def merge_family(rng):
    """a deme with three to six ancestors (proportions that sum to exactly or nearly one, listed in any order relative
    to the ancestors' definition order), the ancestors ending at or after the merger; optionally a pulse at the same time"""
    k = rng.randint(3, 6)
    props = rng.choice({3: [[0.5, 0.25, 0.25], [0.2, 0.3, 0.5], [1 / 3, 1 / 3, 1 / 3]],
                        4: [[0.25] * 4, [0.5, 0.25, 0.125, 0.125], [0.1, 0.2, 0.3, 0.4], [0.7, 0.1, 0.1, 0.1]],
                        5: [[0.2] * 5, [0.5, 0.125, 0.125, 0.125, 0.125], [0.05, 0.15, 0.2, 0.25, 0.35]],
                        6: [[0.5, 0.1, 0.1, 0.1, 0.1, 0.1], [0.25, 0.25, 0.125, 0.125, 0.125, 0.125]]}[k])
    t = rng.choice([100, 50.5, 1000])
    names = ["a%d" % i for i in range(k)]
    demes = [dict(name=nm, epochs=[dict(start_size=100 * (i + 1), end_time=(t if rng.random() < 0.6 else 0))]) for i, nm in enumerate(names)]
    order = names[:]
    rng.shuffle(order)
    demes.append(dict(name="m", ancestors=order, proportions=props, start_time=t, epochs=[dict(start_size=500, end_time=0)]))
    doc = dict(time_units="generations", demes=demes)
    alive = [d["name"] for d in demes[:-1] if d["epochs"][0]["end_time"] == 0]
    if alive and rng.random() < 0.4:
        doc["pulses"] = [dict(sources=[alive[0]], dest="m", time=t / 2, proportions=[0.1])]
    return doc


def sawtooth_family(rng):
    """consecutive exponential epochs with equal growth rate and a size jump between
    them (zigzag / sawtooth histories), optionally with a second deme"""
    k = rng.randint(2, 5)
    span = rng.choice([10, 25.0, 100])
    lo, hi = rng.choice([(100, 200), (1000.0, 250.0), (50, 800)])
    epochs = [dict(start_size=hi, end_time=k * span)]
    for i in range(k):
        a, b = (lo, hi) if rng.random() < 0.8 else (hi, lo)
        epochs.append(dict(start_size=a, end_size=b, end_time=(k - 1 - i) * span))
    demes = [dict(name="A", epochs=epochs)]
    migs = []
    if rng.random() < 0.5:
        demes.append(dict(name="B", ancestors=["A"], start_time=(k - 0.5) * span,
                          epochs=[dict(start_size=300, end_size=600, end_time=span),
                                  dict(start_size=300, end_size=600, end_time=0)]))
        migs.append(dict(demes=["A", "B"], rate=1e-4))
    return dict(time_units="generations", demes=demes, migrations=migs)
