"""Sampling plan and driver call for the semantic comparison graph <-> ms command
(coq/Spec/MsSem.v, coq/Spec/SemEquiv.v): sizes and rates at two interior points of every
interval between consecutive boundaries of either side (and beyond the oldest), lineage
movements at every boundary."""
import math

import gen


def boundaries(g, cmd, N0):
    ts = set()
    for d in g.demes:
        ts.add(d.start_time)
        for e in d.epochs:
            ts.add(e.end_time)
    for m in g.migrations:
        ts.update([m.start_time, m.end_time])
    for p in g.pulses:
        ts.add(p.time)
    for e in cmd["init"] + cmd["events"]:
        ts.add(e[1] * 4 * N0)
    fin = sorted(float(t) for t in ts if not math.isinf(t) and t == t)
    merged = []
    for t in fin:
        if merged and math.isclose(t, merged[-1], rel_tol=1e-9, abs_tol=0):
            continue
        merged.append(t)
    if not merged or merged[0] != 0:
        merged.insert(0, 0.0)
    return merged


def near_coincident(g, rel=1e-6):
    """two distinct times of the graph closer than rel: "the same demography up to the precision of the
    printed numbers" is then ill-defined (scaling by 4*N0 and back can merge or swap them)"""
    ts = set()
    for d in g.demes:
        ts.add(d.start_time)
        for e in d.epochs:
            ts.add(e.end_time)
    for m in g.migrations:
        ts.update([m.start_time, m.end_time])
    for p in g.pulses:
        ts.add(p.time)
    fin = sorted(float(t) for t in ts if not math.isinf(t))
    return any(a != b and math.isclose(a, b, rel_tol=rel) for a, b in zip(fin, fin[1:]))


def plan(g, cmd, N0):
    b = boundaries(g, cmd, N0)
    times = []
    for lo, hi in zip(b, b[1:]):
        w = hi - lo
        times += [lo + w / 3, lo + 2 * w / 3]
    last = b[-1]
    times += [last * 1.5 + 1, last * 4 + 10]
    return times, [x for x in b if x > 0]


def run(drv, g, N0, cmd, popmap, rel=1e-6, abst=1e-12):
    """g must be in generations.  Returns a list of (kind, where, time) discrepancies."""
    times, bounds = plan(g, cmd, N0)
    res = drv.call("sem_check", gen.graph_payload(g), N0, cmd, popmap, times, bounds, rel, abst)
    out = []
    for t, r in res[0]:
        if r[0] != "ok":
            out.append(("ms-error:" + str(r[1]), None, t))
        else:
            out += [(c[0], (c[1], c[2]), t) for c in r[1]]
    for b, r in res[1]:
        if r[0] != "ok":
            out.append(("ms-error:" + str(r[1]), None, b))
        else:
            out += [(c[0], (c[1], c[2]), b) for c in r[1]]
    return out
