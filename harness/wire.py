"""Value syntax shared with driver/main.ml, and a handle on the driver process."""
import math
import os
import subprocess
import numbers


def enc(v, out):
    if v is None:
        out.append("N")
    elif v is True:
        out.append("T")
    elif v is False:
        out.append("F")
    elif isinstance(v, int):
        out.append("i%d" % v)
    elif isinstance(v, float):
        out.append("f" + v.hex())
    elif isinstance(v, str):
        out.append("s" + v.encode("utf-8", "surrogatepass").hex())
    elif isinstance(v, (list, tuple)):
        out.append("(L")
        for x in v:
            enc(x, out)
        out.append(")")
    elif isinstance(v, dict):
        out.append("(D")
        for k, x in v.items():
            if not isinstance(k, str):
                raise TypeError("non-string key")
            out.append("s" + k.encode("utf-8", "surrogatepass").hex())
            enc(x, out)
        out.append(")")
    elif isinstance(v, numbers.Integral):
        out.append("i%d" % int(v))
    elif isinstance(v, numbers.Real):
        out.append("f" + float(v).hex())
    else:
        out.append("O")


def encode(v):
    out = []
    enc(v, out)
    return " ".join(out)


def _tokens(line):
    return line.replace("(", " ( ").replace(")", " ) ").split()


def _parse(toks, pos):
    t = toks[pos]
    if t == "(":
        kind = toks[pos + 1]
        pos += 2
        if kind == "L":
            items = []
            while toks[pos] != ")":
                v, pos = _parse(toks, pos)
                items.append(v)
            return items, pos + 1
        d = {}
        while toks[pos] != ")":
            k = bytes.fromhex(toks[pos][1:]).decode("utf-8", "surrogatepass")
            v, pos = _parse(toks, pos + 1)
            d[k] = v
        return d, pos + 1
    if t == "N":
        return None, pos + 1
    if t == "T":
        return True, pos + 1
    if t == "F":
        return False, pos + 1
    if t == "O":
        return Ellipsis, pos + 1
    c, body = t[0], t[1:]
    if c == "i":
        return int(body), pos + 1
    if c == "f":
        return float.fromhex(body), pos + 1
    if c == "s":
        return bytes.fromhex(body).decode("utf-8", "surrogatepass"), pos + 1
    raise ValueError("bad token " + t)


def decode(line):
    v, _ = _parse(_tokens(line), 0)
    return v


class DriverError(Exception):
    pass


class Driver:
    """Runs build/driver; call(op, *args) -> decoded answer."""

    def __init__(self, path=None):
        path = path or os.path.join(os.environ.get("VERIF_HOME", "/verif"), "build/driver")
        self.p = subprocess.Popen(
            ["/bin/sh", "-c", "ulimit -s unlimited 2>/dev/null; exec " + path],
            stdin=subprocess.PIPE, stdout=subprocess.PIPE, text=True, bufsize=1 << 16)
        self.calls = 0

    def call(self, op, *args):
        self.p.stdin.write(encode([op] + list(args)) + "\n")
        self.p.stdin.flush()
        line = self.p.stdout.readline()
        if not line:
            raise DriverError("driver died on op " + op)
        self.calls += 1
        v = decode(line)
        if isinstance(v, list) and v and v[0] == "fail":
            raise DriverError("%s: %s" % (op, v[1]))
        return v

    def close(self):
        try:
            self.p.stdin.close()
            self.p.wait(timeout=10)
        except Exception:
            self.p.kill()


def num_eq(a, b):
    """Exact value equality of two Python numbers (nan == nan)."""
    if isinstance(a, bool) or isinstance(b, bool):
        a, b = (int(a) if isinstance(a, bool) else a), (int(b) if isinstance(b, bool) else b)
    if isinstance(a, float) and isinstance(b, float) and math.isnan(a) and math.isnan(b):
        return True
    return a == b


def deep_eq(a, b):
    """Structural equality with numbers compared by value (1 == 1.0, nan == nan)."""
    if isinstance(a, (int, float)) and isinstance(b, (int, float)):
        return num_eq(a, b)
    if isinstance(a, dict) and isinstance(b, dict):
        return list(a.keys()) == list(b.keys()) and all(deep_eq(a[k], b[k]) for k in a)
    if isinstance(a, (list, tuple)) and isinstance(b, (list, tuple)):
        return len(a) == len(b) and all(deep_eq(x, y) for x, y in zip(a, b))
    return type(a) == type(b) and a == b
