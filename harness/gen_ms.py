"""Generator of ms command lines over the options demes.from_ms supports, with event
times drawn from a small pool (coincident times are the point), mostly respecting
ms's population-index discipline, in time order or shuffled."""
import random


def fmt(x):
    if isinstance(x, int):
        return str(x)
    s = repr(float(x))
    return s


def gen_ms(rng, max_events=8, shuffle=None):
    npop = rng.choice([1, 1, 2, 2, 3, 4])
    args = []
    if npop > 1 or rng.random() < 0.3:
        args += ["-I", str(npop)] + [str(rng.choice([0, 2, 5])) for _ in range(npop)]
        if rng.random() < 0.4 and npop > 1:
            args.append(fmt(rng.choice([0.5, 1.0, 2.5, 0])))
    for _ in range(rng.choice([0, 0, 1, 2])):
        k = rng.choice(["-n", "-g", "-G", "-m", "-ma"])
        i = rng.randint(1, npop)
        if k == "-n":
            args += ["-n", str(i), fmt(rng.choice([0.1, 0.5, 2.0, 1.0]))]
        elif k == "-g":
            args += ["-g", str(i), fmt(rng.choice([0.0, 1.5, -0.5, 10.0]))]
        elif k == "-G":
            args += ["-G", fmt(rng.choice([0.0, 2.0, -1.0]))]
        elif k == "-m" and npop > 1:
            j = rng.choice([x for x in range(1, npop + 1) if x != i])
            args += ["-m", str(i), str(j), fmt(rng.choice([0.0, 0.5, 3.0]))]
        elif k == "-ma" and npop > 1:
            args += ["-ma"] + [("x" if a == b else fmt(rng.choice([0.0, 1.0, 2.0]))) for a in range(npop) for b in range(npop)]
    pool = sorted(rng.sample([0.01, 0.05, 0.1, 0.15, 0.2, 0.5, 1.0, 1.5, 2.0, 3.25], rng.randint(1, 4)))
    events = []
    cur = npop
    joined = set()
    times = sorted(rng.choice(pool) for _ in range(rng.randint(0, max_events)))
    for t in times:
        alive = [x for x in range(1, cur + 1) if x not in joined]
        if not alive:
            break
        k = rng.choice(["-eG", "-eg", "-eN", "-en", "-eM", "-em", "-ema", "-es", "-ej", "-ej", "-en", "-eg"])
        i = rng.choice(alive)
        if rng.random() < 0.04:
            i = rng.randint(1, cur + 1)          # occasionally a bad index
        if k == "-eG":
            events.append((t, ["-eG", fmt(t), fmt(rng.choice([0.0, 0.0, 1.0, -2.0]))]))
        elif k == "-eg":
            events.append((t, ["-eg", fmt(t), str(i), fmt(rng.choice([0.0, 0.0, 3.0, -1.0]))]))
        elif k == "-eN":
            events.append((t, ["-eN", fmt(t), fmt(rng.choice([0.5, 1.0, 4.0]))]))
        elif k == "-en":
            events.append((t, ["-en", fmt(t), str(i), fmt(rng.choice([0.2, 1.0, 3.0]))]))
        elif k == "-eM":
            if cur > 1:
                events.append((t, ["-eM", fmt(t), fmt(rng.choice([0.0, 1.0, 4.0]))]))
        elif k == "-em":
            others = [x for x in alive if x != i]
            if others:
                events.append((t, ["-em", fmt(t), str(i), str(rng.choice(others)), fmt(rng.choice([0.0, 0.5, 2.0]))]))
        elif k == "-ema":
            if cur > 1:
                mat = [("x" if a == b else fmt(rng.choice([0.0, 0.0, 1.0]))) for a in range(cur) for b in range(cur)]
                events.append((t, ["-ema", fmt(t), str(cur)] + mat))
        elif k == "-es":
            events.append((t, ["-es", fmt(t), str(i), fmt(rng.choice([0.1, 0.5, 0.9, 0.0, 1.0]))]))
            cur += 1
            if rng.random() < 0.8:
                tgt = [x for x in alive if x != i] or [i]
                events.append((t, ["-ej", fmt(t), str(cur), str(rng.choice(tgt))]))
                joined.add(cur)
        elif k == "-ej":
            others = [x for x in alive if x != i]
            if others:
                events.append((t, ["-ej", fmt(t), str(i), str(rng.choice(others))]))
                joined.add(i)
    # a burst of lineage movements at ONE time: joins into a population that is then split, splits whose new
    # population is joined elsewhere, chains a -> b -> c; all indices valid, in a random order of the movements
    if rng.random() < 0.3:
        t = rng.choice(pool + [4.0, 5.5])
        if t >= (times[-1] if times else 0):
            alive = [x for x in range(1, cur + 1) if x not in joined]
            for _ in range(rng.randint(2, 4)):
                if len(alive) < 1:
                    break
                if rng.random() < 0.5 and len(alive) >= 2:
                    i, j = rng.sample(alive, 2)
                    events.append((t, ["-ej", fmt(t), str(i), str(j)]))
                    joined.add(i)
                    alive.remove(i)
                else:
                    i = rng.choice(alive)
                    events.append((t, ["-es", fmt(t), str(i), fmt(rng.choice([0.25, 0.5, 0.75]))]))
                    cur += 1
                    tgt = [x for x in alive if x != i]
                    if tgt and rng.random() < 0.85:
                        events.append((t, ["-ej", fmt(t), str(cur), str(rng.choice(tgt))]))
                        joined.add(cur)
                    else:
                        alive.append(cur)
    # a rate that is switched off and later back to exactly its earlier value (same matrix entry)
    if npop > 1 and rng.random() < 0.35:
        ts = sorted(rng.sample([0.02, 0.04, 0.07, 0.3, 0.6, 0.9], 2))
        x = rng.choice([0.5, 2.0, 3.0])
        if rng.random() < 0.6:
            i, j = rng.sample(range(1, npop + 1), 2)
            pre = ["-m", str(i), str(j), fmt(x)] if rng.random() < 0.5 else None
            if pre:
                args += pre
            else:
                events.append((0.0, ["-em", fmt(0.005), str(i), str(j), fmt(x)]))
            events.append((ts[0], ["-em", fmt(ts[0]), str(i), str(j), fmt(0.0)]))
            events.append((ts[1], ["-em", fmt(ts[1]), str(i), str(j), fmt(x)]))
        else:
            events.append((0.0, ["-eM", fmt(0.005), fmt(x)]))
            events.append((ts[0], ["-eM", fmt(ts[0]), fmt(0.0)]))
            events.append((ts[1], ["-eM", fmt(ts[1]), fmt(x)]))
        events.sort(key=lambda e: e[0])
    # timed size and growth options written with time 0 (`-en 0 i x` is not `-n i x`: it also zeroes the growth
    # rate), after initial growth options, so that the difference is visible
    if rng.random() < 0.25:
        if rng.random() < 0.7:
            args += rng.choice([["-G", fmt(rng.choice([2.0, -1.0]))], ["-g", str(rng.randint(1, npop)), fmt(rng.choice([1.5, -0.5]))]])
        for _ in range(rng.randint(1, 2)):
            k = rng.choice(["-en", "-en", "-eN", "-eg", "-eG"])
            z = rng.choice(["0", "0.0"])
            i = str(rng.randint(1, npop))
            ev0 = {"-en": ["-en", z, i, fmt(rng.choice([0.2, 1.0, 3.0]))], "-eN": ["-eN", z, fmt(rng.choice([0.5, 1.0, 4.0]))],
                   "-eg": ["-eg", z, i, fmt(rng.choice([0.0, 3.0, -1.0]))], "-eG": ["-eG", z, fmt(rng.choice([0.0, 1.0]))]}[k]
            events.append((0.0, ev0))
        events.sort(key=lambda e: e[0])
    if shuffle is None:
        shuffle = rng.random() < 0.3
    ev = [e for _, e in events]
    if shuffle:
        rng.shuffle(ev)
    for e in ev:
        args += e
    ignored = []
    if rng.random() < 0.5:
        ignored = rng.choice([["-t", "1.0"], ["-r", "1.0", "100"], ["-s", "5"], ["-T"], ["-seeds", "1", "2", "3"], ["-p", "5"]])
    pos = rng.randint(0, 1)
    cmd = (ignored if pos == 0 else []) + args + (ignored if pos == 1 else [])
    return " ".join(cmd), ignored
