"""Writes /verif/MANIFEST.json from the table below (run after adding a check)."""
import json
import os

LEVEL_NOTE = ("Trusted: Coq 8.16.1 kernel (coqc, full .vo; coqchk in thorough), extraction (ExtrOcamlBasic, "
              "ExtrOcamlNativeString), driver/main.ml binary64 NumOps record and wire syntax, harness generators/"
              "comparison, xlate/pyxlate.py (source-to-Gallina translator for decision and arithmetic expressions and 23 whole function bodies, re-run and "
              "re-proved equal to the model on every run), coq/Spec/*.v as transcription of the rules; that binary64 satisfies the number laws is proved "
              "for Coq's primitive floats (NumF) and for exact rationals (NumQ). Axioms per theorem: see evidence (Print Assumptions).")

CHECKS = {
    "C01": ("proof", "Coq proof (resolve_valid, validb_spec, rename_demes_valid) + verified checker validb run on every returned graph + correspondence",
            "For every document value, if the model of Graph.fromdict returns a graph it satisfies the declarative predicate Valid "
            "(Spec/Valid.v, every clause of the property, migration clauses quantified over times); rename_demes preserves Valid for any map; "
            "the boolean validator validb is proved equivalent to Valid and is run (extracted) on every graph any entry point of the "
            "implementation returns (fromdict, loads, Builder, from_ms, in_generations, rename_demes), next to an independent Python validator. "
            "in_generations on binary64 is a known finding (float quotient). resolve_valid_F: the same for binary64 itself (Coq primitive floats), "
            "with no arithmetic hypothesis (SumOK proved for NumF)."),
    "C02": ("proof", "Coq theorems for each resolution rule at builder and at document level (incl. key-order invariance of fromdict) + exact correspondence + metamorphic spelling/route/sharing comparison",
            "Each resolution rule of the specification is an equation proved about Model/Resolve.v (precedence of defaults, inferred start time, "
            "proportions, sizes, size function, symmetric expansion, per-pair bounds, stable pulse sort); the model is compared bit-exactly with "
            "Graph.fromdict on re-spelt documents; equivalent spellings, the YAML/JSON/dict/Builder routes and documents with shared sub-objects "
            "are compared on the implementation. Whole-document spelling equivalence is not a single Coq theorem."),
    "C03": ("proof", "Coq proof (acceptance implies Valid; acceptance of explicit documents iff valid content) + accept/reject correspondence on mutants + independent validator",
            "resolve_valid: any accepted document yields a graph satisfying every rule, so rule-breaking resolutions are rejected; "
            "explicit_accept_iff: a fully explicit document is accepted iff its content is valid (both directions). Accept/reject of the "
            "implementation is compared with the model on rule-targeted boundary mutants and structural mutants, and with an independent "
            "Python validator on explicit mutants in both directions. The bodies of the validators and of the Epoch / AsymmetricMigration post-init checks are "
            "translated from the current source on every run and proved equal to the checks the model's builders run (make_epoch_post_init, add_asym_post_init); "
            "explicit_accept_iff_F: the iff for binary64 itself."),
    "C04": ("proof", "Coq proof of the data-level round trip (dump_pre / load_post) + text round trips on the implementation with adversarial strings and numbers",
            "roundtrip_resolved and the stringify/unstringify inverses are theorems about Model/IO.v for every valid graph, both formats; the text "
            "layer (ruamel.yaml, json) is external and its print/parse law is tested through dump/dumps/dump_all and load/loads/load_all with "
            "YAML-significant strings, Unicode, awkward numbers, all target kinds and multi-document streams of 0..5 graphs, compared exactly. "
            "roundtrip_simplified (+ _F for binary64 itself): dumping the simplified form and loading it back gives a value-equal graph."),
    "C05": ("proof", "Coq proof (simplify_total, simplify_migrations_preserve, simplify_resolves; and for binary64 itself simplify_resolves_F with SumLaws proved for NumF) + exact correspondence of Model/Simplify.v with asdict_simplified + re-resolution on the implementation",
            "Model/Simplify.v (field omission and the clique search on explicit fuel) is compared exactly with Graph.asdict_simplified on generated "
            "graphs and clique-layout families; the simplified dictionary is re-resolved by the implementation and compared with the original "
            "(migrations as a multiset). For every valid graph simplification never fails, preserves the migration multiset, and the simplified "
            "dictionary resolves to a value-equal graph (migrations up to order)."),
    "C06": ("proof", "Coq proof (asdict_fixed) + schema / fixed-point / aliasing checks on the implementation",
            "asdict is a literal dictionary with every field (explicitness is definitional); asdict_fixed: for every Valid g resolving asdict g "
            "succeeds, infers nothing and returns the same dictionary. Object identity (mutating the returned dictionary) and numeric/string "
            "subclasses are outside a value model and are checked on the implementation."),
    "C10": ("proof", "Coq proof (reflexive, symmetric, sound, invariant under the allowed re-orderings) + correspondence + perturbation pairs",
            "close_graph (model of assert_close not raising) is proved reflexive, symmetric, sound (a positive answer implies pairwise closeness of "
            "every semantic attribute incl. the number of epochs) and invariant under text fields, deme order, migration order and ancestor order; "
            "isclose vs assert_close agreement and sensitivity to single-attribute perturbations are checked on the implementation, also on graphs derived by "
            "rename_demes / in_generations from graphs compared before. The bodies of Epoch.assert_close and AsymmetricMigration.assert_close are translated from the "
            "current source on every run and proved equal to close_epoch / close_mig; so are isclose_deme_proportions, Deme.assert_close, Pulse.assert_close and "
            "Graph.assert_close (= close_graph): the whole closeness chain is regenerated from the source."),
    "C11": ("proof", "Coq proof (every time divided, frame unchanged, idempotent, result valid whenever the division is order-preserving on the graph's times) + correspondence; the binary64 cases where division is not order-preserving are known findings",
            "in_generations is proved to divide every time by the generation time and change nothing else, and to be idempotent given x/1 == x; the whole body of "
            "Graph.in_generations is translated from the current source on every run and proved equal to the model (update-of-a-deep-copy form); "
            "receiver-unchanged and no shared state are checked on the implementation; the result can be invalid on binary64 when the quotient "
            "collapses, overflows or underflows (F12a-c); in exact rational arithmetic the result is proved valid unconditionally, and for binary64 (Coq's primitive floats, NumF) the validity clause is "
            "refuted inside Coq by three evaluated valid graphs whose conversion is invalid (underflow, collapse, overflow) together with the failure of the theorem's hypothesis DivOK on them."),
    "C12": ("proof", "Coq proof (end times, partition, pointwise agreement, row sums) + exact correspondence + pointwise check on the implementation",
            "For every graph satisfying MigsOK (implied by Valid): end times strictly decrease to 0, the intervals partition [0, inf), the matrix of the "
            "interval containing t holds exactly the rate of the migration in force at t (0.0 when none), no row exceeds one beyond the tolerance."),
    "C13": ("proof", "Coq proof about a model of Deme.size_at that is re-derived from the source on every run (whole-function translation proved equal to the hand-written model) + bit-exact correspondence of the extracted model with the implementation",
            "Zero outside the lifetime (start exclusive, end inclusive), end size at every epoch end, unique owner epoch inside, value at infinity, "
            "the three interpolation formulas; between-ness for linear epochs in exact rational arithmetic and for all three size functions (exponential included, with the "
            "exact closed form and its monotonicity) in exact real arithmetic (NumR instance over the standard library's Reals; its real-number and classical axioms are listed in the evidence). "
            "The whole body of size_at is translated from the current source and proved equal to the model on every run. For binary64 the between-ness "
            "clause is refuted in the last place inside Coq (weight rounding to 1 next to an epoch end; known finding F24); the check evaluates the clause exactly "
            "and reports deviations within a relative 1e-9 as that finding."),
    "C14": ("proof", "Coq proof (predecessors, successors, transpose, four-way classification) + correspondence",
            "predecessors/successors are proved to be exactly the ancestor lists and their transpose with one entry per deme; the event lists are "
            "proved to be the filters of the deme list by four mutually exclusive predicates, each split grouping all split-children of one parent. The whole bodies of "
            "Graph.successors and Graph.predecessors are translated from the current source on every run and proved equal to Model/Ancestry.v (a KeyError on the "
            "dict of lists is explicit in the translation and proved unreachable)."),
    "C15": ("proof", "Coq proof (fields renamed, validity preserved, lookups, inverse) + exact correspondence incl. name index; exhaustive small maps in thorough",
            "For every valid graph and injective map onto identifiers: every name field carries its new name, the result is Valid, lookup/membership "
            "by new names succeed and by unused names fail, renaming back restores the graph; non-injective or non-identifier maps are refused. The whole body of "
            "Graph.rename_demes (and of valid_deme_name) is translated from the current source on every run and proved equal to Model/Rename.v."),
    "C16": ("proof", "Coq proof about Model/IO.v (strict data, Infinity inverse and locality, null walker) + every loader on JSON/YAML text with nulls at every path",
            "stringify leaves no non-finite number outside metadata; unstringify inverts it and touches only deme/migration start_time and the two "
            "defaults; a null reachable by the walker outside top-level metadata is refused. That all six entry points apply the pipeline, and nulls "
            "inside nested lists (caught by type validation), are checked on the implementation."),
    "C07": ("translation_validation", "ms semantics (coq/Spec/MsSem.v) run on every emitted command and compared with the graph + exact correspondence of Model/ToMs.v; structural Coq theorems about the emitted event list and semantic theorems (rates, existence of populations) against MsSem",
            "Every command to_ms emits for generated ms-expressible graphs (any ancestry shape, coincident times, extinct demes, chained pulses, sawtooth "
            "histories) and N0 values is interpreted by an executable transcription of the ms manual's backwards-time rules and compared with the graph: "
            "sizes and incoming rates at two interior points of every interval of the common refinement of both sides' boundaries (exhaustive for "
            "piecewise-exponential functions), lineage-movement matrices at every event time; Model/ToMs.v is compared bit for bit with the implementation's "
            "event list; graphs outside the class must be refused. Theorems in coq/Props/C07.v: numbering, sorting, refusal, and against the ms semantics: "
            "migration rates in force, which populations exist, the growth rate and the size anchor of the owning epoch, the split chain of a multi-ancestor deme (exact arithmetic), and in exact real arithmetic "
            "that the anchored exponential has at every time of the epoch exactly the deme's size (ms_size_exp_R; standard-library real axioms). The arithmetic expressions of to_ms / get_growth_rate are tied to the model from the current source on every run."),
    "C08": ("translation_validation", "ms semantics run on every generated command and compared with the graph from_ms returns + exact correspondence of Model/FromMs.v + Coq proofs: every returned graph is Valid; the interpreter refines the ms semantics for populations and the migration matrix; migration records are the inverse of the matrix history",
            "Generated command lines over all supported options (time coincidences, shuffled order, ignored options) are converted by the implementation; the "
            "returned graph is compared with the ms semantics of the command (sizes, rates, lineage movements), validated, and compared exactly with the model "
            "of build_graph (whose result is proved Valid); ignored options, optional names and the order of commuting same-time options are checked. "
            "Known findings F8, F9, F21 are reported as such. Coq: the interpreter refines the ms semantics for population count, emptied populations, the migration "
            "matrix in force (end to end: from_ms_rates) and, new, the growth rate in force on every population (run_groups_growth_refine; its arithmetic premise proved for NumQ and binary64)."),
    "C09": ("translation_validation", "graph -> to_ms -> from_ms compared semantically with the original (coq/Spec/SemEquiv.v) + Coq theorems: round trip of migration rates (composition of the to_ms and from_ms theorems), fixed-point rendering + option print/parse on the implementation",
            "The graph returned by from_ms(to_ms(g, N0), N0, names) is compared with g in generations by the extracted semantic comparer with a tolerance "
            "derived from the ten-decimal rendering of negative growth rates; every kind of option record with awkward finite values is printed, parsed back by "
            "the library's parser and compared; the fixed-point text is compared digit for digit with coq/Model/FloatStr.v, for which the error bound and sign are proved. "
            "Coq: round trip of migration rates (ms_round_trip_rates, exact over rationals) and of growth rates on every event prefix (ms_round_trip_growth)."),
    "C17": ("fault_enumeration", "Coq proof of the context-manager / generator state machines (all bodies, all next/close sequences) + fault enumeration on the implementation with builtins.open wrapped",
            "coq/Model/Files.v models _open_file_polymorph and the load_all generator; it is proved that every owned handle is closed on every exit of an "
            "arbitrary body and under every sequence of next()/close() calls, that caller streams are never closed, and that an unstarted generator opens "
            "nothing. CPython's with/generator semantics are modelled, not verified; the implementation is driven through every (entry point, target kind, "
            "failure point) triple."),
    "C18": ("proof", "Coq frame theorem for a store-with-references model of _copy_unshared + mutation-logging containers and Builder histories on the implementation",
            "coq/Model/Heap.v: the copy fromdict takes consists of fresh, unshared nodes, so no sequence of mutations by a consumer that starts from the copy can "
            "reach or change the caller's store (frame theorem), and the copy denotes the same value; determinism is by construction of the functional model "
            "(Model/Resolve.v, tied by correspondence). The implementation is run on documents built from containers that log every mutating call, on success "
            "and on every failure path, and on Builder histories with later mutation of inputs and of returned dictionaries."),
    "C19": ("proof", "Coq proof of the dispatch / look-ahead model (coq/Model/Cli.v) + byte comparison of the in-process CLI with the library calls and exit statuses through real processes",
            "The two-document look-ahead loses, duplicates and reorders nothing; zero documents print nothing, one prints exactly the selected renderer's output, "
            "several documents with a non-YAML output are an error with no output, several in YAML print every document up to the first failing one. The "
            "renderers are abstract in the model; byte equality with demes.dump/dumps/dump_all/to_ms/from_ms on the loaded graphs is checked on the implementation."),
    "C20": ("other", "deterministic executed-line counts over fourteen families and sizes up to 32/64 with a growth-exponent test, tied to a cost model proved polynomial in Coq + Coq lower bound for the subset search of simplification",
            "Step counts of every public operation are measured on the implementation and their growth exponent compared with a low-degree bound; the one "
            "super-polynomial operation (the subset search in asdict_simplified, hence str/dumps by default) is a known finding whose exponential lower bound on "
            "rings is a theorem about Model/Simplify.v. For six other operations coq/Model/Steps.v counts loop iterations, coq/Proofs/StepsProofs.v proves the counts "
            "linear or quadratic in the size of the graph, and the check requires executed lines <= K * (steps + 1) with a ratio that does not grow with the size."),
}

NOT_YET = {}


def main():
    checks = []
    for pid, (cat, tech, text) in sorted(CHECKS.items()):
        checks.append({
            "property_id": pid,
            "quick_cmd": "./check %s --tier quick" % pid,
            "thorough_cmd": "./check %s --tier thorough" % pid,
            "evidence_file": "/verif/evidence/%s.json" % pid,
            "replay_cmd_template": "./check %s --replay {path}" % pid,
            "engine": "coq-model",
            "technique": tech,
            "level_claimed": {"category": cat, "text": text, "design_ref": "DESIGN.md section 6, " + pid},
            "level_note": LEVEL_NOTE,
        })
    m = {
        "version": 1,
        "setup_cmd": "make -C /verif setup",
        "hooks": {
            "guard": "POPSIM_CONSORTIUM_DEMES_PYTHON_VERIF",
            "enable": "no hooks in /repo: the harness imports demes from /repo's working tree (PYTHONPATH=/repo) and instruments from outside",
            "baseline_off_cmd": "cd /repo && /venv/bin/python -m pytest -ra -q -p no:cacheprovider --timeout=900 --continue-on-collection-errors",
            "source_commits": [],
            "add_only": True,
        },
        "engines": [{"name": "coq-model", "path": "coq/", "serves_properties": sorted(CHECKS),
                     "kind_free_text": "Coq 8.16.1 model of demes-python generic over a number interface (coq/Model), declarative "
                                       "specification (coq/Spec), proofs (coq/Proofs) and per-property theorem files (coq/Props); extracted "
                                       "to OCaml (build/driver) and run against the implementation on generated inputs by harness/"}],
        "checks": checks,
        "not_applicable": [{"property_id": k, "reason": v} for k, v in sorted(NOT_YET.items()) if k not in CHECKS],
        "notes": "See DESIGN.md. known_findings.json lists genuine defects (fixed in /repo by 'fix:' commits, or recorded).",
    }
    json.dump(m, open("/verif/MANIFEST.json", "w"), indent=1)


if __name__ == "__main__":
    main()
