"""Writes /verif/MANIFEST.json from the table below (run after adding a check)."""
import json
import os

LEVEL_NOTE = ("Trusted: Coq 8.16.1 kernel (coqc, full .vo; coqchk in thorough), extraction (ExtrOcamlBasic, "
              "ExtrOcamlNativeString), driver/main.ml binary64 NumOps record and wire syntax, harness generators/"
              "comparison, coq/Spec/*.v as transcription of the rules; IEEE comparisons assumed to satisfy NumLaws "
              "(proved for the exact-rational instance NumQ). Axioms per theorem: see evidence (Print Assumptions).")

CHECKS = {
    "C01": ("proof", "Coq proof (resolve_valid, validb_spec, rename_demes_valid) + verified checker validb run on every returned graph + correspondence",
            "For every document value, if the model of Graph.fromdict returns a graph it satisfies the declarative predicate Valid "
            "(Spec/Valid.v, every clause of the property, migration clauses quantified over times); rename_demes preserves Valid for any map; "
            "the boolean validator validb is proved equivalent to Valid and is run (extracted) on every graph any entry point of the "
            "implementation returns (fromdict, loads, Builder, from_ms, in_generations, rename_demes), next to an independent Python validator. "
            "in_generations on binary64 is a known finding (float quotient)."),
    "C02": ("proof", "Coq lemmas for each resolution rule about the model of fromdict + exact correspondence + metamorphic spelling/route/sharing comparison",
            "Each resolution rule of the specification is an equation proved about Model/Resolve.v (precedence of defaults, inferred start time, "
            "proportions, sizes, size function, symmetric expansion, per-pair bounds, stable pulse sort); the model is compared bit-exactly with "
            "Graph.fromdict on re-spelt documents; equivalent spellings, the YAML/JSON/dict/Builder routes and documents with shared sub-objects "
            "are compared on the implementation. Whole-document spelling equivalence is not a single Coq theorem."),
    "C03": ("proof", "Coq proof (acceptance implies Valid; acceptance of explicit documents iff valid content) + accept/reject correspondence on mutants + independent validator",
            "resolve_valid: any accepted document yields a graph satisfying every rule, so rule-breaking resolutions are rejected; "
            "explicit_accept_iff: a fully explicit document is accepted iff its content is valid (both directions). Accept/reject of the "
            "implementation is compared with the model on rule-targeted boundary mutants and structural mutants, and with an independent "
            "Python validator on explicit mutants in both directions."),
    "C04": ("proof", "Coq proof of the data-level round trip (dump_pre / load_post) + text round trips on the implementation with adversarial strings and numbers",
            "roundtrip_resolved and the stringify/unstringify inverses are theorems about Model/IO.v for every valid graph, both formats; the text "
            "layer (ruamel.yaml, json) is external and its print/parse law is tested through dump/dumps/dump_all and load/loads/load_all with "
            "YAML-significant strings, Unicode, awkward numbers, all target kinds and multi-document streams of 0..5 graphs, compared exactly."),
    "C05": ("proof", "exact correspondence of Model/Simplify.v with asdict_simplified + re-resolution on the implementation (Coq proof of simplify_resolves in progress)",
            "Model/Simplify.v (field omission and the clique search on explicit fuel) is compared exactly with Graph.asdict_simplified on generated "
            "graphs and clique-layout families; the simplified dictionary is re-resolved by the implementation and compared with the original "
            "(migrations as a multiset). Theorems currently in coq/Props/C05.v are listed in the evidence."),
    "C06": ("proof", "Coq proof (asdict_fixed) + schema / fixed-point / aliasing checks on the implementation",
            "asdict is a literal dictionary with every field (explicitness is definitional); asdict_fixed: for every Valid g resolving asdict g "
            "succeeds, infers nothing and returns the same dictionary. Object identity (mutating the returned dictionary) and numeric/string "
            "subclasses are outside a value model and are checked on the implementation."),
    "C10": ("proof", "Coq proof (reflexive, symmetric, sound, invariant under the allowed re-orderings) + correspondence + perturbation pairs",
            "close_graph (model of assert_close not raising) is proved reflexive, symmetric, sound (a positive answer implies pairwise closeness of "
            "every semantic attribute incl. the number of epochs) and invariant under text fields, deme order, migration order and ancestor order; "
            "isclose vs assert_close agreement and sensitivity to single-attribute perturbations are checked on the implementation."),
    "C11": ("proof", "Coq proof (every time divided, frame unchanged, idempotent) + correspondence; validity of the result is a known finding on binary64",
            "in_generations is proved to divide every time by the generation time and change nothing else, and to be idempotent given x/1 == x; "
            "receiver-unchanged and no shared state are checked on the implementation; the result can be invalid on binary64 when the quotient "
            "collapses, overflows or underflows (F12a-c)."),
    "C12": ("proof", "Coq proof (end times, partition, pointwise agreement, row sums) + exact correspondence + pointwise check on the implementation",
            "For every graph satisfying MigsOK (implied by Valid): end times strictly decrease to 0, the intervals partition [0, inf), the matrix of the "
            "interval containing t holds exactly the rate of the migration in force at t (0.0 when none), no row exceeds one beyond the tolerance."),
    "C13": ("proof", "Coq proof about a hand-written model of Deme.size_at + bit-exact correspondence of the extracted model with the implementation",
            "Zero outside the lifetime (start exclusive, end inclusive), end size at every epoch end, unique owner epoch inside, value at infinity, "
            "the three interpolation formulas. Between-ness inside non-constant epochs is real arithmetic and is checked on the implementation's answers."),
    "C14": ("proof", "Coq proof (predecessors, successors, transpose, four-way classification) + correspondence",
            "predecessors/successors are proved to be exactly the ancestor lists and their transpose with one entry per deme; the event lists are "
            "proved to be the filters of the deme list by four mutually exclusive predicates, each split grouping all split-children of one parent."),
    "C15": ("proof", "Coq proof (fields renamed, validity preserved, lookups, inverse) + exact correspondence incl. name index; exhaustive small maps in thorough",
            "For every valid graph and injective map onto identifiers: every name field carries its new name, the result is Valid, lookup/membership "
            "by new names succeed and by unused names fail, renaming back restores the graph; non-injective or non-identifier maps are refused."),
    "C16": ("proof", "Coq proof about Model/IO.v (strict data, Infinity inverse and locality, null walker) + every loader on JSON/YAML text with nulls at every path",
            "stringify leaves no non-finite number outside metadata; unstringify inverts it and touches only deme/migration start_time and the two "
            "defaults; a null reachable by the walker outside top-level metadata is refused. That all six entry points apply the pipeline, and nulls "
            "inside nested lists (caught by type validation), are checked on the implementation."),
}

NOT_YET = {
    "C07": "ms semantics model (MsSem/GraphSem) and to_ms model not built yet in this session",
    "C08": "from_ms interpreter model not built yet in this session",
    "C09": "depends on the C07/C08 models, not built yet in this session",
    "C17": "file-handle model and fault-enumeration harness not built yet in this session",
    "C18": "heap (sharing/mutation) model and tracking-container harness not built yet in this session",
    "C19": "CLI model and harness not built yet in this session",
    "C20": "cost model not built yet in this session",
}


def main():
    checks = []
    for pid, (cat, tech, text) in sorted(CHECKS.items()):
        checks.append({
            "property_id": pid,
            "quick_cmd": "./check %s --tier quick" % pid,
            "thorough_cmd": "./check %s --tier thorough" % pid,
            "evidence_file": "/verif/evidence/%s.json" % pid,
            "replay_cmd_template": "./check %s --replay {path}" % pid,
            "engine": "coq-model",
            "technique": tech,
            "level_claimed": {"category": cat, "text": text, "design_ref": "DESIGN.md section 6, " + pid},
            "level_note": LEVEL_NOTE,
        })
    m = {
        "version": 1,
        "setup_cmd": "make -C /verif setup",
        "hooks": {
            "guard": "POPSIM_CONSORTIUM_DEMES_PYTHON_VERIF",
            "enable": "no hooks in /repo: the harness imports demes from /repo's working tree (PYTHONPATH=/repo) and instruments from outside",
            "baseline_off_cmd": "cd /repo && /venv/bin/python -m pytest -ra -q -p no:cacheprovider --timeout=900 --continue-on-collection-errors",
            "source_commits": [],
            "add_only": True,
        },
        "engines": [{"name": "coq-model", "path": "coq/", "serves_properties": sorted(CHECKS),
                     "kind_free_text": "Coq 8.16.1 model of demes-python generic over a number interface (coq/Model), declarative "
                                       "specification (coq/Spec), proofs (coq/Proofs) and per-property theorem files (coq/Props); extracted "
                                       "to OCaml (build/driver) and run against the implementation on generated inputs by harness/"}],
        "checks": checks,
        "not_applicable": [{"property_id": k, "reason": v} for k, v in sorted(NOT_YET.items()) if k not in CHECKS],
        "notes": "See DESIGN.md. known_findings.json lists genuine defects (fixed in /repo by 'fix:' commits, or recorded).",
    }
    json.dump(m, open("/verif/MANIFEST.json", "w"), indent=1)


if __name__ == "__main__":
    main()
