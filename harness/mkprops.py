"""Generate coq/Props/<id>.v (theorem statements closed by `exact lemma` + Print Assumptions)
from the statements in a proofs file.  Usage: mkprops.py C10 header.txt Proofs/A.v[:thm,thm] ..."""
import re
import sys


def theorems(path, only=None, indent="  "):
    text = open(path).read()
    out = []
    for m in re.finditer(r"^%sTheorem\s+(\w+)(.*?)\n%sProof\." % (indent, indent), text, flags=re.S | re.M):
        name, rest = m.group(1), m.group(2)
        if only and name not in only:
            continue
        # split binders from statement at the first ':' at depth 0
        depth = 0
        for i, c in enumerate(rest):
            if c in "({[":
                depth += 1
            elif c in ")}]":
                depth -= 1
            elif c == ":" and depth == 0 and rest[i:i + 2] != ":=":
                break
        binders, stmt = rest[:i], rest[i + 1:]
        names = []
        for tok in re.finditer(r"\{[^}]*\}|\(([^:()]*):[^()]*(?:\([^()]*\)[^()]*)*\)|([\w']+)", binders):
            if tok.group(0).startswith("{"):
                continue
            if tok.group(1) is not None:
                names += tok.group(1).split()
            elif tok.group(2):
                names.append(tok.group(2))
        out.append((name, binders.strip(), stmt.rstrip().rstrip("."), names))
    return out


def main():
    pid, header = sys.argv[1], open(sys.argv[2]).read()
    body, prints, top = [], [], []
    for spec in sys.argv[3:]:
        is_top = spec.startswith("top:")          # theorems stated outside any section: emitted after End
        if is_top:
            spec = spec[4:]
        path, _, only = spec.partition(":")
        only = set(only.split(",")) if only else None
        if is_top:
            for name, binders, stmt, names in theorems(path, only, indent=""):
                tn = "%s_%s" % (pid, name)
                top.append("Theorem %s %s :%s.\nProof. exact (%s). Qed.\n" % (tn, binders, stmt, " ".join([name] + names)))
                prints.append("Print Assumptions %s." % tn)
            continue
        for name, binders, stmt, names in theorems(path, only):
            tn = "%s_%s" % (pid, name)
            body.append("  Theorem %s %s :%s.\n  Proof. exact (%s). Qed.\n"
                        % (tn, binders, stmt, " ".join([name] + names)))
            prints.append("Print Assumptions %s." % tn)
    print(header)
    print("\n".join(body))
    print("End %s.\n" % pid)
    print("\n".join(top))
    print("\n".join(prints))


if __name__ == "__main__":
    main()
