"""Generate coq/Props/<id>.v (theorem statements closed by `exact lemma` + Print Assumptions)
from the statements in a proofs file.  Usage: mkprops.py C10 header.txt Proofs/A.v[:thm,thm] ..."""
import re
import sys


def binder_names(binders):
    """explicit binder names, in order: bare identifiers and the names of ( x y : T ) groups at depth 0;
    { ... } groups are implicit and skipped"""
    names, i, n = [], 0, len(binders)
    while i < n:
        c = binders[i]
        if c in "({":
            depth, j = 1, i + 1
            while j < n and depth:
                depth += binders[j] in "({"
                depth -= binders[j] in ")}"
                j += 1
            group = binders[i + 1:j - 1]
            if c == "(":
                k, d = 0, 0
                for k, ch in enumerate(group):
                    d += ch in "({"
                    d -= ch in ")}"
                    if ch == ":" and d == 0:
                        break
                names += group[:k].split()
            i = j
        elif c.isspace():
            i += 1
        else:
            j = i
            while j < n and not binders[j].isspace() and binders[j] not in "({":
                j += 1
            names.append(binders[i:j])
            i = j
    return names


def theorems(path, only=None, indent="  "):
    text = open(path).read()
    out = []
    for m in re.finditer(r"^%sTheorem\s+(\w+)(.*?)\n%sProof\." % (indent, indent), text, flags=re.S | re.M):
        name, rest = m.group(1), m.group(2)
        if only and name not in only:
            continue
        # split binders from statement at the first ':' at depth 0
        depth = 0
        for i, c in enumerate(rest):
            if c in "({[":
                depth += 1
            elif c in ")}]":
                depth -= 1
            elif c == ":" and depth == 0 and rest[i:i + 2] != ":=":
                break
        binders, stmt = rest[:i], rest[i + 1:]
        names = binder_names(binders)
        out.append((name, binders.strip(), stmt.rstrip().rstrip("."), names))
    return out


def main():
    pid, header = sys.argv[1], open(sys.argv[2]).read()
    body, prints, top, topr, rmods = [], [], [], [], []
    tails = []
    for spec in sys.argv[3:]:
        if spec.startswith("tail:"):              # a hand-written block of instance theorems (own imports), appended verbatim
            txt = open(spec[5:]).read()
            tails.append(txt)
            prints += ["Print Assumptions %s." % n for n in re.findall(r"^Theorem (\w+)", txt, flags=re.M)]
            continue
        is_topr = spec.startswith("topR:")        # top-level theorems stated in R_scope (real arithmetic)
        if is_topr:
            spec = "top:" + spec[5:]
        is_top = spec.startswith("top:")          # theorems stated outside any section: emitted after End
        if is_top:
            spec = spec[4:]
        path, _, only = spec.partition(":")
        only = set(only.split(",")) if only else None
        if is_topr:
            rmods.append(path[:-2].replace("/", "."))
        if is_top:
            for name, binders, stmt, names in theorems(path, only, indent=""):
                tn = "%s_%s" % (pid, name)
                (topr if is_topr else top).append("Theorem %s %s :%s.\nProof. exact (%s). Qed.\n" % (tn, binders, stmt, " ".join([name] + names)))
                prints.append("Print Assumptions %s." % tn)
            continue
        for name, binders, stmt, names in theorems(path, only):
            tn = "%s_%s" % (pid, name)
            body.append("  Theorem %s %s :%s.\n  Proof. exact (%s). Qed.\n"
                        % (tn, binders, stmt, " ".join([name] + names)))
            prints.append("Print Assumptions %s." % tn)
    print(header)
    print("\n".join(body))
    print("End %s.\n" % pid)
    if top:
        print("Local Open Scope nat_scope.\n")
    print("\n".join(top))
    if topr:
        # imported here, not in the header: Base.NumR registers another NumOps instance, which must not change how the
        # statements above resolve their implicit number type
        print("From Coq Require Import Reals.\nFrom Demes Require Import Base.NumR Model.SizeAt Proofs.SizeBetweenR %s.\nLocal Open Scope R_scope.\n" % " ".join(rmods))
        print("\n".join(topr))
    print("\n".join(tails))
    print("\n".join(prints))


if __name__ == "__main__":
    main()
