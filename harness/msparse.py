"""An independent parser of ms command lines (not demes' argparse-based one) into the
structured form of coq/Model/MsOpt.v, and back to a wire value."""
import math
import re

ARITY = {"-n": 2, "-g": 2, "-G": 1, "-m": 3, "-eG": 2, "-eg": 3, "-eN": 2, "-en": 3, "-eM": 2, "-em": 4,
         "-es": 3, "-ej": 3}
NUM = re.compile(r"^[-+]?(\d+\.?\d*([eE][-+]?\d+)?|\.\d+([eE][-+]?\d+)?|inf|nan|0x[0-9a-fA-F.]+p[-+]?\d+)$")


def fnum(tok):
    if tok.startswith(("0x", "-0x", "+0x")):
        return float.fromhex(tok)
    return float(tok)


def is_option(tok):
    return tok.startswith("-") and not NUM.match(tok)


def parse(cmd):
    toks = cmd.split()
    npop, structure, irate = 1, False, 0.0
    init, events, unknown = [], [], []
    i = 0
    # first pass: -I (needed for -ma)
    for k, t in enumerate(toks):
        if t == "-I":
            npop = int(toks[k + 1])
            structure = True
            rest = []
            j = k + 2
            while j < len(toks) and not is_option(toks[j]):
                rest.append(toks[j])
                j += 1
            if len(rest) == npop + 1:
                irate = fnum(rest[-1])
    while i < len(toks):
        t = toks[i]
        if t == "-I":
            i += 1
            while i < len(toks) and not is_option(toks[i]):
                i += 1
            continue
        if t in ARITY:
            a = toks[i + 1:i + 1 + ARITY[t]]
            i += 1 + ARITY[t]
            if t == "-n":
                init.append(["n", 0.0, int(a[0]), fnum(a[1]), False])
            elif t == "-g":
                init.append(["g", 0.0, int(a[0]), fnum(a[1])])
            elif t == "-G":
                init.append(["G", 0.0, fnum(a[0])])
            elif t == "-m":
                init.append(["m", 0.0, int(a[0]), int(a[1]), fnum(a[2])])
            elif t == "-eG":
                events.append(["G", fnum(a[0]), fnum(a[1])])
            elif t == "-eg":
                events.append(["g", fnum(a[0]), int(a[1]), fnum(a[2])])
            elif t == "-eN":
                events.append(["N", fnum(a[0]), fnum(a[1])])
            elif t == "-en":
                events.append(["n", fnum(a[0]), int(a[1]), fnum(a[2]), True])
            elif t == "-eM":
                events.append(["M", fnum(a[0]), fnum(a[1])])
            elif t == "-em":
                events.append(["m", fnum(a[0]), int(a[1]), int(a[2]), fnum(a[3])])
            elif t == "-es":
                events.append(["s", fnum(a[0]), int(a[1]), fnum(a[2])])
            elif t == "-ej":
                events.append(["j", fnum(a[0]), int(a[1]), int(a[2])])
            continue
        if t in ("-ma", "-ema"):
            i += 1
            tm = 0.0
            n = npop
            if t == "-ema":
                tm = fnum(toks[i])
                n = int(toks[i + 1])
                i += 2
            vals = []
            while i < len(toks) and not is_option(toks[i]):
                vals.append(toks[i])
                i += 1
            rows = []
            for r in range(n):
                row = []
                for c in range(n):
                    v = vals[r * n + c] if r * n + c < len(vals) else "nan"
                    try:
                        row.append(0.0 if r == c else fnum(v))
                    except ValueError:
                        row.append(math.nan)
                rows.append(row)
            (init if t == "-ma" else events).append(["ma", tm, n, rows, t == "-ma"])
            continue
        # unknown option: skip it and its arguments
        unknown.append(t)
        i += 1
        while i < len(toks) and not is_option(toks[i]):
            i += 1
    return dict(npop=npop, structure=structure, irate=irate, init=init, events=events), unknown


def to_float(x):
    return x if isinstance(x, (list, str, bool)) else x
