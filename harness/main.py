"""./check <property> [--tier quick|thorough] [--seed N] [--replay path]"""
import argparse
import importlib
import os
import sys

REPO = os.environ.get("VERIF_REPO", "/repo")
sys.path.insert(0, REPO)
sys.path.insert(0, os.path.dirname(os.path.abspath(__file__)))
os.environ.setdefault("PYTHONHASHSEED", "0")

import warnings
import logging
logging.disable(logging.WARNING)
warnings.simplefilter("ignore")
import common  # noqa: E402


def main():
    ap = argparse.ArgumentParser()
    ap.add_argument("prop")
    ap.add_argument("--tier", default=os.environ.get("VERIF_TIER", "quick"))
    ap.add_argument("--seed", type=int, default=int(os.environ.get("VERIF_SEED", "20260930")))
    ap.add_argument("--replay", default=None)
    a = ap.parse_args()
    if a.tier not in ("quick", "thorough"):
        a.tier = "quick"
    chk = common.Check(a.prop.upper(), a.tier, a.seed)
    try:
        import demes
    except BaseException as e:                       # the tree under test does not even import
        import traceback
        chk.unproven("harness:import", "the library under test cannot be imported, so nothing about the property is shown",
                     dict(error=repr(e), traceback=traceback.format_exc()[-3000:]))
        sys.exit(chk.finish("other", 1, 0, None, "no case could be run", explanation="import of the library failed"))
    if not os.path.abspath(demes.__file__).startswith(REPO + "/"):
        print("demes was not imported from %s: " % REPO + demes.__file__)
        sys.exit(2)
    mod = importlib.import_module("props." + a.prop.lower())
    if a.replay:
        sys.exit(mod.replay(chk, a.replay))
    # watchdog: a change that makes the library (or the check) run away must end in a report, not in a hang
    import signal
    limit = int(os.environ.get("VERIF_TIMEOUT", "1500" if a.tier == "quick" else "10800"))

    class Watchdog(BaseException):       # not an Exception: the checks' own "except Exception" must not swallow it
        pass

    def on_alarm(signum, frame):
        signal.alarm(5)                  # keep firing in case some bare "except:" swallows it
        raise Watchdog("no result after %d s" % limit)
    signal.signal(signal.SIGALRM, on_alarm)
    signal.alarm(limit)
    try:
        rc = mod.run(chk)
        signal.alarm(0)
    except Watchdog as e:
        signal.alarm(0)
        import traceback
        chk.violation("harness:timeout", "the check did not finish within %d s: some operation of the library no longer terminates promptly" % limit,
                      dict(error=repr(e), where=traceback.format_exc()[-3000:]))
        rc = chk.finish("other", 1, 0, None, "the run was stopped by the watchdog",
                        explanation="stopped by the watchdog; the replay holds the stack at that moment")
    except (KeyboardInterrupt, SystemExit):
        raise
    except BaseException as e:                       # a crash of the harness or of an unguarded library call
        signal.alarm(0)
        import traceback
        chk.unproven("harness:crash", "the check did not complete (%s): nothing further about the property is shown" % type(e).__name__,
                     dict(error=repr(e), traceback=traceback.format_exc()[-4000:]))
        rc = chk.finish("other", 1, 0, None, "the run was interrupted by an exception",
                        explanation="the check crashed; see the replay for the traceback")
    sys.exit(rc)


if __name__ == "__main__":
    main()
