"""./check <property> [--tier quick|thorough] [--seed N] [--replay path]"""
import argparse
import importlib
import os
import sys

REPO = os.environ.get("VERIF_REPO", "/repo")
sys.path.insert(0, REPO)
sys.path.insert(0, os.path.dirname(os.path.abspath(__file__)))
os.environ.setdefault("PYTHONHASHSEED", "0")

import warnings
import logging
logging.disable(logging.WARNING)
warnings.simplefilter("ignore")
import common  # noqa: E402


def main():
    ap = argparse.ArgumentParser()
    ap.add_argument("prop")
    ap.add_argument("--tier", default=os.environ.get("VERIF_TIER", "quick"))
    ap.add_argument("--seed", type=int, default=int(os.environ.get("VERIF_SEED", "20260930")))
    ap.add_argument("--replay", default=None)
    a = ap.parse_args()
    if a.tier not in ("quick", "thorough"):
        a.tier = "quick"
    import demes
    if not os.path.abspath(demes.__file__).startswith(REPO + "/"):
        print("demes was not imported from %s: " % REPO + demes.__file__)
        sys.exit(2)
    mod = importlib.import_module("props." + a.prop.lower())
    chk = common.Check(a.prop.upper(), a.tier, a.seed)
    if a.replay:
        sys.exit(mod.replay(chk, a.replay))
    sys.exit(mod.run(chk))


if __name__ == "__main__":
    main()
