"""Seeded-defect bookkeeping.
  seeded.py import <worktree> <name>      copy _seeded/{patch.diff,demo.py,meta.json} to /verif/seeded/<name>/
  seeded.py eval <name> [Cxx ...]         apply the patch to /repo, run demo + test suite + checks, revert, record results
"""
import json
import os
import shutil
import subprocess
import sys

SEEDED = "/verif/seeded"
VERIF = os.environ.get("VERIF_HOME", "/verif")
REPO = os.environ.get("VERIF_REPO", "/repo")
BASE = "cd " + REPO + " && /venv/bin/python -m pytest -q -p no:cacheprovider --timeout=900 --continue-on-collection-errors -n 8 2>&1 | tail -1"


def sh(cmd, timeout=3600):
    p = subprocess.run(cmd, shell=True, capture_output=True, text=True, timeout=timeout)
    return p.returncode, (p.stdout + p.stderr)


def do_import(wt, name):
    d = os.path.join(SEEDED, name)
    os.makedirs(d, exist_ok=True)
    for f in ("patch.diff", "demo.py", "meta.json"):
        shutil.copy(os.path.join(wt, "_seeded", f), os.path.join(d, f))
    print("imported", name)


def do_eval(name, checks):
    d = os.path.join(SEEDED, name)
    meta = json.load(open(os.path.join(d, "meta.json")))
    rc, out = sh("git -C %s status --porcelain" % REPO)
    if out.strip():
        sys.exit(REPO + " is not clean: " + out)
    res = {}
    # evidence written while a seeded change is applied must not replace the evidence of the unchanged tree
    keep = {}
    for c in checks:
        ep = os.path.join(VERIF, "evidence", c + ".json")
        keep[ep] = open(ep).read() if os.path.exists(ep) else None
    rc, out = sh("cd %s && PYTHONPATH=%s /venv/bin/python %s/demo.py" % (REPO, REPO, d))
    res["demo_without_patch_rc"] = rc
    rc, out = sh("git -C %s apply %s/patch.diff" % (REPO, d))
    if rc:
        sys.exit("patch does not apply: " + out)
    try:
        rc, out = sh("cd %s && PYTHONPATH=%s /venv/bin/python %s/demo.py" % (REPO, REPO, d))
        res["demo_with_patch_rc"] = rc
        if os.environ.get("SEEDED_NOTESTS") and "evaluation" in meta:
            res["tests_with_patch"] = meta["evaluation"].get("tests_with_patch")
        else:
            rc, out = sh(BASE)
            res["tests_with_patch"] = out.strip()
        det = {}
        for c in checks:
            rc, out = sh("cd %s && ./check %s --tier quick" % (VERIF, c), timeout=3600)
            lines = [l for l in out.splitlines() if l.startswith("VIOLATION")]
            det[c] = dict(rc=rc, violations=lines[:6])
            print(c, "rc=%d" % rc, *lines[:3], sep="\n   ")
        res["checks"] = det
    finally:
        sh("git -C %s checkout -- ." % REPO)
        for ep, txt in keep.items():
            if txt is None:
                if os.path.exists(ep):
                    os.remove(ep)
            else:
                open(ep, "w").write(txt)
    meta["evaluation"] = res
    meta["detected_by"] = sorted(c for c, r in res["checks"].items() if r["rc"] != 0)
    json.dump(meta, open(os.path.join(d, "meta.json"), "w"), indent=1)
    print(json.dumps({k: v for k, v in res.items() if k != "checks"}), "detected_by:", meta["detected_by"])


if __name__ == "__main__":
    if sys.argv[1] == "import":
        do_import(sys.argv[2], sys.argv[3])
    else:
        do_eval(sys.argv[2], sys.argv[3:])
