"""pyxlate: re-derive the decision expressions (guards) of demes-python from its current
source and emit them as Gallina booleans, one definition per anchored site, together with a
lemma that each equals the expression the hand-written model uses at that place.

  pyxlate.py list <file.py>            list the guard sites of every function (to maintain SITES)
  pyxlate.py gen  <outdir>             write Gen/SrcGuards.v and Gen/GuardTie.v

A site is (python file, function qualname, n-th test in source order).  Tests are the
conditions of if / elif / while / assert / conditional expressions and comprehension filters.
The translation is fail-closed: an expression outside the supported subset makes the site
"untranslated" (reported; its tie lemma is omitted and the check treats it as a broken tie)."""
import ast
import re
import json
import os
import sys

REPO = os.environ.get("VERIF_REPO", "/repo")


def qual_functions(tree):
    out = {}

    def walk(node, prefix):
        for ch in ast.iter_child_nodes(node):
            if isinstance(ch, (ast.FunctionDef, ast.AsyncFunctionDef)):
                q = prefix + ch.name
                out[q] = ch
                walk(ch, q + ".")
            elif isinstance(ch, ast.ClassDef):
                walk(ch, prefix + ch.name + ".")
            else:
                walk(ch, prefix)
    walk(tree, "")
    return out


def tests_of(fn):
    """tests directly inside fn (not inside nested function definitions), in source order"""
    found = []

    def walk(node):
        for ch in ast.iter_child_nodes(node):
            if isinstance(ch, (ast.FunctionDef, ast.AsyncFunctionDef, ast.ClassDef, ast.Lambda)):
                continue
            if isinstance(ch, (ast.If, ast.While, ast.IfExp, ast.Assert)):
                found.append(ch.test)
            if isinstance(ch, ast.comprehension):
                found.extend(ch.ifs)
            walk(ch)
    walk(fn)
    found.sort(key=lambda t: (t.lineno, t.col_offset))
    return found


class Untranslatable(Exception):
    pass


_PAIRS = {}


def zip_type(e1, e2):
    """the type of a list of pairs whose components have the element types e1, e2"""
    k = "(%s*%s)" % (e1, e2)
    _PAIRS[k] = (e1, e2)
    return "zip:" + k


def elem_type(ty):
    """element type of a list type, or None"""
    if ty == "strs":
        return "str"
    if ty == "nums":
        return "num"
    if ty.startswith("list:"):
        return "rec:" + ty[5:]
    if ty.startswith("zip:"):
        return "pair:" + ty[4:]
    return None


CMP = {ast.Lt: ("nlt", False), ast.LtE: ("nle", False), ast.Gt: ("ngt", False), ast.GtE: ("nge", False),
       ast.Eq: ("neqb", False), ast.NotEq: ("nneq", False)}


def tr(node, env):
    """Python expression -> (coq term, type) with type in {'bool','num','str','nums','strs','other'}"""
    if isinstance(node, ast.BoolOp):
        parts = [tr(v, env) for v in node.values]
        if any(t != "bool" for _, t in parts):
            raise Untranslatable("non-boolean operand of and/or")
        op = " && " if isinstance(node.op, ast.And) else " || "
        return "(" + op.join(p for p, _ in parts) + ")", "bool"
    if isinstance(node, ast.UnaryOp) and isinstance(node.op, ast.Not):
        p, t = tr(node.operand, env)
        if t != "bool":
            raise Untranslatable("not of non-boolean")
        return "(negb %s)" % p, "bool"
    if isinstance(node, ast.UnaryOp) and isinstance(node.op, ast.USub):
        p, t = tr(node.operand, env)
        return "(nsub n0 %s)" % p, "num"
    if isinstance(node, ast.Compare):
        terms = [node.left] + list(node.comparators)
        out = []
        for a, op, b in zip(terms, node.ops, terms[1:]):
            pa, ta = tr(a, env)
            if isinstance(op, (ast.Is, ast.IsNot)) and isinstance(b, ast.Constant) and b.value is None:
                if ta == "num" and "<deps>" in env and isinstance(a, ast.Attribute) and len(node.ops) == 1:
                    # inside a function site, an attribute that RECORDS types as a (non-optional) number is never None
                    # in the model (e.g. Graph.generation_time : num), so `x.attr is not None` is `true`
                    out.append("false" if isinstance(op, ast.Is) else "true")
                    continue
                if ta != "opt":
                    raise Untranslatable("is None on a non-optional")
                out.append(("(is_none %s)" if isinstance(op, ast.Is) else "(negb (is_none %s))") % pa)
                continue
            pb, tb = tr(b, env)
            if isinstance(op, (ast.In, ast.NotIn)):
                if ta == "str" and tb == "strs":
                    s = "(mem %s %s)" % (pa, pb)
                elif ta == "str" and tb == "namemap":
                    # k in names, names a Mapping[str, str] modelled as an association list (Proofs/FunSites.v mem_key)
                    s = "(mem_key %s %s)" % (pa, pb)
                else:
                    raise Untranslatable("in on unsupported types")
                out.append(s if isinstance(op, ast.In) else "(negb %s)" % s)
                continue
            if type(op) not in CMP:
                raise Untranslatable("comparison operator " + type(op).__name__)
            f, _ = CMP[type(op)]
            if ta == "num" and tb == "num":
                out.append("(%s %s %s)" % (f, pa, pb))
            elif ta == "str" and tb == "str" and f in ("neqb", "nneq"):
                s = "(String.eqb %s %s)" % (pa, pb)
                out.append(s if f == "neqb" else "(negb %s)" % s)
            elif (ta == "nat" and isinstance(b, ast.Constant) and isinstance(b.value, int)) or \
                    (tb == "nat" and isinstance(a, ast.Constant) and isinstance(a.value, int)) or (ta == "nat" and tb == "nat"):
                if ta != "nat":
                    pa = str(a.value)
                if tb != "nat":
                    pb = str(b.value)
                g = {"neqb": "Nat.eqb %s %s", "nneq": "negb (Nat.eqb %s %s)", "nlt": "Nat.ltb %s %s", "nle": "Nat.leb %s %s",
                     "ngt": "Nat.ltb %s %s", "nge": "Nat.leb %s %s"}[f]
                x, y = (pb, pa) if f in ("ngt", "nge") else (pa, pb)
                out.append("(" + g % (x, y) + ")")
            else:
                raise Untranslatable("comparison of %s with %s" % (ta, tb))
        return ("(" + " && ".join(out) + ")" if len(out) > 1 else out[0]), "bool"
    if isinstance(node, ast.Call):
        fname = ast.unparse(node.func)
        if fname == "sorted" and fname not in env and len(node.args) == 1 and not node.keywords:
            # sorted(xs) on a list of attrs objects: the model's order of that record kind (ATTRS_ORDER, trusted)
            pa, ta = tr(node.args[0], env)
            if ta.startswith("list:") and ta[5:] in ATTRS_ORDER:
                return "(sort_stable %s %s)" % (ATTRS_ORDER[ta[5:]], pa), ta
            raise Untranslatable("call " + ast.unparse(node)[:60])
        if fname == "sorted" and fname not in env:
            # sorted(zip(names, numbers), key=operator.itemgetter(0)): stable sort of the pairs by their first component
            if (len(node.args) == 1 and len(node.keywords) == 1 and node.keywords[0].arg == "key"
                    and ast.unparse(node.keywords[0].value) == "operator.itemgetter(0)" and "operator" not in env):
                pa, ta = tr(node.args[0], env)
                if ta == zip_type("str", "num"):
                    return "(sort_stable name_lt %s)" % pa, ta
            raise Untranslatable("call " + ast.unparse(node)[:60])
        if fname == "isinstance":
            return type_test(node, env), "bool"
        if (fname == "len" and len(node.args) == 1 and not node.keywords and "len" not in env and isinstance(node.args[0], ast.Attribute)
                and isinstance(node.args[0].value, ast.Name) and node.args[0].value.id in env.get("<mut>", {})
                and ast.unparse(node.args[0]) not in env):
            # len(g.coll), g the copy being updated: the length of the collection's value current at this statement (the
            # collection itself cannot be read, so no alias is made)
            kind, fields = env["<mut>"][node.args[0].value.id]
            proj, ty = attr_proj(kind, node.args[0].attr)
            if ty.startswith("list:"):
                return "(List.length %s)" % fields[proj], "nat"
        args = [tr(a, env) for a in node.args]
        kw = {k.arg: tr(k.value, env) for k in node.keywords}
        if (isinstance(node.func, ast.Attribute) and node.func.attr == "isidentifier" and not args and not kw
                and "<deps>" in env and tr(node.func.value, env)[1] == "str"):
            # TRUSTED MAPPING: str.isidentifier() is the model's is_identifier (Spec/Valid.v), which defines identifiers
            # over the characters the model's strings have (ASCII letters, digits, underscore)
            return "(is_identifier %s)" % tr(node.func.value, env)[0], "bool"
        if fname == "math.isinf" and len(args) == 1:
            return "(nisinf %s)" % args[0][0], "bool"
        if fname == "math.isclose" and len(args) == 2:
            if not kw:
                return "(isclose0 %s %s)" % (args[0][0], args[1][0]), "bool"
            if set(kw) == {"rel_tol", "abs_tol"}:
                return "(isclose %s %s %s %s)" % (args[0][0], args[1][0], kw["rel_tol"][0], kw["abs_tol"][0]), "bool"
        if fname == "sum" and len(args) == 1 and args[0][1] == "nums":
            return "(pysum %s)" % args[0][0], "num"
        if fname == "len" and len(args) == 1 and not kw and (args[0][1] in ("nums", "strs", "list", "index", "namemap") or elem_type(args[0][1])):
            return "(List.length %s)" % args[0][0], "nat"
        if fname == "zip" and len(args) == 2 and not kw and fname not in env and elem_type(args[0][1]) and elem_type(args[1][1]):
            return "(combine %s %s)" % (args[0][0], args[1][0]), zip_type(elem_type(args[0][1]), elem_type(args[1][1]))
        if (isinstance(node.func, ast.Attribute) and node.func.attr == "count" and len(args) == 1 and not kw
                and args[0][1] == "str"):
            pr, tyr = tr(node.func.value, env)
            if tyr == "strs":
                return "(count_occ string_dec %s %s)" % (pr, args[0][0]), "nat"
        if fname in FUN_CALLS and fname not in env:
            # a call of a function that is itself a tied function site: its model counterpart (the caller depends
            # on the callee's own tie, see funs_gen)
            if "<deps>" not in env:
                raise Untranslatable("call of %s outside a function site" % fname)
            term = call_args(FUN_CALLS[fname], node, env)
            env["<deps>"].add(FUN_CALLS[fname]["site"])
            return term, FUN_CALLS[fname]["ty"]
        if fname == "math.log" and len(args) == 1 and args[0][1] == "num":
            return "(nlog %s)" % args[0][0], "num"
        if fname == "math.exp" and len(args) == 1 and args[0][1] == "num":
            return "(nexp %s)" % args[0][0], "num"
        if fname == "max" and len(args) == 2:
            return "(pymax %s %s)" % (args[0][0], args[1][0]), "num"
        if fname == "min" and len(args) == 2:
            return "(pymin %s %s)" % (args[0][0], args[1][0]), "num"
        raise Untranslatable("call " + fname)
    if isinstance(node, ast.BinOp):
        pa, ta = tr(node.left, env)
        pb, tb = tr(node.right, env)
        f = {ast.Add: "nadd", ast.Sub: "nsub", ast.Mult: "nmul", ast.Div: "ndiv"}.get(type(node.op))
        if f and ta == "num" and tb == "num":
            return "(%s %s %s)" % (f, pa, pb), "num"
        raise Untranslatable("binary operator")
    if isinstance(node, ast.Constant):
        v = node.value
        if isinstance(v, bool):
            return ("true" if v else "false"), "bool"
        if isinstance(v, int) and v in (0, 1, 2, 4):
            return ({0: "n0", 1: "n1", 4: "n4"}.get(v) or str(v)), ("num" if v != 2 else "nat")
        if isinstance(v, float) and v in (0.0, 1.0):
            return ("nf0" if v == 0.0 else "nf1"), "num"
        if isinstance(v, str):
            return '"%s"' % v, "str"
        raise Untranslatable("constant %r" % (v,))
    if isinstance(node, (ast.List, ast.Tuple)) and all(isinstance(e, ast.Constant) and isinstance(e.value, str) for e in node.elts):
        return "[" + "; ".join('"%s"' % e.value for e in node.elts) + "]", "strs"
    if isinstance(node, ast.IfExp):
        # only `T if k in names else E` with names a namemap: inside T, names[k] is the value bound to k
        g = key_guard(node.test, env)
        if g is None:
            raise Untranslatable("conditional expression other than `.. if k in names else ..`")
        mk, env_then = g
        pt, tt = tr(node.body, env_then)
        pe, te = tr(node.orelse, env)
        if tt != te or tt not in ("str", "num"):
            raise Untranslatable("conditional expression of types %s / %s" % (tt, te))
        return mk(pt, pe), tt
    if isinstance(node, ast.ListComp):
        # [E for a in xs], xs a list of strings, E a string computed from a without raising: map (fun a => E) xs
        if (len(node.generators) != 1 or node.generators[0].ifs or node.generators[0].is_async
                or not isinstance(node.generators[0].target, ast.Name)):
            raise Untranslatable("comprehension " + ast.unparse(node)[:60])
        gen = node.generators[0]
        pl, tl = tr(gen.iter, env)
        if tl != "strs":
            raise Untranslatable("comprehension over " + tl)
        v = tr_fresh(env, gen.target.id)
        pe, te = tr(node.elt, bind_target(gen.target, "str", v, env))
        if te != "str":
            raise Untranslatable("comprehension of " + te)
        return "(map (fun %s => %s) %s)" % (v, pe, pl), "strs"
    if isinstance(node, (ast.Name, ast.Attribute, ast.Subscript)):
        key = ast.unparse(node)
        if key in env:
            return env[key]
        raise Untranslatable("unbound name " + key)
    raise Untranslatable(type(node).__name__)


_TRN = [0]


def tr_fresh(env, hint):
    _TRN[0] += 1
    v = "%s_v%d" % (re.sub(r"\W", "", hint) or "v", _TRN[0])
    if v in env:
        raise Untranslatable("name clash " + v)
    return v


def key_guard(test, env):
    """`k in names`, names a name of model type namemap, k a string: (mk, env_then) where mk(T, E) is the term
         match assoc k names with Some v => T | None => E end
    and env_then binds the expression `names[k]` (as spelt: the same k) to v.  This is exact: a Python dict lookup under
    the guard `k in names` returns the bound value and cannot raise; an unguarded names[k] stays untranslatable.  The model's
    namemap stands for the dict's items in insertion order (unique keys), so assoc's "first binding wins" never matters."""
    if not (isinstance(test, ast.Compare) and len(test.ops) == 1 and isinstance(test.ops[0], ast.In)
            and isinstance(test.comparators[0], ast.Name) and isinstance(test.left, (ast.Name, ast.Attribute))):
        return None
    m = test.comparators[0].id
    if env.get(m, (None, None))[1] != "namemap":
        return None
    pk, tk = tr(test.left, env)
    if tk != "str":
        return None
    v = tr_fresh(env, "b")
    env_then = dict(env)
    env_then["%s[%s]" % (m, ast.unparse(test.left))] = (v, "str")
    return (lambda t, e: "(match assoc %s %s with Some %s => %s | None => %s end)" % (pk, env[m][0], v, t, e)), env_then


# isinstance tests that the model's typing discharges: (model type of the tested expression, class) -> the test is `true`.
# The model's function is defined on well-typed arguments only (names : namemap, d_name : string), so the branch that
# raises TypeError for an ill-typed argument has no counterpart in the model; the tie speaks about well-typed inputs.
# The tested expression must be a parameter or a record attribute (typed by the site's bindings / RECORDS); the class
# must be the builtin `str` or `Mapping` imported at module level from typing / collections.abc, never rebound.
TYPE_TESTS = {("namemap", "Mapping"), ("str", "str")}


def class_name_ok(path, name):
    tree = ast.parse(open(os.path.join(REPO, path)).read())
    bound = 0
    for n in ast.walk(tree):
        if isinstance(n, ast.Name) and n.id == name and isinstance(n.ctx, (ast.Store, ast.Del)):
            bound += 1
        if isinstance(n, (ast.FunctionDef, ast.ClassDef)) and n.name == name:
            bound += 1
        if isinstance(n, ast.arg) and n.arg == name:
            bound += 1
        if isinstance(n, (ast.Import, ast.ImportFrom)) and any((a.asname or a.name) == name for a in n.names):
            top = n in tree.body and isinstance(n, ast.ImportFrom) and n.module in ("typing", "collections.abc") and n.level == 0 \
                and any(a.name == name and a.asname is None for a in n.names)
            bound += 1 if top else 2
        if isinstance(n, (ast.Global, ast.Nonlocal)) and name in n.names:
            bound += 2
    return bound == (0 if name == "str" else 1)


def type_test(node, env):
    if ("isinstance" in env or len(node.args) != 2 or node.keywords or not isinstance(node.args[1], ast.Name)
            or node.args[1].id in env or not isinstance(node.args[0], (ast.Name, ast.Attribute)) or "<file>" not in env):
        raise Untranslatable("type test " + ast.unparse(node)[:60])
    p, ty = tr(node.args[0], env)
    if (ty, node.args[1].id) not in TYPE_TESTS or not class_name_ok(env["<file>"], node.args[1].id):
        raise Untranslatable("type test %s on a value of model type %s" % (ast.unparse(node)[:60], ty))
    return "true"


def nat_context(term_type):
    return term_type


# ---------------------------------------------------------------------------
# Anchored sites: (id, file, function, index of the test, bindings, Coq binder list, model expression)
# bindings map python sub-expressions to (coq term, type).
N = "num"
SITES = [
    # validators (demes.py:28-58): the condition under which the validator raises
    ("v_int_or_float_nan", "demes/demes.py", "int_or_float", None, {}, "", ""),   # structural (isinstance): not translated
    ("v_positive", "demes/demes.py", "positive", 0, {"value": ("x", N)}, "(x : num)", "nle x n0"),
    ("v_non_negative", "demes/demes.py", "non_negative", 0, {"value": ("x", N)}, "(x : num)", "nlt x n0"),
    ("v_finite", "demes/demes.py", "finite", 0, {"value": ("x", N)}, "(x : num)", "nisinf x"),
    ("v_unit_interval", "demes/demes.py", "unit_interval", 0, {"value": ("x", N)}, "(x : num)", "negb (nle n0 x && nle x n1)"),
    ("v_unit_interval_lo", "demes/demes.py", "unit_interval_exclusive_lo", 0, {"value": ("x", N)}, "(x : num)",
     "negb (nlt n0 x && nle x n1)"),
    ("v_sum_less_than_one", "demes/demes.py", "sum_less_than_one", 0, {"value": ("l", "nums")}, "(l : list num)", "ngt (pysum l) n1"),
    # Epoch.__attrs_post_init__
    ("epoch_order", "demes/demes.py", "Epoch.__attrs_post_init__", 0,
     {"self.start_time": ("s", N), "self.end_time": ("e", N)}, "(s e : num)", "nle s e"),
    ("epoch_inf_constant", "demes/demes.py", "Epoch.__attrs_post_init__", 1,
     {"self.start_time": ("s", N), "self.start_size": ("ss", N), "self.end_size": ("es", N)}, "(s ss es : num)",
     "nisinf s && nneq ss es"),
    ("epoch_constant_sizes", "demes/demes.py", "Epoch.__attrs_post_init__", 2,
     {"self.size_function": ("sf", "str"), "self.start_size": ("ss", N), "self.end_size": ("es", N)}, "(sf : string) (ss es : num)",
     'String.eqb sf "constant" && nneq ss es'),
    # AsymmetricMigration.__attrs_post_init__
    ("mig_same_deme", "demes/demes.py", "AsymmetricMigration.__attrs_post_init__", 0,
     {"self.source": ("a", "str"), "self.dest": ("b", "str")}, "(a b : string)", "String.eqb a b"),
    ("mig_order", "demes/demes.py", "AsymmetricMigration.__attrs_post_init__", 1,
     {"self.start_time": ("s", N), "self.end_time": ("e", N)}, "(s e : num)", "negb (ngt s e)"),
    # Pulse.__attrs_post_init__ : sum of proportions
    ("pulse_sum", "demes/demes.py", "Pulse.__attrs_post_init__", 3, {"self.proportions": ("l", "nums")}, "(l : list num)",
     "ngt (pysum l) n1"),
    # Deme._check_proportions
    ("deme_props_sum", "demes/demes.py", "Deme._check_proportions", 0, {"self.proportions": ("l", "nums")}, "(l : list num)",
     "negb (Nat.eqb (List.length l) 0) && negb (isclose0 (pysum l) nf1)"),
    # Deme._add_epoch: size function inference
    ("infer_size_function", "demes/demes.py", "Deme._add_epoch", 7, {"start_size": ("ss", N), "end_size": ("es", N)}, "(ss es : num)",
     "neqb ss es"),
    # Deme.size_at
    ("size_at_inf", "demes/demes.py", "Deme.size_at", 0, {"time": ("t", N), "self.start_time": ("s", N)}, "(t s : num)",
     "nisinf t && nisinf s"),
    ("size_at_owner", "demes/demes.py", "Deme.size_at", 1,
     {"time": ("t", N), "epoch.start_time": ("s", N), "epoch.end_time": ("e", N)}, "(t s e : num)", "ngt s t && nge t e"),
    ("size_at_flat", "demes/demes.py", "Deme.size_at", 2,
     {"time": ("t", N), "epoch.end_time": ("e", N), "epoch.size_function": ("sf", "str"), "epoch.start_size": ("ss", N),
      "epoch.end_size": ("es", N)}, "(t e : num) (sf : string) (ss es : num)",
     'isclose0 t e || String.eqb sf "constant" || neqb ss es'),
    ("size_at_exponential", "demes/demes.py", "Deme.size_at", 3, {"epoch.size_function": ("sf", "str")}, "(sf : string)",
     'String.eqb sf "exponential"'),
    ("size_at_linear", "demes/demes.py", "Deme.size_at", 4, {"epoch.size_function": ("sf", "str")}, "(sf : string)",
     'String.eqb sf "linear"'),
    # Graph.__attrs_post_init__
    ("graph_generations_gt", "demes/demes.py", "Graph.__attrs_post_init__", 2,
     {"self.time_units": ("u", "str"), "self.generation_time": ("g", N)}, "(u : string) (g : num)",
     'String.eqb u "generations" && nneq g n1'),
    # Graph._add_deme
    ("add_deme_root_finite", "demes/demes.py", "Graph._add_deme", 9,
     {"ancestors": ("anc", "list"), "start_time": ("st", N)}, "(anc : list string) (st : num)",
     "Nat.eqb (List.length anc) 0 && negb (nisinf st)"),
    ("add_deme_ancestor_alive", "demes/demes.py", "Graph._add_deme", 10,
     {"anc.start_time": ("a", N), "start_time": ("st", N), "anc.end_time": ("e", N)}, "(a st e : num)",
     "negb (ngt a st && nge st e)"),
    # Graph._check_time_intersection
    ("time_intersection_within", "demes/demes.py", "Graph._check_time_intersection", 1,
     {"time_lo": ("lo", N), "time": ("t", N), "time_hi": ("hi", N)}, "(lo t hi : num)", "negb (nle lo t && nle t hi)"),
    # Graph._add_asymmetric_migration: the overlap test added by fix 60bf005 (inside a for loop: first if of the function body's loop)
    ("add_mig_overlap", "demes/demes.py", "Graph._add_asymmetric_migration", 3,
     {"other.source": ("os", "str"), "migration.source": ("s", "str"), "other.dest": ("od", "str"), "migration.dest": ("d", "str"),
      "other.end_time": ("oe", N), "migration.start_time": ("st", N), "migration.end_time": ("en", N), "other.start_time": ("ost", N)},
     "(os s od d : string) (oe st en ost : num)",
     "String.eqb os s && String.eqb od d && nlt oe st && nlt en ost"),
    # Graph._add_pulse
    ("pulse_at_dest_end", "demes/demes.py", "Graph._add_pulse", 1, {"time": ("t", N), "self[dest].end_time": ("e", N)}, "(t e : num)",
     "neqb t e"),
    ("pulse_at_source_start", "demes/demes.py", "Graph._add_pulse", 2, {"time": ("t", N), "self[source].start_time": ("s", N)},
     "(t s : num)", "neqb t s"),
    # Graph.migration_matrices
    ("migmat_append_zero", "demes/demes.py", "Graph.migration_matrices", 0,
     {"end_times": ("ets", "nums"), "end_times[-1]": ("z", N)}, "(ets : list num) (z : num)",
     "Nat.eqb (List.length ets) 0 || nneq z n0"),
    ("migmat_break", "demes/demes.py", "Graph.migration_matrices", 1, {"start_time": ("s", N), "migration.end_time": ("e", N)},
     "(s e : num)", "nle s e"),
    ("migmat_covers", "demes/demes.py", "Graph.migration_matrices", 2, {"end_time": ("et", N), "migration.start_time": ("s", N)},
     "(et s : num)", "nlt et s"),
    ("migmat_occupied", "demes/demes.py", "Graph.migration_matrices", 3, {"mm_list[k][dest_id][source_id]": ("x", N)}, "(x : num)",
     "ngt x n0"),
    # Graph._check_migration_rates
    ("rates_row_sum", "demes/demes.py", "Graph._check_migration_rates", 0, {"row_sum": ("s", N)}, "(s : num)",
     "ngt s n1 && negb (isclose0 s n1)"),
    # Graph.discrete_demographic_events
    ("events_split_aligned", "demes/demes.py", "Graph.discrete_demographic_events", 2,
     {"self[c].start_time": ("s", N), "self[p[0]].end_time": ("e", N)}, "(s e : num)", "neqb s e"),
    ("events_merge_misaligned", "demes/demes.py", "Graph.discrete_demographic_events", 3,
     {"self[c].start_time": ("s", N), "self[deme_from].end_time": ("e", N)}, "(s e : num)", "nneq s e"),
    # asdict_simplified (nested functions)
    ("simp_size_function", "demes/demes.py", "Graph.asdict_simplified.simplify_epochs", 0,
     {"epoch['size_function']": ("sf", "str"), "epoch['start_size']": ("ss", N), "epoch['end_size']": ("es", N)},
     "(sf : string) (ss es : num)", None),   # conditional expression inside a comparison: not translated
    ("simp_end_size", "demes/demes.py", "Graph.asdict_simplified.simplify_epochs", 2,
     {"epoch['start_size']": ("ss", N), "epoch['end_size']": ("es", N)}, "(ss es : num)", "neqb ss es"),
    ("simp_selfing", "demes/demes.py", "Graph.asdict_simplified.simplify_epochs", 3, {"epoch['selfing_rate']": ("x", N)}, "(x : num)",
     "neqb x n0"),
    ("simp_cloning", "demes/demes.py", "Graph.asdict_simplified.simplify_epochs", 4, {"epoch['cloning_rate']": ("x", N)}, "(x : num)",
     "neqb x n0"),
    ("simp_start_inf", "demes/demes.py", "Graph.asdict_simplified.simplify_epochs", 5, {"deme['start_time']": ("s", N)}, "(s : num)",
     "nisinf s"),
    ("simp_start_implied", "demes/demes.py", "Graph.asdict_simplified.simplify_epochs", 8,
     {"self[deme['ancestors'][0]].end_time": ("e", N), "deme['start_time']": ("s", N)}, "(e s : num)", "neqb e s"),
    ("simp_mig_end", "demes/demes.py", "Graph.asdict_simplified.simplify_migration_rates", 0,
     {"migration['end_time']": ("e", N), "time_lo": ("lo", N)}, "(e lo : num)", "neqb e lo"),
    ("simp_mig_start", "demes/demes.py", "Graph.asdict_simplified.simplify_migration_rates", 1,
     {"migration['start_time']": ("s", N), "time_hi": ("hi", N)}, "(s hi : num)", "neqb s hi"),
    # ms.py
    ("float_str_negative", "demes/ms.py", "float_str", 0, {"a": ("a", N)}, "(a : num)", "nlt a n0"),
    ("to_ms_supported", "demes/ms.py", "to_ms.get_growth_rate", 0, {"epoch.size_function": ("sf", "str")}, "(sf : string)",
     'negb (mem sf ["constant"; "exponential"])'),
    ("to_ms_sizes_differ", "demes/ms.py", "to_ms.get_growth_rate", 1, {"epoch.end_size": ("es", N), "epoch.start_size": ("ss", N)},
     "(es ss : num)", "nneq es ss"),
    ("to_ms_size_event", "demes/ms.py", "to_ms", 3, {"size": ("sz", N), "epoch.end_size": ("es", N)}, "(sz es : num)", "nneq sz es"),
    ("to_ms_growth_event", "demes/ms.py", "to_ms", 4, {"growth_rate": ("g", N), "alpha": ("a", N)}, "(g a : num)", "nneq g a"),
    ("to_ms_mig_off", "demes/ms.py", "to_ms", 10,
     {"migration.start_time": ("s", N), "graph[migration.dest].start_time": ("ds", N), "graph[migration.source].start_time": ("ss", N)},
     "(s ds ss : num)", "negb (nisinf s) && nneq s ds && nneq s ss"),
    ("from_ms_epoch_resolve_range", "demes/ms.py", "build_graph.epoch_resolve", 0,
     {"start_time": ("s", N), "time": ("t", N), "end_time": ("e", N)}, "(s t e : num)", "negb (ngt s t && nge t e)"),
    ("from_ms_epoch_resolve_split", "demes/ms.py", "build_graph.epoch_resolve", 1, {"time": ("t", N), "end_time": ("e", N)},
     "(t e : num)", "ngt t e"),
    ("from_ms_matrix_new", "demes/ms.py", "build_graph.migration_matrix_at", 0, {"time": ("t", N), "mm_end_times[0]": ("e", N)},
     "(t e : num)", "ngt t e"),
    # load_dump.py
    ("stringify_deme", "demes/load_dump.py", "_stringify_infinities", 0, {}, "", None),
]


def props_of(sid):
    """which properties rest on this site"""
    table = [("v_", ["C01", "C03"]), ("epoch_", ["C01", "C03"]), ("mig_", ["C01", "C03"]), ("pulse_sum", ["C01", "C03"]),
             ("deme_props_sum", ["C01", "C03"]), ("infer_size_function", ["C02"]), ("size_at_", ["C13"]),
             ("graph_generations_gt", ["C01", "C03"]), ("add_deme_", ["C01", "C03"]), ("time_intersection_within", ["C01", "C03"]),
             ("add_mig_overlap", ["C01", "C03"]), ("pulse_at_", ["C01", "C03"]), ("migmat_", ["C12"]),
             ("rates_row_sum", ["C01", "C03", "C12"]), ("events_", ["C14"]), ("simp_", ["C05"]), ("float_str_", ["C09"]),
             ("to_ms_", ["C07"]), ("from_ms_", ["C08"])]
    for pre, ps in table:
        if sid.startswith(pre):
            return ps
    return []


# ---------------------------------------------------------------------------
# Arithmetic sites: the arithmetic expressions (right-hand sides of assignments, return values, call arguments,
# in-place divisors) that the model mirrors.  Each is selected in the current source, translated to Gallina
# (a_<id> in SrcGuards.v) and tied, by conversion, to the pure term m_<..> of coq/Proofs/ArithSites.v, where lemmas
# (size_exp_site, size_lin_site, growth_rate_site, size_events_en_site, ancestry_events_site) show that the model
# functions return exactly those terms.
def select(fn, sel):
    """the expression a selector designates inside fn, or None"""
    kind = sel[0]
    nodes = sorted((n for n in ast.walk(fn) if hasattr(n, "lineno")), key=lambda n: (n.lineno, n.col_offset))
    if kind == "assign":            # ("assign", name, k): value of the k-th assignment to a plain name
        hits = [n.value for n in nodes if isinstance(n, ast.Assign) and len(n.targets) == 1
                and isinstance(n.targets[0], ast.Name) and n.targets[0].id == sel[1]]
    elif kind == "return":          # ("return", k)
        hits = [n.value for n in nodes if isinstance(n, ast.Return) and n.value is not None]
        sel = (kind, None, sel[1])
    elif kind == "arg":             # ("arg", callee, position, k)
        hits = [n.args[sel[2]] for n in nodes if isinstance(n, ast.Call) and ast.unparse(n.func) == sel[1] and len(n.args) > sel[2]]
        sel = (kind, None, sel[3])
    elif kind == "kw":              # ("kw", callee, keyword, k)
        hits = [k.value for n in nodes if isinstance(n, ast.Call) and ast.unparse(n.func) == sel[1]
                for k in n.keywords if k.arg == sel[2]]
        sel = (kind, None, sel[3])
    elif kind == "augdiv":          # ("augdiv", target text, k): the divisor of  target /= divisor
        hits = [n.value for n in nodes if isinstance(n, ast.AugAssign) and isinstance(n.op, ast.Div) and ast.unparse(n.target) == sel[1]]
    else:
        return None
    k = sel[2]
    return hits[k] if k < len(hits) else None


EP = {"epoch.start_time": ("s", N), "epoch.end_time": ("e", N), "epoch.start_size": ("ss", N), "epoch.end_size": ("es", N),
      "epoch.time_span": ("(m_time_span s e)", N), "time": ("t", N), "N0": ("N0", N)}
ARITH_SITES = [
    # (id, file, function, selector, bindings, binders, model term, properties)
    ("time_span", "demes/demes.py", "Epoch.time_span", ("return", 0), {"self.start_time": ("s", N), "self.end_time": ("e", N)},
     "(s e : num)", "m_time_span s e", ["C13", "C07"]),
    ("size_exp_dt", "demes/demes.py", "Deme.size_at", ("assign", "dt", 0), EP, "(s e t : num)", "m_size_dt s e t", ["C13"]),
    ("size_exp_r", "demes/demes.py", "Deme.size_at", ("assign", "r", 0), EP, "(ss es : num)", "m_size_r ss es", ["C13"]),
    ("size_exp_N", "demes/demes.py", "Deme.size_at", ("assign", "N", 1), dict(EP, r=("r", N), dt=("dt", N)), "(ss r dt : num)",
     "m_size_exp ss r dt", ["C13"]),
    ("size_lin_dt", "demes/demes.py", "Deme.size_at", ("assign", "dt", 1), EP, "(s e t : num)", "m_size_dt s e t", ["C13"]),
    ("size_lin_N", "demes/demes.py", "Deme.size_at", ("assign", "N", 2), dict(EP, dt=("dt", N)), "(ss es dt : num)",
     "m_size_lin ss es dt", ["C13"]),
    ("growth_dt", "demes/ms.py", "to_ms.get_growth_rate", ("assign", "dt", 0), EP, "(s e N0 : num)", "m_growth_dt s e N0", ["C07"]),
    ("growth_ret", "demes/ms.py", "to_ms.get_growth_rate", ("assign", "ret", 1), dict(EP, dt=("dt", N)), "(ss es dt : num)",
     "m_growth_ret ss es dt", ["C07"]),
    ("to_ms_en_size", "demes/ms.py", "to_ms", ("arg", "PopulationSizeChange", 2, 0), {"size": ("sz", N), "N0": ("N0", N)}, "(sz N0 : num)",
     "m_en_size sz N0", ["C07"]),
    ("to_ms_anc_prop", "demes/ms.py", "to_ms", ("assign", "proportion", 0),
     {"deme.proportions[k]": ("pk", N), "deme.proportions[k:]": ("rest", "nums")}, "(pk : num) (rest : list num)", "m_anc_prop pk rest", ["C07"]),
    ("to_ms_anc_split", "demes/ms.py", "to_ms", ("arg", "Split", 2, 0), {"proportion": ("p", N)}, "(p : num)", "m_split_keep p", ["C07"]),
    ("to_ms_pulse_split", "demes/ms.py", "to_ms", ("arg", "Split", 2, 1), {"pulse.proportions[0]": ("p", N)}, "(p : num)", "m_split_keep p",
     ["C07"]),
    ("to_ms_rate", "demes/ms.py", "to_ms", ("kw", "MigrationMatrixEntryChange", "rate", 1), {"N0": ("N0", N), "migration.rate": ("r", N)},
     "(N0 r : num)", "m_ms_rate N0 r", ["C07"]),
    ("to_ms_time_scale", "demes/ms.py", "to_ms", ("augdiv", "event.t", 0), {"N0": ("N0", N)}, "(N0 : num)", "m_4N0 N0", ["C07"]),
    ("from_ms_time", "demes/ms.py", "build_graph", ("assign", "time", 0), {"N0": ("N0", N), "t": ("t", N)}, "(N0 t : num)", "m_from_time N0 t",
     ["C08"]),
    ("from_ms_growth_G", "demes/ms.py", "build_graph", ("assign", "growth_rate", 1), {"N0": ("N0", N), "event.alpha": ("a", N)}, "(a N0 : num)",
     "m_from_growth a N0", ["C08"]),
    ("from_ms_growth_g", "demes/ms.py", "build_graph", ("assign", "growth_rate", 2), {"N0": ("N0", N), "event.alpha": ("a", N)}, "(a N0 : num)",
     "m_from_growth a N0", ["C08"]),
    ("from_ms_size_N", "demes/ms.py", "build_graph", ("assign", "size", 0), {"N0": ("N0", N), "event.x": ("x", N)}, "(x N0 : num)",
     "m_from_size x N0", ["C08"]),
    ("from_ms_size_n", "demes/ms.py", "build_graph", ("assign", "size", 1), {"N0": ("N0", N), "event.x": ("x", N)}, "(x N0 : num)",
     "m_from_size x N0", ["C08"]),
    ("from_ms_rate_scale", "demes/ms.py", "build_graph", ("augdiv", "migration['rate']", 0), {"N0": ("N0", N)}, "(N0 : num)", "m_4N0 N0", ["C08"]),
]


def generate_arith():
    cache, defs, ties, report = {}, [], [], []
    for sid, path, qual, sel, env, binders, model, props in ARITH_SITES:
        if path not in cache:
            cache[path] = load(path)
        fn = cache[path].get(qual)
        status, term, src = "ok", None, None
        if fn is None:
            status = "function %s not found" % qual
        else:
            node = select(fn, sel)
            if node is None:
                status = "expression %r not found" % (sel,)
            else:
                src = ast.unparse(node)
                try:
                    term, ty = tr(node, env)
                    if ty != "num":
                        status = "not a number"
                except Untranslatable as e:
                    status = "untranslatable: %s" % e
        report.append(dict(site="a_" + sid, file=path, function=qual, index=None, status=status, source=src, props=props))
        if status != "ok":
            continue
        names = []
        for grp in binders.split(")"):
            grp = grp.strip().lstrip("(")
            if ":" in grp:
                names += grp.split(":")[0].split()
        defs.append("  (* %s  %s %r:  %s *)\n  Definition a_%s %s : num := %s.\n" % (path, qual, sel, src.replace("*)", "* )"), sid, binders, term))
        ties.append(("a_" + sid, "forall %s, a_%s %s = (%s)" % (binders, sid, " ".join(names), model)))
    return defs, ties, report


# ---------------------------------------------------------------------------
# Structural sites: facts about the shape of a function, emitted as Gallina string lists and tied
# (by reflexivity) to what the model assumes.
def calls_in(fn, watch):
    out = []
    for node in ast.walk(fn):
        if isinstance(node, ast.Call):
            name = ast.unparse(node.func)
            if name in watch:
                out.append((node.lineno, node.col_offset, name))
    return [n for _, _, n in sorted(out)]


def divided_fields(fn):
    """targets of `x.attr /= ...` with the chain of loop collections leading to x, and plain attribute assignments"""
    out = []

    def walk(body, path):
        for st in body:
            if isinstance(st, ast.For) and isinstance(st.target, ast.Name):
                coll = ast.unparse(st.iter).split(".")[-1]
                walk(st.body, path + [(st.target.id, coll)])
            elif isinstance(st, ast.AugAssign) and isinstance(st.op, ast.Div) and isinstance(st.target, ast.Attribute):
                owner = ast.unparse(st.target.value)
                chain = ".".join(c for _, c in path if True)
                out.append("%s.%s /= %s" % (chain, st.target.attr, ast.unparse(st.value).split(".")[-1]))
            elif isinstance(st, ast.Assign) and len(st.targets) == 1 and isinstance(st.targets[0], ast.Attribute):
                out.append("%s = %s" % (st.targets[0].attr, ast.unparse(st.value)))
            elif isinstance(st, (ast.If, ast.With)):
                walk(st.body, path)
    walk(fn.body, [])
    return out


def tests_text(fn):
    return [ast.unparse(t) for t in tests_of(fn)]


STRUCT_SITES = [
    # (id, file, function, extractor, expected, properties)
    ("ingen_fields", "demes/demes.py", "Graph.in_generations", lambda fn: divided_fields(fn),
     ["demes.start_time /= generation_time", "demes.epochs.start_time /= generation_time",
      "demes.epochs.end_time /= generation_time", "migrations.start_time /= generation_time",
      "migrations.end_time /= generation_time", "pulses.time /= generation_time",
      "time_units = 'generations'", "generation_time = 1"], ["C11"]),
    ("load_asdict_pipeline", "demes/load_dump.py", "load_asdict",
     lambda fn: calls_in(fn, {"json.load", "_load_yaml_asdict", "_no_null_values", "_unstringify_infinities"}),
     ["json.load", "_load_yaml_asdict", "_no_null_values", "_unstringify_infinities"], ["C16", "C03", "C04"]),
    ("load_all_pipeline", "demes/load_dump.py", "load_all",
     lambda fn: calls_in(fn, {"yaml.load_all", "_no_null_values", "_unstringify_infinities", "demes.Graph.fromdict"}),
     ["yaml.load_all", "_no_null_values", "_unstringify_infinities", "demes.Graph.fromdict"], ["C16", "C03", "C04"]),
    ("loads_asdict_pipeline", "demes/load_dump.py", "loads_asdict", lambda fn: calls_in(fn, {"load_asdict"}), ["load_asdict"], ["C16"]),
    ("loads_pipeline", "demes/load_dump.py", "loads", lambda fn: calls_in(fn, {"loads_asdict", "demes.Graph.fromdict"}),
     ["loads_asdict", "demes.Graph.fromdict"], ["C16"]),
    ("load_pipeline", "demes/load_dump.py", "load", lambda fn: calls_in(fn, {"load_asdict", "demes.Graph.fromdict"}),
     ["load_asdict", "demes.Graph.fromdict"], ["C16"]),
    ("dump_pipeline", "demes/load_dump.py", "dump",
     lambda fn: calls_in(fn, {"graph.asdict_simplified", "graph.asdict", "_stringify_infinities", "json.dump", "_dump_yaml_fromdict"}),
     ["graph.asdict_simplified", "graph.asdict", "_stringify_infinities", "json.dump", "_dump_yaml_fromdict"], ["C04", "C16"]),
    ("dump_all_pipeline", "demes/load_dump.py", "dump_all",
     lambda fn: calls_in(fn, {"graph.asdict_simplified", "graph.asdict", "_dump_yaml_fromdict", "_stringify_infinities"}),
     ["graph.asdict_simplified", "graph.asdict", "_dump_yaml_fromdict"], ["C04"]),
    ("open_polymorph_calls", "demes/load_dump.py", "_open_file_polymorph", lambda fn: calls_in(fn, {"open", "f.close"}),
     ["open", "f.close"], ["C17"]),
    ("fromdict_copy", "demes/demes.py", "Graph.fromdict", lambda fn: calls_in(fn, {"_copy_unshared", "copy.deepcopy", "copy.copy"}),
     ["_copy_unshared"], ["C18", "C02"]),
    ("resolve_is_fromdict", "demes/demes.py", "Builder.resolve", lambda fn: calls_in(fn, {"Graph.fromdict"}), ["Graph.fromdict"], ["C18"]),
    ("cli_lookahead", "demes/__main__.py", "ParseCommand.load_and_count_documents",
     lambda fn: calls_in(fn, {"demes.load_all", "graph_list.append", "itertools.chain", "next"}),
     ["demes.load_all", "graph_list.append", "itertools.chain"], ["C19"]),
    # the branch conditions of the glue code, as written (Model/Cli.v, Model/IO.v, Model/Files.v transcribe them)
    ("cli_dispatch_tests", "demes/__main__.py", "ParseCommand.__call__", lambda fn: tests_text(fn),
     ["args.json", "args.ms is not None", "args.ms and args.simplified", "num_documents == 0", "num_documents == 1",
      "args.ms is not None", "output_format != 'yaml'"], ["C19"]),
    ("cli_count_tests", "demes/__main__.py", "ParseCommand.load_and_count_documents", lambda fn: tests_text(fn),
     ["len(graph_list) > 1"], ["C19"]),
    ("open_polymorph_tests", "demes/load_dump.py", "_open_file_polymorph", lambda fn: tests_text(fn),
     ["f is not polymorph"], ["C17"]),
    ("stringify_tests", "demes/load_dump.py", "_stringify_infinities", lambda fn: tests_text(fn),
     ["'start_time' in deme and math.isinf(deme['start_time'])",
      "'start_time' in migration and math.isinf(migration['start_time'])"], ["C16", "C04"]),
    ("unstringify_tests", "demes/load_dump.py", "_unstringify_infinities", lambda fn: tests_text(fn),
     ["start_time == _INFINITY_STR", "start_time == _INFINITY_STR", "default in ['migration', 'deme']",
      "start_time == _INFINITY_STR"], ["C16", "C04"]),
    ("no_nulls_tests", "demes/load_dump.py", "_no_null_values", lambda fn: tests_text(fn), ["k != 'metadata'"], ["C16"]),
    ("no_nulls_leaf_tests", "demes/load_dump.py", "_no_null_values.check_if_None", lambda fn: tests_text(fn),
     ["val is None"], ["C16"]),
    ("no_nulls_walk_tests", "demes/load_dump.py", "_no_null_values.assert_no_nulls", lambda fn: tests_text(fn),
     ["isinstance(v, dict)", "isinstance(v, list)", "isinstance(e, dict)"], ["C16"]),
    ("load_asdict_tests", "demes/load_dump.py", "load_asdict", lambda fn: tests_text(fn),
     ["format == 'json'", "format == 'yaml'"], ["C16", "C04"]),
    ("dump_tests", "demes/load_dump.py", "dump", lambda fn: tests_text(fn),
     ["simplified", "format == 'json'", "format == 'yaml'"], ["C04", "C16"]),
    ("dump_all_tests", "demes/load_dump.py", "dump_all", lambda fn: tests_text(fn), ["simplified"], ["C04"]),
]


# ---------------------------------------------------------------------------
# Decision fingerprints: for every function the model mirrors, the list of its decision expressions as
# written (normalised by ast.unparse).  xlate/decisions.json records the lists the model was written and
# compared against; a function whose list differs is a broken tie for the properties that rest on it
# (`pyxlate.py snapshot` rewrites the record — only after the model has been re-aligned with the source).
DECISION_FILES = ["demes/demes.py", "demes/ms.py", "demes/load_dump.py", "demes/__main__.py"]
DECISION_PROPS = [
    # (file, qualified-name prefix, properties)
    ("demes/demes.py", "Epoch.assert_close", ["C10"]), ("demes/demes.py", "AsymmetricMigration.assert_close", ["C10"]),
    ("demes/demes.py", "Pulse.assert_close", ["C10"]), ("demes/demes.py", "Deme.assert_close", ["C10"]),
    ("demes/demes.py", "Graph.assert_close", ["C10"]), ("demes/demes.py", "isclose_deme_proportions", ["C10"]),
    ("demes/demes.py", "Split.", ["C14"]), ("demes/demes.py", "Branch.", ["C14"]), ("demes/demes.py", "Merge.", ["C14"]),
    ("demes/demes.py", "Admix.", ["C14"]), ("demes/demes.py", "Graph.successors", ["C14"]),
    ("demes/demes.py", "Graph.predecessors", ["C14"]), ("demes/demes.py", "Graph.discrete_demographic_events", ["C14"]),
    ("demes/demes.py", "Deme.size_at", ["C13"]), ("demes/demes.py", "Graph.migration_matrices", ["C12"]),
    ("demes/demes.py", "Graph._check_migration_rates", ["C12", "C01", "C03"]), ("demes/demes.py", "Graph.in_generations", ["C11"]),
    ("demes/demes.py", "Graph.rename_demes", ["C15"]), ("demes/demes.py", "Graph.asdict_simplified", ["C05"]),
    ("demes/demes.py", "Graph.asdict", ["C06"]), ("demes/demes.py", "_copy_unshared", ["C18", "C02"]),
    ("demes/demes.py", "Builder._add_migrations_from_matrices", ["C08"]), ("demes/demes.py", "Builder._remove_transient_demes", ["C08"]),
    ("demes/demes.py", "Builder.", ["C18", "C02"]),
    ("demes/demes.py", "insert_defaults", ["C02"]), ("demes/demes.py", "Graph.fromdict", ["C02", "C03"]),
    ("demes/demes.py", "Deme._add_epoch", ["C02", "C03"]), ("demes/demes.py", "Graph._add_", ["C01", "C02", "C03"]),
    ("demes/demes.py", "", ["C01", "C03"]),      # validators, attrs post-init checks, check_defaults, pop_*, ...
    ("demes/ms.py", "to_ms", ["C07"]), ("demes/ms.py", "build_graph", ["C08"]), ("demes/ms.py", "from_ms", ["C08"]),
    ("demes/ms.py", "remap_deme_names", ["C08"]), ("demes/ms.py", "Structure.", ["C08", "C09"]),
    ("demes/ms.py", "coerce_nargs", ["C08", "C09"]), ("demes/ms.py", "build_parser", ["C08", "C09"]), ("demes/ms.py", "", ["C09"]),
    ("demes/load_dump.py", "_open_file_polymorph", ["C17"]), ("demes/load_dump.py", "", ["C04", "C16"]),
    ("demes/__main__.py", "", ["C19"]),
]


def decision_props(path, qual):
    for f, pre, props in DECISION_PROPS:
        if f == path and qual.startswith(pre):
            return props
    return []


def decisions_now():
    out = {}
    for path in DECISION_FILES:
        fns = load(path)
        out[path] = {q: tests_text(fn) for q, fn in fns.items() if tests_of(fn)}
    return out


def decision_sites():
    rec_path = os.path.join(os.path.dirname(os.path.abspath(__file__)), "decisions.json")
    rec = json.load(open(rec_path))
    now = decisions_now()
    items, report = [], []
    # decisions that are translated to Gallina and tied semantically (SITES) are compared there, so that a harmless
    # respelling of one of them is not a broken tie here
    covered = {}
    for sid0, path0, qual0, idx0, env0, binders0, model0 in SITES:
        if idx0 is not None and model0 is not None:
            covered.setdefault((path0, qual0), set()).add(idx0)
    for path, fns in rec.items():
        for qual, expected in fns.items():
            sid = "dec_" + re.sub(r"\W+", "_", path.split("/")[-1][:-3] + "_" + qual)
            got = now.get(path, {}).get(qual)
            props = decision_props(path, qual)
            if got is None:
                report.append(dict(site=sid, file=path, function=qual, index=None, source=None, props=props,
                                   status="tie broken: function %s no longer exists or has no decision left" % qual))
                continue
            cov = covered.get((path, qual), set())
            if cov and len(got) == len(expected):
                got = [g for i, g in enumerate(got) if i not in cov]
                expected = [e for i, e in enumerate(expected) if i not in cov]
            status = "ok" if got == expected else \
                "tie broken: decisions are now %r, the model was aligned with %r" % (
                    [g for g in got if g not in expected][:3] or got[:3], [e for e in expected if e not in got][:3] or expected[:3])
            report.append(dict(site=sid, file=path, function=qual, index=None, status=status, source="; ".join(got)[:400], props=props))
            items.append((sid, got, expected))
        for qual in now.get(path, {}):
            if qual not in fns:
                sid = "dec_" + re.sub(r"\W+", "_", path.split("/")[-1][:-3] + "_" + qual)
                report.append(dict(site=sid, file=path, function=qual, index=None, source="; ".join(now[path][qual])[:400],
                                   props=[], status="ok"))          # a new function: reported, not a broken tie by itself
    return items, report


def structural():
    cache, items, report = {}, [], []
    for sid, path, qual, ext, expected, props in STRUCT_SITES:
        if path not in cache:
            cache[path] = load(path)
        fn = cache[path].get(qual)
        if fn is None:
            report.append(dict(site=sid, file=path, function=qual, index=None, status="function %s not found" % qual,
                               source=None, props=props))
            continue
        got = ext(fn)
        status = "ok" if got == expected else "tie broken: structure is %r, the model assumes %r" % (got, expected)
        report.append(dict(site=sid, file=path, function=qual, index=None, status=status, source="; ".join(got), props=props))
        items.append((sid, got, expected))
    di, dr = decision_sites()
    return items + di, report + dr


def load(path):
    src = open(os.path.join(REPO, path)).read()
    return qual_functions(ast.parse(src))


def cmd_list(path):
    for q, fn in load(path).items():
        ts = tests_of(fn)
        if ts:
            print(q)
            for i, t in enumerate(ts):
                print("   %2d  L%-5d %s" % (i, t.lineno, ast.unparse(t)[:110]))


def generate():
    cache = {}
    guards, ties, report = [], [], []
    for sid, path, qual, idx, env, binders, model in SITES:
        if idx is None or model is None:
            continue
        if path not in cache:
            cache[path] = load(path)
        fn = cache[path].get(qual)
        status, term = "ok", None
        if fn is None:
            status = "function %s not found" % qual
        else:
            ts = tests_of(fn)
            if idx >= len(ts):
                status = "test #%d not found (function has %d)" % (idx, len(ts))
            else:
                try:
                    term, ty = tr(ts[idx], env)
                    if ty != "bool":
                        status = "not a boolean"
                    src_text = ast.unparse(ts[idx])
                except Untranslatable as e:
                    status = "untranslatable: %s" % e
        report.append(dict(site=sid, file=path, function=qual, index=idx, status=status,
                           source=(ast.unparse(tests_of(fn)[idx]) if fn is not None and idx < len(tests_of(fn)) else None)))
        if status != "ok":
            continue
        allnames = []
        for grp in binders.split(")"):
            grp = grp.strip().lstrip("(")
            if ":" in grp:
                allnames += grp.split(":")[0].split()
        guards.append("  (* %s  %s #%d:  %s *)\n  Definition g_%s %s : bool := %s.\n"
                      % (path, qual, idx, src_text.replace("*)", "* )"), sid, binders, term))
        stmt = "forall %s, g_%s %s = (%s)" % (binders, sid, " ".join(allnames), model)
        ties.append((sid, stmt))
    for r in report:
        r["props"] = props_of(r["site"])
    return guards, ties, report


# ---------------------------------------------------------------------------
# Function sites: WHOLE function bodies translated, statement by statement, into a Gallina term of type `res T`
# (f_<id> in Gen/SrcFuns.v) and proved equal to the model's function (Gen/FunTie.v).  Supported statements:
# docstrings, `return e`, `raise X(...)`, assignments to local names, `assert c[, msg]`, `if/elif/else`,
# and the search loop `for x in xs: if c: break` + `else: <returns or raises>`.  Expressions are those of `tr`
# plus the operations that can raise, bound in evaluation order in the error monad: `a / b` (pdiv),
# `math.log` (plog), `math.exp` (pexp), `xs[0]` (phead).  Also: loops `for t in xs / zip(xs, ys) / enumerate(..)` whose
# body neither returns, assigns, breaks nor continues (forM_ / forM2_ of the body), the search loop
# `for ..: if c: return False` + `return True` (forallb / forall2b), `try: S except E: raise E(..)` (= S),
# `len`, `xs.count(x)`, `sorted(zip(names, nums), key=operator.itemgetter(0))`, and calls of functions that are
# themselves function sites (FUN_CALLS / METHOD_CALLS: the callee's model term; the caller's tie then depends on the
# callee's).  Also: a locally defined function called as a statement with explicit, non-raising arguments (inlined by
# substitution, inline_call), `sorted(xs)` on lists of Deme / AsymmetricMigration (ATTRS_ORDER, a trusted fact), handlers that
# re-raise the same class on every path, and the "update of a deep copy" form (`g = copy.deepcopy(x)`, `g.attr = e`,
# `for y in g.coll: y.attr /= e ...` = mapM of the rebuilt record, `return g`; see bind_mutable / tr_update_loop).
# For Graph.rename_demes, each only in exactly this shape: a Mapping[str, str] parameter of model type namemap (an association
# list standing for the dict's items in insertion order) with `k in names` (mem_key) and names[k] under that very guard
# (key_guard: `T if k in names else E` and `if k in names: x.attr = T` are `match assoc k names with Some v => T | None => ..`);
# `[E for a in xs]` over strings (map); in an update loop `x.attr = <pure expression>` and `if c: x.attr = e` without else;
# isinstance tests discharged by the model's typing (TYPE_TESTS); a loop over the copy's collection that stores nothing
# (forM_ over its current value); a validator that is a function site called as a statement (FUN_CALLS, ty unit);
# `value.isidentifier()` (is_identifier, trusted); `g._deme_map = {d.name: d for d in g.demes}` (build_index 0 <demes> []);
# `len(g.coll)` / `len(g._deme_map)` of the copy.
# Anything else is "untranslated" (fail-closed).
RECORDS = {
    "epoch": {"start_time": ("(e_start %s)", N), "end_time": ("(e_end %s)", N), "start_size": ("(e_ssize %s)", N),
              "end_size": ("(e_esize %s)", N), "size_function": ("(e_sf %s)", "str"), "selfing_rate": ("(e_self %s)", N),
              "cloning_rate": ("(e_clone %s)", N), "time_span": ("(nsub (e_start %s) (e_end %s))", N)},
    "deme": {"start_time": ("(d_start %s)", N), "epochs": ("(d_epochs %s)", "list:epoch"), "name": ("(d_name %s)", "str"),
             "ancestors": ("(d_anc %s)", "strs"), "proportions": ("(d_props %s)", "nums")},
    "pulse": {"sources": ("(p_srcs %s)", "strs"), "dest": ("(p_dst %s)", "str"), "time": ("(p_time %s)", N),
              "proportions": ("(p_props %s)", "nums")},
    "mig": {"source": ("(m_src %s)", "str"), "dest": ("(m_dst %s)", "str"), "start_time": ("(m_start %s)", N),
            "end_time": ("(m_end %s)", N), "rate": ("(m_rate %s)", N)},
}
RECORDS["graph"] = {"time_units": ("(g_units %s)", "str"), "generation_time": ("(g_gt %s)", N), "demes": ("(g_demes %s)", "list:deme"),
                    "migrations": ("(g_migs %s)", "list:mig"), "pulses": ("(g_pulses %s)", "list:pulse"),
                    # the name index: the model keeps positions in g_demes where the code keeps references to the Deme objects
                    "_deme_map": ("(g_index %s)", "index")}
# constructor and ordered projections of each record (Model/MDM.v), to rebuild a record with some fields updated; a
# projection without a Python attribute in RECORDS (d_desc, g_desc, g_doi, g_meta, g_index) is carried over unchanged
CTORS = {"epoch": ("mkEpoch", ["e_start", "e_end", "e_ssize", "e_esize", "e_sf", "e_self", "e_clone"]),
         "deme": ("mkDeme", ["d_name", "d_desc", "d_start", "d_anc", "d_props", "d_epochs"]),
         "mig": ("mkMig", ["m_src", "m_dst", "m_start", "m_end", "m_rate"]),
         "pulse": ("mkPulse", ["p_srcs", "p_dst", "p_time", "p_props"]),
         "graph": ("mkGraph", ["g_desc", "g_units", "g_gt", "g_doi", "g_meta", "g_demes", "g_migs", "g_pulses", "g_index"])}
# TRUSTED FACT (not derived from the source): the ordering attrs generates for these two classes (order=True: the tuple
# of the fields in declaration order), as used by builtin sorted() on lists of them, is the model's deme_lt / mig_lt
# (Model/Close.v).  Only these two record kinds; sorted() on any other list of records is untranslated.
ATTRS_ORDER = {"deme": "deme_lt", "mig": "mig_lt"}
ERRS = {"ValueError": "ValueErr", "NotImplementedError": "OtherErr", "KeyError": "KeyErr", "TypeError": "TypeErr",
        "IndexError": "IndexErr", "AssertionError": "AssertErr", "ZeroDivisionError": "ZeroDivErr", "OverflowError": "OverflowErr"}


# Calls of functions that are themselves function sites are translated compositionally, to the callee's model
# counterpart.  This is justified by the callee's own tie, so the caller's tie holds only if the callee's does in the
# same run (the dependency is recorded in env["<deps>"] and enforced in funs_gen).  The arguments are matched against
# the callee's CURRENT signature; omitted arguments take the callee's current defaults (numeric module constants).
NUMCONST = {1e-9: "nrel", 1e-12: "nabst"}
FUN_CALLS = {
    # a validator called as a statement, whose tie is  f value = model value  (res unit)
    "valid_deme_name": dict(
        site="v_valid_deme_name", file="demes/demes.py", qual="valid_deme_name", ty="unit",
        params={"self": "skip", "attribute": "skip", "value": "str"}, term="(valid_deme_name {value})"),
    # a function returning a bool whose tie is  f ... = Ok (model ...)
    "isclose_deme_proportions": dict(
        site="isclose_deme_proportions", file="demes/demes.py", qual="isclose_deme_proportions", ty="bool",
        params={"a_names": "strs", "a_proportions": "nums", "b_names": "strs", "b_proportions": "nums", "rel_tol": N, "abs_tol": N},
        term="(close_props {a_names} {a_proportions} {b_names} {b_proportions} {rel_tol} {abs_tol})"),
}
METHOD_CALLS = {
    # x.assert_close(y, ...) as a statement:  if <model> then <rest> else Err AssertErr; needs, besides the callee's tie,
    # the "exact" lemma (the callee raises nothing but AssertionError), proved by the same tactic in the same run
    ("rec:epoch", "assert_close"): dict(
        site="Epoch_assert_close", file="demes/demes.py", qual="Epoch.assert_close",
        params={"self": "rec:epoch", "other": "rec:epoch", "rel_tol": N, "abs_tol": N},
        term="(close_epoch {rel_tol} {abs_tol} {self} {other})",
        exact="forall self other rel_tol abs_tol, f_Epoch_assert_close self other rel_tol abs_tol = "
              "(if close_epoch rel_tol abs_tol self other then Ok tt else Err AssertErr)"),
}
for _k, _cls, _close in (("deme", "Deme", "close_deme"), ("mig", "AsymmetricMigration", "close_mig"), ("pulse", "Pulse", "close_pulse")):
    METHOD_CALLS[("rec:" + _k, "assert_close")] = dict(
        site=_cls + "_assert_close", file="demes/demes.py", qual=_cls + ".assert_close",
        params={"self": "rec:" + _k, "other": "rec:" + _k, "rel_tol": N, "abs_tol": N},
        term="(" + _close + " {rel_tol} {abs_tol} {self} {other})",
        exact="forall self other rel_tol abs_tol, f_%s_assert_close self other rel_tol abs_tol = "
              "(if %s rel_tol abs_tol self other then Ok tt else Err AssertErr)" % (_cls, _close))
EXACT = {c["site"]: c["exact"] for c in METHOD_CALLS.values()}


def module_consts(path):
    """module-level NAME = <number>, for names assigned exactly once in the whole file"""
    tree = ast.parse(open(os.path.join(REPO, path)).read())
    count = {}
    for n in ast.walk(tree):
        tg = []
        if isinstance(n, ast.Assign):
            tg = n.targets
        elif isinstance(n, (ast.AugAssign, ast.AnnAssign)):
            tg = [n.target]
        elif isinstance(n, ast.Global):
            for nm in n.names:
                count[nm] = count.get(nm, 0) + 2
        for t in tg:
            for x in ast.walk(t):
                if isinstance(x, ast.Name):
                    count[x.id] = count.get(x.id, 0) + 1
    out = {}
    for n in tree.body:
        if (isinstance(n, ast.Assign) and len(n.targets) == 1 and isinstance(n.targets[0], ast.Name)
                and isinstance(n.value, ast.Constant) and count.get(n.targets[0].id) == 1):
            out[n.targets[0].id] = n.value.value
    return out


def call_args(spec, node, env, recv=None):
    """the model term for a call of a tied function, its arguments bound through the callee's current signature"""
    fn = load(spec["file"]).get(spec["qual"])
    if fn is None:
        raise Untranslatable("callee %s not found" % spec["qual"])
    a = fn.args
    if a.vararg or a.kwarg or a.posonlyargs:
        raise Untranslatable("callee signature")
    pos = [x.arg for x in a.args]
    vals = {}
    if recv is not None:
        if not pos:
            raise Untranslatable("callee is not a method")
        vals[pos[0]] = recv
        pos = pos[1:]
    if len(node.args) > len(pos) or any(isinstance(x, ast.Starred) for x in node.args) or any(k.arg is None for k in node.keywords):
        raise Untranslatable("call arguments of " + spec["qual"])
    for name, x in zip(pos, node.args):
        if spec["params"].get(name) == "skip":
            # a parameter the callee's body may not use (see generate_funs): only the constant None is passed
            if not (isinstance(x, ast.Constant) and x.value is None):
                raise Untranslatable("argument %s of %s" % (name, spec["qual"]))
            vals[name] = ("tt", "skip")
            continue
        vals[name] = tr(x, env)
    allowed = set(pos) | set(x.arg for x in a.kwonlyargs)
    for k in node.keywords:
        if k.arg not in allowed or k.arg in vals:
            raise Untranslatable("keyword %s of %s" % (k.arg, spec["qual"]))
        vals[k.arg] = tr(k.value, env)
    defaults = dict(zip([x.arg for x in a.args][len(a.args) - len(a.defaults):], a.defaults))
    defaults.update({x.arg: d for x, d in zip(a.kwonlyargs, a.kw_defaults) if d is not None})
    consts = None
    for name in pos + [x.arg for x in a.kwonlyargs]:
        if name in vals:
            continue
        d = defaults.get(name)
        if d is None:
            raise Untranslatable("missing argument %s of %s" % (name, spec["qual"]))
        if isinstance(d, ast.Name):
            if consts is None:
                consts = module_consts(spec["file"])
            v = consts.get(d.id)
        else:
            v = d.value if isinstance(d, ast.Constant) else None
        if type(v) is not float or v not in NUMCONST:
            raise Untranslatable("default of %s in %s" % (name, spec["qual"]))
        vals[name] = (NUMCONST[v], "num")
    if set(vals) != set(spec["params"]):
        raise Untranslatable("parameters of %s are now %s" % (spec["qual"], sorted(vals)))
    for name, ty in spec["params"].items():
        if vals[name][1] != ty:
            raise Untranslatable("argument %s of %s has type %s" % (name, spec["qual"], vals[name][1]))
    return spec["term"].format(**{k: v[0] for k, v in vals.items()})


def bind_target(target, ety, term, env):
    """bind a loop target (a name, or a pair pattern over a pair-typed element) to the Coq term of the element"""
    if isinstance(target, ast.Name) and ety is not None:
        if target.id in env:
            raise Untranslatable("loop variable %s rebinds a bound name" % target.id)
        if ety.startswith("rec:"):
            return bind_record(env, target.id, term, ety[4:])
        if ety in ("str", "num"):
            env = dict(env)
            env[target.id] = (term, ety)
            return env
    if isinstance(target, ast.Tuple) and len(target.elts) == 2 and ety is not None and ety.startswith("pair:"):
        e1, e2 = _PAIRS[ety[5:]]
        env = bind_target(target.elts[0], e1, "(fst %s)" % term, env)
        return bind_target(target.elts[1], e2, "(snd %s)" % term, env)
    raise Untranslatable("loop target %s over elements of type %s" % (ast.unparse(target), ety))


def bind_record(env, pyname, coqname, kind):
    env = dict(env)
    for attr, (pat, ty) in RECORDS[kind].items():
        env[pyname + "." + attr] = (pat.replace("%s", coqname), ty)
    env[pyname] = (coqname, "rec:" + kind)
    return env


class _Lift(ast.NodeTransformer):
    """replaces, in evaluation order, every sub-expression that can raise by a fresh name bound in the error monad"""

    def __init__(self, env, counter):
        self.env, self.binds, self.counter, self.guarded, self.scoped = env, [], counter, 0, 0

    def fresh(self, hint):
        self.counter[0] += 1
        return "%s_%d" % (hint, self.counter[0])

    def _emit(self, hint, term, ty):
        if self.guarded:
            raise Untranslatable("an operation that can raise under and/or/conditional expression")
        v = self.fresh(hint)
        self.binds.append((v, term))
        if ty.startswith("rec:"):
            self.env = bind_record(self.env, v, v, ty[4:])
        else:
            self.env = dict(self.env)
            self.env[v] = (v, ty)
        return ast.copy_location(ast.Name(id=v, ctx=ast.Load()), ast.Constant(0))

    def visit_BoolOp(self, node):
        # operands after the first are evaluated conditionally
        first = self.visit(node.values[0])
        self.guarded += 1
        rest = [self.visit(v) for v in node.values[1:]]
        self.guarded -= 1
        return ast.BoolOp(op=node.op, values=[first] + rest)

    def visit_IfExp(self, node):
        test = self.visit(node.test)
        self.guarded += 1
        saved = self.env
        g = key_guard(test, self.env) if not self.scoped else None
        if g is not None:
            self.env = g[1]             # names[k] under the guard `k in names` cannot raise (see key_guard)
        elif (isinstance(test, ast.Compare) and len(test.ops) == 1 and isinstance(test.ops[0], ast.In) and self.scoped
              and isinstance(test.comparators[0], ast.Name) and self.env.get(test.comparators[0].id, (None, None))[1] == "namemap"):
            # inside a comprehension the key may be the comprehension's variable (not bound here): tr decides
            self.env = dict(self.env)
            self.env["%s[%s]" % (test.comparators[0].id, ast.unparse(test.left))] = ("?", "str")
        body = self.visit(node.body)
        self.env = saved
        orelse = self.visit(node.orelse)
        self.guarded -= 1
        return ast.IfExp(test=test, body=body, orelse=orelse)

    def visit_ListComp(self, node):
        # the iterable of the (single) generator is evaluated first and may raise; the element expression is evaluated
        # once per element: no raising operation is accepted there
        if len(node.generators) != 1 or node.generators[0].ifs or node.generators[0].is_async:
            raise Untranslatable("comprehension " + ast.unparse(node)[:60])
        gen = node.generators[0]
        it = self.visit(gen.iter)
        self.guarded += 1
        self.scoped += 1
        elt = self.visit(node.elt)
        self.scoped -= 1
        self.guarded -= 1
        return ast.ListComp(elt=elt, generators=[ast.comprehension(target=gen.target, iter=it, ifs=[], is_async=0)])

    def visit_DictComp(self, node):
        raise Untranslatable("dict comprehension")

    def visit_SetComp(self, node):
        raise Untranslatable("set comprehension")

    def visit_GeneratorExp(self, node):
        raise Untranslatable("generator expression")

    def visit_Lambda(self, node):
        raise Untranslatable("lambda")

    def visit_BinOp(self, node):
        node = self.generic_visit(node)
        if isinstance(node.op, ast.Div):
            pa, ta = tr(node.left, self.env)
            pb, tb = tr(node.right, self.env)
            if ta != "num" or tb != "num":
                raise Untranslatable("division of non-numbers")
            return self._emit("q", "pdiv %s %s" % (pa, pb), "num")
        return node

    def visit_Call(self, node):
        node = self.generic_visit(node)
        fname = ast.unparse(node.func)
        if fname in ("math.log", "math.exp") and len(node.args) == 1 and not node.keywords:
            pa, ta = tr(node.args[0], self.env)
            if ta != "num":
                raise Untranslatable(fname + " of a non-number")
            return self._emit("l" if fname == "math.log" else "x", ("plog %s" if fname == "math.log" else "pexp %s") % pa, "num")
        return node

    def visit_Subscript(self, node):
        if ast.unparse(node) in self.env:
            return node
        node = self.generic_visit(node)
        if isinstance(node.slice, ast.Constant) and node.slice.value == 0:
            pa, ta = tr(node.value, self.env)
            if ta.startswith("list:"):
                return self._emit("h", "phead %s" % pa, "rec:" + ta[5:])
        if ast.unparse(node.slice) == "-1":
            pa, ta = tr(node.value, self.env)
            if ta.startswith("list:"):
                return self._emit("h", "plast %s" % pa, "rec:" + ta[5:])
        raise Untranslatable("subscript " + ast.unparse(node))

    def visit_Attribute(self, node):
        if ast.unparse(node) in self.env:
            return node
        node = self.generic_visit(node)
        return node


def lift(node, env, counter):
    """-> (binds [(var, monadic term)], pure coq term, type, env extended with the bound names)"""
    if isinstance(node, ast.Compare) and len(node.ops) == 2 and any(isinstance(o, (ast.Is, ast.IsNot)) for o in node.ops):
        raise Untranslatable("chained identity test")
    if (isinstance(node, ast.Compare) and len(node.ops) == 1 and isinstance(node.ops[0], ast.Is)
            and ast.unparse(node.left).endswith(".__class__") and ast.unparse(node.comparators[0]).endswith(".__class__")):
        return [], "true", "bool", env          # both arguments have the model's (static) type
    lf = _Lift(env, counter)
    new = lf.visit(node)
    term, ty = tr(new, lf.env)
    return lf.binds, term, ty, lf.env


def wrap(binds, body):
    for v, t in reversed(binds):
        body = "(%s <- %s ;; %s)" % (v, t, body)
    return body

# ---- update of a deep copy ------------------------------------------------------------------------------------------
# `g = copy.deepcopy(x)` binds g to a fresh VALUE equal to x: nothing reachable from g is shared with x or with any other
# name (TRUSTED: the record tree has no internal sharing the model does not have -- Graph._deme_map is positions in the
# model -- and the classes define no __deepcopy__/__reduce__/__setattr__ hooks and no on_setattr validators, which
# deepcopy_ok checks textually).  The copy is a "mutable" name: its current value is kept field by field
# (env["<mut>"][name] = (kind, {projection: current term})), attribute assignments update that state, reads of its
# scalar attributes see the value current at that statement, and the whole object or its record-valued attributes
# cannot be read at all (no aliases can be made); they can only be iterated by an update loop and returned.
def deepcopy_ok(path):
    src = open(os.path.join(REPO, path)).read()
    tree = ast.parse(src)
    imported = any(isinstance(n, ast.Import) and any(a.name == "copy" and a.asname is None for a in n.names) for n in tree.body)
    rebound = 0
    for n in ast.walk(tree):
        if isinstance(n, ast.Name) and n.id == "copy" and isinstance(n.ctx, (ast.Store, ast.Del)):
            rebound += 1
        if isinstance(n, (ast.FunctionDef, ast.ClassDef)) and n.name == "copy":
            rebound += 1
        if isinstance(n, ast.arg) and n.arg == "copy":
            rebound += 1
        if isinstance(n, (ast.Import, ast.ImportFrom)) and n not in tree.body and any((a.asname or a.name) == "copy" for a in n.names):
            rebound += 1
        if isinstance(n, ast.ImportFrom) and any((a.asname or a.name) == "copy" for a in n.names):
            rebound += 1
    hooks = ["on_setattr", "attr.define", "attrs.define", "attr.frozen", "__setattr__", "__deepcopy__", "__copy__", "__reduce",
             "__getstate__", "__setstate__", "__getattr__", "__getattribute__"]
    return imported and not rebound and not any(h in src for h in hooks)


def attr_proj(kind, attr):
    pat, ty = RECORDS[kind].get(attr, (None, None))
    m = re.match(r"^\((\w+) %s\)$", pat or "")
    if not m or m.group(1) not in CTORS[kind][1]:
        raise Untranslatable("attribute %s of a %s cannot be assigned" % (attr, kind))
    return m.group(1), ty


def mut_value(kind, fields):
    return "(%s %s)" % (CTORS[kind][0], " ".join(fields[p] for p in CTORS[kind][1]))


def mut_refresh(env, pyname):
    """the env entries of the readable attributes of a mutable name, from its current fields"""
    kind, fields = env["<mut>"][pyname]
    env.pop(pyname, None)           # the whole object cannot be read
    for attr, (pat, ty) in RECORDS[kind].items():
        env.pop(pyname + "." + attr, None)
        if ty.startswith("list:") or ty.startswith("rec:"):
            continue                # record-valued attributes cannot be read (only iterated by an update loop)
        term = re.sub(r"\((\w+) %s\)", lambda m: fields.get(m.group(1), "%s"), pat)
        if "%s" not in term:
            env[pyname + "." + attr] = (term, ty)
    return env


def bind_mutable(env, pyname, coqterm, kind, only=False):
    if pyname in env or any(k.startswith(pyname + ".") for k in env if isinstance(k, str)):
        raise Untranslatable("name %s is already bound" % pyname)
    env = dict(env)
    muts = {} if only else dict(env.get("<mut>", {}))
    muts[pyname] = (kind, {p: "(%s %s)" % (p, coqterm) for p in CTORS[kind][1]})
    env["<mut>"] = muts
    return mut_refresh(env, pyname)


def set_attr(env, pyname, attr, term, ty):
    kind, fields = env["<mut>"][pyname]
    proj, fty = attr_proj(kind, attr)
    if ty != fty:
        raise Untranslatable("%s.%s assigned a value of type %s" % (pyname, attr, ty))
    fields = dict(fields)
    fields[proj] = term
    env = dict(env)
    env["<mut>"] = dict(env["<mut>"])
    env["<mut>"][pyname] = (kind, fields)
    return mut_refresh(env, pyname)


def attr_store(s, env):
    """(name, attr, value expression) if s is `m.attr = e` or `m.attr op= e` on a mutable name m, else None"""
    muts = env.get("<mut>", {})
    if isinstance(s, ast.Assign) and len(s.targets) == 1:
        t, value = s.targets[0], s.value
    elif isinstance(s, ast.AugAssign):
        t = s.target
        value = ast.BinOp(left=ast.Attribute(value=t.value, attr=t.attr, ctx=ast.Load()), op=s.op, right=s.value) \
            if isinstance(t, ast.Attribute) else None
    else:
        return None
    if isinstance(t, ast.Attribute) and isinstance(t.value, ast.Name):
        if t.value.id not in muts:
            raise Untranslatable("assignment to an attribute of %s, which is neither the loop variable nor the copy" % t.value.id)
        return t.value.id, t.attr, ast.fix_missing_locations(ast.copy_location(value, s))
    return None


def update_loop(s, env):
    """(mutable name, kind of the elements, projection) if s is `for x in m.coll:` over a record list of a mutable m"""
    it = s.iter
    if isinstance(it, ast.Attribute) and isinstance(it.value, ast.Name) and it.value.id in env.get("<mut>", {}):
        kind, fields = env["<mut>"][it.value.id]
        proj, ty = attr_proj(kind, it.attr)
        if not ty.startswith("list:") or s.orelse or not isinstance(s.target, ast.Name):
            raise Untranslatable("loop over %s" % ast.unparse(it))
        return it.value.id, ty[5:], proj
    return None


def tr_update_loop(s, env, ctx, k):
    """for x in m.coll: <updates of x, nested update loops over x.coll2>   with m a mutable name
       ->   new <- mapM (fun z => <x rebuilt, the raising operations bound in statement order>) <m.coll> ;; k(env with m.coll := new)
    Inside the body only x is mutable (an assignment to an attribute of m or of an outer loop variable is refused), m's
    scalar attributes are read at their value at loop entry (they cannot change inside), and x does not escape: it is
    bound in the body only."""
    m, ekind, proj = update_loop(s, env)
    kind, fields = env["<mut>"][m]
    z = fresh_var(env, ctx)
    benv = bind_mutable(env, s.target.id, z, ekind, only=True)
    body = tr_update_body(list(s.body), benv, ctx, s.target.id)
    new = fresh_var(env, ctx, "new")
    env2 = set_attr(env, m, s.iter.attr, new, "list:" + ekind)
    return "(%s <- mapM (fun %s => %s) %s ;; %s)" % (new, z, body, fields[proj], k(env2))


def tr_update_body(stmts, env, ctx, var):
    if not stmts:
        return "Ok " + mut_value(*env["<mut>"][var])
    s, rest = stmts[0], stmts[1:]
    if isinstance(s, ast.Pass) or (isinstance(s, ast.Expr) and isinstance(s.value, ast.Constant) and isinstance(s.value.value, str)):
        return tr_update_body(rest, env, ctx, var)
    st = attr_store(s, env)
    if st is not None:
        binds, term, ty, env2 = lift(st[2], env, ctx["counter"])
        return wrap(binds, tr_update_body(rest, set_attr(env2, st[0], st[1], term, ty), ctx, var))
    if isinstance(s, ast.For) and update_loop(s, env) is not None:
        return tr_update_loop(s, env, ctx, lambda env2: tr_update_body(rest, env2, ctx, var))
    if isinstance(s, ast.If) and not s.orelse and len(s.body) == 1 and isinstance(s.body[0], ast.Assign) and attr_store(s.body[0], env):
        # if c: x.attr = e      (no else)  is  x.attr = (e if c else x.attr); c and e raise nothing.  With c = `k in names`
        # e may read names[k]: the key is evaluated before the store, so it is the k of the test
        name, attr, value = attr_store(s.body[0], env)
        kind, fields = env["<mut>"][name]
        proj, fty = attr_proj(kind, attr)
        cb, _, cty, _ = lift(s.test, env, ctx["counter"])
        if cb or cty != "bool":
            raise Untranslatable("test of a conditional assignment")
        g = key_guard(s.test, env)
        if g is None:
            cterm = tr(s.test, env)[0]
            mk, env_then = (lambda t, e: "(if %s then %s else %s)" % (cterm, t, e)), env
        else:
            mk, env_then = g
        vb, vterm, vty, _ = lift(value, env_then, ctx["counter"])
        if vb:
            raise Untranslatable("raising operation in a conditional assignment")
        return tr_update_body(rest, set_attr(env, name, attr, mk(vterm, fields[proj]), vty), ctx, var)
    raise Untranslatable("statement in an update loop: " + ast.unparse(s)[:60])


# ---- locally defined functions, inlined at their call sites -------------------------------------------------------------
def inline_call(fn, call, env, ctx):
    """the body of a locally defined function with its parameters bound to the (non-raising) arguments of the call; free
    names are those of the enclosing function at the call"""
    a = fn.args
    if a.vararg or a.kwarg or a.posonlyargs or a.defaults or any(d is not None for d in a.kw_defaults) or fn.decorator_list:
        raise Untranslatable("signature of local function " + fn.name)
    if ctx.get("inline", 0) >= 2:
        raise Untranslatable("nested inlining")
    if any(isinstance(n, (ast.Nonlocal, ast.Global, ast.Yield, ast.YieldFrom, ast.Await)) for n in ast.walk(fn)):
        raise Untranslatable("local function " + fn.name)
    pos = [x.arg for x in a.args]
    if len(call.args) > len(pos) or any(isinstance(x, ast.Starred) for x in call.args) or any(k.arg is None for k in call.keywords):
        raise Untranslatable("call arguments of " + fn.name)
    vals = {}
    for name, x in list(zip(pos, call.args)) + [(k.arg, k.value) for k in call.keywords]:
        if name in vals or name not in pos + [x.arg for x in a.kwonlyargs]:
            raise Untranslatable("argument %s of %s" % (name, fn.name))
        binds, term, ty, _ = lift(x, env, ctx["counter"])
        if binds:
            raise Untranslatable("raising operation in the arguments of a call")
        vals[name] = (term, ty)
    if set(vals) != set(pos + [x.arg for x in a.kwonlyargs]):
        raise Untranslatable("missing argument of " + fn.name)
    fenv = dict(env)
    fenv["<mut>"] = {}                  # the body may not update the caller's copy
    for name, (term, ty) in vals.items():
        for k in [k for k in fenv if isinstance(k, str) and (k == name or k.startswith(name + "."))]:
            del fenv[k]
        if ty.startswith("rec:"):
            fenv = bind_record(fenv, name, term, ty[4:])
        else:
            fenv[name] = (term, ty)
    fctx = dict(ctx, types=set(), inline=ctx.get("inline", 0) + 1, inloop=0)
    term = tr_block(list(fn.body), fenv, fctx)
    if fctx["types"] - {"unit"}:
        raise Untranslatable("local function with a value, called as a statement")
    return term


def handler_reraises(stmts, cls, env):
    """every path through the handler ends in `raise cls(...)`; its tests are isinstance tests of names (cannot raise)"""
    if not stmts:
        return False
    s = stmts[0]
    if isinstance(s, ast.Raise):        # what follows a raise is dead
        exc = s.exc.func if isinstance(s.exc, ast.Call) else s.exc
        return isinstance(exc, ast.Name) and exc.id == cls and exc.id not in env
    if isinstance(s, ast.If):
        def plain(t):
            if isinstance(t, ast.BoolOp):
                return all(plain(v) for v in t.values)
            if isinstance(t, ast.UnaryOp) and isinstance(t.op, ast.Not):
                return plain(t.operand)
            return (isinstance(t, ast.Call) and isinstance(t.func, ast.Name) and t.func.id == "isinstance" and "isinstance" not in env
                    and len(t.args) == 2 and not t.keywords and all(isinstance(x, ast.Name) for x in t.args))
        return plain(s.test) and handler_reraises(list(s.body) + stmts[1:], cls, env) and handler_reraises(list(s.orelse) + stmts[1:], cls, env)
    return False


def tr_block(stmts, env, ctx):
    """statements -> Gallina term of type res <ctx['ret']>; falling off the end returns None (unit)"""
    if not stmts:
        ctx["types"].add("unit")
        return "Ok tt"
    s, rest = stmts[0], stmts[1:]
    if isinstance(s, ast.Expr) and isinstance(s.value, ast.Constant) and isinstance(s.value.value, str):
        return tr_block(rest, env, ctx)
    if isinstance(s, ast.Pass):
        return tr_block(rest, env, ctx)
    if isinstance(s, ast.Return):
        if ctx.get("inloop"):
            raise Untranslatable("return inside a loop body")
        if s.value is None:
            ctx["types"].add("unit")
            return "Ok tt"
        if isinstance(s.value, ast.Name) and s.value.id in env.get("<mut>", {}):
            kind, fields = env["<mut>"][s.value.id]         # return <the copy>: its value current at this statement
            ctx["types"].add("rec:" + kind)
            return "Ok " + mut_value(kind, fields)
        binds, term, ty, _ = lift(s.value, env, ctx["counter"])
        ctx["types"].add(ty)
        return wrap(binds, "Ok %s" % term)
    if isinstance(s, ast.Raise):
        exc = s.exc.func if isinstance(s.exc, ast.Call) else s.exc
        name = ast.unparse(exc) if exc is not None else "?"
        if name not in ERRS:
            raise Untranslatable("raise " + name)
        return "Err %s" % ERRS[name]
    if isinstance(s, ast.FunctionDef):
        # a locally defined function: inlined at its calls (inline_call); the name cannot be rebound afterwards
        if ctx.get("inloop") or s.name in env or any(isinstance(k, str) and k.startswith(s.name + ".") for k in env):
            raise Untranslatable("local function " + s.name)
        env2 = dict(env)
        env2[s.name] = (s, "localfun")
        return tr_block(rest, env2, ctx)
    if (isinstance(s, ast.Expr) and isinstance(s.value, ast.Call) and isinstance(s.value.func, ast.Name)
            and env.get(s.value.func.id, (None, None))[1] == "localfun"):
        return "(%s ;;; %s)" % (inline_call(env[s.value.func.id][0], s.value, env, ctx), tr_block(rest, env, ctx))
    if (isinstance(s, ast.Assign) and len(s.targets) == 1 and isinstance(s.targets[0], ast.Name) and isinstance(s.value, ast.Call)
            and ast.unparse(s.value.func) == "copy.deepcopy"):
        # g = copy.deepcopy(x), x a record that is not itself a copy being updated
        c = s.value
        if (ctx.get("inloop") or ctx.get("inline") or "copy" in env or len(c.args) != 1 or c.keywords or not isinstance(c.args[0], ast.Name)
                or c.args[0].id in env.get("<mut>", {}) or not deepcopy_ok(ctx.get("file", ""))):
            raise Untranslatable("deepcopy")
        term, ty = tr(c.args[0], env)
        if not ty.startswith("rec:") or ty[4:] not in CTORS:
            raise Untranslatable("deepcopy of " + ty)
        return tr_block(rest, bind_mutable(env, s.targets[0].id, term, ty[4:]), ctx)
    if (isinstance(s, (ast.Assign, ast.AnnAssign)) and isinstance(s.value, ast.Dict) and not s.value.keys
            and isinstance(s.targets[0] if isinstance(s, ast.Assign) and len(s.targets) == 1 else getattr(s, "target", None), ast.Name)):
        # d = {} / d: Dict[..] = {}: a local dict of lists, accumulated by the statements that follow (tr_dict_block)
        d = (s.targets[0] if isinstance(s, ast.Assign) else s.target).id
        if (ctx.get("inloop") or ctx.get("inline") or "<deps>" not in env or d in env or "<mut>" in env
                or any(isinstance(k, str) and (k.startswith(d + ".") or k.startswith(d + "[")) for k in env)):
            raise Untranslatable("dict accumulator " + d)
        env2 = dict(env)
        env2[d] = ("([] : ndict)", "ndict")
        return tr_dict_block(rest, env2, ctx, d, True)
    st = attr_store(s, env) if isinstance(s, (ast.Assign, ast.AugAssign)) else None
    if st is not None and isinstance(st[2], ast.DictComp):
        # g._deme_map = {d.name: d for d in g.demes}: the name index rebuilt from the demes' current value.  The model
        # keeps the POSITION of the deme in g_demes where the code keeps a reference to the Deme object (Model/MDM.v
        # g_index); a dict comprehension inserts key by key, a later equal key overwriting the earlier entry in place
        # (Model/Rename.v dict_set), which is build_index 0 <demes> [].
        dc, (kind, fields) = st[2], env["<mut>"][st[0]]
        proj, fty = attr_proj(kind, st[1])
        gen = dc.generators[0] if len(dc.generators) == 1 else None
        if (ctx.get("inloop") or isinstance(s, ast.AugAssign) or fty != "index" or gen is None or gen.ifs or gen.is_async
                or not isinstance(gen.target, ast.Name) or gen.target.id in env
                or any(isinstance(k, str) and k.startswith(gen.target.id + ".") for k in env)
                or not (isinstance(gen.iter, ast.Attribute) and isinstance(gen.iter.value, ast.Name) and gen.iter.value.id == st[0])
                or attr_proj(kind, gen.iter.attr) != ("g_demes", "list:deme")
                or ast.unparse(dc.key) != gen.target.id + ".name" or RECORDS["deme"]["name"][0] != "(d_name %s)"
                or not (isinstance(dc.value, ast.Name) and dc.value.id == gen.target.id)):
            raise Untranslatable("index assignment " + ast.unparse(s)[:60])
        return tr_block(rest, set_attr(env, st[0], st[1], "(build_index 0 %s [])" % fields["g_demes"], "index"), ctx)
    if st is not None:
        if ctx.get("inloop"):
            raise Untranslatable("assignment inside a loop body")
        binds, term, ty, env2 = lift(st[2], env, ctx["counter"])
        return wrap(binds, tr_block(rest, set_attr(env2, st[0], st[1], term, ty), ctx))
    if isinstance(s, ast.For) and update_loop(s, env) is not None:
        if ctx.get("inloop"):
            raise Untranslatable("update loop inside a loop body")
        stores = (ast.Assign, ast.AugAssign, ast.AnnAssign, ast.NamedExpr, ast.Delete, ast.With, ast.For, ast.While, ast.Import,
                  ast.ImportFrom, ast.FunctionDef, ast.ClassDef, ast.Global, ast.Nonlocal)
        if not any(isinstance(n, stores) for b in s.body for n in ast.walk(b)):
            # a loop over the copy's collection that stores nothing (checks only): forM_ over the collection's value
            # current at this statement; the loop variable is an ordinary (read-only) record inside the body
            m, ekind, proj = update_loop(s, env)
            return tr_for(s, rest, env, ctx, over=(env["<mut>"][m][1][proj], "list:" + ekind))
        return tr_update_loop(s, env, ctx, lambda env2: tr_block(rest, env2, ctx))
    if isinstance(s, ast.Assign) and len(s.targets) == 1 and isinstance(s.targets[0], ast.Name):
        if ctx.get("inloop"):
            raise Untranslatable("assignment inside a loop body")
        if s.targets[0].id in env.get("<mut>", {}) or env.get(s.targets[0].id, (None, None))[1] == "localfun":
            raise Untranslatable("rebinding of " + s.targets[0].id)
        binds, term, ty, env2 = lift(s.value, env, ctx["counter"])
        env2 = dict(env2)
        if ty.startswith("rec:"):
            env2 = bind_record(env2, s.targets[0].id, term, ty[4:])
        else:
            env2[s.targets[0].id] = (term, ty)
        return wrap(binds, tr_block(rest, env2, ctx))
    if isinstance(s, ast.Assert):
        binds, term, ty, _ = lift(s.test, env, ctx["counter"])
        if binds or ty != "bool":
            raise Untranslatable("assert on a non-boolean or raising expression")
        return "(if %s then %s else Err AssertErr)" % (term, tr_block(rest, env, ctx))
    if isinstance(s, ast.If):
        binds, term, ty, _ = lift(s.test, env, ctx["counter"])
        if binds or ty != "bool":
            raise Untranslatable("if on a non-boolean or raising expression")
        return "(if %s then %s else %s)" % (term, tr_block(list(s.body) + rest, env, ctx), tr_block(list(s.orelse) + rest, env, ctx))
    if (isinstance(s, ast.For) and isinstance(s.target, ast.Name) and len(s.body) == 1 and isinstance(s.body[0], ast.If)
            and len(s.body[0].body) == 1 and isinstance(s.body[0].body[0], ast.Break) and not s.body[0].orelse
            and s.orelse and isinstance(s.orelse[-1], (ast.Return, ast.Raise))):
        binds, term, ty, env1 = lift(s.iter, env, ctx["counter"])
        if not ty.startswith("list:"):
            raise Untranslatable("loop over " + ty)
        v = s.target.id
        env2 = bind_record(env1, v, v, ty[5:])
        cb, cterm, cty, _ = lift(s.body[0].test, env2, ctx["counter"])
        if cb or cty != "bool":
            raise Untranslatable("loop test")
        return wrap(binds, "match find (fun %s => %s) %s with None => %s | Some %s => %s end"
                    % (v, cterm, term, tr_block(list(s.orelse), env1, ctx), v, tr_block(rest, env2, ctx)))
    if (isinstance(s, ast.Try) and len(s.handlers) == 1 and not s.orelse and not s.finalbody
            and isinstance(s.handlers[0].type, ast.Name) and s.handlers[0].type.id in ERRS
            ):
        # try: S  except E [as e]: raise E(...) [from e]   re-raises the same class on every path through the handler
        # (which may branch on isinstance tests of names): it is S (errors are classes here)
        if handler_reraises(list(s.handlers[0].body), s.handlers[0].type.id, env):
            return tr_block(list(s.body) + rest, env, ctx)
        raise Untranslatable("try statement with a handler that changes the exception")
    if (isinstance(s, ast.Expr) and isinstance(s.value, ast.Call) and isinstance(s.value.func, ast.Name)
            and s.value.func.id in FUN_CALLS and FUN_CALLS[s.value.func.id]["ty"] == "unit" and s.value.func.id not in env):
        # validator(None, None, v) as a statement, the validator a tied function site: its model counterpart (res unit)
        spec = FUN_CALLS[s.value.func.id]
        if "<deps>" not in env:
            raise Untranslatable("call of %s outside a function site" % s.value.func.id)
        for x in list(s.value.args) + [k.value for k in s.value.keywords]:
            if not (isinstance(x, ast.Constant) and x.value is None) and lift(x, env, ctx["counter"])[0]:
                raise Untranslatable("raising operation in the arguments of a call")
        term = call_args(spec, s.value, env)
        env["<deps>"].add(spec["site"])
        return "(%s ;;; %s)" % (term, tr_block(rest, env, ctx))
    if isinstance(s, ast.Expr) and isinstance(s.value, ast.Call) and isinstance(s.value.func, ast.Attribute):
        # x.assert_close(y, ...) where the method is a tied function site
        call = s.value
        for x in [call.func.value] + list(call.args) + [k.value for k in call.keywords]:
            if lift(x, env, ctx["counter"])[0]:
                raise Untranslatable("raising operation in the arguments of a call")
        recv = tr(call.func.value, env)
        spec = METHOD_CALLS.get((recv[1], call.func.attr))
        if spec is None or "<deps>" not in env:
            raise Untranslatable("call statement " + ast.unparse(s)[:60])
        cond = call_args(spec, call, env, recv=recv)
        env["<deps>"].add(spec["site"])
        return "(if %s then %s else Err AssertErr)" % (cond, tr_block(rest, env, ctx))
    if isinstance(s, ast.For) and not s.orelse:
        return tr_for(s, rest, env, ctx)
    raise Untranslatable("statement " + type(s).__name__ + ": " + ast.unparse(s)[:60])


# ---- accumulation into a local dict of lists ---------------------------------------------------------------------------
# After `d = {}` (d: Dict[str, List[str]]) the rest of the function may only be, at any depth of `for` loops over
# list-typed attributes / parameters:  `d.setdefault(k, [])` as a statement (the model's `setdefault k d`; the default is
# a fresh list at every call, so no two keys share a list),  `d[k].append(x)` (dict_append k x d of Proofs/FunSites.v: KeyError
# when k is absent, else the model's append_to),  `if x.attr is not None:` without else where the model types the
# attribute as a plain list (NEVER_NONE),  and at top level `return d`.  k and x are non-raising string expressions that
# do not read d.  d is the state: each loop is a left fold in the error monad (foldM) threading it, the loop body ends
# in `Ok <current d>`.  d can be neither read, aliased, passed nor rebound (its type "ndict" is accepted nowhere in tr).
# TRUSTED TYPING (like TYPE_TESTS): attributes that the classes declare Optional-free lists and the model types as lists;
# `x.attr is not None` on them is `true` (the else-less branch for None has no counterpart in the model).
NEVER_NONE = {("rec:deme", "ancestors")}


def tr_dict_block(stmts, env, ctx, d, top):
    cur = env[d][0]

    def with_state(e, term):
        e = dict(e)
        e[d] = (term, "ndict")
        return e

    def pure_str(e):
        binds, term, ty, _ = lift(e, env, ctx["counter"])
        if binds or ty != "str":
            raise Untranslatable("dict key / element %s (of type %s, or raising)" % (ast.unparse(e)[:40], ty))
        return term
    if not stmts:
        if top:
            raise Untranslatable("a function with a dict accumulator must end in `return %s`" % d)
        return "Ok %s" % cur
    s, rest = stmts[0], stmts[1:]
    if isinstance(s, ast.Return):
        if not top or rest or not (isinstance(s.value, ast.Name) and s.value.id == d):
            raise Untranslatable("return other than a final `return %s`" % d)
        ctx["types"].add("ndict")
        return "Ok %s" % cur
    call = s.value if isinstance(s, ast.Expr) and isinstance(s.value, ast.Call) and isinstance(s.value.func, ast.Attribute) else None
    if (call is not None and call.func.attr == "setdefault" and isinstance(call.func.value, ast.Name) and call.func.value.id == d
            and len(call.args) == 2 and not call.keywords and isinstance(call.args[1], ast.List) and not call.args[1].elts):
        return tr_dict_block(rest, with_state(env, "(setdefault %s %s)" % (pure_str(call.args[0]), cur)), ctx, d, top)
    if (call is not None and call.func.attr == "append" and isinstance(call.func.value, ast.Subscript)
            and isinstance(call.func.value.value, ast.Name) and call.func.value.value.id == d
            and len(call.args) == 1 and not call.keywords and not isinstance(call.args[0], ast.Starred)):
        k, x = pure_str(call.func.value.slice), pure_str(call.args[0])
        v = fresh_var(env, ctx, "dct")
        return "(%s <- dict_append %s %s %s ;; %s)" % (v, k, x, cur, tr_dict_block(rest, with_state(env, v), ctx, d, top))
    if isinstance(s, ast.If) and not s.orelse:
        t = s.test
        if not (isinstance(t, ast.Compare) and len(t.ops) == 1 and isinstance(t.ops[0], ast.IsNot)
                and isinstance(t.comparators[0], ast.Constant) and t.comparators[0].value is None
                and isinstance(t.left, ast.Attribute) and isinstance(t.left.value, ast.Name)
                and (env.get(t.left.value.id, (None, None))[1], t.left.attr) in NEVER_NONE
                and ast.unparse(t.left) in env and elem_type(env[ast.unparse(t.left)][1])):
            raise Untranslatable("test %s in a dict accumulation" % ast.unparse(t)[:60])
        # `x.attr is not None`, the attribute a plain list in the model (NEVER_NONE): true
        return "(if true then %s else %s)" % (tr_dict_block(list(s.body) + rest, env, ctx, d, top), tr_dict_block(rest, env, ctx, d, top))
    if isinstance(s, ast.For) and not s.orelse and isinstance(s.target, ast.Name) and isinstance(s.iter, ast.Attribute):
        binds, lterm, lty, _ = lift(s.iter, env, ctx["counter"])
        if binds or elem_type(lty) is None:
            raise Untranslatable("loop over %s in a dict accumulation" % ast.unparse(s.iter)[:60])
        sv, x, r = fresh_var(env, ctx, "dct"), fresh_var(env, ctx), fresh_var(env, ctx, "dct")
        env2 = with_state(bind_target(s.target, elem_type(lty), x, env), sv)
        body = tr_dict_block(list(s.body), env2, ctx, d, False)
        # the loop variable stays unbound after the loop (a later use of it is untranslatable)
        return "(%s <- foldM (fun %s %s => %s) %s %s ;; %s)" % (r, sv, x, body, lterm, cur, tr_dict_block(rest, with_state(env, r), ctx, d, top))
    raise Untranslatable("statement in a dict accumulation: " + ast.unparse(s)[:60])


def fresh_var(env, ctx, hint="z"):
    ctx["counter"][0] += 1
    v = "%s_%d" % (hint, ctx["counter"][0])
    if v in env:
        raise Untranslatable("name clash " + v)
    return v


def tr_for(s, rest, env, ctx, over=None):
    """for <target> in xs / zip(xs, ys) / enumerate(...):  a loop whose body neither returns, assigns, breaks nor
    continues is forM_ / forM2_ of the body; the search loop `if c: return False` followed by `return True` is
    forallb / forall2b of the negated test"""
    it, target = s.iter, s.target
    if over is not None and not (isinstance(it, ast.Attribute) and isinstance(target, ast.Name)):
        raise Untranslatable("loop over " + ast.unparse(it)[:60])
    if (isinstance(it, ast.Call) and ast.unparse(it.func) == "enumerate" and "enumerate" not in env and len(it.args) == 1
            and not it.keywords):
        # the index may only be used where nothing is translated (messages): it stays unbound
        if not (isinstance(target, ast.Tuple) and len(target.elts) == 2 and isinstance(target.elts[0], ast.Name)
                and target.elts[0].id not in env):
            raise Untranslatable("enumerate target")
        it, target = it.args[0], target.elts[1]
    binds = []
    if isinstance(it, ast.Call) and ast.unparse(it.func) == "zip" and "zip" not in env and len(it.args) == 2 and not it.keywords:
        if not (isinstance(target, ast.Tuple) and len(target.elts) == 2):
            raise Untranslatable("target of a loop over zip")
        b1, ta, tya, env1 = lift(it.args[0], env, ctx["counter"])
        b2, tb, tyb, env1 = lift(it.args[1], env1, ctx["counter"])
        binds = b1 + b2
        x, y = fresh_var(env1, ctx), fresh_var(env1, ctx)
        env2 = bind_target(target.elts[0], elem_type(tya), x, env1)
        env2 = bind_target(target.elts[1], elem_type(tyb), y, env2)
        lam, lists, allf, loopf = "fun %s %s" % (x, y), "%s %s" % (ta, tb), "forall2b", "forM2_"
    else:
        binds, ta, tya, env1 = ([], over[0], over[1], env) if over is not None else lift(it, env, ctx["counter"])
        x = fresh_var(env1, ctx)
        env2 = bind_target(target, elem_type(tya), x, env1)
        lam, lists, allf, loopf = "fun %s" % x, ta, "forallb", "forM_"
    body = list(s.body)

    def const_bool(st, v):
        return isinstance(st, ast.Return) and isinstance(st.value, ast.Constant) and st.value.value is v
    if (len(body) == 1 and isinstance(body[0], ast.If) and not body[0].orelse and len(body[0].body) == 1
            and const_bool(body[0].body[0], False)):
        if not (len(rest) == 1 and const_bool(rest[0], True)) or ctx.get("inloop"):
            raise Untranslatable("search loop not followed by `return True`")
        cb, cterm, cty, _ = lift(body[0].test, env2, ctx["counter"])
        if cb or cty != "bool":
            raise Untranslatable("loop test")
        ctx["types"].add("bool")
        return wrap(binds, "Ok (%s (%s => negb %s) %s)" % (allf, lam, cterm, lists))
    bctx = dict(ctx, types=set(), inloop=ctx.get("inloop", 0) + 1)
    bterm = tr_block(body, env2, bctx)
    if bctx["types"] - {"unit"}:
        raise Untranslatable("loop body with a value")
    return wrap(binds, "(%s (%s => %s) %s ;;; %s)" % (loopf, lam, bterm, lists, tr_block(rest, env1, ctx)))


TOL = {"rel_tol": ("rel", N), "abs_tol": ("abs", N)}
FUN_SITES = [
    # (id, file, function, bindings of the parameters, binders, Coq result type, statement tying f_<id> to the model,
    #  definitions of the model to unfold, properties)
    ("Deme_size_at", "demes/demes.py", "Deme.size_at", [("self", "rec:deme"), ("time", N)], "(self : deme) (time : num)", "num",
     "forall self time, f_Deme_size_at self time = size_at self time", "size_at size_in_epoch epoch_owns clamp_size", ["C13"]),
    ("Deme_end_time", "demes/demes.py", "Deme.end_time", [("self", "rec:deme")], "(self : deme)", "num",
     "forall self, f_Deme_end_time self = d_end self", "d_end plast", ["C01", "C03", "C13"]),
    ("Epoch_time_span", "demes/demes.py", "Epoch.time_span", [("self", "rec:epoch")], "(self : epoch)", "num",
     "forall self, f_Epoch_time_span self = Ok (m_time_span (e_start self) (e_end self))", "m_time_span", ["C13", "C07"]),
    ("to_ms_get_growth_rate", "demes/ms.py", "to_ms.get_growth_rate", [("epoch", "rec:epoch"), ("N0", N)], "(N0 : num) (epoch : epoch)",
     "num", "forall N0 epoch, f_to_ms_get_growth_rate N0 epoch = growth_rate (nmul n4 N0) epoch", "growth_rate nneg raise_if", ["C07"]),
    ("Epoch_assert_close", "demes/demes.py", "Epoch.assert_close",
     [("self", "rec:epoch"), ("other", "rec:epoch"), ("rel_tol", N), ("abs_tol", N)],
     "(self other : epoch) (rel_tol abs_tol : num)", "unit",
     "forall self other rel_tol abs_tol, is_ok (f_Epoch_assert_close self other rel_tol abs_tol) = close_epoch rel_tol abs_tol self other",
     "close_epoch is_ok", ["C10"]),
    ("AsymmetricMigration_assert_close", "demes/demes.py", "AsymmetricMigration.assert_close",
     [("self", "rec:mig"), ("other", "rec:mig"), ("rel_tol", N), ("abs_tol", N)],
     "(self other : mig) (rel_tol abs_tol : num)", "unit",
     "forall self other rel_tol abs_tol, is_ok (f_AsymmetricMigration_assert_close self other rel_tol abs_tol) = "
     "close_mig rel_tol abs_tol self other", "close_mig is_ok", ["C10"]),
    ("v_positive", "demes/demes.py", "positive", [("self", "skip"), ("attribute", "skip"), ("value", N)], "(value : num)", "unit",
     "forall value, f_v_positive value = positive value", "positive raise_if", ["C01", "C03"]),
    ("v_non_negative", "demes/demes.py", "non_negative", [("self", "skip"), ("attribute", "skip"), ("value", N)], "(value : num)", "unit",
     "forall value, f_v_non_negative value = non_negative value", "non_negative raise_if", ["C01", "C03"]),
    ("v_finite", "demes/demes.py", "finite", [("self", "skip"), ("attribute", "skip"), ("value", N)], "(value : num)", "unit",
     "forall value, f_v_finite value = finite value", "finite raise_if", ["C01", "C03"]),
    ("v_unit_interval", "demes/demes.py", "unit_interval", [("self", "skip"), ("attribute", "skip"), ("value", N)], "(value : num)", "unit",
     "forall value, f_v_unit_interval value = unit_interval value", "unit_interval raise_if", ["C01", "C03"]),
    ("v_unit_interval_lo", "demes/demes.py", "unit_interval_exclusive_lo", [("self", "skip"), ("attribute", "skip"), ("value", N)],
     "(value : num)", "unit", "forall value, f_v_unit_interval_lo value = unit_interval_lo value", "unit_interval_lo raise_if",
     ["C01", "C03"]),
    ("isclose_deme_proportions", "demes/demes.py", "isclose_deme_proportions",
     [("a_names", "strs"), ("a_proportions", "nums"), ("b_names", "strs"), ("b_proportions", "nums"), ("rel_tol", N), ("abs_tol", N)],
     "(a_names : list string) (a_proportions : list num) (b_names : list string) (b_proportions : list num) (rel_tol abs_tol : num)",
     "bool",
     "forall a_names a_proportions b_names b_proportions rel_tol abs_tol, "
     "f_isclose_deme_proportions a_names a_proportions b_names b_proportions rel_tol abs_tol = "
     "Ok (close_props a_names a_proportions b_names b_proportions rel_tol abs_tol)", "close_props", ["C10"]),
    ("Deme_assert_close", "demes/demes.py", "Deme.assert_close",
     [("self", "rec:deme"), ("other", "rec:deme"), ("rel_tol", N), ("abs_tol", N)],
     "(self other : deme) (rel_tol abs_tol : num)", "unit",
     "forall self other rel_tol abs_tol, is_ok (f_Deme_assert_close self other rel_tol abs_tol) = close_deme rel_tol abs_tol self other",
     "close_deme is_ok", ["C10"]),
    ("Pulse_assert_close", "demes/demes.py", "Pulse.assert_close",
     [("self", "rec:pulse"), ("other", "rec:pulse"), ("rel_tol", N), ("abs_tol", N)],
     "(self other : pulse) (rel_tol abs_tol : num)", "unit",
     "forall self other rel_tol abs_tol, is_ok (f_Pulse_assert_close self other rel_tol abs_tol) = close_pulse rel_tol abs_tol self other",
     "close_pulse mem_str is_ok", ["C10"]),
    ("Pulse_post_init", "demes/demes.py", "Pulse.__attrs_post_init__", [("self", "rec:pulse")], "(self : pulse)", "unit",
     "forall self, f_Pulse_post_init self = pulse_post_init self", "pulse_post_init raise_if", ["C01", "C03"]),
    ("Epoch_post_init", "demes/demes.py", "Epoch.__attrs_post_init__", [("self", "rec:epoch")], "(self : epoch)", "unit",
     "forall self, f_Epoch_post_init self = epoch_post_init self", "epoch_post_init raise_if", ["C01", "C03"]),
    ("AsymmetricMigration_post_init", "demes/demes.py", "AsymmetricMigration.__attrs_post_init__", [("self", "rec:mig")], "(self : mig)",
     "unit", "forall self, f_AsymmetricMigration_post_init self = mig_post_init self", "mig_post_init raise_if", ["C01", "C03"]),
    ("Graph_assert_close", "demes/demes.py", "Graph.assert_close",
     [("self", "rec:graph"), ("other", "rec:graph"), ("rel_tol", N), ("abs_tol", N)],
     "(self other : graph) (rel_tol abs_tol : num)", "unit",
     "forall self other rel_tol abs_tol, is_ok (f_Graph_assert_close self other rel_tol abs_tol) = close_graph rel_tol abs_tol self other",
     "close_graph is_ok", ["C10"]),
    ("Graph_in_generations", "demes/demes.py", "Graph.in_generations", [("self", "rec:graph")], "(self : graph)", "graph",
     "forall self, f_Graph_in_generations self = in_generations self",
     "in_generations deme_ingen epoch_ingen mig_ingen pulse_ingen", ["C11"]),
    ("v_valid_deme_name", "demes/demes.py", "valid_deme_name", [("self", "skip"), ("attribute", "skip"), ("value", "str")],
     "(value : string)", "unit", "forall value, f_v_valid_deme_name value = valid_deme_name value", "valid_deme_name raise_if",
     ["C01", "C15"]),
    # names : Mapping[str, str] is the model's namemap, an association list standing for the dict's items in insertion
    # order (a dict has unique keys, so that assoc returns the first binding of a key never matters)
    ("Graph_rename_demes", "demes/demes.py", "Graph.rename_demes", [("self", "rec:graph"), ("names", "namemap")],
     "(self : graph) (names : namemap)", "graph", "forall names self, f_Graph_rename_demes self names = rename_demes names self",
     "rename_demes rename_core deme_rename mig_rename pulse_rename rn valid_deme_name raise_if", ["C15"]),
    # the result is the model's ndict: the dict's items in insertion order (unique keys)
    ("Graph_successors", "demes/demes.py", "Graph.successors", [("self", "rec:graph")], "(self : graph)", "ndict",
     "forall self, f_Graph_successors self = Ok (successors self)", "successors", ["C14"]),
    ("Graph_predecessors", "demes/demes.py", "Graph.predecessors", [("self", "rec:graph")], "(self : graph)", "ndict",
     "forall self, f_Graph_predecessors self = Ok (predecessors self)", "predecessors", ["C14"]),
]
# the tactic that proves a function site's tie, where it is not plain ftie
FUN_TACTIC = {"f_Graph_rename_demes": "ftie_upd", "f_Graph_successors": "ftie_dict", "f_Graph_predecessors": "ftie_dict"}


def generate_funs():
    cache, defs, ties, report = {}, [], [], []
    for sid, path, qual, params, binders, rty, stmt, unfold, props in FUN_SITES:
        if path not in cache:
            cache[path] = load(path)
        fn = cache[path].get(qual)
        status, term = "ok", None
        if fn is None:
            status = "function %s not found" % qual
        else:
            env = {"<deps>": set(), "<file>": path}
            _TRN[0] = 0
            for name, ty in params:
                if ty == "skip":        # a parameter the body may not use (attrs passes self and the attribute to validators)
                    env["__skip__" + name] = ("tt", "other")
                    continue
                if ty.startswith("rec:"):
                    env = bind_record(env, name, name, ty[4:])
                else:
                    env[name] = (name, ty)
            # the declared parameters must be the function's own (closure variables such as N0 excepted)
            own = [a.arg for a in fn.args.args + fn.args.kwonlyargs]
            missing = [a for a in own if a not in env and "__skip__" + a not in env]
            if missing:
                status = "untranslatable: parameter(s) %s have no model counterpart" % missing
            else:
                ctx = dict(types=set(), counter=[0], file=path)
                try:
                    term = tr_block(list(fn.body), env, ctx)
                    tys = set(t[4:] if t.startswith("rec:") else t for t in ctx["types"])
                    if tys != {rty}:
                        status = "untranslatable: returns %s, the model returns %s" % (sorted(tys), rty)
                except Untranslatable as e:
                    status = "untranslatable: %s" % e
        report.append(dict(site="f_" + sid, file=path, function=qual, index=None, status=status, props=props,
                           source=(term or "")[:600], deps=(sorted(env["<deps>"]) if fn is not None else [])))
        if status != "ok":
            continue
        defs.append("  (* %s  %s: the whole function body *)\n  Definition f_%s %s : res %s :=\n    %s.\n" % (path, qual, sid, binders, rty, term))
        ties.append(("f_" + sid, stmt, unfold))
    return defs, ties, report


FUN_HEADER = """(* GENERATED by xlate/pyxlate.py from the current source of /repo on every run. Do not edit.
   Whole function bodies of the implementation, translated statement by statement. *)
From Coq Require Import Bool List String Arith.
From Demes Require Import Base.Num Base.Py Model.MDM Model.Resolve Model.SizeAt Model.ToMs Model.Close Model.InGen Model.Rename Model.Ancestry Spec.Valid Proofs.ArithSites Proofs.FunSites.
Import ListNotations.
Local Open Scope string_scope.
Local Open Scope list_scope.
"""
FUNTIE_HEADER = FUN_HEADER + """From Demes Require Import Gen.SrcFuns.

(* [ftie]: the translated body equals the model's function: by conversion when both are spelt alike, else by case
   analysis on the atomic tests, the search result, the list head and the partial arithmetic operations. *)
Ltac ftie_go := fail.
Ltac ftie_step :=
  match goal with
  (* a loop of one assertion is the assertion of forallb / forall2b (Proofs/FunSites.v) *)
  | |- context [forM_ (fun x => if @?c x then Ok tt else Err AssertErr) ?l] =>
      let H := fresh in pose proof (forM_assert c l) as H; cbv beta in H; rewrite H; clear H
  | |- context [forM2_ (fun x y => if @?c x y then Ok tt else Err AssertErr) ?a ?b] =>
      let H := fresh in pose proof (forM2_assert c a b) as H; cbv beta in H; rewrite H; clear H
  (* two loops over the same lists whose bodies are spelt differently: equal if the bodies are, pointwise *)
  | |- context [forall2b ?f ?a ?b] =>
      match goal with |- context [forall2b ?g a b] =>
        tryif constr_eq f g then fail else
          replace (forall2b f a b) with (forall2b g a b) by (apply forall2b_ext; intros; ftie_go) end
  | |- context [forallb ?f ?l] =>
      match goal with |- context [forallb ?g l] =>
        tryif constr_eq f g then fail else
          replace (forallb f l) with (forallb g l) by (apply forallb_ext_all; intros; ftie_go) end
  | |- context [forM_ ?f ?l] =>
      match goal with |- context [forM_ ?g l] =>
        tryif constr_eq f g then fail else
          replace (forM_ f l) with (forM_ g l) by (apply forM_ext_all; intros; ftie_go) end
  | |- context [forM2_ ?f ?a ?b] =>
      match goal with |- context [forM2_ ?g a b] =>
        tryif constr_eq f g then fail else
          replace (forM2_ f a b) with (forM2_ g a b) by (apply forM2_ext_all; intros; ftie_go) end
  (* a == b spelt b == a *)
  | |- context [String.eqb ?a ?b] =>
      match goal with |- context [String.eqb b a] => tryif constr_eq a b then fail else rewrite (String.eqb_sym a b) end
  | |- context [Nat.eqb ?a ?b] =>
      match goal with |- context [Nat.eqb b a] => tryif constr_eq a b then fail else rewrite (Nat.eqb_sym a b) end
  | |- context [phead ?l] => is_var l; destruct l
  | |- context [phead (?f ?l)] => let x := fresh in destruct (f l) eqn:x
  | |- context [phead (rev ?l)] => let x := fresh in destruct (rev l) eqn:x
  | |- context [find ?f ?l] => let x := fresh in destruct (find f l) eqn:x
  | |- context [nisinf ?a] => let x := fresh in destruct (nisinf a) eqn:x
  | |- context [nlt ?a ?b] => let x := fresh in destruct (nlt a b) eqn:x
  | |- context [nle ?a ?b] => let x := fresh in destruct (nle a b) eqn:x
  | |- context [neqb ?a ?b] => let x := fresh in destruct (neqb a b) eqn:x
  | |- context [isclose0 ?a ?b] => let x := fresh in destruct (isclose0 a b) eqn:x
  | |- context [isclose ?a ?b ?c ?d] => let x := fresh in destruct (isclose a b c d) eqn:x
  | |- context [String.eqb ?a ?b] => let x := fresh in destruct (String.eqb a b) eqn:x
  | |- context [Nat.eqb ?a ?b] => let x := fresh in destruct (Nat.eqb a b) eqn:x
  | |- context [pdiv ?a ?b] => let x := fresh in destruct (pdiv a b) eqn:x
  | |- context [plog ?a] => let x := fresh in destruct (plog a) eqn:x
  | |- context [pexp ?a] => let x := fresh in destruct (pexp a) eqn:x
  | |- context [close_props ?a ?b ?c ?d ?e ?f] => let x := fresh in destruct (close_props a b c d e f) eqn:x
  | |- context [existsb ?f ?l] => let x := fresh in destruct (existsb f l) eqn:x
  | |- context [forallb ?f ?l] => let x := fresh in destruct (forallb f l) eqn:x
  | |- context [forall2b ?f ?a ?b] => let x := fresh in destruct (forall2b f a b) eqn:x
  | |- context [forM_ ?f ?l] => let x := fresh in destruct (forM_ f l) eqn:x
  | |- context [forM2_ ?f ?a ?b] => let x := fresh in destruct (forM2_ f a b) eqn:x
  | |- context [is_identifier ?a] => let x := fresh in destruct (is_identifier a) eqn:x
  (* divisions inside the body of a mapM (update loops), bound in another order than the model's: case on the divisor
     (closed, so the case split reaches under the binders), and when it is zero on the lists the failing loops run over *)
  | |- context [mapM (fun _ => Err ?e) ?l] => let x := fresh in destruct l eqn:x
  | |- context [mapM ?f ?l] => progress unfold pdiv
  end; cbn [bind phead is_ok negb andb orb mapM].
(* reflexivity is tried before every case split, so the number of cases is that of the paths through the body *)
Ltac ftie_go ::= first [ reflexivity | ftie_step; ftie_go ].
Ltac ftie := intros; first [ reflexivity
                            | unfold ngt, nge, nneq, mem; cbv zeta; cbn [existsb bind phead is_ok]; timeout 120 ftie_go ].
(* [ftie_upd]: update loops that raise nothing are maps (mapM_pure); the collections the later statements run over are
   then brought to one spelling (by conversion only), and the rest is ftie *)
Ltac ftie_upd :=
  intros; cbv zeta;
  repeat match goal with
  | |- context [mapM (fun x => Ok (@?f x)) ?l] =>
      let H := fresh in pose proof (mapM_pure f l) as H; cbv beta in H; rewrite H; clear H
  end;
  cbn [bind negb g_demes g_migs g_pulses g_index];
  repeat match goal with
  | |- context [map ?f ?l] =>
      match goal with |- context [map ?g l] => tryif constr_eq f g then fail else change (map f l) with (map g l) end
  end;
  ftie.
(* [ftie_dict]: accumulation into a dict of lists.  A loop threading the dict in the error monad (foldM) whose body raises
   nothing is the model's left fold (foldM_pure); `d[k].append(x)` raises nothing where k was set by a preceding setdefault
   (dict_append_ok; the key stays present through later setdefaults and appends), if need be as an invariant of the
   inner loop (foldM_inv) when the setdefault precedes the loop *)
Ltac fdict_key :=
  cbv beta in *;
  first [ assumption | apply mem_key_setdefault | apply mem_key_setdefault_mono; fdict_key | apply mem_key_append_to; fdict_key ].
Ltac fdict_body :=
  cbv beta iota; rewrite ?bind_ret;
  lazymatch goal with
  | |- foldM _ _ _ = Ok (fold_left _ _ _) =>
      first [ apply foldM_pure; intros; fdict_body
            | match goal with
              | |- foldM _ _ (setdefault ?k _) = _ =>
                  apply (foldM_inv (fun s => mem_key k s = true)); [ intros ? ? ?; split; [ fdict_body | fdict_key ] | fdict_key ]
              end ]
  | |- dict_append _ _ _ = Ok _ => apply dict_append_ok; fdict_key
  | |- bind (dict_append ?k ?x ?d) _ = _ => rewrite (dict_append_ok k x d) by fdict_key; cbn [bind]; fdict_body
  | |- _ => reflexivity
  end.
Ltac ftie_dict := intros; timeout 60 fdict_body.
"""


def funs_gen(outdir, coqc, report, byid):
    fdefs, fties, freport = generate_funs()
    report += freport
    for r in freport:
        byid[r["site"]] = r
    with open(os.path.join(outdir, "SrcFuns.v"), "w") as f:
        f.write(FUN_HEADER + "\nSection SrcFuns.\n  Context {N : NumOps}.\n\n" + "\n".join(fdefs) + "End SrcFuns.\n")
    r = coqc("SrcFuns.v")
    if r.returncode != 0:
        # find the definitions that do not type-check one by one, so that one bad function does not hide the others
        good = []
        for d, (sid, stmt, unfold) in zip(fdefs, fties):
            with open(os.path.join(outdir, "SrcFuns.v"), "w") as f:
                f.write(FUN_HEADER + "\nSection SrcFuns.\n  Context {N : NumOps}.\n\n" + "\n".join(good + [d]) + "End SrcFuns.\n")
            r1 = coqc("SrcFuns.v")
            if r1.returncode == 0:
                good.append(d)
            else:
                byid[sid]["status"] = "tie broken: the translated body does not type-check against the model's types: " + \
                    (r1.stdout + r1.stderr).strip()[-200:]
        with open(os.path.join(outdir, "SrcFuns.v"), "w") as f:
            f.write(FUN_HEADER + "\nSection SrcFuns.\n  Context {N : NumOps}.\n\n" + "\n".join(good) + "End SrcFuns.\n")
        coqc("SrcFuns.v")
        fties = [t for t in fties if byid[t[0]]["status"] == "ok"]
    with open(os.path.join(outdir, "FunProbe.v"), "w") as f:
        f.write(FUNTIE_HEADER + "\nSection FunProbe.\n  Context {N : NumOps}.\n")
        for sid, stmt, unfold in fties:
            f.write('  Goal %s.\n  Proof. tryif solve [unfold %s, %s; %s] then idtac "TIE-OK %s" else idtac "TIE-BROKEN %s". Abort.\n'
                    % (stmt, sid, ", ".join(unfold.split()), FUN_TACTIC.get(sid, "ftie"), sid, sid))
        # the "exact" lemmas that justify calls of a tied method from other function sites
        for sid, stmt, unfold in fties:
            if sid[2:] in EXACT:
                f.write('  Goal %s.\n  Proof. tryif solve [unfold %s, %s; ftie] then idtac "TIE-OK call_%s" else idtac "TIE-BROKEN call_%s". Abort.\n'
                        % (EXACT[sid[2:]], sid, ", ".join(unfold.split()), sid[2:], sid[2:]))
        f.write("End FunProbe.\n")
    r = coqc("FunProbe.v")
    out = (r.stdout + r.stderr).split()
    okset = set(out[i + 1] for i, w in enumerate(out[:-1]) if w == "TIE-OK")
    for sid, stmt, unfold in fties:
        if sid not in okset:
            byid[sid]["status"] = "tie broken: the function body translated from the source is not the model's function"
    # a site that calls another function site stands only if the callee's own tie (and its exact lemma) holds in this run
    changed = True
    while changed:
        changed = False
        for x in freport:
            if x["status"] != "ok":
                continue
            for dep in x.get("deps", []):
                if not (byid.get("f_" + dep, {}).get("status") == "ok" and (dep not in EXACT or "call_" + dep in okset)):
                    x["status"] = "tie broken: calls %s, whose own whole-function tie does not hold in this run" % dep
                    changed = True
                    break
    with open(os.path.join(outdir, "FunTie.v"), "w") as f:
        f.write(FUNTIE_HEADER + "\nSection FunTie.\n  Context {N : NumOps}.\n\n")
        for sid, stmt, unfold in fties:
            if byid[sid]["status"] == "ok":
                f.write("  Lemma tie_%s : %s.\n  Proof. unfold %s, %s; %s. Qed.\n\n"
                        % (sid, stmt, sid, ", ".join(unfold.split()), FUN_TACTIC.get(sid, "ftie")))
                if sid[2:] in EXACT and "call_" + sid[2:] in okset:
                    f.write("  Lemma call_%s : %s.\n  Proof. unfold %s, %s; ftie. Qed.\n\n"
                            % (sid[2:], EXACT[sid[2:]], sid, ", ".join(unfold.split())))
        f.write("End FunTie.\n")
    r = coqc("FunTie.v")
    if r.returncode != 0:
        for x in freport:
            if x["status"] == "ok":
                x["status"] = "tie lemmas do not check: " + (r.stdout + r.stderr)[-300:]


HEADER = """(* GENERATED by xlate/pyxlate.py from the current source of /repo on every run. Do not edit. *)
From Coq Require Import Bool List String Arith.
From Demes Require Import Base.Num Base.Py Model.MDM Model.Resolve Proofs.ArithSites.
Import ListNotations.
Local Open Scope string_scope.
Local Open Scope list_scope.
"""

TIE_HEADER = HEADER + """From Demes Require Import Gen.SrcGuards.

(* [tie]: the guard derived from the source equals the model's expression: by conversion when the
   source is spelt as the model was written, else by case analysis on the atomic comparisons
   (so a harmless respelling such as `not (a <= b)` for `a > b` still ties, a changed operator,
   operand, constant or a dropped conjunct does not). *)
Ltac tie_atoms :=
  repeat match goal with
  | |- context [nlt ?a ?b] => let x := fresh in destruct (nlt a b) eqn:x
  | |- context [nle ?a ?b] => let x := fresh in destruct (nle a b) eqn:x
  | |- context [neqb ?a ?b] => let x := fresh in destruct (neqb a b) eqn:x
  | |- context [nisinf ?a] => let x := fresh in destruct (nisinf a) eqn:x
  | |- context [isclose0 ?a ?b] => let x := fresh in destruct (isclose0 a b) eqn:x
  | |- context [String.eqb ?a ?b] => let x := fresh in destruct (String.eqb a b) eqn:x
  | |- context [Nat.eqb ?a ?b] => let x := fresh in destruct (Nat.eqb a b) eqn:x
  end.
Ltac tie := intros; first [ reflexivity
                           | unfold ngt, nge, nneq, mem; cbn [existsb]; tie_atoms; reflexivity
                           | try (match goal with |- context [List.length ?l] => is_var l; destruct l end);
                             unfold ngt, nge, nneq, mem; cbn [existsb List.length Nat.eqb Nat.ltb Nat.leb];
                             tie_atoms; reflexivity ].
"""


def cmd_gen(outdir, coqdir="/verif/coq"):
    """writes SrcGuards.v, probes every tie, writes GuardTie.v (Qed lemmas for the ties that hold) and
    xlate_report.json; returns the report (one entry per site with status ok / broken / untranslated)."""
    import subprocess
    guards, ties, report = generate()
    adefs, aties, areport = generate_arith()
    guards += adefs
    report += areport
    sitems, sreport = structural()
    report += sreport
    os.makedirs(outdir, exist_ok=True)

    def coqlist(l):
        return "[" + "; ".join('"%s"' % x.replace('"', "'") for x in l) + "]"
    def write_guards():
        with open(os.path.join(outdir, "SrcGuards.v"), "w") as f:
            f.write(HEADER + "\n" + "\n".join("Definition s_%s : list string := %s." % (sid, coqlist(got)) for sid, got, _ in sitems)
                    + "\n\nSection SrcGuards.\n  Context {N : NumOps}.\n\n" + "\n".join(guards) + "End SrcGuards.\n")
    write_guards()
    byid = {r["site"]: r for r in report}

    def coqc(name):
        return subprocess.run("timeout 300 coqc -Q %s Demes -Q %s Demes.Gen %s" % (coqdir, outdir, os.path.join(outdir, name)),
                              shell=True, capture_output=True, text=True)
    r = coqc("SrcGuards.v")
    # a translated expression that does not type-check against the model's binders (e.g. it mentions a name the site
    # does not bind any more) breaks THAT site only: drop it and compile the rest
    for _ in range(25):
        if r.returncode == 0:
            break
        m = re.search(r'line (\d+), characters', r.stdout + r.stderr)
        if not m:
            break
        upto = open(os.path.join(outdir, "SrcGuards.v")).read().split("\n")[:int(m.group(1))]
        culprit = None
        for line in reversed(upto):
            mm = re.match(r"\s*Definition ([ag])_(\w+) ", line)
            if mm:
                culprit = mm.group(2) if mm.group(1) == "g" else "a_" + mm.group(2)
                break
        if culprit is None or culprit not in byid:
            break
        byid[culprit]["status"] = "tie broken: the expression translated from the source does not type-check at this site: " + \
            (r.stdout + r.stderr).strip().split("\n")[-1][:160]
        dname = ("g_" + culprit) if not culprit.startswith("a_") else culprit
        guards = [g for g in guards if ("Definition %s " % dname) not in g]
        ties = [t for t in ties if t[0] != culprit]
        aties = [t for t in aties if t[0] != culprit]
        write_guards()
        r = coqc("SrcGuards.v")
    if r.returncode != 0:
        for x in report:
            if x["status"] == "ok":
                x["status"] = "generated guards do not compile: " + (r.stdout + r.stderr)[-300:]
    else:
        with open(os.path.join(outdir, "TieProbe.v"), "w") as f:
            f.write(TIE_HEADER + "\nSection TieProbe.\n  Context {N : NumOps}.\n")
            for sid, stmt in ties:
                f.write('  Goal %s.\n  Proof. tryif solve [unfold g_%s; tie] then idtac "TIE-OK %s" else idtac "TIE-BROKEN %s". Abort.\n'
                        % (stmt, sid, sid, sid))
            for sid, stmt in aties:
                f.write('  Goal %s.\n  Proof. tryif solve [intros; reflexivity] then idtac "TIE-OK %s" else idtac "TIE-BROKEN %s". Abort.\n'
                        % (stmt, sid, sid))
            f.write("End TieProbe.\n")
        r = coqc("TieProbe.v")
        out = (r.stdout + r.stderr).split()
        okset = set(out[i + 1] for i, w in enumerate(out[:-1]) if w == "TIE-OK")
        for sid, stmt in ties + aties:
            if sid not in okset:
                byid[sid]["status"] = "tie broken: the %s derived from the source is not the model's expression" % (
                    "arithmetic expression" if sid.startswith("a_") else "guard")
        with open(os.path.join(outdir, "GuardTie.v"), "w") as f:
            f.write(TIE_HEADER + "\nSection GuardTie.\n  Context {N : NumOps}.\n\n")
            for sid, stmt in ties:
                if byid[sid]["status"] == "ok":
                    f.write("  Lemma tie_%s : %s.\n  Proof. unfold g_%s; tie. Qed.\n\n" % (sid, stmt, sid))
            for sid, stmt in aties:
                if byid[sid]["status"] == "ok":
                    f.write("  Lemma tie_%s : %s.\n  Proof. intros; reflexivity. Qed.\n\n" % (sid, stmt))
            f.write("End GuardTie.\n\n")
            for sid, got, expected in sitems:
                if got == expected:
                    f.write("Lemma tie_%s : s_%s = %s.\nProof. reflexivity. Qed.\n" % (sid, sid, coqlist(expected)))
        r = coqc("GuardTie.v")
        if r.returncode != 0:
            for x in report:
                if x["status"] == "ok":
                    x["status"] = "tie lemmas do not check: " + (r.stdout + r.stderr)[-300:]
    try:
        funs_gen(outdir, coqc, report, byid)
        # a function whose WHOLE body is translated and proved equal to the model's function needs none of the finer
        # sites inside it (single guards, arithmetic expressions, the list of its decisions as written): when those no
        # longer match because the function was respelt, the whole-function tie is what decides
        whole = {(x["file"], x["function"]): x["site"] for x in report if x["site"].startswith("f_") and x["status"] == "ok"}
        for x in report:
            k = (x["file"], x["function"])
            if k not in whole:      # a function nested in a wholly tied one is part of that body (inlined at its calls)
                k = next((w for w in whole if w[0] == k[0] and (k[1] or "").startswith(w[1] + ".")), k)
            if k in whole and x["status"] != "ok" and not x["site"].startswith("f_"):
                x["subsumed"] = x["status"]
                x["status"] = "ok"
                x["note"] = "site no longer matches as written; the whole-function tie %s holds" % whole[k]
    except Exception as e:          # fail closed: every function site is then a broken tie
        for sid, path, qual, params, binders, rty, stmt, unfold, props in FUN_SITES:
            if not any(x["site"] == "f_" + sid for x in report):
                report.append(dict(site="f_" + sid, file=path, function=qual, index=None, source=None, props=props,
                                   status="tie broken: the function translator failed: %r" % (e,)))
    json.dump(report, open(os.path.join(outdir, "xlate_report.json"), "w"), indent=1)
    return report


if __name__ == "__main__":
    if sys.argv[1] == "list":
        cmd_list(sys.argv[2])
    elif sys.argv[1] == "snapshot":
        json.dump(decisions_now(), open(os.path.join(os.path.dirname(os.path.abspath(__file__)), "decisions.json"), "w"), indent=1)
    else:
        rep = cmd_gen(sys.argv[2])
        bad = [r for r in rep if r["status"] != "ok"]
        print("pyxlate: %d sites tied, %d not" % (len(rep) - len(bad), len(bad)))
        for r in bad:
            print("   ", r["site"], r["props"], r["status"][:150])
