(* Driver around the extracted model (model.ml, generated from coq/Extract):
   - the binary64 instance of NumOps (Python int/float semantics);
   - a line-oriented value syntax shared with harness/wire.py;
   - dispatch from operation names to extracted functions.
   Everything here is trusted glue; see DESIGN.md "Trusted base". *)
open Model

(* ---- numbers: a double plus "is a Python int" ---- *)
type pnum = { v : float; i : bool }
let mk v i : Obj.t = Obj.repr { v; i }
let un (x : Obj.t) : pnum = Obj.obj x
let fl x = mk x false
let ops : numOps = {
  nlt = (fun a b -> (un a).v < (un b).v);
  nle = (fun a b -> (un a).v <= (un b).v);
  neqb = (fun a b -> (un a).v = (un b).v);
  nadd = (fun a b -> let a = un a and b = un b in mk (a.v +. b.v) (a.i && b.i));
  nsub = (fun a b -> let a = un a and b = un b in mk (a.v -. b.v) (a.i && b.i));
  nmul = (fun a b -> let a = un a and b = un b in mk (a.v *. b.v) (a.i && b.i));
  ndiv = (fun a b -> fl ((un a).v /. (un b).v));
  nabs = (fun a -> let a = un a in mk (Float.abs a.v) a.i);
  nisinf = (fun a -> let x = (un a).v in x = Float.infinity || x = Float.neg_infinity);
  nisnan = (fun a -> Float.is_nan (un a).v);
  nisint = (fun a -> (un a).i);
  nfloat = (fun a -> fl (un a).v);
  nexp = (fun a -> fl (Stdlib.exp (un a).v));
  nlog = (fun a -> fl (Stdlib.log (un a).v));
  n0 = mk 0. true; n1 = mk 1. true; n4 = mk 4. true;
  nf0 = fl 0.; nf1 = fl 1.; ninf = fl Float.infinity;
  nrel = fl 1e-9; nabst = fl 1e-12;
}

let rec nat_of_int n = if n <= 0 then O else S (nat_of_int (n - 1))
let rec int_of_nat = function O -> 0 | S n -> 1 + int_of_nat n
let num_nat (x : Obj.t) = nat_of_int (int_of_float (un x).v)
let nat_num n = mk (float_of_int (int_of_nat n)) true

(* ---- wire syntax: N T F O, i<int>, f<hexfloat>, s<hex>, lists "(L v ...)", dicts "(D k v ...)" ---- *)
let hex_decode s =
  let n = String.length s / 2 in
  String.init n (fun k -> Char.chr (int_of_string ("0x" ^ String.sub s (2 * k) 2)))
let hex_encode s =
  let b = Buffer.create (2 * String.length s) in
  String.iter (fun c -> Buffer.add_string b (Printf.sprintf "%02x" (Char.code c))) s;
  Buffer.contents b

let tokenize (line : string) : string list =
  let toks = ref [] and cur = Buffer.create 16 in
  let flush () = if Buffer.length cur > 0 then (toks := Buffer.contents cur :: !toks; Buffer.clear cur) in
  String.iter (fun c -> match c with
    | '(' | ')' -> flush (); toks := String.make 1 c :: !toks
    | ' ' | '\t' | '\n' | '\r' -> flush ()
    | c -> Buffer.add_char cur c) line;
  flush (); List.rev !toks

exception Parse of string
let rec parse (toks : string list) : jv * string list =
  match toks with
  | [] -> raise (Parse "eof")
  | "(" :: "L" :: rest ->
      let rec items acc r = match r with
        | ")" :: r' -> (JList (List.rev acc), r')
        | _ -> let (v, r') = parse r in items (v :: acc) r' in
      items [] rest
  | "(" :: "D" :: rest ->
      let rec items acc r = match r with
        | ")" :: r' -> (JDict (List.rev acc), r')
        | k :: r1 when String.length k > 0 && k.[0] = 's' ->
            let key = hex_decode (String.sub k 1 (String.length k - 1)) in
            let (v, r2) = parse r1 in items ((key, v) :: acc) r2
        | _ -> raise (Parse "dict key") in
      items [] rest
  | "N" :: r -> (JNull, r)
  | "T" :: r -> (JBool true, r)
  | "F" :: r -> (JBool false, r)
  | "O" :: r -> (JOther, r)
  | t :: r when String.length t > 0 ->
      let body = String.sub t 1 (String.length t - 1) in
      (match t.[0] with
       | 'i' -> (JNum (mk (float_of_string body) true), r)
       | 'f' -> (JNum (fl (float_of_string body)), r)
       | 's' -> (JStr (hex_decode body), r)
       | _ -> raise (Parse ("token " ^ t)))
  | _ -> raise (Parse "empty token")

let pnum_str (x : Obj.t) =
  let p = un x in
  if p.i && Float.is_integer p.v then Printf.sprintf "i%.0f" p.v
  else Printf.sprintf "f%h" p.v

let rec print b (v : jv) = match v with
  | JNull -> Buffer.add_string b "N"
  | JBool true -> Buffer.add_string b "T"
  | JBool false -> Buffer.add_string b "F"
  | JOther -> Buffer.add_string b "O"
  | JNum x -> Buffer.add_string b (pnum_str x)
  | JStr s -> Buffer.add_char b 's'; Buffer.add_string b (hex_encode s)
  | JList l -> Buffer.add_string b "(L"; List.iter (fun x -> Buffer.add_char b ' '; print b x) l;
      Buffer.add_char b ')'
  | JDict kv -> Buffer.add_string b "(D";
      List.iter (fun (k, x) -> Buffer.add_string b " s"; Buffer.add_string b (hex_encode k);
                  Buffer.add_char b ' '; print b x) kv;
      Buffer.add_char b ')'

let err_name = function
  | KeyErr -> "KeyError" | TypeErr -> "TypeError" | ValueErr -> "ValueError"
  | IndexErr -> "IndexError" | ZeroDivErr -> "ZeroDivisionError"
  | OverflowErr -> "OverflowError" | AssertErr -> "AssertionError"
  | RuntimeErr -> "RuntimeError" | OtherErr -> "OtherError"

(* result encoding: (L sOk v) or (L sErr s<class>) *)
let okv v = JList [JStr "ok"; v]
let errv e = JList [JStr "err"; JStr (err_name e)]
let of_res f = function Ok a -> okv (f a) | Err e -> errv e
let jbool b = JBool b
let jnum x = JNum x
let get = function Ok a -> a | Err e -> failwith ("decode: " ^ err_name e)

let num_arg = function JNum x -> x | JBool b -> if b then ops.n1 else ops.n0 | _ -> failwith "num arg"

let jstr s = JStr s
let jlist f l = JList (List.map f l)
let graph_arg g = get (graph_of_jv ops num_nat g)
let jgraph g = JList [asdict ops g; jv_of_index ops g.g_index nat_num]
let jndict (d : (string * string list) list) =
  JList (List.map (fun (k, v) -> JList [JStr k; jlist jstr v]) d)
let jmatrix (m : num list list) = jlist (jlist jnum) m
let str_arg = function JStr s -> s | _ -> failwith "str arg"
let namemap_arg = function
  | JList l -> List.map (function JList [JStr a; JStr b] -> (a, b) | _ -> failwith "namemap") l
  | _ -> failwith "namemap"

(* ---- ms events / commands on the wire ---- *)
let nat_arg v = num_nat (num_arg v)
let bool_arg = function JBool b -> b | _ -> failwith "bool arg"
let ev_of_jv = function
  | JList [JStr "G"; t; a] -> EvG (num_arg t, num_arg a)
  | JList [JStr "g"; t; i; a] -> Evg (num_arg t, nat_arg i, num_arg a)
  | JList [JStr "N"; t; x] -> EvN (num_arg t, num_arg x)
  | JList [JStr "n"; t; i; x; b] -> Evn (num_arg t, nat_arg i, num_arg x, bool_arg b)
  | JList [JStr "M"; t; x] -> EvM (num_arg t, num_arg x)
  | JList [JStr "m"; t; i; j; x] -> Evm (num_arg t, nat_arg i, nat_arg j, num_arg x)
  | JList [JStr "ma"; t; n; JList rows; b] ->
      Evma (num_arg t, nat_arg n,
            List.map (function JList r -> List.map num_arg r | _ -> failwith "ma row") rows, bool_arg b)
  | JList [JStr "s"; t; i; p] -> Evs (num_arg t, nat_arg i, num_arg p)
  | JList [JStr "j"; t; i; j] -> Evj (num_arg t, nat_arg i, nat_arg j)
  | _ -> failwith "event"
let jnat n = JNum (nat_num n)
let jv_of_ev = function
  | EvG (t, a) -> JList [JStr "G"; JNum t; JNum a]
  | Evg (t, i, a) -> JList [JStr "g"; JNum t; jnat i; JNum a]
  | EvN (t, x) -> JList [JStr "N"; JNum t; JNum x]
  | Evn (t, i, x, b) -> JList [JStr "n"; JNum t; jnat i; JNum x; JBool b]
  | EvM (t, x) -> JList [JStr "M"; JNum t; JNum x]
  | Evm (t, i, j, x) -> JList [JStr "m"; JNum t; jnat i; jnat j; JNum x]
  | Evma (t, n, m, b) -> JList [JStr "ma"; JNum t; jnat n; jlist (jlist jnum) m; JBool b]
  | Evs (t, i, p) -> JList [JStr "s"; JNum t; jnat i; JNum p]
  | Evj (t, i, j) -> JList [JStr "j"; JNum t; jnat i; jnat j]
let dget k = function JDict kv -> (try List.assoc k kv with Not_found -> failwith ("missing " ^ k)) | _ -> failwith "dict"
let list_arg = function JList l -> l | _ -> failwith "list arg"
let cmd_of_jv v =
  { c_npop = nat_arg (dget "npop" v); c_structure = bool_arg (dget "structure" v);
    c_irate = num_arg (dget "irate" v);
    c_init = List.map ev_of_jv (list_arg (dget "init" v));
    c_events = List.map ev_of_jv (list_arg (dget "events" v)) }
let jcodes l = jlist (fun ((s, i), j) -> JList [JStr s; jnat i; jnat j]) l

(* decimal <-> extracted Z (arbitrary precision), for the fixed-point rendering model *)
let z_of_int k = let rec go k = if k = 0 then Z0 else Z.add (Z.mul (go (k / 10)) (Zpos (XO (XI (XO XH))))) (
      match k mod 10 with 0 -> Z0 | d -> let rec p d = if d = 1 then XH else Pos.succ (p (d - 1)) in Zpos (p d)) in go k
let z_of_string (s : string) : z =
  let neg = String.length s > 0 && s.[0] = '-' in
  let s = if neg then String.sub s 1 (String.length s - 1) else s in
  let ten = z_of_int 10 in
  let v = ref Z0 in
  String.iter (fun c -> v := Z.add (Z.mul !v ten) (z_of_int (Char.code c - 48))) s;
  if neg then Z.opp !v else !v
let string_of_z (x : z) : string =
  let ten = z_of_int 10 in
  let neg = (match x with Zneg _ -> true | _ -> false) in
  let x = Z.abs x in
  let rec go x acc = match x with
    | Z0 -> acc
    | _ -> let (q, r) = Z.div_eucl x ten in
           let d = (let rec toi z k = if z = Z0 then k else toi (Z.sub z (z_of_int 1)) (k + 1) in toi r 0) in
           go q (String.make 1 (Char.chr (48 + d)) ^ acc) in
  let s = go x "" in
  (if neg then "-" else "") ^ (if s = "" then "0" else s)

let dispatch (op : string) (args : jv list) : jv =
  match op, args with
  | "size_at", [d; JList ts] ->
      let d = get (deme_of_jv ops d) in
      JList (List.map (fun t -> of_res jnum (size_at ops d (num_arg t))) ts)
  | "isclose", [a; b; r; t] -> jbool (isclose ops (num_arg a) (num_arg b) (num_arg r) (num_arg t))
  | "pysum", [JList l] -> jnum (pysum ops (List.map num_arg l))
  | "roundtrip_graph", [g] -> of_res jgraph (graph_of_jv ops num_nat g)
  | "migmat", [g] ->
      of_res (fun (mms, ets) -> JList [jlist jmatrix mms; jlist jnum ets])
        (migration_matrices ops (graph_arg g))
  | "check_rates", [g] -> of_res (fun () -> JNull) (check_migration_rates ops (graph_arg g))
  | "successors", [g] -> jndict (successors ops (graph_arg g))
  | "predecessors", [g] -> jndict (predecessors ops (graph_arg g))
  | "events", [g] ->
      of_res (fun ev ->
        JDict [
          ("splits", jlist (fun ((p, cs), t) -> JList [JStr p; jlist jstr cs; JNum t]) ev.ev_splits);
          ("branches", jlist (fun ((p, c), t) -> JList [JStr p; JStr c; JNum t]) ev.ev_branches);
          ("mergers", jlist (fun (((ps, pr), c), t) -> JList [jlist jstr ps; jlist jnum pr; JStr c; JNum t]) ev.ev_mergers);
          ("admixtures", jlist (fun (((ps, pr), c), t) -> JList [jlist jstr ps; jlist jnum pr; JStr c; JNum t]) ev.ev_admixtures)])
        (discrete_events ops (graph_arg g))
  | "steps", [g] ->
      let g = graph_arg g in
      JDict [("in_generations", jnat (steps_in_generations ops g)); ("asdict", jnat (steps_asdict ops g));
             ("events", jnat (steps_events ops g)); ("migration_matrices", jnat (steps_migmat ops g));
             ("fromdict", jnat (steps_fromdict ops g)); ("to_ms", jnat (steps_to_ms ops g)); ("size", jnat (gsize ops g))]
  | "in_generations", [g] -> of_res jgraph (in_generations ops (graph_arg g))
  | "rename", [g; names; JList probes] ->
      (match rename_demes ops (namemap_arg names) (graph_arg g) with
       | Err e -> errv e
       | Ok h ->
         okv (JList [jgraph h;
             jlist (fun p -> let p = str_arg p in
                      JList [JStr p; jbool (contains ops h p);
                             (match lookup ops h p with Ok d -> JStr d.d_name | Err _ -> JNull)]) probes]))
  | "fromdict", [d] -> of_res jgraph (fromdict ops d)
  | "asdict_simplified", [g] -> of_res (fun x -> x) (asdict_simplified ops (graph_arg g))
  | "stringify", [d] -> of_res (fun x -> x) (stringify_infinities ops d)
  | "unstringify", [d] -> of_res (fun x -> x) (unstringify_infinities ops d)
  | "no_nulls", [d] -> of_res (fun () -> JNull) (no_null_values ops d)
  | "load_post", [d] -> of_res jgraph (load_post ops d)
  | "load_asdict_post", [d] -> of_res (fun x -> x) (load_asdict_post ops d)
  | "dump_pre", [j; s; g] ->
      of_res (fun x -> x) (dump_pre ops (j = JBool true) (s = JBool true) (graph_arg g))
  | "validb", [g] -> jbool (validb ops (graph_arg g))
  | "to_ms", [g; n0] ->
      of_res (fun (n, evs) -> JList [jnat n; jlist jv_of_ev evs]) (to_ms_events ops (graph_arg g) (num_arg n0))
  | "sem_check", [g; n0; c; JList pm; JList times; JList bounds; rel; abst] ->
      (* sizes/rates at each time, lineage movements at each boundary *)
      let g = graph_arg g and n0 = num_arg n0 and c = cmd_of_jv c and pm = List.map nat_arg pm in
      let rel = num_arg rel and abst = num_arg abst in
      let close a b = isclose ops a b rel abst in
      let same a b = isclose ops a b (fl 1e-9) (fl 0.) in
      JList [
        jlist (fun t -> JList [t; of_res jcodes (check_at ops close g n0 c pm (num_arg t))]) times;
        jlist (fun b -> JList [b; of_res jcodes (check_moves_at ops close same g n0 c pm (num_arg b))]) bounds ]
  | "from_ms", [c; n0; names] ->
      let names = (match names with JNull -> None | JList l -> Some (List.map str_arg l) | _ -> failwith "names") in
      of_res jgraph (from_ms ops (cmd_of_jv c) (num_arg n0) names)
  | "ms_doc", [c; n0] -> of_res (fun x -> x) (build_doc ops (cmd_of_jv c) (num_arg n0))
  | "ms_state", [c; t] ->
      (* the ms state in force at time t and the lineage movements at exactly t (ms units) *)
      let c = cmd_of_jv c and t = num_arg t in
      let same a b = ops.neqb a b in
      (match ms_at ops c t, ms_moves ops same c t with
       | Ok s, Ok p ->
           okv (JList [
             jlist (fun pp -> JList [JNum (ms_size_of ops pp t); JNum pp.mp_alpha; jbool (alive ops pp)]) s.st_pops;
             jlist (jlist jnum) (norm_mig ops s);
             jlist (jlist jnum) p])
       | Err e, _ | _, Err e -> errv e)
  | "fixed10", [JStr n; JStr d] -> JStr (string_of_z (fixed10 (z_of_string n) (z_of_string d)))
  | "graphs_check", [g; h; JList pairs; JList times; JList bounds; rel; abst] ->
      let g = graph_arg g and h = graph_arg h in
      let pairs = List.map (function JList [a; b] -> (nat_arg a, nat_arg b) | _ -> failwith "pair") pairs in
      let close a b = isclose ops a b (num_arg rel) (num_arg abst) in
      let same a b = isclose ops a b (fl 1e-9) (fl 0.) in
      JList [
        jlist (fun t -> JList [t; jcodes (check_graphs_at ops close g h pairs (num_arg t))]) times;
        jlist (fun b -> JList [b; jcodes (check_gmoves_at ops close same g h pairs (num_arg b))]) bounds ]
  | "close", [a; b; r; t] ->
      jbool (close_graph ops (num_arg r) (num_arg t) (graph_arg a) (graph_arg b))
  | _ -> failwith ("unknown op " ^ op)

let () =
  let b = Buffer.create 65536 in
  (try
    while true do
      let line = input_line stdin in
      Buffer.clear b;
      (try
        (match parse (tokenize line) with
         | (JList (JStr op :: args), _) -> print b (dispatch op args)
         | _ -> failwith "bad request")
      with
      | Failure m -> Buffer.add_string b ("(L s" ^ hex_encode "fail" ^ " s" ^ hex_encode m ^ ")")
      | Parse m -> Buffer.add_string b ("(L s" ^ hex_encode "fail" ^ " s" ^ hex_encode ("parse: " ^ m) ^ ")")
      | Stack_overflow -> Buffer.add_string b ("(L s" ^ hex_encode "fail" ^ " s" ^ hex_encode "stack" ^ ")"));
      print_string (Buffer.contents b); print_newline ()
    done
  with End_of_file -> ())
