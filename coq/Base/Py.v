(* Python runtime behaviour the models share: the exception classes, the
   result monad, math.isclose, builtin sum (CPython 3.12, Neumaier
   compensated), and the partial operations / log exp. *)
From Coq Require Import Bool List String.
From Demes Require Import Base.Num.
Import ListNotations.

Inductive err := KeyErr | TypeErr | ValueErr | IndexErr | ZeroDivErr
               | OverflowErr | AssertErr | RuntimeErr | OtherErr.

Inductive res (A : Type) := Ok (a : A) | Err (e : err).
Arguments Ok {A} a.
Arguments Err {A} e.

Definition bind {A B} (m : res A) (k : A -> res B) : res B :=
  match m with Ok a => k a | Err e => Err e end.
Notation "x <- m ;; k" := (bind m (fun x => k))
  (at level 61, m at next level, right associativity).
Notation "m ;;; k" := (bind m (fun _ => k))
  (at level 61, right associativity).

Definition guard (b : bool) (e : err) : res unit := if b then Ok tt else Err e.
(* "if b: raise e" *)
Definition raise_if (b : bool) (e : err) : res unit := if b then Err e else Ok tt.

Definition is_ok {A} (m : res A) : bool := match m with Ok _ => true | Err _ => false end.

Fixpoint mapM {A B} (f : A -> res B) (l : list A) : res (list B) :=
  match l with
  | [] => Ok []
  | a :: l' => b <- f a ;; bs <- mapM f l' ;; Ok (b :: bs)
  end.

Fixpoint forM_ {A} (f : A -> res unit) (l : list A) : res unit :=
  match l with
  | [] => Ok tt
  | a :: l' => f a ;;; forM_ f l'
  end.

Fixpoint foldM {A S} (f : S -> A -> res S) (l : list A) (s : S) : res S :=
  match l with
  | [] => Ok s
  | a :: l' => s' <- f s a ;; foldM f l' s'
  end.

Section Py.
  Context {N : NumOps}.

  (* math.isclose(a, b, rel_tol=rel, abs_tol=abs) *)
  Definition isclose (a b rel abs : num) : bool :=
    if neqb a b then true
    else if nisinf a || nisinf b then false
    else
      let diff := nabs (nsub (nfloat b) (nfloat a)) in
      nle diff (nabs (nmul rel (nfloat b)))
      || nle diff (nabs (nmul rel (nfloat a)))
      || nle diff abs.

  (* builtin max(a, b) / min(a, b) on two numbers: the first argument is kept
     unless the second is strictly greater / smaller *)
  Definition pymax (a b : num) : num := if nlt a b then b else a.   (* max(a, b) *)
  Definition pymin (a b : num) : num := if nlt b a then b else a.   (* min(a, b) *)

  (* defaults of math.isclose *)
  Definition isclose0 (a b : num) : bool := isclose a b nrel nf0.

  (* builtin sum(), CPython >= 3.12 *)
  Fixpoint pysum_f (l : list num) (f c : num) : num :=
    match l with
    | [] => if negb (neqb c nf0) && negb (nisinf c) && negb (nisnan c)
            then nadd f c else f
    | x :: l' =>
        if nisint x then pysum_f l' (nadd f x) c
        else
          let t := nadd f x in
          let c' := if nle (nabs x) (nabs f)
                    then nadd c (nadd (nsub f t) x)
                    else nadd c (nadd (nsub x t) f) in
          pysum_f l' t c'
    end.

  Fixpoint pysum_i (l : list num) (acc : num) : num :=
    match l with
    | [] => acc
    | x :: l' =>
        if nisint x then pysum_i l' (nadd acc x)
        else pysum_f l' (nadd acc x) nf0
    end.

  Definition pysum (l : list num) : num := pysum_i l n0.

  (* a / b *)
  Definition pdiv (a b : num) : res num :=
    if neqb b n0 then Err ZeroDivErr else Ok (ndiv a b).

  (* math.log(x) *)
  Definition plog (x : num) : res num :=
    if nisnan x then Ok x
    else if nle x n0 then Err ValueErr
    else Ok (nlog x).

  (* math.exp(x) *)
  Definition pexp (x : num) : res num :=
    let r := nexp x in
    if nisinf r && negb (nisinf x) && negb (nisnan x) then Err OverflowErr
    else Ok r.
End Py.

(* "Summation and closeness are functions of the values": needed where a theorem
   compares a graph with a re-resolved copy whose numbers are value-equal (==) but
   possibly differently represented (1 vs 1.0, 0.0 vs -0.0).  True for binary64 on
   lists of floats (Neumaier summation only ever looks at values).  It is
   deliberately NOT claimed for lists mixing Python ints and floats: builtin sum()
   adds ints without compensation, so there the representation can matter. *)
Class SumLaws (N : NumOps) (L : NumLaws N) := {
  float_notint : forall x, nisint (nfloat x) = false;
  f0_notint : nisint nf0 = false;
  isclose_veq : forall a a' b r t,
      neqb a a' = true -> isclose a b r t = isclose a' b r t;
  sum_float_veq : forall l l',
      Forall2 (fun x y => neqb x y = true) l l' ->
      (forall x, In x l -> nisint x = false) -> (forall y, In y l' -> nisint y = false) ->
      neqb (pysum l) (pysum l') = true \/
      (nisnan (pysum l) = true /\ nisnan (pysum l') = true);
}.
