(* Numbers of the demes model: an abstract interface to Python's int/float
   values (comparisons are exact, arithmetic rounds), and the order laws that
   every structural theorem needs.  Instances: NumQ (exact rationals with
   infinities, in Coq, for non-vacuity examples) and the binary64 record built
   in driver/main.ml (used by the correspondence check). *)
From Coq Require Import QArith Qabs Lqa Bool List.
Import ListNotations.

Class NumOps := {
  num : Type;
  nlt : num -> num -> bool;      (* Python  x <  y *)
  nle : num -> num -> bool;      (* Python  x <= y *)
  neqb : num -> num -> bool;     (* Python  x == y *)
  nadd : num -> num -> num;
  nsub : num -> num -> num;
  nmul : num -> num -> num;
  ndiv : num -> num -> num;      (* true division, divisor checked by callers *)
  nabs : num -> num;
  nisinf : num -> bool;          (* math.isinf *)
  nisnan : num -> bool;          (* x != x *)
  nisint : num -> bool;          (* isinstance(x, int) (bool included) *)
  nfloat : num -> num;           (* float(x) *)
  nexp : num -> num;             (* libm exp, range errors checked by callers *)
  nlog : num -> num;
  n0 : num;                      (* int 0 *)
  n1 : num;                      (* int 1 *)
  n4 : num;                      (* int 4 *)
  nf0 : num;                     (* 0.0 *)
  nf1 : num;                     (* 1.0 *)
  ninf : num;                    (* math.inf *)
  nrel : num;                    (* 1e-9 *)
  nabst : num;                   (* 1e-12 *)
}.

Definition ok `{NumOps} (x : num) : Prop := nisnan x = false.

(* Derived Python comparisons. *)
Definition ngt `{NumOps} x y := nlt y x.
Definition nge `{NumOps} x y := nle y x.
Definition nneq `{NumOps} x y := negb (neqb x y).

(* Order laws.  [rk] is an order embedding of the non-NaN values into Q
   (for binary64: x/(1+|x|) on finite values, +-1 on the infinities). A
   comparison that returns true certifies that neither side is NaN. *)
Class NumLaws (N : NumOps) := {
  rk : num -> Q;
  lt_true  : forall x y, nlt x y = true -> ok x /\ ok y /\ rk x < rk y;
  lt_false : forall x y, nlt x y = false -> ok x -> ok y -> rk y <= rk x;
  le_true  : forall x y, nle x y = true -> ok x /\ ok y /\ rk x <= rk y;
  le_false : forall x y, nle x y = false -> ok x -> ok y -> rk y < rk x;
  eq_true  : forall x y, neqb x y = true -> ok x /\ ok y /\ rk x == rk y;
  eq_false : forall x y, neqb x y = false -> ok x -> ok y -> ~ rk x == rk y;
  rk_range : forall x, -1 <= rk x <= 1;
  inf_true : forall x, nisinf x = true -> ok x /\ (rk x == 1 \/ rk x == -1);
  inf_false : forall x, nisinf x = false -> ok x -> -1 < rk x < 1;
  rk_inf : rk ninf == 1;  ok_inf : ok ninf;
  rk_0 : rk n0 == 0;      ok_0 : ok n0;
  rk_f0 : rk nf0 == 0;    ok_f0 : ok nf0;
  rk_1 : 0 < rk n1 < 1;   ok_1 : ok n1;
  rk_f1 : rk nf1 == rk n1; ok_f1 : ok nf1;
  float_rk : forall x, ok x -> ok (nfloat x) /\ rk (nfloat x) == rk x;
}.


(* The few facts about arithmetic (not order) that some theorems need; all hold
   for IEEE binary64: |b - a| and |a - b| are the same value, x / 1 is x. *)
Class ArithLaws (N : NumOps) (L : NumLaws N) := {
  abs_sub_sym : forall a b c,
      nle (nabs (nsub b a)) c = nle (nabs (nsub a b)) c;
  div_one : forall x, ok x -> ok (ndiv x n1) /\ rk (ndiv x n1) == rk x;
}.


Section Derived.
  Context {N : NumOps} {L : NumLaws N}.

  Lemma lt_iff x y : ok x -> ok y -> (nlt x y = true <-> rk x < rk y).
  Proof.
    intros Hx Hy; split; intro H.
    - apply lt_true in H; tauto.
    - destruct (nlt x y) eqn:E; [reflexivity|].
      apply lt_false in E; [lra|assumption|assumption].
  Qed.
  Lemma le_iff x y : ok x -> ok y -> (nle x y = true <-> rk x <= rk y).
  Proof.
    intros Hx Hy; split; intro H.
    - apply le_true in H; tauto.
    - destruct (nle x y) eqn:E; [reflexivity|].
      apply le_false in E; [lra|assumption|assumption].
  Qed.
  Lemma eq_iff x y : ok x -> ok y -> (neqb x y = true <-> rk x == rk y).
  Proof.
    intros Hx Hy; split; intro H.
    - apply eq_true in H; tauto.
    - destruct (neqb x y) eqn:E; [reflexivity|].
      apply eq_false in E; [contradiction|assumption|assumption].
  Qed.
  Lemma eq_refl_ok x : ok x -> neqb x x = true.
  Proof. intro Hx. apply eq_iff; auto. reflexivity. Qed.
  Lemma inf_iff x : ok x -> (nisinf x = true <-> (rk x == 1 \/ rk x == -1)).
  Proof.
    intro Hx; split; intro H.
    - apply inf_true in H; tauto.
    - destruct (nisinf x) eqn:E; [reflexivity|].
      apply inf_false in E; [lra|assumption].
  Qed.
End Derived.

(* [nord]: turn every boolean comparison in the context (and a boolean
   comparison goal) into an inequality between ranks, then call lra.
   Non-NaN side conditions are looked up in the context (hint db nan). *)
Create HintDb nan.
#[export] Hint Resolve ok_inf ok_0 ok_f0 ok_1 ok_f1 : nan.

Ltac okby := solve [ assumption | auto with nan ].

Ltac nord_pos :=
  repeat match goal with
  | H : nlt _ _ = true |- _ => apply lt_true in H; destruct H as (? & ? & ?)
  | H : nle _ _ = true |- _ => apply le_true in H; destruct H as (? & ? & ?)
  | H : neqb _ _ = true |- _ => apply eq_true in H; destruct H as (? & ? & ?)
  | H : nisinf _ = true |- _ => apply inf_true in H; destruct H as (? & ?)
  | H : ngt _ _ = true |- _ => unfold ngt in H
  | H : nge _ _ = true |- _ => unfold nge in H
  | H : ngt _ _ = false |- _ => unfold ngt in H
  | H : nge _ _ = false |- _ => unfold nge in H
  | H : nneq _ _ = true |- _ => unfold nneq in H; apply negb_true_iff in H
  | H : nneq _ _ = false |- _ => unfold nneq in H; apply negb_false_iff in H
  end.

Ltac nord_neg :=
  repeat match goal with
  | H : nlt ?x ?y = false |- _ => apply lt_false in H; [| okby | okby]
  | H : nle ?x ?y = false |- _ => apply le_false in H; [| okby | okby]
  | H : neqb ?x ?y = false |- _ => apply eq_false in H; [| okby | okby]
  | H : nisinf ?x = false |- _ => apply inf_false in H; [| okby]
  end.

Ltac nord_consts :=
  pose proof rk_inf; pose proof rk_0; pose proof rk_f0; pose proof rk_1; pose proof rk_f1.

Ltac nord_ranges :=
  repeat match goal with
  | |- context [rk ?x] =>
      lazymatch goal with
      | _ : -1 <= rk x <= 1 |- _ => fail
      | _ => pose proof (rk_range x)
      end
  | _ : context [rk ?x] |- _ =>
      lazymatch goal with
      | _ : -1 <= rk x <= 1 |- _ => fail
      | _ => pose proof (rk_range x)
      end
  end.

Ltac nord_goal :=
  unfold ngt, nge, nneq;
  match goal with
  | |- nlt _ _ = true => apply lt_iff; [okby | okby |]
  | |- nle _ _ = true => apply le_iff; [okby | okby |]
  | |- neqb _ _ = true => apply eq_iff; [okby | okby |]
  | |- nisinf _ = true => apply inf_iff; [okby |]
  | |- nlt ?x ?y = false => destruct (nlt x y) eqn:?; [exfalso | reflexivity]
  | |- nle ?x ?y = false => destruct (nle x y) eqn:?; [exfalso | reflexivity]
  | |- neqb ?x ?y = false => destruct (neqb x y) eqn:?; [exfalso | reflexivity]
  | |- nisinf ?x = false => destruct (nisinf x) eqn:?; [exfalso | reflexivity]
  | |- negb _ = true => apply negb_true_iff; nord_goal
  | |- negb _ = false => apply negb_false_iff; nord_goal
  | |- _ => idtac
  end.

Ltac nord := nord_pos; nord_goal; nord_pos; nord_neg; nord_consts; nord_ranges;
             try lra.
