(* NumR: exact real numbers (tagged with an "is a Python int" flag) extended with
   +inf, -inf and NaN, as an instance of NumOps.  It mirrors Base/NumQ.v constructor
   for constructor with Q replaced by R; comparisons are decided classically, exp and
   log are the real functions.  There is no NumLaws instance (R does not embed into Q);
   the proofs over this instance (Proofs/SizeBetweenR.v, Proofs/MsSizeR.v) reason on R
   directly.  The standard library's real-number / classical assumptions are used. *)
From Coq Require Import Reals Bool List.
From Demes Require Import Base.Num.

Local Open Scope R_scope.

Inductive rx := RF (r : R) (isint : bool) | RPInf | RNInf | RNaN.

(* ---------- comparisons ---------- *)

Definition Rlt_bool (x y : R) : bool := if Rlt_dec x y then true else false.
Definition Rle_bool (x y : R) : bool := if Rle_dec x y then true else false.
Definition Req_bool (x y : R) : bool := if Req_EM_T x y then true else false.

Definition rx_lt (x y : rx) : bool :=
  match x, y with
  | RNaN, _ | _, RNaN => false
  | RF a _, RF b _ => Rlt_bool a b
  | RF _ _, RPInf => true
  | RF _ _, RNInf => false
  | RPInf, _ => false
  | RNInf, RNInf => false
  | RNInf, _ => true
  end.

Definition rx_le (x y : rx) : bool :=
  match x, y with
  | RNaN, _ | _, RNaN => false
  | RF a _, RF b _ => Rle_bool a b
  | RF _ _, RPInf => true
  | RF _ _, RNInf => false
  | RPInf, RPInf => true
  | RPInf, _ => false
  | RNInf, _ => true
  end.

Definition rx_eqb (x y : rx) : bool :=
  match x, y with
  | RF a _, RF b _ => Req_bool a b
  | RPInf, RPInf => true
  | RNInf, RNInf => true
  | _, _ => false
  end.

(* ---------- arithmetic ---------- *)

Definition rx_neg (x : rx) : rx :=
  match x with
  | RF a i => RF (- a) i
  | RPInf => RNInf
  | RNInf => RPInf
  | RNaN => RNaN
  end.

Definition rx_add (x y : rx) : rx :=
  match x, y with
  | RNaN, _ | _, RNaN => RNaN
  | RF a i, RF b j => RF (a + b) (i && j)
  | RF _ _, RPInf => RPInf
  | RF _ _, RNInf => RNInf
  | RPInf, RNInf => RNaN
  | RPInf, _ => RPInf
  | RNInf, RPInf => RNaN
  | RNInf, _ => RNInf
  end.

Definition rx_sub (x y : rx) : rx :=
  match x, y with
  | RNaN, _ | _, RNaN => RNaN
  | RF a i, RF b j => RF (a - b) (i && j)
  | RF _ _, RPInf => RNInf
  | RF _ _, RNInf => RPInf
  | RPInf, RPInf => RNaN
  | RPInf, _ => RPInf
  | RNInf, RNInf => RNaN
  | RNInf, _ => RNInf
  end.

(* sign a * (+inf) *)
Definition rx_signed_inf (a : R) : rx :=
  if Req_bool a 0 then RNaN
  else if Rlt_bool 0 a then RPInf else RNInf.

Definition rx_mul (x y : rx) : rx :=
  match x, y with
  | RNaN, _ | _, RNaN => RNaN
  | RF a i, RF b j => RF (a * b) (i && j)
  | RF a _, RPInf => rx_signed_inf a
  | RF a _, RNInf => rx_signed_inf (- a)
  | RPInf, RF b _ => rx_signed_inf b
  | RNInf, RF b _ => rx_signed_inf (- b)
  | RPInf, RPInf => RPInf
  | RPInf, RNInf => RNInf
  | RNInf, RPInf => RNInf
  | RNInf, RNInf => RPInf
  end.

Definition rx_div (x y : rx) : rx :=
  match x, y with
  | RNaN, _ | _, RNaN => RNaN
  | RF a _, RF b _ => if Req_bool b 0 then RNaN else RF (a / b) false
  | RF _ _, _ => RF 0 false
  | RPInf, RF b _ => rx_signed_inf b
  | RNInf, RF b _ => rx_signed_inf (- b)
  | _, _ => RNaN
  end.

Definition rx_abs (x : rx) : rx :=
  match x with
  | RF a i => RF (Rabs a) i
  | RPInf | RNInf => RPInf
  | RNaN => RNaN
  end.

Definition rx_isinf (x : rx) : bool :=
  match x with RPInf | RNInf => true | _ => false end.

Definition rx_isnan (x : rx) : bool :=
  match x with RNaN => true | _ => false end.

Definition rx_isint (x : rx) : bool :=
  match x with RF _ i => i | _ => false end.

Definition rx_float (x : rx) : rx :=
  match x with RF q _ => RF q false | _ => x end.

Definition rx_exp (x : rx) : rx :=
  match x with
  | RF r _ => RF (exp r) false
  | RPInf => RPInf
  | RNInf => RF 0 false
  | RNaN => RNaN
  end.

Definition rx_log (x : rx) : rx :=
  match x with
  | RF r _ => if Rlt_bool 0 r then RF (ln r) false else RNaN
  | RPInf => RPInf
  | _ => RNaN
  end.

#[export] Instance NumR : NumOps := {|
  num := rx;
  nlt := rx_lt;
  nle := rx_le;
  neqb := rx_eqb;
  nadd := rx_add;
  nsub := rx_sub;
  nmul := rx_mul;
  ndiv := rx_div;
  nabs := rx_abs;
  nisinf := rx_isinf;
  nisnan := rx_isnan;
  nisint := rx_isint;
  nfloat := rx_float;
  nexp := rx_exp;
  nlog := rx_log;
  n0 := RF 0 true;
  n1 := RF 1 true;
  n4 := RF 4 true;
  nf0 := RF 0 false;
  nf1 := RF 1 false;
  ninf := RPInf;
  nrel := RF (/ 10 ^ 9) false;
  nabst := RF (/ 10 ^ 12) false;
|}.

Definition rval (x : rx) : option R := match x with RF a _ => Some a | _ => None end.

(* ---------- reflection of the classical comparisons ---------- *)

Lemma Rlt_bool_true x y : Rlt_bool x y = true -> x < y.
Proof. unfold Rlt_bool. destruct (Rlt_dec x y); [auto | discriminate]. Qed.
Lemma Rlt_bool_false x y : Rlt_bool x y = false -> y <= x.
Proof. unfold Rlt_bool. destruct (Rlt_dec x y); [discriminate | intros _; apply Rnot_lt_le; assumption]. Qed.
Lemma Rlt_bool_intro x y : x < y -> Rlt_bool x y = true.
Proof. unfold Rlt_bool. destruct (Rlt_dec x y); [reflexivity | contradiction]. Qed.

Lemma Rle_bool_true x y : Rle_bool x y = true -> x <= y.
Proof. unfold Rle_bool. destruct (Rle_dec x y); [auto | discriminate]. Qed.
Lemma Rle_bool_false x y : Rle_bool x y = false -> y < x.
Proof. unfold Rle_bool. destruct (Rle_dec x y); [discriminate | intros _; apply Rnot_le_lt; assumption]. Qed.
Lemma Rle_bool_intro x y : x <= y -> Rle_bool x y = true.
Proof. unfold Rle_bool. destruct (Rle_dec x y); [reflexivity | contradiction]. Qed.

Lemma Req_bool_true x y : Req_bool x y = true -> x = y.
Proof. unfold Req_bool. destruct (Req_EM_T x y); [auto | discriminate]. Qed.
Lemma Req_bool_false x y : Req_bool x y = false -> x <> y.
Proof. unfold Req_bool. destruct (Req_EM_T x y); [discriminate | auto]. Qed.
Lemma Req_bool_intro x y : x = y -> Req_bool x y = true.
Proof. unfold Req_bool. destruct (Req_EM_T x y); [reflexivity | contradiction]. Qed.
Lemma Req_bool_intro_false x y : x <> y -> Req_bool x y = false.
Proof. unfold Req_bool. destruct (Req_EM_T x y); [contradiction | reflexivity]. Qed.

(* smoke tests *)
Example numr_lt_ex : nlt (nadd n1 n1) n4 = true.
Proof. cbn. apply Rlt_bool_intro. apply Rplus_lt_reg_l with (-2). ring_simplify. apply Rlt_0_2. Qed.
Example numr_nan_ex : nisnan (nsub ninf ninf) = true.
Proof. reflexivity. Qed.
Example numr_exp_log_ex : nlog (nexp n0) = RF (ln (exp 0)) false.
Proof. cbn. rewrite Rlt_bool_intro; [reflexivity | apply exp_pos]. Qed.
