(* NumF: IEEE binary64 (Coq's primitive floats) as an instance of NumOps, and
   a proof that it satisfies the order laws NumLaws.  The comparisons are the
   primitive ones; their specification comes from the standard library's
   FloatAxioms (ltb_spec, leb_spec, eqb_spec, Prim2SF_valid ...), and the fact
   that the lexicographic comparison of (exponent, mantissa) on valid floats
   agrees with the order of the real values is Flocq's Bcompare_correct.  The
   real value is connected with a rational value through Q2R, and the rank is
   the same  q / (1 + |q|)  as in NumQ. *)
From Coq Require Import QArith Qabs Qpower Lqa Bool ZArith Reals Qreals.
From Coq Require Import Floats.
From Flocq Require Import Core IEEE754.BinarySingleNaN.
From Flocq Require IEEE754.PrimFloat.
From Demes Require Import Base.Num Base.NumQ.

Module FP := Flocq.IEEE754.PrimFloat.

Local Open Scope Q_scope.

(* ---------- the instance ---------- *)

#[export] Instance NumF : NumOps := {|
  num := PrimFloat.float;
  nlt := PrimFloat.ltb;
  nle := PrimFloat.leb;
  neqb := PrimFloat.eqb;
  nadd := PrimFloat.add;
  nsub := PrimFloat.sub;
  nmul := PrimFloat.mul;
  ndiv := PrimFloat.div;
  nabs := PrimFloat.abs;
  nisinf := PrimFloat.is_infinity;
  nisnan := PrimFloat.is_nan;
  nisint := fun _ => false;
  nfloat := fun x => x;
  nexp := fun x => x;
  nlog := fun x => x;
  n0 := PrimFloat.zero;
  n1 := PrimFloat.one;
  n4 := 4%float;
  nf0 := PrimFloat.zero;
  nf1 := PrimFloat.one;
  ninf := PrimFloat.infinity;
  nrel := 1e-9%float;
  nabst := 1e-12%float;
|}.

(* ---------- the rational value and the rank ---------- *)

(* (-1)^s * m * 2^e as a rational; [2 ^ e] is Qpower, which is 1 / 2^(-e) for
   negative e. *)
Definition SFq (s : bool) (m : positive) (e : Z) : Q :=
  inject_Z (if s then Z.neg m else Z.pos m) * 2 ^ e.

Definition rkS (f : spec_float) : Q :=
  match f with
  | S754_finite s m e => sq (SFq s m e)
  | S754_infinity false => 1
  | S754_infinity true => -1
  | S754_zero _ => 0
  | S754_nan => 0
  end.

Definition rkF (x : PrimFloat.float) : Q := rkS (Prim2SF x).

(* ---------- Q2R of the rational value is Flocq's B2R ---------- *)

Lemma Q2R_inject_Z z : Q2R (inject_Z z) = IZR z.
Proof. unfold Q2R, inject_Z; simpl. rewrite Rinv_1. apply Rmult_1_r. Qed.

Lemma Pos_pow_1_l p : (1 ^ p = 1)%positive.
Proof.
  apply Pos2Z.inj. rewrite Pos2Z.inj_pow. apply Z.pow_1_l. apply Pos2Z.is_nonneg.
Qed.

Lemma Q2R_pow2_pos p : Q2R (Qpower_positive 2 p) = IZR (Z.pow_pos 2 p).
Proof.
  change 2 with (2 # 1). rewrite Qpower_decomp_positive.
  rewrite Pos_pow_1_l. unfold Q2R; simpl Qnum; simpl Qden.
  rewrite Rinv_1, Rmult_1_r. reflexivity.
Qed.

Lemma Q2R_pow2 e : Q2R (2 ^ e) = bpow radix2 e.
Proof.
  destruct e as [|p|p]; simpl.
  - unfold Q2R; simpl. rewrite Rinv_1. ring.
  - apply Q2R_pow2_pos.
  - rewrite Q2R_inv.
    + rewrite Q2R_pow2_pos. reflexivity.
    + apply Qpower_not_0_positive. discriminate.
Qed.

Lemma Q2R_SFq s m e :
  Q2R (SFq s m e) = F2R (Float radix2 (cond_Zopp s (Z.pos m)) e).
Proof.
  unfold SFq, F2R; simpl Fnum; simpl Fexp.
  rewrite Q2R_mult, Q2R_inject_Z, Q2R_pow2. destruct s; reflexivity.
Qed.

Section B64.

Notation bf := (binary_float prec emax).

(* rational value of a finite binary float (0 otherwise) *)
Definition qB (b : bf) : Q :=
  match b with
  | B754_finite s m e _ => SFq s m e
  | _ => 0
  end.

Definition rkB (b : bf) : Q := rkS (B2SF b).

Lemma B2R_qB b : B2R b = Q2R (qB b).
Proof.
  destruct b as [s|s| |s m e H]; simpl; try (unfold Q2R; simpl; ring).
  symmetry. apply Q2R_SFq.
Qed.

Lemma rkB_fin b : is_finite b = true -> rkB b == sq (qB b).
Proof. destruct b; simpl; intro H; try discriminate H; reflexivity. Qed.

(* the finite-finite cases, from Flocq's B*_correct *)

Lemma fin_lt x y : is_finite x = true -> is_finite y = true ->
  (Bltb x y = true -> rkB x < rkB y) /\ (Bltb x y = false -> rkB y <= rkB x).
Proof.
  intros Fx Fy. rewrite (Bltb_correct _ _ _ _ Fx Fy).
  rewrite (rkB_fin x Fx), (rkB_fin y Fy), !B2R_qB.
  destruct (Rlt_bool_spec (Q2R (qB x)) (Q2R (qB y))) as [H|H]; split; intro E;
    try discriminate E.
  - apply sq_lt, Rlt_Qlt, H.
  - apply sq_le, Rle_Qle, H.
Qed.

Lemma fin_le x y : is_finite x = true -> is_finite y = true ->
  (Bleb x y = true -> rkB x <= rkB y) /\ (Bleb x y = false -> rkB y < rkB x).
Proof.
  intros Fx Fy. rewrite (Bleb_correct _ _ _ _ Fx Fy).
  rewrite (rkB_fin x Fx), (rkB_fin y Fy), !B2R_qB.
  destruct (Rle_bool_spec (Q2R (qB x)) (Q2R (qB y))) as [H|H]; split; intro E;
    try discriminate E.
  - apply sq_le, Rle_Qle, H.
  - apply sq_lt, Rlt_Qlt, H.
Qed.

Lemma fin_eq x y : is_finite x = true -> is_finite y = true ->
  (Beqb x y = true -> rkB x == rkB y) /\ (Beqb x y = false -> ~ rkB x == rkB y).
Proof.
  intros Fx Fy. rewrite (Beqb_correct _ _ _ _ Fx Fy).
  rewrite (rkB_fin x Fx), (rkB_fin y Fy), !B2R_qB.
  destruct (Req_bool_spec (Q2R (qB x)) (Q2R (qB y))) as [H|H]; split; intro E;
    try discriminate E.
  - apply sq_eq, eqR_Qeq, H.
  - apply sq_inj. intro Q. apply H, Qeq_eqR, Q.
Qed.

Lemma rkB_range_fin b : is_finite b = true -> -1 < rkB b < 1.
Proof.
  intro F. rewrite (rkB_fin b F). apply sq_range.
Qed.

(* all cases: a NaN never compares; infinities are at the ends *)

Ltac fin_range :=
  repeat match goal with
  | |- context [rkB (B754_finite ?s ?m ?e ?H)] =>
      lazymatch goal with
      | _ : -1 < rkB (B754_finite s m e H) < 1 |- _ => fail
      | _ => pose proof (rkB_range_fin (B754_finite s m e H) eq_refl)
      end
  end.

Ltac cmp_cases x y fin :=
  revert fin;
  destruct x as [[|]|[|]| |[|] mx ex Hx], y as [[|]|[|]| |[|] my ey Hy];
  intro fin; try (apply fin; reflexivity); clear fin;
  fin_range; unfold rkB in *; cbn [rkS B2SF] in *;
  split; (let E := fresh "E" in
          intro E; simpl in E; try discriminate E);
  repeat split; try discriminate; try lra.

Lemma B_lt x y :
  (Bltb x y = true -> is_nan x = false /\ is_nan y = false /\ rkB x < rkB y) /\
  (Bltb x y = false -> is_nan x = false -> is_nan y = false -> rkB y <= rkB x).
Proof.
  assert (fin : is_finite x = true -> is_finite y = true ->
    (Bltb x y = true -> is_nan x = false /\ is_nan y = false /\ rkB x < rkB y) /\
    (Bltb x y = false -> is_nan x = false -> is_nan y = false -> rkB y <= rkB x)).
  { intros Fx Fy. destruct (fin_lt x y Fx Fy) as [A B]. split.
    - intro E. repeat split; [destruct x; try discriminate Fx; reflexivity
                             |destruct y; try discriminate Fy; reflexivity|auto].
    - auto. }
  cmp_cases x y fin.
Qed.

Lemma B_le x y :
  (Bleb x y = true -> is_nan x = false /\ is_nan y = false /\ rkB x <= rkB y) /\
  (Bleb x y = false -> is_nan x = false -> is_nan y = false -> rkB y < rkB x).
Proof.
  assert (fin : is_finite x = true -> is_finite y = true ->
    (Bleb x y = true -> is_nan x = false /\ is_nan y = false /\ rkB x <= rkB y) /\
    (Bleb x y = false -> is_nan x = false -> is_nan y = false -> rkB y < rkB x)).
  { intros Fx Fy. destruct (fin_le x y Fx Fy) as [A B]. split.
    - intro E. repeat split; [destruct x; try discriminate Fx; reflexivity
                             |destruct y; try discriminate Fy; reflexivity|auto].
    - auto. }
  cmp_cases x y fin.
Qed.

Lemma B_eq x y :
  (Beqb x y = true -> is_nan x = false /\ is_nan y = false /\ rkB x == rkB y) /\
  (Beqb x y = false -> is_nan x = false -> is_nan y = false -> ~ rkB x == rkB y).
Proof.
  assert (fin : is_finite x = true -> is_finite y = true ->
    (Beqb x y = true -> is_nan x = false /\ is_nan y = false /\ rkB x == rkB y) /\
    (Beqb x y = false -> is_nan x = false -> is_nan y = false -> ~ rkB x == rkB y)).
  { intros Fx Fy. destruct (fin_eq x y Fx Fy) as [A B]. split.
    - intro E. repeat split; [destruct x; try discriminate Fx; reflexivity
                             |destruct y; try discriminate Fy; reflexivity|auto].
    - auto. }
  cmp_cases x y fin.
Qed.

End B64.

(* ---------- transport to primitive floats ---------- *)

Lemma rkF_rkB x : rkF x = rkB (FP.Prim2B x).
Proof. unfold rkF, rkB. rewrite FP.B2SF_Prim2B. reflexivity. Qed.

#[export] Instance NumFLaws : NumLaws NumF.
Proof.
  refine {| rk := rkF |}; unfold ok;
    cbn [num nlt nle neqb nisinf nisnan nfloat n0 n1 nf0 nf1 ninf NumF].
  - (* lt_true *)
    intros x y H. rewrite !FP.is_nan_equiv, !rkF_rkB.
    rewrite FP.ltb_equiv in H. apply B_lt, H.
  - (* lt_false *)
    intros x y H. rewrite !FP.is_nan_equiv, !rkF_rkB.
    rewrite FP.ltb_equiv in H. apply B_lt, H.
  - (* le_true *)
    intros x y H. rewrite !FP.is_nan_equiv, !rkF_rkB.
    rewrite FP.leb_equiv in H. apply B_le, H.
  - (* le_false *)
    intros x y H. rewrite !FP.is_nan_equiv, !rkF_rkB.
    rewrite FP.leb_equiv in H. apply B_le, H.
  - (* eq_true *)
    intros x y H. rewrite !FP.is_nan_equiv, !rkF_rkB.
    rewrite FP.eqb_equiv in H. apply B_eq, H.
  - (* eq_false *)
    intros x y H. rewrite !FP.is_nan_equiv, !rkF_rkB.
    rewrite FP.eqb_equiv in H. apply B_eq, H.
  - (* rk_range *)
    intro x. rewrite rkF_rkB.
    destruct (FP.Prim2B x) as [s|s| |s m e H] eqn:E.
    + unfold rkB; simpl; lra.
    + unfold rkB; destruct s; simpl; lra.
    + unfold rkB; simpl; lra.
    + pose proof (rkB_range_fin (B754_finite s m e H) eq_refl). lra.
  - (* inf_true *)
    intros x H. rewrite FP.is_nan_equiv, rkF_rkB.
    rewrite FP.is_infinity_equiv in H.
    destruct (FP.Prim2B x) as [s|s| |s m e Hb]; try discriminate H.
    split; [reflexivity|]. unfold rkB. destruct s; simpl.
    + right; reflexivity.
    + left; reflexivity.
  - (* inf_false *)
    intros x H. rewrite FP.is_nan_equiv, rkF_rkB.
    rewrite FP.is_infinity_equiv in H.
    destruct (FP.Prim2B x) as [s|s| |s m e Hb]; try discriminate H.
    + intros _. unfold rkB; simpl; lra.
    + intro N; discriminate N.
    + intros _. apply (rkB_range_fin (B754_finite s m e Hb) eq_refl).
  - (* rk_inf *) vm_compute. reflexivity.
  - (* ok_inf *) vm_compute. reflexivity.
  - (* rk_0 *) vm_compute. reflexivity.
  - (* ok_0 *) vm_compute. reflexivity.
  - (* rk_f0 *) vm_compute. reflexivity.
  - (* ok_f0 *) vm_compute. reflexivity.
  - (* rk_1 *) vm_compute. split; reflexivity.
  - (* ok_1 *) vm_compute. reflexivity.
  - (* rk_f1 *) reflexivity.
  - (* ok_f1 *) vm_compute. reflexivity.
  - (* float_rk *)
    intros x H. split; [assumption|reflexivity].
Defined. (* transparent, so that [rk] unfolds to [rkF] *)

Lemma rk_NumF x : rk x = rkS (Prim2SF x).
Proof. reflexivity. Qed.

(* Non-vacuity smoke tests: the comparisons and the rank compute. *)
Example numf_lt_ex : nlt (nadd n1 n1) n4 = true.
Proof. vm_compute. reflexivity. Qed.
Example numf_nan_ex : nisnan (nsub ninf ninf) = true.
Proof. vm_compute. reflexivity. Qed.
Example numf_rk_ex : rk n4 == 4 # 5.
Proof. vm_compute. reflexivity. Qed.
Example numf_rk_quarter : rk (ndiv n1 n4) == 1 # 5.
Proof. vm_compute. reflexivity. Qed.

Print Assumptions NumFLaws.
