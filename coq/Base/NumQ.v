(* NumQ: exact rationals (tagged with an "is a Python int" flag) extended with
   +inf, -inf and NaN, as a computable instance of NumOps / NumLaws.  Used for
   non-vacuity examples: every comparison evaluates under vm_compute. *)
From Coq Require Import QArith Qabs Lqa Bool List ZArith.
From Demes Require Import Base.Num.

Local Open Scope Q_scope.

Inductive qx := QF (q : Q) (isint : bool) | QPInf | QNInf | QNaN.

(* ---------- comparisons ---------- *)

Definition Qlt_bool (x y : Q) : bool := negb (Qle_bool y x).

Definition qx_lt (x y : qx) : bool :=
  match x, y with
  | QNaN, _ | _, QNaN => false
  | QF a _, QF b _ => Qlt_bool a b
  | QF _ _, QPInf => true
  | QF _ _, QNInf => false
  | QPInf, _ => false
  | QNInf, QNInf => false
  | QNInf, _ => true
  end.

Definition qx_le (x y : qx) : bool :=
  match x, y with
  | QNaN, _ | _, QNaN => false
  | QF a _, QF b _ => Qle_bool a b
  | QF _ _, QPInf => true
  | QF _ _, QNInf => false
  | QPInf, QPInf => true
  | QPInf, _ => false
  | QNInf, _ => true
  end.

Definition qx_eqb (x y : qx) : bool :=
  match x, y with
  | QF a _, QF b _ => Qeq_bool a b
  | QPInf, QPInf => true
  | QNInf, QNInf => true
  | _, _ => false
  end.

(* ---------- arithmetic ---------- *)

Definition qx_neg (x : qx) : qx :=
  match x with
  | QF a i => QF (- a) i
  | QPInf => QNInf
  | QNInf => QPInf
  | QNaN => QNaN
  end.

Definition qx_add (x y : qx) : qx :=
  match x, y with
  | QNaN, _ | _, QNaN => QNaN
  | QF a i, QF b j => QF (a + b) (i && j)
  | QF _ _, QPInf => QPInf
  | QF _ _, QNInf => QNInf
  | QPInf, QNInf => QNaN
  | QPInf, _ => QPInf
  | QNInf, QPInf => QNaN
  | QNInf, _ => QNInf
  end.

Definition qx_sub (x y : qx) : qx :=
  match x, y with
  | QNaN, _ | _, QNaN => QNaN
  | QF a i, QF b j => QF (a - b) (i && j)
  | QF _ _, QPInf => QNInf
  | QF _ _, QNInf => QPInf
  | QPInf, QPInf => QNaN
  | QPInf, _ => QPInf
  | QNInf, QNInf => QNaN
  | QNInf, _ => QNInf
  end.

(* sign a * (+inf) *)
Definition qx_signed_inf (a : Q) : qx :=
  if Qeq_bool a 0 then QNaN
  else if Qlt_bool 0 a then QPInf else QNInf.

Definition qx_mul (x y : qx) : qx :=
  match x, y with
  | QNaN, _ | _, QNaN => QNaN
  | QF a i, QF b j => QF (a * b) (i && j)
  | QF a _, QPInf => qx_signed_inf a
  | QF a _, QNInf => qx_signed_inf (- a)
  | QPInf, QF b _ => qx_signed_inf b
  | QNInf, QF b _ => qx_signed_inf (- b)
  | QPInf, QPInf => QPInf
  | QPInf, QNInf => QNInf
  | QNInf, QPInf => QNInf
  | QNInf, QNInf => QPInf
  end.

Definition qx_div (x y : qx) : qx :=
  match x, y with
  | QNaN, _ | _, QNaN => QNaN
  | QF a _, QF b _ => if Qeq_bool b 0 then QNaN else QF (a / b) false
  | QF _ _, _ => QF 0 false
  | QPInf, QF b _ => qx_signed_inf b
  | QNInf, QF b _ => qx_signed_inf (- b)
  | _, _ => QNaN
  end.

Definition qx_abs (x : qx) : qx :=
  match x with
  | QF a i => QF (Qabs a) i
  | QPInf | QNInf => QPInf
  | QNaN => QNaN
  end.

Definition qx_isinf (x : qx) : bool :=
  match x with QPInf | QNInf => true | _ => false end.

Definition qx_isnan (x : qx) : bool :=
  match x with QNaN => true | _ => false end.

Definition qx_isint (x : qx) : bool :=
  match x with QF _ i => i | _ => false end.

Definition qx_float (x : qx) : qx :=
  match x with QF q _ => QF q false | _ => x end.

Definition qx_exp (x : qx) : qx :=
  match x with
  | QF q _ => if Qeq_bool q 0 then QF 1 false else QNaN
  | QPInf => QPInf
  | QNInf => QF 0 false
  | QNaN => QNaN
  end.

Definition qx_log (x : qx) : qx :=
  match x with
  | QF q _ => if Qeq_bool q 1 then QF 0 false else QNaN
  | QPInf => QPInf
  | _ => QNaN
  end.

#[export] Instance NumQ : NumOps := {|
  num := qx;
  nlt := qx_lt;
  nle := qx_le;
  neqb := qx_eqb;
  nadd := qx_add;
  nsub := qx_sub;
  nmul := qx_mul;
  ndiv := qx_div;
  nabs := qx_abs;
  nisinf := qx_isinf;
  nisnan := qx_isnan;
  nisint := qx_isint;
  nfloat := qx_float;
  nexp := qx_exp;
  nlog := qx_log;
  n0 := QF 0 true;
  n1 := QF 1 true;
  n4 := QF 4 true;
  nf0 := QF 0 false;
  nf1 := QF 1 false;
  ninf := QPInf;
  nrel := QF (1 # 1000000000) false;
  nabst := QF (1 # 1000000000000) false;
|}.

(* ---------- the rank function q / (1 + |q|) ---------- *)

Definition sq (q : Q) : Q := q / (1 + Qabs q).

Lemma den_pos q : 0 < 1 + Qabs q.
Proof. pose proof (Qabs_nonneg q). lra. Qed.

Lemma Qabs_cases q : (0 <= q /\ Qabs q == q) \/ (q < 0 /\ Qabs q == - q).
Proof.
  destruct (Qlt_le_dec q 0) as [H|H].
  - right. split; [assumption|]. apply Qabs_neg. lra.
  - left. split; [assumption|]. apply Qabs_pos. assumption.
Qed.

Lemma Qdiv_lt_cross a b c d :
  0 < b -> 0 < d -> a * d < c * b -> a / b < c / d.
Proof.
  intros Hb Hd H.
  apply Qlt_shift_div_r; [assumption|].
  assert (E : c / d * b == (c * b) / d) by (field; lra).
  rewrite E.
  apply Qlt_shift_div_l; assumption.
Qed.

Lemma sq_lt x y : x < y -> sq x < sq y.
Proof.
  intro H. unfold sq.
  apply Qdiv_lt_cross; [apply den_pos | apply den_pos |].
  destruct (Qabs_cases x) as [[Hx Ex]|[Hx Ex]];
  destruct (Qabs_cases y) as [[Hy Ey]|[Hy Ey]];
  rewrite Ex, Ey; nra.
Qed.

Lemma sq_eq x y : x == y -> sq x == sq y.
Proof. intro H. unfold sq. rewrite H. reflexivity. Qed.

Lemma sq_le x y : x <= y -> sq x <= sq y.
Proof.
  intro H. apply Qle_lteq in H. destruct H as [H|H].
  - apply Qlt_le_weak, sq_lt, H.
  - apply sq_eq in H. lra.
Qed.

Lemma sq_inj x y : ~ x == y -> ~ sq x == sq y.
Proof.
  intros H E.
  destruct (Q_dec x y) as [[L|L]|L].
  - apply sq_lt in L. lra.
  - apply sq_lt in L. lra.
  - contradiction.
Qed.

Lemma sq_range q : -1 < sq q < 1.
Proof.
  unfold sq. split.
  - apply Qlt_shift_div_l; [apply den_pos|].
    destruct (Qabs_cases q) as [[H E]|[H E]]; rewrite E; lra.
  - apply Qlt_shift_div_r; [apply den_pos|].
    destruct (Qabs_cases q) as [[H E]|[H E]]; rewrite E; lra.
Qed.

Lemma sq_0 : sq 0 == 0.
Proof. reflexivity. Qed.

Lemma Qlt_bool_true x y : Qlt_bool x y = true -> x < y.
Proof.
  unfold Qlt_bool. intro H. apply negb_true_iff in H.
  destruct (Qlt_le_dec x y) as [L|L]; [assumption|].
  apply Qle_bool_iff in L. congruence.
Qed.

Lemma Qlt_bool_false x y : Qlt_bool x y = false -> y <= x.
Proof.
  unfold Qlt_bool. intro H. apply negb_false_iff in H.
  apply Qle_bool_iff. assumption.
Qed.

Lemma Qle_bool_false x y : Qle_bool x y = false -> y < x.
Proof.
  intro H. destruct (Qlt_le_dec y x) as [L|L]; [assumption|].
  apply Qle_bool_iff in L. congruence.
Qed.

Lemma Qeq_bool_false x y : Qeq_bool x y = false -> ~ x == y.
Proof. intros H E. apply Qeq_bool_iff in E. congruence. Qed.

Definition qx_rk (x : qx) : Q :=
  match x with
  | QF q _ => sq q
  | QPInf => 1
  | QNInf => -1
  | QNaN => 0
  end.

Ltac qx_triv :=
  repeat split; try reflexivity; try discriminate; try lra.

#[export] Instance NumQLaws : NumLaws NumQ.
Proof.
  refine {| rk := qx_rk |}; unfold ok; cbn.
  - (* lt_true *)
    intros [a i| | |] [b j| | |] H; cbn in *; try discriminate H;
      try pose proof (sq_range a); try pose proof (sq_range b); qx_triv.
    apply sq_lt, Qlt_bool_true, H.
  - (* lt_false *)
    intros [a i| | |] [b j| | |] H Hx Hy; cbn in *;
      try discriminate;
      try pose proof (sq_range a); try pose proof (sq_range b); try lra.
    apply sq_le, Qlt_bool_false, H.
  - (* le_true *)
    intros [a i| | |] [b j| | |] H; cbn in *; try discriminate H;
      try pose proof (sq_range a); try pose proof (sq_range b); qx_triv.
    apply sq_le, Qle_bool_iff, H.
  - (* le_false *)
    intros [a i| | |] [b j| | |] H Hx Hy; cbn in *;
      try discriminate;
      try pose proof (sq_range a); try pose proof (sq_range b); try lra.
    apply sq_lt, Qle_bool_false, H.
  - (* eq_true *)
    intros [a i| | |] [b j| | |] H; cbn in *; try discriminate H; qx_triv.
    apply sq_eq, Qeq_bool_iff, H.
  - (* eq_false *)
    intros [a i| | |] [b j| | |] H Hx Hy; cbn in *;
      try discriminate;
      try pose proof (sq_range a); try pose proof (sq_range b); try lra.
    apply sq_inj, Qeq_bool_false, H.
  - (* rk_range *)
    intros [a i| | |]; cbn; try pose proof (sq_range a); lra.
  - (* inf_true *)
    intros [a i| | |] H; cbn in *; try discriminate H; split; try reflexivity.
    + left; reflexivity.
    + right; reflexivity.
  - (* inf_false *)
    intros [a i| | |] H Hx; cbn in *; try discriminate.
    apply sq_range.
  - reflexivity.
  - reflexivity.
  - reflexivity.
  - reflexivity.
  - reflexivity.
  - reflexivity.
  - vm_compute. split; reflexivity.
  - reflexivity.
  - reflexivity.
  - reflexivity.
  - (* float_rk *)
    intros [a i| | |] H; cbn in *; try discriminate H; split; reflexivity.
Defined. (* transparent, so that [rk] unfolds to [qx_rk] *)

Lemma rk_QF q i : rk (QF q i) = q / (1 + Qabs q).
Proof. reflexivity. Qed.
Lemma rk_QPInf : rk QPInf = 1.  Proof. reflexivity. Qed.
Lemma rk_QNInf : rk QNInf = -1. Proof. reflexivity. Qed.
Lemma rk_QNaN : rk QNaN = 0.    Proof. reflexivity. Qed.

(* Non-vacuity smoke tests: the comparisons compute. *)
Example numq_lt_ex : nlt (nadd n1 n1) n4 = true.
Proof. vm_compute. reflexivity. Qed.
Example numq_nan_ex : nisnan (nsub ninf ninf) = true.
Proof. vm_compute. reflexivity. Qed.
Example numq_div_ex : neqb (ndiv n1 n4) (QF (1 # 4) false) = true.
Proof. vm_compute. reflexivity. Qed.

Print Assumptions NumQLaws.

(* ---------- the arithmetic laws ---------- *)

Lemma Qle_bool_compat_l x y c : x == y -> Qle_bool x c = Qle_bool y c.
Proof.
  intro E. destruct (Qle_bool x c) eqn:Hx; destruct (Qle_bool y c) eqn:Hy; try reflexivity.
  - apply Qle_bool_iff in Hx. rewrite E in Hx. apply Qle_bool_iff in Hx. congruence.
  - apply Qle_bool_iff in Hy. rewrite <- E in Hy. apply Qle_bool_iff in Hy. congruence.
Qed.

Lemma Qabs_sub_sym a b : Qabs (b - a) == Qabs (a - b).
Proof.
  assert (E : b - a == - (a - b)) by ring.
  rewrite E. apply Qabs_opp.
Qed.

#[export] Instance NumQArith : ArithLaws NumQ NumQLaws.
Proof.
  split.
  - (* abs_sub_sym *)
    intros [a i| | |] [b j| | |] [c k| | |]; cbn; try reflexivity.
    apply Qle_bool_compat_l, Qabs_sub_sym.
  - (* div_one *)
    intros [a i| | |] H; unfold ok in *; cbn in *; try discriminate H.
    + split; [reflexivity|]. apply sq_eq. field.
    + split; reflexivity.
    + split; reflexivity.
Qed.

Print Assumptions NumQArith.
