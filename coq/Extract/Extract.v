(* Extraction of the executable model to OCaml (driver/main.ml links it). *)
From Coq Require Extraction ExtrOcamlBasic ExtrOcamlNativeString.
From Coq Require Import ZArith.
From Demes Require Import Base.Num Base.Py Model.MDM Model.Codec Model.SizeAt
  Model.MigMat Model.Ancestry Model.InGen Model.Rename Model.Close Model.Resolve Model.Simplify Model.IO Model.Validb Model.MsOpt Model.ToMs Model.FromMs Model.FloatStr
  Spec.MsSem Spec.SemEquiv Model.Steps.
Extraction Language OCaml.
Extraction "model.ml" size_at deme_of_jv graph_of_jv asdict jv_of_index isclose pysum
  lookup contains migration_matrices check_migration_rates successors predecessors
  discrete_events in_generations rename_demes close_graph fromdict asdict_simplified
  stringify_infinities unstringify_infinities no_null_values load_post load_asdict_post dump_pre validb to_ms_events check_at check_moves_at from_ms build_doc ms_at ms_moves norm_mig ms_size_of alive fixed10 check_graphs_at check_gmoves_at
  steps_in_generations steps_asdict steps_events steps_migmat steps_fromdict steps_to_ms gsize
  Z.add Z.mul Z.sub Z.opp Z.abs Z.div_eucl Pos.succ.
