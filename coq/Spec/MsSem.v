(* The demography an ms command line denotes (Hudson's ms manual, backwards-time
   rules), for the options demes supports.  This is specification, written as
   an executable interpreter:  ms_at cmd t  is the state in force at ms-time t
   (events at time t included: they govern [t, next)), and  ms_moves cmd t  the
   backwards lineage-movement matrix of the -es / -ej events at exactly time t.
   Units are ms's: sizes in N0, times in 4*N0 generations, M = 4*N0*m.
   M[i][j] is the rate at which a lineage in population i moves (backwards in
   time) to population j.  Populations are 0-based here (event records carry
   ms's 1-based indices). *)
From Coq Require Import Bool List String.
From Demes Require Import Base.Num Base.Py Model.MsOpt.
Import ListNotations.

Section MsSem.
  Context {N : NumOps}.

  Record mpop := mkPop {
    mp_size : num;       (* size at time mp_t, in units of N0 *)
    mp_alpha : num;      (* growth rate: N(t) = size * exp(-alpha * (t - mp_t)) *)
    mp_t : num;          (* anchor time *)
    mp_born : num;       (* time the population was created by -es (0 for the initial ones) *)
    mp_joined : option num  (* time it was emptied by -ej *) }.

  Record mstate := mkSt { st_pops : list mpop; st_mig : list (list num) }.

  Definition ms_size_of (p : mpop) (t : num) : num :=
    if neqb (mp_alpha p) n0 then mp_size p
    else nmul (mp_size p) (nexp (nmul (nsub n0 (mp_alpha p)) (nsub t (mp_t p)))).

  Fixpoint upd {A} (i : nat) (f : A -> A) (l : list A) : list A :=
    match l, i with
    | [], _ => []
    | x :: l', O => f x :: l'
    | x :: l', S i' => x :: upd i' f l'
    end.
  Fixpoint mapi {A B} (i : nat) (f : nat -> A -> B) (l : list A) : list B :=
    match l with [] => [] | x :: l' => f i x :: mapi (S i) f l' end.

  Definition alive (p : mpop) : bool := match mp_joined p with None => true | Some _ => false end.

  (* change the growth rate at t: size stays continuous, anchor moves to t *)
  Definition regrow (t alpha : num) (p : mpop) : mpop :=
    mkPop (ms_size_of p t) alpha t (mp_born p) (mp_joined p).
  Definition resize (t x : num) (keep_alpha : bool) (p : mpop) : mpop :=
    mkPop x (if keep_alpha then mp_alpha p else n0) t (mp_born p) (mp_joined p).

  Definition npops (s : mstate) : nat := List.length (st_pops s).
  Definition nat_num (k : nat) : num := Nat.iter k (fun x => nadd x n1) n0.

  (* ms rejects indices outside 1..npop; a joined population has no lineages, events on it are void *)
  Definition apply_ev (s : mstate) (e : msev) : res mstate :=
    let n := npops s in
    let ok_idx i := Nat.leb 1 i && Nat.leb i n in
    match e with
    | EvG t a => Ok (mkSt (map (fun p => if alive p then regrow t a p else p) (st_pops s)) (st_mig s))
    | Evg t i a =>
        raise_if (negb (ok_idx i)) ValueErr ;;;
        Ok (mkSt (upd (i - 1) (regrow t a) (st_pops s)) (st_mig s))
    | EvN t x => Ok (mkSt (map (fun p => if alive p then resize t x false p else p) (st_pops s)) (st_mig s))
    | Evn t i x timed =>
        raise_if (negb (ok_idx i)) ValueErr ;;;
        Ok (mkSt (upd (i - 1) (resize t x (negb timed)) (st_pops s)) (st_mig s))
    | EvM t x =>
        let v := ndiv x (nat_num (n - 1)) in
        Ok (mkSt (st_pops s)
                 (mapi 0 (fun i row => mapi 0 (fun j y => if Nat.eqb i j then y else v) row) (st_mig s)))
    | Evm t i j x =>
        raise_if (negb (ok_idx i && ok_idx j) || Nat.eqb i j) ValueErr ;;;
        Ok (mkSt (st_pops s) (upd (i - 1) (upd (j - 1) (fun _ => x)) (st_mig s)))
    | Evma t np m _ =>
        raise_if (negb (Nat.eqb np n)) ValueErr ;;;
        Ok (mkSt (st_pops s)
                 (mapi 0 (fun i row => mapi 0 (fun j y => if Nat.eqb i j then nf0
                                                         else nth j (nth i m []) nf0) row) (st_mig s)))
    | Evs t i p =>
        raise_if (negb (ok_idx i)) ValueErr ;;;
        Ok (mkSt (st_pops s ++ [mkPop n1 n0 t t None])
                 (map (fun row => row ++ [nf0]) (st_mig s) ++ [repeat nf0 (S n)]))
    | Evj t i j =>
        raise_if (negb (ok_idx i && ok_idx j) || Nat.eqb i j) ValueErr ;;;
        Ok (mkSt (upd (i - 1) (fun p => mkPop (mp_size p) (mp_alpha p) (mp_t p) (mp_born p) (Some t)) (st_pops s))
                 (st_mig s))
    end.

  (* entries into or out of an emptied population are void; report them as 0 *)
  Definition norm_mig (s : mstate) : list (list num) :=
    mapi 0 (fun i row =>
              mapi 0 (fun j y =>
                        if Nat.eqb i j then nf0
                        else match nth_error (st_pops s) i, nth_error (st_pops s) j with
                             | Some pi, Some pj => if alive pi && alive pj then y else nf0
                             | _, _ => nf0
                             end) row) (st_mig s).

  Definition init_state (c : mscmd) : mstate :=
    let n := c_npop c in
    let v := if Nat.leb 2 n then ndiv (c_irate c) (nat_num (n - 1)) else nf0 in
    mkSt (repeat (mkPop n1 n0 n0 n0 None) n)
         (mapi 0 (fun i row => mapi 0 (fun j (_ : unit) => if Nat.eqb i j then nf0 else v) row)
               (repeat (repeat tt n) n)).

  Definition all_events (c : mscmd) : list msev := c_init c ++ sort_events (c_events c).

  (* state in force at time t: every event with time <= t applied, in order *)
  Definition ms_at (c : mscmd) (t : num) : res mstate :=
    foldM (fun s e => if nle (ev_time e) t then apply_ev s e else Ok s) (all_events c) (init_state c).

  (* -es / -ej events at exactly time t (up to the closeness test [same]), in order: the matrix
     P[r][k] = probability that a lineage in population r just before t (younger side) is in
     population k just after (older side).  Rows: populations existing before; columns: after. *)
  Definition ms_moves (same : num -> num -> bool) (c : mscmd) (t : num) : res (list (list num)) :=
    before <- foldM (fun s e => if nlt (ev_time e) t && negb (same (ev_time e) t) then apply_ev s e else Ok s)
                    (all_events c) (init_state c) ;;
    let n0' := npops before in
    let ident := mapi 0 (fun i (_ : mpop) => mapi 0 (fun j (_ : mpop) => if Nat.eqb i j then nf1 else nf0)
                                                  (st_pops before)) (st_pops before) in
    r <- foldM (fun (acc : list (list num) * nat) e =>
                  let '(P, n) := acc in
                  if same (ev_time e) t then
                    match e with
                    | Evs _ i p =>
                        raise_if (negb (Nat.leb 1 i && Nat.leb i n)) ValueErr ;;;
                        Ok (map (fun row => let x := nth (i - 1) row nf0 in
                                            upd (i - 1) (fun _ => nmul p x) row ++ [nmul (nsub n1 p) x]) P, S n)
                    | Evj _ i j =>
                        raise_if (negb (Nat.leb 1 i && Nat.leb i n && Nat.leb 1 j && Nat.leb j n)
                                  || Nat.eqb i j) ValueErr ;;;
                        Ok (map (fun row => let x := nth (i - 1) row nf0 in
                                            upd (i - 1) (fun _ => nf0)
                                                (upd (j - 1) (fun y => nadd y x) row)) P, n)
                    | _ => Ok acc
                    end
                  else Ok acc)
               (all_events c) (ident, n0') ;;
    Ok (fst r).
End MsSem.
