(* The invariants of the Demes fully-resolved data model, stated
   declaratively (quantifying over demes, pairs and times; no matrices, no
   reference to how the library checks them).  This is the meaning of "valid
   graph" in every theorem, and what C01 says every returned graph satisfies. *)
From Coq Require Import Bool List String Ascii Arith.
From Demes Require Import Base.Num Base.Py Model.MDM.
Import ListNotations.

(* str.isidentifier restricted to ASCII: [A-Za-z_][A-Za-z0-9_]*.  Names with
   non-ASCII bytes are outside the model (the real rule is Unicode XID). *)
Definition is_alpha_ (c : ascii) : bool :=
  let n := nat_of_ascii c in
  ((65 <=? n) && (n <=? 90)) || ((97 <=? n) && (n <=? 122)) || (n =? 95).
Definition is_alnum_ (c : ascii) : bool :=
  let n := nat_of_ascii c in is_alpha_ c || ((48 <=? n) && (n <=? 57)).
Fixpoint all_chars (f : ascii -> bool) (s : string) : bool :=
  match s with EmptyString => true | String c s' => f c && all_chars f s' end.
Definition is_identifier (s : string) : bool :=
  match s with
  | EmptyString => false
  | String c s' => is_alpha_ c && all_chars is_alnum_ s'
  end.

Local Open Scope string_scope.
Local Open Scope list_scope.

Section Valid.
  Context {N : NumOps}.

  Definition pos_fin (x : num) : Prop := nlt n0 x = true /\ nisinf x = false.
  Definition in_unit (x : num) : Prop := nle n0 x = true /\ nle x n1 = true.
  Definition in_unit_lo (x : num) : Prop := nlt n0 x = true /\ nle x n1 = true.

  Record ValidEpoch (e : epoch) : Prop := {
    ve_end_nonneg : nle n0 (e_end e) = true;
    ve_end_fin : nisinf (e_end e) = false;
    ve_order : nlt (e_end e) (e_start e) = true;
    ve_ssize : pos_fin (e_ssize e);
    ve_esize : pos_fin (e_esize e);
    ve_sf : In (e_sf e) ["constant"; "exponential"; "linear"];
    ve_const : e_sf e = "constant" -> neqb (e_ssize e) (e_esize e) = true;
    ve_inf : nisinf (e_start e) = true -> neqb (e_ssize e) (e_esize e) = true;
    ve_self : in_unit (e_self e);
    ve_clone : in_unit (e_clone e) }.

  (* epochs are contiguous: the first starts at [s], each next one where the
     previous ended *)
  Fixpoint Chain (s : num) (es : list epoch) : Prop :=
    match es with
    | [] => True
    | e :: es' => neqb (e_start e) s = true /\ Chain (e_end e) es'
    end.

  (* the deme's end time: end of its last epoch *)
  Definition DEnd (d : deme) (x : num) : Prop := d_end d = Ok x.

  (* [Alive a t]: ancestor a exists at the descendant's start time t,
     start exclusive, end inclusive *)
  Definition Alive (a : deme) (t : num) : Prop :=
    exists ea, DEnd a ea /\ nlt t (d_start a) = true /\ nle ea t = true.

  Record ValidDeme (earlier : list deme) (d : deme) : Prop := {
    vd_name : is_identifier (d_name d) = true;
    vd_fresh : ~ In (d_name d) (map d_name earlier);
    vd_start : nlt n0 (d_start d) = true;
    vd_anc_nodup : NoDup (d_anc d);
    vd_anc : forall a, In a (d_anc d) ->
               exists ad, In ad earlier /\ d_name ad = a /\ Alive ad (d_start d);
    vd_root : d_anc d = [] <-> nisinf (d_start d) = true;
    vd_props_len : List.length (d_props d) = List.length (d_anc d);
    vd_props : forall p, In p (d_props d) -> in_unit_lo p;
    vd_props_sum : d_props d <> [] -> isclose0 (pysum (d_props d)) nf1 = true;
    vd_epochs_ne : d_epochs d <> [];
    vd_chain : Chain (d_start d) (d_epochs d);
    vd_epochs : forall e, In e (d_epochs d) -> ValidEpoch e }.

  Fixpoint ValidDemes (earlier rest : list deme) : Prop :=
    match rest with
    | [] => True
    | d :: rest' => ValidDeme earlier d /\ ValidDemes (earlier ++ [d]) rest'
    end.

  Definition find_deme (g : graph) (name : string) : option deme :=
    find (fun d => String.eqb (d_name d) name) (g_demes g).

  (* closed coexistence interval [lo, hi] of two demes *)
  Definition Coexist (a b : deme) (lo hi : num) : Prop :=
    exists ea eb, DEnd a ea /\ DEnd b eb /\
      lo = (if nlt ea eb then eb else ea) /\            (* max(a.end, b.end) *)
      hi = (if nlt (d_start b) (d_start a) then d_start b else d_start a).
                                                        (* min(a.start, b.start) *)
  Definition Within (lo hi t : num) : Prop := nle lo t = true /\ nle t hi = true.

  Record ValidMig (g : graph) (m : mig) : Prop := {
    vm_distinct : m_src m <> m_dst m;
    vm_demes : exists s d lo hi,
        find_deme g (m_src m) = Some s /\ find_deme g (m_dst m) = Some d /\
        Coexist s d lo hi /\ Within lo hi (m_start m) /\ Within lo hi (m_end m);
    vm_order : nlt (m_end m) (m_start m) = true;
    vm_end_fin : nisinf (m_end m) = false;
    vm_end_nonneg : nle n0 (m_end m) = true;
    vm_rate : in_unit (m_rate m) }.

  (* migration m is in force at time t: start exclusive, end inclusive *)
  Definition Active (m : mig) (t : num) : Prop :=
    nlt t (m_start m) = true /\ nle (m_end m) t = true.
  Definition activeb (m : mig) (t : num) : bool :=
    nlt t (m_start m) && nle (m_end m) t.

  (* at most one migration per ordered pair at any time *)
  Definition NoOverlap (ms : list mig) : Prop :=
    forall i j a b t, i <> j -> nth_error ms i = Some a -> nth_error ms j = Some b ->
      m_src a = m_src b -> m_dst a = m_dst b -> ok t ->
      Active a t -> Active b t -> False.

  (* rate of migration src -> dst in force at t (0.0 when none) *)
  Definition rate_at (ms : list mig) (src dst : string) (t : num) : num :=
    match find (fun m => String.eqb (m_src m) src && String.eqb (m_dst m) dst
                         && activeb m t) ms with
    | Some m => nfloat (m_rate m)
    | None => nf0
    end.

  (* total ingress into dst at t, summed over sources in deme order *)
  Definition ingress (g : graph) (dst : string) (t : num) : num :=
    pysum (map (fun s => rate_at (g_migs g) (d_name s) dst t) (g_demes g)).

  Definition IngressOK (g : graph) : Prop :=
    forall d t, In d (g_demes g) -> ok t -> nle n0 t = true -> nisinf t = false ->
      let s := ingress g (d_name d) t in
      nle s n1 = true \/ isclose0 s n1 = true.

  Record ValidPulse (g : graph) (p : pulse) : Prop := {
    vp_srcs_ne : p_srcs p <> [];
    vp_srcs_nodup : NoDup (p_srcs p);
    vp_not_dest : ~ In (p_dst p) (p_srcs p);
    vp_props_len : List.length (p_props p) = List.length (p_srcs p);
    vp_props : forall x, In x (p_props p) -> in_unit_lo x;
    vp_sum : nlt n1 (pysum (p_props p)) = false;
    vp_time : pos_fin (p_time p);
    vp_dest : exists d ed, find_deme g (p_dst p) = Some d /\ DEnd d ed /\
                neqb (p_time p) ed = false;
    vp_sources : forall s, In s (p_srcs p) ->
        exists sd d lo hi, find_deme g s = Some sd /\ find_deme g (p_dst p) = Some d /\
          Coexist sd d lo hi /\ Within lo hi (p_time p) /\
          neqb (p_time p) (d_start sd) = false }.

  (* pulses are listed oldest first *)
  Fixpoint PulsesSorted (ps : list pulse) : Prop :=
    match ps with
    | p :: ((q :: _) as ps') => nle (p_time q) (p_time p) = true /\ PulsesSorted ps'
    | _ => True
    end.

  Fixpoint index_from (i : nat) (ds : list deme) : list (string * nat) :=
    match ds with [] => [] | d :: ds' => (d_name d, i) :: index_from (S i) ds' end.

  Definition is_mapping (v : jv) : bool :=
    match v with JDict _ => true | _ => false end.

  Record Valid (g : graph) : Prop := {
    v_units : g_units g <> "";
    v_gt : pos_fin (g_gt g);
    v_gen : g_units g = "generations" -> neqb (g_gt g) n1 = true;
    v_doi : forall s, In s (g_doi g) -> s <> "";
    v_meta : is_mapping (g_meta g) = true;
    v_demes_ne : g_demes g <> [];
    v_demes : ValidDemes [] (g_demes g);
    v_migs : forall m, In m (g_migs g) -> ValidMig g m;
    v_overlap : NoOverlap (g_migs g);
    v_ingress : IngressOK g;
    v_pulses : forall p, In p (g_pulses g) -> ValidPulse g p;
    v_pulse_order : PulsesSorted (g_pulses g);
    v_index : g_index g = index_from 0 (g_demes g) }.
End Valid.
