(* Comparing the demography of a graph (in generations) with the demography an ms
   command denotes (Spec/MsSem.v), at a time t / at an event time b.  Population
   k of the command corresponds to the deme at position popmap[k]... precisely:
   [popmap] lists, for each deme of the graph in order, the 0-based ms population
   it corresponds to.  Sizes are compared as N0 * ms size, times as 4*N0 * ms
   time, rates as M / (4*N0).  The result is a list of discrepancy codes (empty
   = agreement at that time); [close] is the numeric closeness test to use. *)
From Coq Require Import Bool List String.
From Demes Require Import Base.Num Base.Py Model.MDM Model.SizeAt Model.MsOpt Spec.Valid Spec.MsSem.
Import ListNotations.
Local Open Scope string_scope.
Local Open Scope list_scope.

Section SemEquiv.
  Context {N : NumOps}.

  Definition dend0 (d : deme) : num :=
    match rev (d_epochs d) with e :: _ => e_end e | [] => n0 end.
  (* the deme exists at t: end <= t < start *)
  Definition exists_at (d : deme) (t : num) : bool := nle (dend0 d) t && nlt t (d_start d).

  (* --- graph side: backwards lineage movements at exactly time b --- *)
  Definition gmoves (same : num -> num -> bool) (g : graph) (b : num) : list (list num) :=
    let ds := g_demes g in
    let names := map d_name ds in
    let idx nm := match index_of nm names with Some i => i | None => List.length ds end in
    let ident := mapi 0 (fun i (_ : deme) => mapi 0 (fun j (_ : deme) => if Nat.eqb i j then nf1 else nf0) ds) ds in
    (* pulses at b, in reverse listing order *)
    let P1 := fold_left
                (fun P p =>
                   if same (p_time p) b then
                     let d := idx (p_dst p) in
                     map (fun row =>
                            let x := nth d row nf0 in
                            let row1 := fold_left (fun r sp => upd (idx (fst sp)) (fun y => nadd y (nmul (snd sp) x)) r)
                                                  (combine (p_srcs p) (p_props p)) row in
                            upd d (fun _ => nmul (nsub n1 (pysum (p_props p))) x) row1) P
                   else P)
                (rev (g_pulses g)) ident in
    (* then demes starting at b hand their lineages to their ancestors *)
    fold_left
      (fun P dk =>
         if same (d_start dk) b then
           let k := idx (d_name dk) in
           map (fun row =>
                  let x := nth k row nf0 in
                  let row1 := fold_left (fun r ap => upd (idx (fst ap)) (fun y => nadd y (nmul (snd ap) x)) r)
                                        (combine (d_anc dk) (d_props dk)) row in
                  upd k (fun _ => nf0) row1) P
         else P)
      ds P1.

  Definition code := (string * nat * nat)%type.

  (* --- sizes and rates at a time t (generations) --- *)
  Definition check_at (close : num -> num -> bool) (g : graph) (N0 : num) (c : mscmd)
             (popmap : list nat) (t : num) : res (list code) :=
    let n4N0 := nmul n4 N0 in
    s <- ms_at c (ndiv t n4N0) ;;
    let M := norm_mig s in
    let ds := g_demes g in
    let dpm := combine ds popmap in
    let sizes :=
        flat_map (fun (x : nat * (deme * nat)) =>
                    let '(i, (d, k)) := x in
                    if exists_at d t then
                      match size_at d t, nth_error (st_pops s) k with
                      | Ok v, Some p =>
                          if alive p && close v (nmul N0 (ms_size_of p (ndiv t n4N0))) then []
                          else [("size", i, k)]
                      | _, _ => [("size-undefined", i, k)]
                      end
                    else [])
                 (mapi 0 (fun i x => (i, x)) dpm) in
    let rates :=
        flat_map (fun (x : nat * (deme * nat)) =>
                    let '(i, (dd, kd)) := x in
                    flat_map (fun (y : nat * (deme * nat)) =>
                                let '(j, (sd, ks)) := y in
                                if Nat.eqb i j then []
                                else
                                  let gr := rate_at (g_migs g) (d_name sd) (d_name dd) t in
                                  let mr := ndiv (nth ks (nth kd M []) nf0) n4N0 in
                                  if close gr mr then [] else [("rate", i, j)])
                             (mapi 0 (fun j y => (j, y)) dpm))
                 (mapi 0 (fun i x => (i, x)) dpm) in
    Ok (sizes ++ rates).

  (* --- lineage movements at an event time b (generations) --- *)
  Definition check_moves_at (close same : num -> num -> bool) (g : graph) (N0 : num) (c : mscmd)
             (popmap : list nat) (b : num) : res (list code) :=
    let n4N0 := nmul n4 N0 in
    let same_ms t1 t2 := same (nmul t1 n4N0) (nmul t2 n4N0) in
    Pm <- ms_moves same_ms c (ndiv b n4N0) ;;
    let Pg := gmoves same g b in
    let ds := g_demes g in
    let dpm := mapi 0 (fun i x => (i, x)) (combine ds popmap) in
    Ok (flat_map (fun (x : nat * (deme * nat)) =>
                    let '(i, (d1, k1)) := x in
                    (* rows: demes that exist on the younger side of b *)
                    if nlt (dend0 d1) b && (nle b (d_start d1) || same b (d_start d1)) && negb (same (dend0 d1) b) then
                      flat_map (fun (y : nat * (deme * nat)) =>
                                  let '(j, (_, k2)) := y in
                                  let pg := nth j (nth i Pg []) nf0 in
                                  let pm := nth k2 (nth k1 Pm []) nf0 in
                                  if close pg pm then [] else [("move", i, j)])
                               dpm
                    else [])
                 dpm).

  (* --- graph against graph (demes matched by position in [pairs]: indices into the two deme lists) --- *)
  Definition check_graphs_at (close : num -> num -> bool) (g h : graph) (pairs : list (nat * nat)) (t : num)
    : list code :=
    let dg i := nth_error (g_demes g) i in
    let dh i := nth_error (g_demes h) i in
    flat_map (fun ij : nat * nat =>
                match dg (fst ij), dh (snd ij) with
                | Some a, Some b =>
                    (* sizes over the lifetime of the deme in g (the original) *)
                    (if exists_at a t then
                       match size_at a t, size_at b t with
                       | Ok x, Ok y => if close x y then [] else [("size", fst ij, snd ij)]
                       | _, _ => [("size-undefined", fst ij, snd ij)]
                       end
                     else [])
                    ++ flat_map (fun kl : nat * nat =>
                                   match dg (fst kl), dh (snd kl) with
                                   | Some c, Some d =>
                                       if Nat.eqb (fst ij) (fst kl) then []
                                       else if close (rate_at (g_migs g) (d_name c) (d_name a) t)
                                                     (rate_at (g_migs h) (d_name d) (d_name b) t)
                                            then [] else [("rate", fst ij, fst kl)]
                                   | _, _ => []
                                   end) pairs
                | _, _ => [("missing-deme", fst ij, snd ij)]
                end) pairs.

  Definition check_gmoves_at (close same : num -> num -> bool) (g h : graph) (pairs : list (nat * nat)) (b : num)
    : list code :=
    let Pg := gmoves same g b in
    let Ph := gmoves same h b in
    flat_map (fun ij : nat * nat =>
                match nth_error (g_demes g) (fst ij) with
                | Some d1 =>
                    if nlt (dend0 d1) b && (nle b (d_start d1) || same b (d_start d1)) && negb (same (dend0 d1) b) then
                      flat_map (fun kl : nat * nat =>
                                  if close (nth (fst kl) (nth (fst ij) Pg []) nf0) (nth (snd kl) (nth (snd ij) Ph []) nf0)
                                  then [] else [("move", fst ij, fst kl)]) pairs
                    else []
                | None => []
                end) pairs.
End SemEquiv.
