(* placeholder, replaced when the proofs for C03 are merged *)
From Demes Require Import Base.Num.
Theorem C03_placeholder : True.
Proof. exact I. Qed.
