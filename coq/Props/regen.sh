#!/bin/sh
# regenerates Props/C02.v and Props/C07.v from the proved statements (run from /verif/coq)
python3 ../harness/mkprops.py C02 Props/headers/h02.txt \
  Proofs/ResolveRules.v:field_explicit,field_default,merge_local_wins,merge_global_fallback,infer_start_root,infer_start_single,infer_props_single,infer_props_none,infer_first_end_size,infer_first_start_size,infer_later_start_size,infer_later_end_size,infer_size_function,symmetric_expands,perms2_spec,infer_mig_bounds,sort_pulses_perm,sort_pulses_stable \
  Proofs/DocRules.v Proofs/DocOrder.v Proofs/DocCompose.v top:Proofs/DocCompose.v:dc_docs_respell,dc_doc2_resolves_by_theorem,dc_same_outcome > Props/C02.v
python3 ../harness/mkprops.py C07 Props/headers/h07.txt \
  Proofs/MsProofs.v:sort_events_perm,sort_events_sorted,sort_events_id,to_ms_numbering,to_ms_refuses_linear,to_ms_refuses_multisource \
  Proofs/MsRates.v Proofs/SplitChain.v:ancestry_events_chain \
  Proofs/MsGrowth.v \
  top:Proofs/SplitChain.v:chain_correct,chain_total,split_chain_moves top:Proofs/MsMoves.v:to_ms_moves_at,to_ms_moves topR:Proofs/MsSizeR.v > Props/C07.v
python3 ../harness/mkprops.py C20 Props/headers/h20.txt \
  Proofs/CostProofs.v:search_cost_erases,search_cost_complete,search_cost_lower,ring_no_clique,ring_cost_lower,ring_cost_exponential \
  Proofs/StepsProofs.v > Props/C20.v
python3 ../harness/mkprops.py C08 Props/headers/h08.txt \
  Proofs/MsProofs.v:build_graph_valid,from_ms_valid,build_graph_generations,en_resets_growth,en_resets_growth_unchanged_case,group_by_time_concat,group_by_time_same \
  Proofs/FromMsRefine.v Proofs/FromMsHistory.v Proofs/MigsFromMatrices.v Proofs/FromMsRates.v \
  Proofs/FromMsGrowth.v:OkEv_of_valid,step_growth_refine,finish_group_growth,run_groups_growth_refine,run_groups_both_refine,init_growth tail:Props/headers/t08.txt > Props/C08.v
