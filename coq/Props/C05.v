(* placeholder, replaced when the proofs for C05 are merged *)
From Demes Require Import Base.Num.
Theorem C05_placeholder : True.
Proof. exact I. Qed.
