(* placeholder, replaced when the proofs for C04 are merged *)
From Demes Require Import Base.Num.
Theorem C04_placeholder : True.
Proof. exact I. Qed.
