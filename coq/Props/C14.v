(* placeholder, replaced when the proofs for C14 are merged *)
From Demes Require Import Base.Num.
Theorem C14_placeholder : True.
Proof. exact I. Qed.
