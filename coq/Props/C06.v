(* placeholder, replaced when the proofs for C06 are merged *)
From Demes Require Import Base.Num.
Theorem C06_placeholder : True.
Proof. exact I. Qed.
