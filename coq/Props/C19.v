(* C19 — the command line prints exactly what the library would.
   Theorems only; proofs in Model/Cli.v: the dispatch of `demes parse` over flags and
   document count, with the renderers abstract and the input a lazy stream of documents each
   of which may fail to load.  The look-ahead that counts documents loses, duplicates and
   reorders nothing; zero documents print nothing; one document prints exactly the selected
   renderer's output; several documents with a non-YAML output are an error with no output;
   several documents in YAML print every document in order up to the first that fails.
   [ms_given] is "the --ms option was given" (fix 3a31929: any value, 0 included).
   Byte equality with the library calls and exit statuses are checked on the implementation. *)
From Coq Require Import Bool List Arith.
From Demes Require Import Base.Num Base.Py Model.Cli.
Import ListNotations.

Section C19.
  Context {G : Type} {T : Type}.
  Variable dump_yaml : bool -> G -> T.
  Variable dump_json : bool -> G -> res T.
  Variable to_ms : G -> res T.
  Variable dump_doc_multi : bool -> G -> T.
  Let parse := parse_command dump_yaml dump_json to_ms dump_doc_multi.

  Theorem C19_lookahead_chain k (s : list (res G)) first rest :
    pull k s = Ok (first, rest) -> map Ok first ++ rest = s /\ List.length first <= k.
  Proof. exact (pull_chain k s first rest). Qed.

  Theorem C19_count (s : list (res G)) first rest :
    pull 2 s = Ok (first, rest) -> List.length first = Nat.min 2 (List.length s).
  Proof. exact (pull_count s first rest). Qed.

  Theorem C19_early_error json ms_given simplified s e :
    pull 2 s = Err e -> parse json ms_given simplified s = mkR [] (Some e).
  Proof. exact (parse_early_error dump_yaml dump_json to_ms dump_doc_multi json ms_given simplified s e). Qed.

  Theorem C19_empty json ms_given simplified : parse json ms_given simplified [] = mkR [] None.
  Proof. exact (parse_empty dump_yaml dump_json to_ms dump_doc_multi json ms_given simplified). Qed.

  Theorem C19_one_document json ms_given simplified g :
    parse json ms_given simplified [Ok g] =
      if ms_given then match to_ms g with Ok t => mkR [t] None | Err e => mkR [] (Some e) end
      else if json then match dump_json simplified g with Ok t => mkR [t] None | Err e => mkR [] (Some e) end
      else mkR [dump_yaml simplified g] None.
  Proof. exact (parse_one dump_yaml dump_json to_ms dump_doc_multi json ms_given simplified g). Qed.

  Theorem C19_many_not_yaml json ms_given simplified s first rest :
    pull 2 s = Ok (first, rest) -> List.length first = 2 -> (json = true \/ ms_given = true) ->
    parse json ms_given simplified s = mkR [] (Some RuntimeErr).
  Proof. exact (parse_many_not_yaml dump_yaml dump_json to_ms dump_doc_multi json ms_given simplified s first rest). Qed.

  Theorem C19_many_yaml simplified s first rest :
    pull 2 s = Ok (first, rest) -> List.length first = 2 ->
    parse false false simplified s =
      mkR (map (dump_doc_multi simplified) (fst (good_prefix s))) (snd (good_prefix s)).
  Proof. exact (parse_many_yaml dump_yaml dump_json to_ms dump_doc_multi simplified s first rest). Qed.
End C19.

Print Assumptions C19_lookahead_chain.
Print Assumptions C19_count.
Print Assumptions C19_early_error.
Print Assumptions C19_empty.
Print Assumptions C19_one_document.
Print Assumptions C19_many_not_yaml.
Print Assumptions C19_many_yaml.
