(* placeholder, replaced when the proofs for C15 are merged *)
From Demes Require Import Base.Num.
Theorem C15_placeholder : True.
Proof. exact I. Qed.
