(* placeholder, replaced when the proofs for C01 are merged *)
From Demes Require Import Base.Num.
Theorem C01_placeholder : True.
Proof. exact I. Qed.
