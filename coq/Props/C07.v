(* placeholder, replaced when the proofs for C07 are merged *)
From Demes Require Import Base.Num.
Theorem C07_placeholder : True.
Proof. exact I. Qed.
