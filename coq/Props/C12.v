(* placeholder, replaced when the proofs for C12 are merged *)
From Demes Require Import Base.Num.
Theorem C12_placeholder : True.
Proof. exact I. Qed.
