(* placeholder, replaced when the proofs for C02 are merged *)
From Demes Require Import Base.Num.
Theorem C02_placeholder : True.
Proof. exact I. Qed.
