(* placeholder, replaced when the proofs for C20 are merged *)
From Demes Require Import Base.Num.
Theorem C20_placeholder : True.
Proof. exact I. Qed.
