(* C17 — file handles are never leaked and caller streams never closed.
   Theorems only; proofs in Model/Files.v (a small self-contained state machine).
   - C17_with_block: _open_file_polymorph as a with-block around an ARBITRARY body (a function
     that may return or raise): every handle the library opened is closed afterwards and no
     caller stream is closed.  Every load / dump entry point is one such with-block.
   - C17_load_all: the generator load_all under EVERY sequence of next() / close() calls,
     whatever documents the stream holds (any of them may fail): caller streams are never
     closed, everything is closed once the generator is exhausted, failed or closed, and a
     generator that was never started has opened nothing.
   CPython's context-manager and generator semantics (finally blocks run on GeneratorExit and
   on garbage collection) are modelled, not verified; the implementation is driven through
   every (entry point, target, failure point) triple by the check. *)
From Coq Require Import List.
From Demes Require Import Base.Num Base.Py Model.Files.
Import ListNotations.

Theorem C17_with_block {A} tg (body : nat -> res A) t :
  all_closed t ->
  all_closed (snd (with_open tg body t)) /\
  f_caller_closed (snd (with_open tg body t)) = f_caller_closed t.
Proof. exact (with_open_closes tg body t). Qed.

Theorem C17_load_all {D} (tg : target) (docs : list (res D)) (ops : list gop) :
  let '(s, t) := grun (GCreated tg docs) ops ftab0 in
  f_caller_closed t = [] /\
  (s = GDone -> all_closed t) /\
  (forall tg' d', s = GCreated tg' d' -> f_owned t = []).
Proof. exact (load_all_handles tg docs ops). Qed.

Print Assumptions C17_with_block.
Print Assumptions C17_load_all.
