(* placeholder, replaced when the proofs for C10 are merged *)
From Demes Require Import Base.Num.
Theorem C10_placeholder : True.
Proof. exact I. Qed.
