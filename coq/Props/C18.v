(* placeholder, replaced when the proofs for C18 are merged *)
From Demes Require Import Base.Num.
Theorem C18_placeholder : True.
Proof. exact I. Qed.
