(* C18 — resolution is a pure function of its input.
   Theorems only; proofs in Model/Heap.v, a store-with-references model (addresses, dict and
   list nodes, atoms) in which sharing and mutation are expressible — in the value-level model
   Model/Resolve.v purity and determinism hold by construction (fromdict is a Coq function).
   copy_unshared is the model of demes.demes._copy_unshared (fix b63aa29).  For every store,
   root and fuel:
   - C18_copy_fresh: the copy only appends nodes and everything reachable from the copy is fresh;
   - C18_copy_value: the copy denotes the same tree as the original;
   - C18_frame: NO sequence of mutations by a consumer that starts from the copy (it may write any
     node it can reach or has allocated, storing only references it holds — popping keys,
     inserting defaults, appending, sorting are all of this form) changes any node of the
     caller's store — on success and on every failure path alike, since the statement is about
     every prefix of every mutation sequence;
   - C18_copy_is_a_tree: no fresh node is referenced twice, so consuming one position cannot
     affect another (the defect F4 fixed by b63aa29; Model/Heap.v also contains the computed
     example in which a sharing-preserving copy empties the second user of a shared list).
   That Builder.resolve / Graph.fromdict behave so on CPython objects is checked on the
   implementation with mutation-logging containers. *)
From Coq Require Import List Arith.
From Demes Require Import Model.Heap.
Import ListNotations.

Theorem C18_copy_fresh fuel st v st' v' :
  copy_unshared fuel st v = Some (st', v') ->
  (exists ext, st' = st ++ ext) /\
  firstn (length st) st' = st /\
  (forall a, Reach st' v' a -> length st <= a).
Proof. exact (copy_fresh fuel st v st' v'). Qed.

Theorem C18_copy_value fuel st v st' v' :
  copy_unshared fuel st v = Some (st', v') ->
  forall fuel2 t, unfold fuel2 st v = Some t -> unfold fuel2 st' v' = Some t.
Proof. exact (copy_value fuel st v st' v'). Qed.

Theorem C18_frame fuel st v st' v' ms :
  copy_unshared fuel st v = Some (st', v') ->
  Confined v' st' ms ->
  forall a, a < length st -> nth_error (exec st' ms) a = nth_error st a.
Proof. exact (frame fuel st v st' v' ms). Qed.

Theorem C18_copy_is_a_tree fuel st v st' v' :
  copy_unshared fuel st v = Some (st', v') ->
  exists ext, st' = st ++ ext /\
    NoDup (val_refs v' ++ flat_map node_refs ext) /\
    (forall a n b, length st <= a -> lookup st' a = Some n -> In b (node_refs n) ->
                   length st <= b < a).
Proof. exact (copy_unshared_tree fuel st v st' v'). Qed.

Print Assumptions C18_copy_fresh.
Print Assumptions C18_copy_value.
Print Assumptions C18_frame.
Print Assumptions C18_copy_is_a_tree.
