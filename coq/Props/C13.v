(* C13 — Deme size lookup matches the epoch size functions at every time.
   Theorems only; proofs live in Proofs/SizeAtProofs.v.  Generic over every
   number implementation satisfying the order laws NumLaws (binary64
   comparisons included), for every deme satisfying the deme-local part of
   validity (DemeOK, implied by ValidDeme) and every time t >= 0.
   Between-ness inside an epoch whose sizes differ is arithmetic: for LINEAR epochs it is
   proved in exact rational arithmetic (the NumQ instance: C13_linear_exact_Q,
   C13_between_linear_Q, from Proofs/SizeBetweenQ.v); for exponential epochs (exp/log) — and for all three
   size functions through size_at — it is proved in exact REAL arithmetic (the NumR instance of Base/NumR.v over the
   standard library's Reals: C13_size_exp_exact_R, C13_size_between_exp_R, C13_size_at_between_R, ... from
   Proofs/SizeBetweenR.v; these depend on the standard library's real-number and classical axioms, listed by
   Print Assumptions below).
   Deme.size_at ends with  return min(max(N, lo), hi),  lo / hi = min / max of the epoch's two sizes (clamp_size; the
   repair of finding F24).  Hence between-ness holds for EVERY number instance, binary64 included, with no arithmetic
   hypothesis (C13_size_in_epoch_between, C13_size_at_between, from Proofs/SizeBetweenAny.v; binary64 instantiation
   and the old counterexample in the tail, from Proofs/SizeBetweenFixedF.v); in exact rational / real arithmetic the
   clamp is the identity (the ideal value lies between the sizes), so the exact-value theorems keep their conclusions. *)
From Coq Require Import Bool List String QArith.
From Demes Require Import Base.Num Base.NumQ Base.Py Model.MDM Model.SizeAt Spec.Valid
  Proofs.SizeAtProofs Proofs.SizeBetweenQ Proofs.SizeBetweenAny.
Import ListNotations.
Local Open Scope string_scope.
Local Open Scope list_scope.

Section C13.
  Context {N : NumOps} {L : NumLaws N}.

  Theorem C13_valid_deme_ok earlier d : ValidDeme earlier d -> DemeOK d.
  Proof. exact (valid_deme_ok earlier d). Qed.

  (* 0 at and before the start (start exclusive) *)
  Theorem C13_zero_before_start d t :
    DemeOK d -> ok t -> nle (d_start d) t = true ->
    nisinf t && nisinf (d_start d) = false -> size_at d t = Ok n0.
  Proof. exact (size_before_start d t). Qed.

  (* 0 after the end (end inclusive) *)
  Theorem C13_zero_after_end d t x :
    DemeOK d -> nle n0 t = true -> d_end d = Ok x -> nlt t x = true ->
    size_at d t = Ok n0.
  Proof. exact (size_after_end d t x). Qed.

  (* the end size at each epoch end *)
  Theorem C13_end_size_at_epoch_end d e t :
    DemeOK d -> In e (d_epochs d) -> neqb t (e_end e) = true ->
    size_at d t = Ok (e_esize e).
  Proof. exact (size_at_epoch_end d e t). Qed.

  (* inside: exactly one owner epoch, and its interpolation *)
  Theorem C13_inside d t x :
    DemeOK d -> nle n0 t = true -> d_end d = Ok x ->
    nlt t (d_start d) = true -> nle x t = true ->
    exists e, In e (d_epochs d) /\ epoch_owns t e = true /\
      (forall e', In e' (d_epochs d) -> epoch_owns t e' = true -> e' = e) /\
      size_at d t = size_in_epoch e t.
  Proof. exact (size_inside d t x). Qed.

  Theorem C13_at_infinity d t :
    DemeOK d -> nisinf t = true -> nisinf (d_start d) = true ->
    exists e es, d_epochs d = e :: es /\ size_at d t = Ok (e_ssize e) /\
                 neqb (e_ssize e) (e_esize e) = true.
  Proof. exact (size_at_inf d t). Qed.

  Theorem C13_formula_constant e t :
    e_sf e = "constant" -> size_in_epoch e t = Ok (e_esize e).
  Proof. exact (size_formula_const e t). Qed.

  Theorem C13_formula_exponential e t :
    e_sf e = "exponential" -> isclose0 t (e_end e) = false ->
    neqb (e_ssize e) (e_esize e) = false ->
    size_in_epoch e t =
      (dt <- pdiv (nsub (e_start e) t) (nsub (e_start e) (e_end e)) ;;
       q <- pdiv (e_esize e) (e_ssize e) ;;
       r <- plog q ;;
       x <- pexp (nmul r dt) ;;
       Ok (clamp_size e (nmul (e_ssize e) x))).
  Proof. exact (size_formula_exp e t). Qed.

  Theorem C13_formula_linear e t :
    e_sf e = "linear" -> isclose0 t (e_end e) = false ->
    neqb (e_ssize e) (e_esize e) = false ->
    size_in_epoch e t =
      (dt <- pdiv (nsub (e_start e) t) (nsub (e_start e) (e_end e)) ;;
       Ok (clamp_size e (nadd (e_ssize e) (nmul (nsub (e_esize e) (e_ssize e)) dt)))).
  Proof. exact (size_formula_lin e t). Qed.

  Theorem C13_formula_equal_sizes e t :
    neqb (e_ssize e) (e_esize e) = true -> size_in_epoch e t = Ok (e_esize e).
  Proof. exact (size_formula_equal e t). Qed.

  (* between-ness where no arithmetic is involved; the interior of epochs
     with different sizes is a statement about real arithmetic and is
     decided on the implementation's answers by the check (see DESIGN.md) *)
  Theorem C13_between_partial e t v :
    ValidEpoch e -> (e_sf e = "constant" \/ neqb (e_ssize e) (e_esize e) = true) ->
    size_in_epoch e t = Ok v ->
    neqb v (e_esize e) = true /\ neqb (e_ssize e) v = true.
  Proof. exact (size_between_equal e t v). Qed.

  (* the final clamp min(max(N, lo), hi): the end size, and every value between the two sizes, pass unchanged *)
  Theorem C13_clamp_end_size e : clamp_size e (e_esize e) = e_esize e.
  Proof. exact (clamp_esize e). Qed.

  Theorem C13_clamp_identity_inside e x :
    nle (pymin (e_ssize e) (e_esize e)) x = true -> nle x (pymax (e_ssize e) (e_esize e)) = true ->
    clamp_size e x = x.
  Proof. exact (clamp_id e x). Qed.

  (* between-ness for every number instance (binary64 included), with no arithmetic hypothesis: whatever the
     interpolation computed, a non-NaN answer ([ok v]) lies between min and max of the epoch's two sizes *)
  Theorem C13_size_in_epoch_between e t v :
    ValidEpoch e -> size_in_epoch e t = Ok v -> ok v ->
    nle (pymin (e_ssize e) (e_esize e)) v = true /\ nle v (pymax (e_ssize e) (e_esize e)) = true.
  Proof. exact (size_in_epoch_between e t v). Qed.

  Theorem C13_size_in_epoch_between_sizes e t v :
    ValidEpoch e -> size_in_epoch e t = Ok v -> ok v ->
    (nle (e_ssize e) v && nle v (e_esize e) = true) \/
    (nle (e_esize e) v && nle v (e_ssize e) = true).
  Proof. exact (size_in_epoch_between_sizes e t v). Qed.

  Theorem C13_size_at_between d t v :
    (forall e, In e (d_epochs d) -> ValidEpoch e) ->
    size_at d t = Ok v -> ok v ->
    v = n0
    \/ (exists e es', d_epochs d = e :: es' /\ v = e_ssize e /\
          nisinf t = true /\ nisinf (d_start d) = true)
    \/ (exists e, In e (d_epochs d) /\ epoch_owns t e = true /\
          nle (pymin (e_ssize e) (e_esize e)) v = true /\
          nle v (pymax (e_ssize e) (e_esize e)) = true).
  Proof. exact (size_at_between d t v). Qed.
End C13.

Theorem C13_linear_exact_Q (e : @epoch NumQ) (t : qx) :
  @ValidEpoch NumQ e -> e_sf e = "linear" -> @epoch_owns NumQ t e = true ->
  exists v, @size_in_epoch NumQ e t = Ok v /\
    (v = e_esize e \/
     exists s en ss es tt vv, qval (e_start e) = Some s /\ qval (e_end e) = Some en /\
       qval (e_ssize e) = Some ss /\ qval (e_esize e) = Some es /\ qval t = Some tt /\
       qval v = Some vv /\ (vv == ss + (es - ss) * ((s - tt) / (s - en)))%Q).
Proof. exact (size_linear_exact_Q e t). Qed.

Theorem C13_between_linear_Q (e : @epoch NumQ) (t v : qx) :
  @ValidEpoch NumQ e -> e_sf e = "linear" -> @epoch_owns NumQ t e = true ->
  @size_in_epoch NumQ e t = Ok v ->
  (@nle NumQ (e_ssize e) v && @nle NumQ v (e_esize e) = true) \/
  (@nle NumQ (e_esize e) v && @nle NumQ v (e_ssize e) = true).
Proof. exact (size_between_linear_Q e t v). Qed.

(* ---- exact REAL arithmetic (the NumR instance, standard-library Reals): exponential epochs included ---- *)
From Coq Require Import Reals.
From Demes Require Import Base.NumR Proofs.SizeBetweenR.
Local Open Scope R_scope.

Theorem C13_ideal_exp_between ss es s en tt : 0 < ss -> 0 < es -> en <= tt < s ->
  Rmin ss es <= ideal_exp ss es s en tt <= Rmax ss es.
Proof. exact (ideal_exp_between ss es s en tt). Qed.

Theorem C13_ideal_exp_ends ss es s en : 0 < ss -> 0 < es -> en < s ->
  ideal_exp ss es s en en = es /\ ideal_exp ss es s en s = ss.
Proof. exact (ideal_exp_ends ss es s en). Qed.

Theorem C13_ideal_exp_monotone ss es s en t1 t2 : 0 < ss -> 0 < es -> en <= t1 -> t1 < t2 -> t2 <= s ->
  (ss < es -> ideal_exp ss es s en t2 < ideal_exp ss es s en t1) /\
  (es < ss -> ideal_exp ss es s en t1 < ideal_exp ss es s en t2) /\
  (ss = es -> ideal_exp ss es s en t1 = ideal_exp ss es s en t2).
Proof. exact (ideal_exp_monotone ss es s en t1 t2). Qed.

Theorem C13_ideal_lin_between ss es s en tt : en <= tt < s ->
  Rmin ss es <= ideal_lin ss es s en tt <= Rmax ss es.
Proof. exact (ideal_lin_between ss es s en tt). Qed.

Theorem C13_ideal_lin_ends ss es s en : en < s ->
  ideal_lin ss es s en en = es /\ ideal_lin ss es s en s = ss.
Proof. exact (ideal_lin_ends ss es s en). Qed.

Theorem C13_size_exp_exact_R (e : @epoch NumR) (t : rx) :
  @ValidEpoch NumR e -> e_sf e = "exponential" -> @epoch_owns NumR t e = true ->
  exists v, @size_in_epoch NumR e t = Ok v /\
    (v = e_esize e \/
     exists s en ss es tt vv, rval (e_start e) = Some s /\ rval (e_end e) = Some en /\
       rval (e_ssize e) = Some ss /\ rval (e_esize e) = Some es /\ rval t = Some tt /\
       rval v = Some vv /\ en <= tt < s /\ 0 < ss /\ 0 < es /\ vv = ideal_exp ss es s en tt).
Proof. exact (size_exp_exact_R e t). Qed.

Theorem C13_size_exp_end_branch_R (e : @epoch NumR) (t : rx) :
  @ValidEpoch NumR e -> e_sf e = "exponential" -> @epoch_owns NumR t e = true ->
  @size_in_epoch NumR e t = Ok (e_esize e) ->
  @isclose0 NumR t (e_end e) = true \/ @neqb NumR (e_ssize e) (e_esize e) = true.
Proof. exact (size_exp_end_branch_R e t). Qed.

Theorem C13_size_exp_end_value_R (e : @epoch NumR) (t v : rx) :
  @ValidEpoch NumR e -> e_sf e = "exponential" -> @epoch_owns NumR t e = true ->
  @size_in_epoch NumR e t = Ok v -> @neqb NumR v (e_esize e) = true ->
  @isclose0 NumR t (e_end e) = true \/ @neqb NumR (e_ssize e) (e_esize e) = true.
Proof. exact (size_exp_end_value_R e t v). Qed.

Theorem C13_size_between_exp_R (e : @epoch NumR) (t v : rx) :
  @ValidEpoch NumR e -> e_sf e = "exponential" -> @epoch_owns NumR t e = true ->
  @size_in_epoch NumR e t = Ok v ->
  (@nle NumR (e_ssize e) v && @nle NumR v (e_esize e) = true) \/
  (@nle NumR (e_esize e) v && @nle NumR v (e_ssize e) = true).
Proof. exact (size_between_exp_R e t v). Qed.

Theorem C13_size_linear_exact_R (e : @epoch NumR) (t : rx) :
  @ValidEpoch NumR e -> e_sf e = "linear" -> @epoch_owns NumR t e = true ->
  exists v, @size_in_epoch NumR e t = Ok v /\
    (v = e_esize e \/
     exists s en ss es tt vv, rval (e_start e) = Some s /\ rval (e_end e) = Some en /\
       rval (e_ssize e) = Some ss /\ rval (e_esize e) = Some es /\ rval t = Some tt /\
       rval v = Some vv /\ en <= tt < s /\ 0 < ss /\ 0 < es /\ vv = ideal_lin ss es s en tt).
Proof. exact (size_linear_exact_R e t). Qed.

Theorem C13_size_between_linear_R (e : @epoch NumR) (t v : rx) :
  @ValidEpoch NumR e -> e_sf e = "linear" -> @epoch_owns NumR t e = true ->
  @size_in_epoch NumR e t = Ok v ->
  (@nle NumR (e_ssize e) v && @nle NumR v (e_esize e) = true) \/
  (@nle NumR (e_esize e) v && @nle NumR v (e_ssize e) = true).
Proof. exact (size_between_linear_R e t v). Qed.

Theorem C13_size_between_const_R (e : @epoch NumR) (t v : rx) :
  @ValidEpoch NumR e -> e_sf e = "constant" -> @epoch_owns NumR t e = true ->
  @size_in_epoch NumR e t = Ok v ->
  v = e_esize e /\
  ((@nle NumR (e_ssize e) v && @nle NumR v (e_esize e) = true) \/
   (@nle NumR (e_esize e) v && @nle NumR v (e_ssize e) = true)).
Proof. exact (size_between_const_R e t v). Qed.

Theorem C13_size_in_epoch_between_R (e : @epoch NumR) (t v : rx) :
  @ValidEpoch NumR e -> @epoch_owns NumR t e = true ->
  @size_in_epoch NumR e t = Ok v ->
  (@nle NumR (e_ssize e) v && @nle NumR v (e_esize e) = true) \/
  (@nle NumR (e_esize e) v && @nle NumR v (e_ssize e) = true).
Proof. exact (size_in_epoch_between_R e t v). Qed.

Theorem C13_size_at_between_R (d : @deme NumR) (t v : rx) :
  (forall e, In e (d_epochs d) -> @ValidEpoch NumR e) ->
  @size_at NumR d t = Ok v ->
  v = @n0 NumR
  \/ (exists e es', d_epochs d = e :: es' /\ v = e_ssize e /\ @nisinf NumR t = true)
  \/ (exists e, In e (d_epochs d) /\ @epoch_owns NumR t e = true /\
        ((@nle NumR (e_ssize e) v && @nle NumR v (e_esize e) = true) \/
         (@nle NumR (e_esize e) v && @nle NumR v (e_ssize e) = true))).
Proof. exact (size_at_between_R d t v). Qed.

Theorem C13_size_in_epoch_total_R (e : @epoch NumR) (t : rx) :
  @ValidEpoch NumR e -> @epoch_owns NumR t e = true -> exists v, @size_in_epoch NumR e t = Ok v.
Proof. exact (size_in_epoch_total_R e t). Qed.

Local Close Scope R_scope.

Print Assumptions C13_zero_before_start.
Print Assumptions C13_zero_after_end.
Print Assumptions C13_end_size_at_epoch_end.
Print Assumptions C13_inside.
Print Assumptions C13_at_infinity.
Print Assumptions C13_formula_constant.
Print Assumptions C13_formula_exponential.
Print Assumptions C13_formula_linear.
Print Assumptions C13_formula_equal_sizes.
Print Assumptions C13_between_partial.
Print Assumptions C13_clamp_end_size.
Print Assumptions C13_clamp_identity_inside.
Print Assumptions C13_size_in_epoch_between.
Print Assumptions C13_size_in_epoch_between_sizes.
Print Assumptions C13_size_at_between.
Print Assumptions C13_linear_exact_Q.
Print Assumptions C13_between_linear_Q.
Print Assumptions C13_ideal_exp_between.
Print Assumptions C13_ideal_exp_ends.
Print Assumptions C13_ideal_exp_monotone.
Print Assumptions C13_ideal_lin_between.
Print Assumptions C13_ideal_lin_ends.
Print Assumptions C13_size_exp_exact_R.
Print Assumptions C13_size_exp_end_branch_R.
Print Assumptions C13_size_exp_end_value_R.
Print Assumptions C13_size_between_exp_R.
Print Assumptions C13_size_linear_exact_R.
Print Assumptions C13_size_between_linear_R.
Print Assumptions C13_size_between_const_R.
Print Assumptions C13_size_in_epoch_between_R.
Print Assumptions C13_size_at_between_R.
Print Assumptions C13_size_in_epoch_total_R.

(* ---- BEGIN binary64 instances (generated by harness/mkinst.py) ---- *)
(* Binary64 (the NumF instance: Coq's primitive floats).  The between-ness clause was REFUTED in the last place for the
   OLD code of Deme.size_at (finding F24): a valid linear epoch from 1000 to 0 queried at t = 1e-20 (or at 5e-324, the
   float next to the epoch end): t is not isclose to the end (abs_tol = 0), the weight (s - t) / (s - e) rounds to 1,
   and the interpolation ss + (es - ss) * 1 is two floats below es.  It was repaired in the library by clamping the
   result into [min(ss, es), max(ss, es)]  (return min(max(N, lo), hi)),  and the clause is now PROVED for every number
   instance including binary64 (C13_size_in_epoch_between / C13_size_at_between above; C13_size_at_between_F is the
   NumF instance).  C13_old_formula_outside_F shows (vm_compute) that the rounding is real: the unclamped formula value
   at the old witness is still two floats below es; C13_size_at_witness_fixed_F that size_at now returns exactly es
   there.  Print Assumptions of the first two lists only primitive-float operations; that of C13_size_at_between_F
   is that of the instance NumFLaws. *)
From Coq Require Import Floats.
From Demes Require Import Base.NumF Proofs.SizeBetweenFixedF.

Theorem C13_old_formula_outside_F :
  old_formula w_epoch w_t = Ok w_v /\
  old_formula w_epoch 0x1p-1074%float = Ok w_v /\
  next_down (next_down (e_esize w_epoch)) = w_v /\
  @nlt NumF w_v (e_esize w_epoch) = true /\ @nlt NumF w_v (e_ssize w_epoch) = true /\
  (@nle NumF (e_ssize w_epoch) w_v && @nle NumF w_v (e_esize w_epoch) = false) /\
  (@nle NumF (e_esize w_epoch) w_v && @nle NumF w_v (e_ssize w_epoch) = false).
Proof. exact old_formula_outside. Qed.

Theorem C13_size_at_witness_fixed_F :
  exists (d : @deme NumF) (e : @epoch NumF) (t t2 : @Demes.Base.Num.num NumF),
    In e (d_epochs d) /\ @ValidEpoch NumF e /\ e_sf e = "linear" /\
    @epoch_owns NumF t e = true /\ @isclose0 NumF t (e_end e) = false /\
    t2 = next_up (e_end e) /\
    @epoch_owns NumF t2 e = true /\ @isclose0 NumF t2 (e_end e) = false /\
    old_formula e t = Ok w_v /\ old_formula e t2 = Ok w_v /\
    @nlt NumF w_v (e_esize e) = true /\ @nlt NumF w_v (e_ssize e) = true /\
    @size_at NumF d t = Ok (e_esize e) /\ @size_at NumF d t2 = Ok (e_esize e).
Proof. exact size_at_witness_fixed_F. Qed.

Theorem C13_size_in_epoch_between_F (e : @epoch NumF) (t v : @Demes.Base.Num.num NumF) :
  @ValidEpoch NumF e -> @size_in_epoch NumF e t = Ok v -> @ok NumF v ->
  @nle NumF (@pymin NumF (e_ssize e) (e_esize e)) v = true /\
  @nle NumF v (@pymax NumF (e_ssize e) (e_esize e)) = true.
Proof. exact (size_in_epoch_between_F e t v). Qed.

Theorem C13_size_at_between_F (d : @deme NumF) (t v : @Demes.Base.Num.num NumF) :
  (forall e, In e (d_epochs d) -> @ValidEpoch NumF e) ->
  @size_at NumF d t = Ok v -> @ok NumF v ->
  v = @n0 NumF
  \/ (exists e es', d_epochs d = e :: es' /\ v = e_ssize e /\
        @nisinf NumF t = true /\ @nisinf NumF (d_start d) = true)
  \/ (exists e, In e (d_epochs d) /\ @epoch_owns NumF t e = true /\
        @nle NumF (@pymin NumF (e_ssize e) (e_esize e)) v = true /\
        @nle NumF v (@pymax NumF (e_ssize e) (e_esize e)) = true).
Proof. exact (size_at_between_F d t v). Qed.

Print Assumptions C13_old_formula_outside_F.
Print Assumptions C13_size_at_witness_fixed_F.
Print Assumptions C13_size_in_epoch_between_F.
Print Assumptions C13_size_at_between_F.
(* ---- END binary64 instances ---- *)
