(* C09 — graph to ms and back preserves the model; option strings print and parse back.
   Theorems only.  The round trip itself is decided by translation validation: the graph
   returned by from_ms(to_ms(g)) is compared with g by the semantic comparer of
   coq/Spec/SemEquiv.v (extracted), see the check.  What is proved here is the second clause:
   negative numbers are printed by float_str as format(a, ".10f"); fixed10 n d is that text's
   digit string for the exact binary value a = n/d (compared digit for digit with Python's
   format on generated values by the check).  The printed value is within half a unit of the
   tenth decimal of a, and it never becomes positive, so the text always has the shape
   "-digits.digits" that argparse takes as a negative number, not as an option.
   Non-negative numbers are printed with str(a) (shortest round-trip repr: float(str(a)) == a is
   a property of CPython's float formatting, tested, not modelled).
   First clause, for migration rates (Proofs/MsRoundTrip.v, a composition of to_ms_rates and
   from_ms_rates): C09_ms_at_scaled — dividing every event time by 4*N0 does not change which events
   the ms semantics has applied at the corresponding time (DivMono: the division preserves the order
   of the times involved), and the command to_ms emits is accepted by the semantics;
   C09_ms_round_trip_rates — for a valid graph g in generations, h = from_ms(to_ms(g)) has, between the
   corresponding demes and at the corresponding time, exactly one migration in force when g has one
   with a scaled rate float(4*N0*r) that is not numerically zero, with rate y/(4*N0) for a y
   numerically equal to float(4*N0*r), and none otherwise.  The arithmetic hypotheses are collected
   in RoundTripArith (each holds in exact arithmetic; x*1 = x and "x/k is a number" are proved for
   binary64 in Proofs/NumFArith.v).  C09_round_trip_rate_exact (Proofs/RoundTripQ.v): in exact rational
   arithmetic every hypothesis of RoundTripArith follows from the validity of g, and the migration comes
   back with exactly its rate ((4*N0*r)/(4*N0) == r); a zero-rate migration does not come back. *)
From Coq Require Import ZArith Bool List String QArith Arith.
From Demes Require Import Base.Num Base.Py Model.MDM Model.InGen Model.MsOpt Model.ToMs Model.FromMs
  Model.FloatStr Spec.Valid Spec.MsSem Proofs.MsRates Proofs.FromMsRefine Proofs.FromMsHistory
  Proofs.FromMsRates Proofs.MsRoundTrip Base.NumQ Proofs.RoundTripQ.
Import ListNotations.
Local Open Scope Z_scope.

Theorem C09_fixed10_error n d :
  0 < d -> 2 * Z.abs (fixed10 n d * d - n * 10 ^ 10) <= d.
Proof. exact (fixed10_error n d). Qed.

Theorem C09_fixed10_stays_nonpositive n d : 0 < d -> n < 0 -> fixed10 n d <= 0.
Proof. exact (fixed10_nonpos n d). Qed.


Local Close Scope Z_scope.
Local Open Scope string_scope.
Local Open Scope list_scope.
Local Open Scope nat_scope.
Section C09.
  Context {N : NumOps} {L : NumLaws N}.

  Theorem C09_ms_at_scaled g0 g N0 n evs T :
    in_generations g0 = Ok g -> Valid g -> to_ms_unscaled g0 N0 = Ok (n, evs) ->
    ok T -> DivMono N0 (T :: map ev_time evs) ->
    exists st st',
      ms_at (mkCmd n true n0 [] (map (sc_ev N0) evs)) (dv N0 T) = Ok st' /\
      ms_at (mkCmd n true n0 [] evs) T = Ok st /\ SameMig st st' /\ Sq st /\ n <= npops st.
  Proof. exact (ms_at_scaled g0 g N0 n evs T). Qed.

  Theorem C09_ms_round_trip_rates g0 g N0 n evs evs' h T i j di dj :
    in_generations g0 = Ok g -> Valid g ->
    to_ms_unscaled g0 N0 = Ok (n, evs) ->
    to_ms_events g0 N0 = Ok (n, evs') ->
    RoundTripArith N0 T (map ev_time evs) (map m_rate (g_migs g)) ->
    build_graph (mkCmd n true n0 [] evs') N0 = Ok h ->
    nth_error (g_demes g) i = Some di -> nth_error (g_demes g) j = Some dj -> i <> j ->
    ok T -> nle n0 T = true ->
    nlt T (d_start di) = true -> nlt T (d_start dj) = true ->
    let T' := dv N0 T in
    let back := gmigs_in_force h (deme_name (S j)) (deme_name (S i)) (scale N0 T') in
    match active_mig g (d_name dj) (d_name di) T with
    | Some m =>
        let x := nfloat (nmul (nmul n4 N0) (m_rate m)) in
        if neqb x n0 then back = []
        else exists m' y, back = [m'] /\ neqb y x = true /\ m_rate m' = ndiv y (nmul n4 N0)
    | None => back = []
    end.
  Proof. exact (ms_round_trip_rates g0 g N0 n evs evs' h T i j di dj). Qed.
End C09.

Theorem C09_round_trip_rate_exact (g0 g : @graph NumQ) (r : Q) (k : bool) n evs evs' h T i j di dj m :
  (0 < r)%Q -> finnnQ T ->
  let N0 : qx := QF r k in
  in_generations g0 = Ok g -> Valid g ->
  to_ms_unscaled g0 N0 = Ok (n, evs) ->
  to_ms_events g0 N0 = Ok (n, evs') ->
  build_graph (mkCmd n true n0 [] evs') N0 = Ok h ->
  nth_error (g_demes g) i = Some di -> nth_error (g_demes g) j = Some dj -> i <> j ->
  nlt T (d_start di) = true -> nlt T (d_start dj) = true ->
  active_mig g (d_name dj) (d_name di) T = Some m ->
  let back := gmigs_in_force h (deme_name (S j)) (deme_name (S i)) (scale N0 (dv N0 T)) in
  exists a ja, m_rate m = QF a ja /\
    ((a == 0)%Q -> back = []) /\
    (~ (a == 0)%Q -> exists m' a', back = [m'] /\ m_rate m' = QF a' false /\ (a' == a)%Q).
Proof. exact (ms_round_trip_rate_exact_Q g0 g r k n evs evs' h T i j di dj m). Qed.

Print Assumptions C09_fixed10_error.
Print Assumptions C09_fixed10_stays_nonpositive.
Print Assumptions C09_ms_at_scaled.
Print Assumptions C09_ms_round_trip_rates.
Print Assumptions C09_round_trip_rate_exact.

(* ---- BEGIN growth-rate round trip (generated with harness/mkprops.py from Proofs/MsRoundTripGrowth.v) ---- *)
(* Growth rates through graph -> to_ms -> from_ms: composition of C07's to_ms_growth with C08's growth refinement
   (Proofs/FromMsGrowth.v).  Stated on the prefix of the emitted events with time <= T/(4*N0): the final graph stores
   epoch sizes, the growth rate the interpreter tracks is consumed when the next size/growth event closes the epoch.
   ms_round_trip_growth: after interpreting that prefix, the current epoch of deme i carries (numerically) a / (4*N0)
   with a numerically the rate to_ms computed for the epoch of g owning T (or both are zero).  Hypotheses OkEv (the
   converted rates are numbers) and DivMono (division by 4*N0 preserves the order of the event times and T). *)
From Demes Require Import Model.InGen Model.ToMs Proofs.MsGrowth Proofs.FromMsRefine Proofs.FromMsGrowth Proofs.MsRoundTripGrowth.
Section C09g.
  Context {N : NumOps} {L : NumLaws N}.

  Theorem C09g_ms_at_prefix c T :
    ms_at c T = foldM apply_ev (filter (leT T) (all_events c)) (init_state c).
  Proof. exact (ms_at_prefix c T). Qed.

  Theorem C09g_ms_round_trip_growth_sem g0 g N0 n evs evs' T i di k e alpha :
    in_generations g0 = Ok g -> Valid g ->
    to_ms_unscaled g0 N0 = Ok (n, evs) ->
    to_ms_events g0 N0 = Ok (n, evs') ->
    DivMono N0 (T :: map ev_time evs) ->
    ok T -> nle n0 T = true ->
    nth_error (g_demes g) i = Some di -> nlt T (d_start di) = true ->
    nth_error (d_epochs di) k = Some e -> nlt T (e_start e) = true -> nle (e_end e) T = true ->
    growth_rate (nmul n4 N0) e = Ok alpha ->
    let c' := mkCmd n true n0 [] evs' in
    exists st' p' r,
      ms_at c' (dv N0 T) = Ok st' /\
      foldM apply_ev (filter (leT (dv N0 T)) evs') (init_state c') = Ok st' /\
      nth_error (st_pops st') i = Some p' /\ alive p' = true /\
      (mp_alpha p' = nfloat r \/ (mp_alpha p' = n0 /\ r = n0)) /\ SameRate r alpha.
  Proof. exact (ms_round_trip_growth_sem g0 g N0 n evs evs' T i di k e alpha). Qed.

  Theorem C09g_ms_round_trip_growth_interp g0 g N0 n evs evs' T s0 s st' i p' :
    in_generations g0 = Ok g -> Valid g ->
    to_ms_unscaled g0 N0 = Ok (n, evs) ->
    to_ms_events g0 N0 = Ok (n, evs') ->
    (forall x : num, nmul x n1 = x) -> ok N0 ->
    DivMono N0 (T :: map ev_time evs) ->
    (forall e, In e evs -> OkEv N0 e) ->
    let c' := mkCmd n true n0 [] evs' in
    init_bstate c' N0 = Ok s0 ->
    foldM (run_group N0) (group_by_time (filter (leT (dv N0 T)) evs')) s0 = Ok s ->
    foldM apply_ev (filter (leT (dv N0 T)) evs') (init_state c') = Ok st' ->
    nth_error (st_pops st') i = Some p' -> alive p' = true ->
    exists d, nth_error (b_demes s) i = Some d /\ HeadGrowth N0 d (mp_alpha p').
  Proof. exact (ms_round_trip_growth_interp g0 g N0 n evs evs' T s0 s st' i p'). Qed.

  Theorem C09g_ms_round_trip_growth g0 g N0 n evs evs' T i di k e alpha s0 s :
    in_generations g0 = Ok g -> Valid g ->
    to_ms_unscaled g0 N0 = Ok (n, evs) ->
    to_ms_events g0 N0 = Ok (n, evs') ->
    (forall x : num, nmul x n1 = x) -> ok N0 ->
    DivMono N0 (T :: map ev_time evs) ->
    (forall e, In e evs -> OkEv N0 e) ->
    ok T -> nle n0 T = true ->
    nth_error (g_demes g) i = Some di -> nlt T (d_start di) = true ->
    nth_error (d_epochs di) k = Some e -> nlt T (e_start e) = true -> nle (e_end e) T = true ->
    growth_rate (nmul n4 N0) e = Ok alpha ->
    init_bstate (mkCmd n true n0 [] evs') N0 = Ok s0 ->
    foldM (run_group N0) (group_by_time (filter (leT (dv N0 T)) evs')) s0 = Ok s ->
    exists d a r, nth_error (b_demes s) i = Some d /\
      (a = nfloat r \/ (a = n0 /\ r = n0)) /\ SameRate r alpha /\
      HeadGrowth N0 d a.
  Proof. exact (ms_round_trip_growth g0 g N0 n evs evs' T i di k e alpha s0 s). Qed.

End C09g.



Print Assumptions C09g_ms_at_prefix.
Print Assumptions C09g_ms_round_trip_growth_sem.
Print Assumptions C09g_ms_round_trip_growth_interp.
Print Assumptions C09g_ms_round_trip_growth.

(* ---- END growth-rate round trip ---- *)
