(* C09 — graph to ms and back preserves the model; option strings print and parse back.
   Theorems only.  The round trip itself is decided by translation validation: the graph
   returned by from_ms(to_ms(g)) is compared with g by the semantic comparer of
   coq/Spec/SemEquiv.v (extracted), see the check.  What is proved here is the second clause:
   negative numbers are printed by float_str as format(a, ".10f"); fixed10 n d is that text's
   digit string for the exact binary value a = n/d (compared digit for digit with Python's
   format on generated values by the check).  The printed value is within half a unit of the
   tenth decimal of a, and it never becomes positive, so the text always has the shape
   "-digits.digits" that argparse takes as a negative number, not as an option.
   Non-negative numbers are printed with str(a) (shortest round-trip repr: float(str(a)) == a is
   a property of CPython's float formatting, tested, not modelled). *)
From Coq Require Import ZArith.
From Demes Require Import Model.FloatStr.
Local Open Scope Z_scope.

Theorem C09_fixed10_error n d :
  0 < d -> 2 * Z.abs (fixed10 n d * d - n * 10 ^ 10) <= d.
Proof. exact (fixed10_error n d). Qed.

Theorem C09_fixed10_stays_nonpositive n d : 0 < d -> n < 0 -> fixed10 n d <= 0.
Proof. exact (fixed10_nonpos n d). Qed.

Print Assumptions C09_fixed10_error.
Print Assumptions C09_fixed10_stays_nonpositive.
