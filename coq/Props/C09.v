(* placeholder, replaced when the proofs for C09 are merged *)
From Demes Require Import Base.Num.
Theorem C09_placeholder : True.
Proof. exact I. Qed.
