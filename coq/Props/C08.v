(* placeholder, replaced when the proofs for C08 are merged *)
From Demes Require Import Base.Num.
Theorem C08_placeholder : True.
Proof. exact I. Qed.
