(* placeholder, replaced when the proofs for C16 are merged *)
From Demes Require Import Base.Num.
Theorem C16_placeholder : True.
Proof. exact I. Qed.
