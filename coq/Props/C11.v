(* C11 — conversion to generations rescales all the times and nothing else.
   Theorems only; proofs in Proofs/InGenProofs.v.  Generic over every number
   implementation.  TimesRel R g h says: h is g with every time x replaced by a
   y with R x y; names, sizes, rates, proportions, ancestry, every list length
   and order, metadata and the name index are equal.
   C11_valid: the result is a valid graph whenever dividing the graph's times by the
   generation time behaves like division of real numbers on them (DivOK: strictly monotone,
   finite stays finite, infinity stays infinity, zero stays zero).  On binary64 DivOK is
   exactly what fails in the known findings F12a (two times collapse), F12b (overflow),
   F12c (underflow); the harness classifies an invalid result by which of these occurs.
   C11_divok_exact / C11_valid_exact (Proofs/InGenQ.v): in exact rational arithmetic (the NumQ
   instance) DivOK holds for every positive finite generation time, so conversion to generations
   ALWAYS returns a valid graph — F12 is rounding, overflow and underflow, nothing else. *)
From Coq Require Import Bool List String QArith.
From Demes Require Import Base.Num Base.NumQ Base.Py Model.MDM Model.InGen Spec.Valid Proofs.InGenProofs Proofs.InGenValid Proofs.InGenQ.
Import ListNotations.
Local Open Scope string_scope.
Local Open Scope list_scope.

Section C11.
  Context {N : NumOps} {L : NumLaws N}.

  Theorem C11_total g : neqb (g_gt g) n0 = false -> exists h, in_generations g = Ok h.
  Proof. exact (ingen_total g). Qed.

  Theorem C11_times_divided_frame_unchanged g h :
    in_generations g = Ok h ->
    g_units h = "generations" /\ g_gt h = n1 /\
    TimesRel (fun x y => y = ndiv x (g_gt g)) g h.
  Proof. exact (ingen_spec g h). Qed.

  Theorem C11_idempotent g h h' :
    (forall x, ok x -> ok (ndiv x n1) /\ rk (ndiv x n1) == rk x) ->
    (forall x, In x (graph_times h) -> ok x) ->
    in_generations g = Ok h -> in_generations h = Ok h' ->
    g_units h' = g_units h /\ g_gt h' = g_gt h /\
    TimesRel (fun x y => neqb y x = true) h h'.
  Proof. exact (ingen_idem g h h'). Qed.
  Theorem C11_valid g h :
    Valid g -> DivOK (g_gt g) (all_times g) -> in_generations g = Ok h -> Valid h.
  Proof. exact (ingen_valid g h). Qed.
End C11.

Theorem C11_divok_exact r isint ts : (0 < r)%Q -> @DivOK NumQ NumQLaws (QF r isint) ts.
Proof. exact (divok_Q r isint ts). Qed.

Theorem C11_valid_exact (g h : @graph NumQ) :
  @Valid NumQ g -> in_generations g = Ok h -> @Valid NumQ h.
Proof. exact (ingen_valid_Q g h). Qed.

Print Assumptions C11_total.
Print Assumptions C11_times_divided_frame_unchanged.
Print Assumptions C11_idempotent.
Print Assumptions C11_valid.
Print Assumptions C11_divok_exact.
Print Assumptions C11_valid_exact.
