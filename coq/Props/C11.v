(* C11 — conversion to generations rescales all the times and nothing else.
   Theorems only; proofs in Proofs/InGenProofs.v.  Generic over every number
   implementation.  TimesRel R g h says: h is g with every time x replaced by a
   y with R x y; names, sizes, rates, proportions, ancestry, every list length
   and order, metadata and the name index are equal.
   C11_valid: the result is a valid graph whenever dividing the graph's times by the
   generation time behaves like division of real numbers on them (DivOK: strictly monotone,
   finite stays finite, infinity stays infinity, zero stays zero).  On binary64 DivOK is
   exactly what fails in the known findings F12a (two times collapse), F12b (overflow),
   F12c (underflow); the harness classifies an invalid result by which of these occurs.
   C11_divok_exact / C11_valid_exact (Proofs/InGenQ.v): in exact rational arithmetic (the NumQ
   instance) DivOK holds for every positive finite generation time, so conversion to generations
   ALWAYS returns a valid graph — F12 is rounding, overflow and underflow, nothing else. *)
From Coq Require Import Bool List String QArith.
From Demes Require Import Base.Num Base.NumQ Base.Py Model.MDM Model.InGen Spec.Valid Proofs.InGenProofs Proofs.InGenValid Proofs.InGenQ.
Import ListNotations.
Local Open Scope string_scope.
Local Open Scope list_scope.

Section C11.
  Context {N : NumOps} {L : NumLaws N}.

  Theorem C11_total g : neqb (g_gt g) n0 = false -> exists h, in_generations g = Ok h.
  Proof. exact (ingen_total g). Qed.

  Theorem C11_times_divided_frame_unchanged g h :
    in_generations g = Ok h ->
    g_units h = "generations" /\ g_gt h = n1 /\
    TimesRel (fun x y => y = ndiv x (g_gt g)) g h.
  Proof. exact (ingen_spec g h). Qed.

  Theorem C11_idempotent g h h' :
    (forall x, ok x -> ok (ndiv x n1) /\ rk (ndiv x n1) == rk x) ->
    (forall x, In x (graph_times h) -> ok x) ->
    in_generations g = Ok h -> in_generations h = Ok h' ->
    g_units h' = g_units h /\ g_gt h' = g_gt h /\
    TimesRel (fun x y => neqb y x = true) h h'.
  Proof. exact (ingen_idem g h h'). Qed.
  Theorem C11_valid g h :
    Valid g -> DivOK (g_gt g) (all_times g) -> in_generations g = Ok h -> Valid h.
  Proof. exact (ingen_valid g h). Qed.
End C11.

Theorem C11_divok_exact r isint ts : (0 < r)%Q -> @DivOK NumQ NumQLaws (QF r isint) ts.
Proof. exact (divok_Q r isint ts). Qed.

Theorem C11_valid_exact (g h : @graph NumQ) :
  @Valid NumQ g -> in_generations g = Ok h -> @Valid NumQ h.
Proof. exact (ingen_valid_Q g h). Qed.

(* ---- binary64 (the NumF instance: Coq's primitive floats): the validity clause is REFUTED.  Three concrete valid
   graphs, evaluated by vm_compute, whose conversion to generations is not valid (underflow, collapse of two
   adjacent times, overflow), and the hypothesis DivOK of C11_valid shown false on exactly those graphs: the theorem
   and the recorded finding F12a-c meet at the same hypothesis.  These depend on the standard library's
   primitive-float axioms and, through Flocq, on its real-number and classical axioms (Print Assumptions below). ---- *)
From Coq Require Import Floats.
From Demes Require Import Base.NumF Proofs.InGenRefutedF.

Theorem C11_ingen_valid_refuted_F  :
  exists g g', @Valid NumF g /\ @in_generations NumF g = Ok g' /\ ~ @Valid NumF g'.
Proof. exact (ingen_valid_refuted_F). Qed.

Theorem C11_ingen_collapse_refuted_F  :
  exists g g', @Valid NumF g /\ @in_generations NumF g = Ok g' /\ ~ @Valid NumF g' /\
    (* the mechanism: two distinct positive finite times of g have the same nonzero quotient *)
    exists t1 t2, In t1 (all_times g) /\ In t2 (all_times g) /\ nlt t2 t1 = true /\
                  neqb (ndiv t1 (g_gt g)) (ndiv t2 (g_gt g)) = true /\
                  nlt n0 (ndiv t2 (g_gt g)) = true.
Proof. exact (ingen_collapse_refuted_F). Qed.

Theorem C11_ingen_overflow_refuted_F  :
  exists g g', @Valid NumF g /\ @in_generations NumF g = Ok g' /\ ~ @Valid NumF g' /\
    (* the mechanism: the generation time is positive, finite and below 1, and a finite time of g
       has an infinite quotient *)
    nlt n0 (g_gt g) = true /\ nlt (g_gt g) n1 = true /\
    exists t, In t (all_times g) /\ nisinf t = false /\ nisinf (ndiv t (g_gt g)) = true.
Proof. exact (ingen_overflow_refuted_F). Qed.

Theorem C11_divok_fails_F  : ~ @DivOK NumF NumFLaws (g_gt g_before) (all_times g_before).
Proof. exact (divok_fails_F). Qed.

Theorem C11_divok_fails_collapse_F  : ~ @DivOK NumF NumFLaws (g_gt ga_before) (all_times ga_before).
Proof. exact (divok_fails_collapse_F). Qed.

Theorem C11_divok_fails_overflow_F  : ~ @DivOK NumF NumFLaws (g_gt gb_before) (all_times gb_before).
Proof. exact (divok_fails_overflow_F). Qed.

Print Assumptions C11_total.
Print Assumptions C11_times_divided_frame_unchanged.
Print Assumptions C11_idempotent.
Print Assumptions C11_valid.
Print Assumptions C11_divok_exact.
Print Assumptions C11_valid_exact.
Print Assumptions C11_ingen_valid_refuted_F.
Print Assumptions C11_ingen_collapse_refuted_F.
Print Assumptions C11_ingen_overflow_refuted_F.
Print Assumptions C11_divok_fails_F.
Print Assumptions C11_divok_fails_collapse_F.
Print Assumptions C11_divok_fails_overflow_F.
