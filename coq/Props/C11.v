(* placeholder, replaced when the proofs for C11 are merged *)
From Demes Require Import Base.Num.
Theorem C11_placeholder : True.
Proof. exact I. Qed.
