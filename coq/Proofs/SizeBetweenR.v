(* C13 over exact REAL arithmetic (the NumR instance): inside an exponential (and a linear)
   epoch Deme.size_at evaluates, without error, to the ideal interpolation
       ss * exp (ln (es/ss) * (s - t)/(s - en))       (resp.  ss + (es - ss) * (s - t)/(s - en)),
   that value lies between the epoch's start and end sizes, hits them at the ends, is monotone,
   and size_at of a deme with valid epochs is always between the sizes of the owning epoch.
   Uses the standard library Reals (its real-number / classical assumptions are listed by
   Print Assumptions at the end). *)
From Coq Require Import Bool List String Reals Lra.
From Demes Require Import Base.Num Base.NumR Base.Py Model.MDM Model.SizeAt Spec.Valid.
Import ListNotations.
Local Open Scope string_scope.
Local Open Scope list_scope.
Local Open Scope R_scope.

Definition ideal_exp (ss es s en tt : R) : R := ss * exp (ln (es / ss) * ((s - tt) / (s - en))).
Definition ideal_lin (ss es s en tt : R) : R := ss + (es - ss) * ((s - tt) / (s - en)).

(* ---------- real-analysis facts about the two ideal curves ---------- *)

Lemma frac_unit_R (s en tt : R) : en <= tt -> tt < s -> 0 < (s - tt) / (s - en) <= 1.
Proof.
  intros H1 H2. split.
  - apply Rdiv_lt_0_compat; lra.
  - apply Rmult_le_reg_r with (s - en); [lra|].
    unfold Rdiv. rewrite Rmult_assoc, Rinv_l; lra.
Qed.

Lemma ratio_pos (ss es : R) : 0 < ss -> 0 < es -> 0 < es / ss.
Proof. intros. apply Rdiv_lt_0_compat; assumption. Qed.

Lemma exp_ln_ratio (ss es : R) : 0 < ss -> 0 < es -> ss * exp (ln (es / ss)) = es.
Proof.
  intros Hs He. rewrite exp_ln by (apply ratio_pos; assumption). field. lra.
Qed.

Lemma ln_ratio_sign (ss es : R) : 0 < ss -> 0 < es ->
  (ss < es -> 0 < ln (es / ss)) /\ (es < ss -> ln (es / ss) < 0) /\ (ss = es -> ln (es / ss) = 0).
Proof.
  intros Hs He. repeat split; intro H.
  - rewrite <- ln_1. apply ln_increasing; [lra|].
    apply Rmult_lt_reg_r with ss; [assumption|]. unfold Rdiv. rewrite Rmult_assoc, Rinv_l; lra.
  - rewrite <- ln_1. apply ln_increasing; [apply ratio_pos; assumption|].
    apply Rmult_lt_reg_r with ss; [assumption|]. unfold Rdiv. rewrite Rmult_assoc, Rinv_l; lra.
  - subst es. unfold Rdiv. rewrite Rinv_r by lra. apply ln_1.
Qed.

Lemma exp_le_mono (x y : R) : x <= y -> exp x <= exp y.
Proof.
  intros [H|H]; [left; apply exp_increasing; assumption | subst; right; reflexivity].
Qed.

Theorem ideal_exp_between ss es s en tt : 0 < ss -> 0 < es -> en <= tt < s ->
  Rmin ss es <= ideal_exp ss es s en tt <= Rmax ss es.
Proof.
  intros Hs He [H1 H2]. unfold ideal_exp.
  destruct (frac_unit_R s en tt H1 H2) as [F0 F1].
  set (f := (s - tt) / (s - en)) in *.
  destruct (ln_ratio_sign ss es Hs He) as (Lp & Ln & Lz).
  pose proof (exp_ln_ratio ss es Hs He) as EL.
  set (L := ln (es / ss)) in *.
  destruct (Rle_lt_dec ss es) as [C|C].
  - rewrite Rmin_left, Rmax_right by assumption.
    assert (HL : 0 <= L) by (destruct C as [C|C]; [left; auto | right; symmetry; auto]).
    assert (A : exp 0 <= exp (L * f)) by (apply exp_le_mono; nra).
    assert (B : exp (L * f) <= exp L) by (apply exp_le_mono; nra).
    rewrite exp_0 in A. split; [nra|]. rewrite <- EL. nra.
  - rewrite Rmin_right, Rmax_left by lra.
    assert (HL : L < 0) by auto.
    assert (A : exp (L * f) <= exp 0) by (apply exp_le_mono; nra).
    assert (B : exp L <= exp (L * f)) by (apply exp_le_mono; nra).
    rewrite exp_0 in A. split; [|nra]. rewrite <- EL. nra.
Qed.

Theorem ideal_exp_ends ss es s en : 0 < ss -> 0 < es -> en < s ->
  ideal_exp ss es s en en = es /\ ideal_exp ss es s en s = ss.
Proof.
  intros Hs He H. unfold ideal_exp. split.
  - replace ((s - en) / (s - en)) with 1 by (field; lra).
    rewrite Rmult_1_r. apply exp_ln_ratio; assumption.
  - replace ((s - s) / (s - en)) with 0 by (field; lra).
    rewrite Rmult_0_r, exp_0. ring.
Qed.

Lemma frac_decr (s en t1 t2 : R) : en < s -> t1 < t2 -> (s - t2) / (s - en) < (s - t1) / (s - en).
Proof.
  intros H H12. unfold Rdiv. apply Rmult_lt_compat_r; [apply Rinv_0_lt_compat; lra | lra].
Qed.

(* growing epoch (ss < es): the size strictly decreases with the backwards time tt, i.e. grows
   forwards in time; shrinking epoch (es < ss): strictly increases with tt *)
Theorem ideal_exp_monotone ss es s en t1 t2 : 0 < ss -> 0 < es -> en <= t1 -> t1 < t2 -> t2 <= s ->
  (ss < es -> ideal_exp ss es s en t2 < ideal_exp ss es s en t1) /\
  (es < ss -> ideal_exp ss es s en t1 < ideal_exp ss es s en t2) /\
  (ss = es -> ideal_exp ss es s en t1 = ideal_exp ss es s en t2).
Proof.
  intros Hs He H1 H12 H2. unfold ideal_exp.
  assert (Hd : en < s) by lra.
  pose proof (frac_decr s en t1 t2 Hd H12) as F.
  destruct (ln_ratio_sign ss es Hs He) as (Lp & Ln & Lz).
  set (L := ln (es / ss)) in *.
  set (f1 := (s - t1) / (s - en)) in *. set (f2 := (s - t2) / (s - en)) in *.
  repeat split; intro C.
  - apply Rmult_lt_compat_l; [assumption|]. apply exp_increasing. specialize (Lp C). nra.
  - apply Rmult_lt_compat_l; [assumption|]. apply exp_increasing. specialize (Ln C). nra.
  - rewrite (Lz C). rewrite !Rmult_0_l. reflexivity.
Qed.

Theorem ideal_lin_between ss es s en tt : en <= tt < s ->
  Rmin ss es <= ideal_lin ss es s en tt <= Rmax ss es.
Proof.
  intros [H1 H2]. unfold ideal_lin.
  destruct (frac_unit_R s en tt H1 H2) as [F0 F1].
  set (f := (s - tt) / (s - en)) in *.
  destruct (Rle_lt_dec ss es) as [C|C].
  - rewrite Rmin_left, Rmax_right by assumption. nra.
  - rewrite Rmin_right, Rmax_left by lra. nra.
Qed.

Theorem ideal_lin_ends ss es s en : en < s ->
  ideal_lin ss es s en en = es /\ ideal_lin ss es s en s = ss.
Proof. intro H. unfold ideal_lin. split; field; lra. Qed.

(* ---------- evaluation of the model over NumR ---------- *)

(* what ValidEpoch + ownership say about the numbers of an epoch *)
Lemma epoch_shape (e : @epoch NumR) (t : rx) :
  @ValidEpoch NumR e -> @epoch_owns NumR t e = true ->
  exists ss es en tt i j i2 i3, e_ssize e = RF ss i /\ e_esize e = RF es j /\ e_end e = RF en i2 /\
    t = RF tt i3 /\ 0 < ss /\ 0 < es /\ 0 <= en /\ en <= tt /\
    ((e_start e = RPInf /\ ss = es) \/ exists s i1, e_start e = RF s i1 /\ tt < s).
Proof.
  destruct e as [st en ss es sf self clone]. cbn [e_start e_end e_ssize e_esize e_sf].
  intros [H1 H2 H3 [H4 H4'] [H5 H5'] _ _ Hinf _ _] Hown.
  cbn [e_start e_end e_ssize e_esize e_sf] in *.
  unfold epoch_owns, ngt, nge in Hown. cbn [e_start e_end] in Hown.
  apply andb_true_iff in Hown. destruct Hown as [Ho1 Ho2].
  destruct ss as [ss i| | |]; cbn in H4, H4'; try discriminate.
  destruct es as [es j| | |]; cbn in H5, H5'; try discriminate.
  destruct en as [en i2| | |]; cbn in H1, H2; try discriminate.
  destruct t as [tt i3| | |]; cbn in Ho1, Ho2; try discriminate;
    try (destruct st; discriminate).
  apply Rlt_bool_true in H4, H5. apply Rle_bool_true in H1, Ho2.
  exists ss, es, en, tt, i, j, i2, i3. repeat (split; [reflexivity || assumption|]).
  destruct st as [s i1| | |]; cbn in H3, Ho1, Hinf; try discriminate.
  - right. exists s, i1. split; [reflexivity|]. apply Rlt_bool_true; assumption.
  - left. split; [reflexivity|]. apply Req_bool_true. auto.
Qed.

Lemma isclose0_same (tt en : R) i j : tt = en -> @isclose0 NumR (RF tt i) (RF en j) = true.
Proof.
  intro E. unfold isclose0, isclose. cbn [neqb NumR rx_eqb]. rewrite Req_bool_intro by assumption. reflexivity.
Qed.

Lemma isclose0_false_neq (tt en : R) i j : @isclose0 NumR (RF tt i) (RF en j) = false -> tt <> en.
Proof.
  intros H E. rewrite isclose0_same in H by assumption. discriminate.
Qed.

(* over the reals the final clamp  min(max(N, lo), hi)  of size_at is the identity on every value
   between the two sizes, in particular on the end size *)
Lemma Rlt_bool_intro_false x y : y <= x -> Rlt_bool x y = false.
Proof.
  intro H. destruct (Rlt_bool x y) eqn:E; [|reflexivity]. apply Rlt_bool_true in E. lra.
Qed.

Lemma pymin_R ss i es j : exists k, @pymin NumR (RF ss i) (RF es j) = RF (Rmin ss es) k.
Proof.
  unfold pymin. cbn [nlt NumR rx_lt]. destruct (Rlt_bool es ss) eqn:A.
  - apply Rlt_bool_true in A. rewrite Rmin_right by lra. eauto.
  - apply Rlt_bool_false in A. rewrite Rmin_left by lra. eauto.
Qed.

Lemma pymax_R ss i es j : exists k, @pymax NumR (RF ss i) (RF es j) = RF (Rmax ss es) k.
Proof.
  unfold pymax. cbn [nlt NumR rx_lt]. destruct (Rlt_bool ss es) eqn:A.
  - apply Rlt_bool_true in A. rewrite Rmax_right by lra. eauto.
  - apply Rlt_bool_false in A. rewrite Rmax_left by lra. eauto.
Qed.

Lemma clamp_id_R (e : @epoch NumR) ss i es j x k :
  e_ssize e = RF ss i -> e_esize e = RF es j -> Rmin ss es <= x <= Rmax ss es ->
  @clamp_size NumR e (RF x k) = RF x k.
Proof.
  intros Ess Ees [H1 H2]. unfold clamp_size. rewrite Ess, Ees.
  destruct (pymin_R ss i es j) as [kl ->]. destruct (pymax_R ss i es j) as [kh ->].
  unfold pymax at 1. cbn [nlt NumR rx_lt]. rewrite (Rlt_bool_intro_false x (Rmin ss es)) by assumption.
  unfold pymin. cbn [nlt NumR rx_lt]. rewrite (Rlt_bool_intro_false (Rmax ss es) x) by assumption.
  reflexivity.
Qed.

Lemma clamp_flat_R (e : @epoch NumR) ss i es j :
  e_ssize e = RF ss i -> e_esize e = RF es j -> @clamp_size NumR e (RF es j) = RF es j.
Proof.
  intros Ess Ees. apply (clamp_id_R e ss i es j); auto. split; [apply Rmin_r | apply Rmax_r].
Qed.

(* common core, exponential: either the "end size" branch fires (t close to the end, or equal
   sizes), or all times are finite and the formula evaluates without error to ideal_exp *)
Lemma size_exp_core (e : @epoch NumR) (t : rx) :
  @ValidEpoch NumR e -> e_sf e = "exponential" -> @epoch_owns NumR t e = true ->
  exists ss es i j, e_ssize e = RF ss i /\ e_esize e = RF es j /\ 0 < ss /\ 0 < es /\
    ((@size_in_epoch NumR e t = Ok (e_esize e) /\
      (@isclose0 NumR t (e_end e) = true \/ @neqb NumR (e_ssize e) (e_esize e) = true)) \/
     exists s en tt i1 i2 i3, e_start e = RF s i1 /\ e_end e = RF en i2 /\ t = RF tt i3 /\
       en < tt /\ tt < s /\ ss <> es /\
       @size_in_epoch NumR e t = Ok (RF (ideal_exp ss es s en tt) false)).
Proof.
  intros V Hsf Hown.
  destruct (epoch_shape e t V Hown)
    as (ss & es & en & tt & i & j & i2 & i3 & Ess & Ees & Een & Et & Hss & Hes & Hen & Hl & Hst).
  exists ss, es, i, j. repeat (split; [assumption|]).
  unfold size_in_epoch. rewrite Hsf, Ess, Ees, Een, Et.
  destruct (@isclose0 NumR (RF tt i3) (RF en i2)) eqn:Hc; [left; split; [cbn [orb]; f_equal; apply (clamp_flat_R e ss i es j Ess Ees) | left; reflexivity]|].
  simpl String.eqb. cbn [orb].
  destruct (@neqb NumR (RF ss i) (RF es j)) eqn:He; [left; split; [f_equal; apply (clamp_flat_R e ss i es j Ess Ees) | right; reflexivity]|]. right.
  apply isclose0_false_neq in Hc.
  cbn [neqb NumR rx_eqb] in He. apply Req_bool_false in He.
  destruct Hst as [[_ E] | (s & i1 & Es & Hu)]; [contradiction|].
  exists s, en, tt, i1, i2, i3. rewrite Es.
  repeat (split; [reflexivity || assumption || lra|]).
  unfold pdiv. cbn [neqb NumR rx_eqb rx_sub nsub n0 ndiv rx_div bind].
  rewrite (Req_bool_intro_false (s - en) 0) by lra.
  rewrite (Req_bool_intro_false ss 0) by lra.
  cbn [bind]. unfold plog. cbn [nisnan NumR rx_isnan nle rx_le n0 nlog rx_log].
  pose proof (ratio_pos ss es Hss Hes) as Hq.
  replace (Rle_bool (es / ss) 0) with false
    by (symmetry; destruct (Rle_bool (es / ss) 0) eqn:Q; [apply Rle_bool_true in Q; lra | reflexivity]).
  rewrite (Rlt_bool_intro 0 (es / ss)) by assumption.
  cbn [bind]. unfold pexp. cbn [nmul NumR rx_mul nexp rx_exp nisinf rx_isinf andb bind].
  rewrite andb_false_r. f_equal. fold (ideal_exp ss es s en tt).
  apply (clamp_id_R e ss i es j); auto. apply ideal_exp_between; try assumption. lra.
Qed.

(* in a valid exponential epoch owned by t, size_at's formula evaluates, without error, to the
   exact real  start_size * exp (ln (end_size/start_size) * (start - t)/(start - end))  -- or to
   the end size when t is within the closeness tolerance of the epoch's end or the sizes are equal *)
Theorem size_exp_exact_R (e : @epoch NumR) (t : rx) :
  @ValidEpoch NumR e -> e_sf e = "exponential" -> @epoch_owns NumR t e = true ->
  exists v, @size_in_epoch NumR e t = Ok v /\
    (v = e_esize e \/
     exists s en ss es tt vv, rval (e_start e) = Some s /\ rval (e_end e) = Some en /\
       rval (e_ssize e) = Some ss /\ rval (e_esize e) = Some es /\ rval t = Some tt /\
       rval v = Some vv /\ en <= tt < s /\ 0 < ss /\ 0 < es /\ vv = ideal_exp ss es s en tt).
Proof.
  intros V Hsf Hown.
  destruct (size_exp_core e t V Hsf Hown)
    as (ss & es & i & j & Ess & Ees & Hss & Hes &
        [[Hv _] | (s & en & tt & i1 & i2 & i3 & Es & Een & Et & Hl & Hu & _ & Hv)]).
  - exists (e_esize e). split; [exact Hv | left; reflexivity].
  - eexists. split; [exact Hv|]. right.
    exists s, en, ss, es, tt. eexists.
    rewrite Es, Een, Ess, Ees, Et. cbn [rval].
    repeat (split; [reflexivity || assumption || lra|]). reflexivity.
Qed.

(* the "end size" answer is produced only by the explicit shortcut: if size_in_epoch returns the end
   size (as the same value, int flag included) then t is isclose0 to the epoch's end or the two sizes
   are equal.  (The third alternative "the ideal value equals es" is impossible otherwise: with
   ss <> es the ideal curve is strictly monotone and reaches es only at t = end, and then isclose0
   holds.  When the formula branch does run at a point where ideal = es numerically, the result
   carries the float flag, so it is only [neqb] to e_esize e; that is covered by
   size_exp_end_value_R below.) *)
Lemma ideal_exp_eq_es ss es s en tt : 0 < ss -> 0 < es -> ss <> es -> en < s ->
  ideal_exp ss es s en tt = es -> tt = en.
Proof.
  intros Hs He Hne Hd H. unfold ideal_exp in H.
  rewrite <- (exp_ln_ratio ss es Hs He) in H at 2.
  apply Rmult_eq_reg_l in H; [|lra]. apply exp_inv in H.
  destruct (ln_ratio_sign ss es Hs He) as (Lp & Ln & _).
  assert (HL : ln (es / ss) <> 0).
  { destruct (Rtotal_order ss es) as [C|[C|C]]; [specialize (Lp C); lra | contradiction | specialize (Ln C); lra]. }
  assert (F : (s - tt) / (s - en) = 1).
  { apply Rmult_eq_reg_l with (ln (es / ss)); [lra | assumption]. }
  assert (G : s - tt = s - en).
  { rewrite <- (Rmult_1_l (s - en)). rewrite <- F. field. lra. }
  lra.
Qed.

Theorem size_exp_end_branch_R (e : @epoch NumR) (t : rx) :
  @ValidEpoch NumR e -> e_sf e = "exponential" -> @epoch_owns NumR t e = true ->
  @size_in_epoch NumR e t = Ok (e_esize e) ->
  @isclose0 NumR t (e_end e) = true \/ @neqb NumR (e_ssize e) (e_esize e) = true.
Proof.
  intros V Hsf Hown Hsz.
  destruct (size_exp_core e t V Hsf Hown)
    as (ss & es & i & j & Ess & Ees & Hss & Hes &
        [[_ Hv] | (s & en & tt & i1 & i2 & i3 & Es & Een & Et & Hl & Hu & Hne & Hv)]).
  - exact Hv.
  - exfalso. rewrite Hv, Ees in Hsz. injection Hsz as Hval _.
    apply ideal_exp_eq_es in Hval; try assumption; lra.
Qed.

(* value form: whenever the reported size is value-equal (==) to the end size *)
Theorem size_exp_end_value_R (e : @epoch NumR) (t v : rx) :
  @ValidEpoch NumR e -> e_sf e = "exponential" -> @epoch_owns NumR t e = true ->
  @size_in_epoch NumR e t = Ok v -> @neqb NumR v (e_esize e) = true ->
  @isclose0 NumR t (e_end e) = true \/ @neqb NumR (e_ssize e) (e_esize e) = true.
Proof.
  intros V Hsf Hown Hsz Heq.
  destruct (size_exp_core e t V Hsf Hown)
    as (ss & es & i & j & Ess & Ees & Hss & Hes &
        [[_ Hv] | (s & en & tt & i1 & i2 & i3 & Es & Een & Et & Hl & Hu & Hne & Hv)]).
  - exact Hv.
  - exfalso. rewrite Hv in Hsz. injection Hsz as <-. rewrite Ees in Heq.
    cbn [neqb NumR rx_eqb] in Heq. apply Req_bool_true in Heq.
    apply ideal_exp_eq_es in Heq; try assumption; lra.
Qed.

Lemma between_bool (a b v : R) i j k : Rmin a b <= v <= Rmax a b ->
  (@nle NumR (RF a i) (RF v k) && @nle NumR (RF v k) (RF b j) = true) \/
  (@nle NumR (RF b j) (RF v k) && @nle NumR (RF v k) (RF a i) = true).
Proof.
  intros [H1 H2]. cbn [nle NumR rx_le].
  destruct (Rle_lt_dec a b) as [C|C].
  - rewrite Rmin_left, Rmax_right in * by assumption.
    left. apply andb_true_iff. split; apply Rle_bool_intro; assumption.
  - rewrite Rmin_right in H1 by lra. rewrite Rmax_left in H2 by lra.
    right. apply andb_true_iff. split; apply Rle_bool_intro; assumption.
Qed.

Lemma between_bool_end (a b : R) i j : 
  (@nle NumR (RF a i) (RF b j) && @nle NumR (RF b j) (RF b j) = true) \/
  (@nle NumR (RF b j) (RF b j) && @nle NumR (RF b j) (RF a i) = true).
Proof.
  apply between_bool. split; [apply Rmin_r | apply Rmax_r].
Qed.

Theorem size_between_exp_R (e : @epoch NumR) (t v : rx) :
  @ValidEpoch NumR e -> e_sf e = "exponential" -> @epoch_owns NumR t e = true ->
  @size_in_epoch NumR e t = Ok v ->
  (@nle NumR (e_ssize e) v && @nle NumR v (e_esize e) = true) \/
  (@nle NumR (e_esize e) v && @nle NumR v (e_ssize e) = true).
Proof.
  intros V Hsf Hown Hsz.
  destruct (size_exp_core e t V Hsf Hown)
    as (ss & es & i & j & Ess & Ees & Hss & Hes &
        [[Hv _] | (s & en & tt & i1 & i2 & i3 & Es & Een & Et & Hl & Hu & Hne & Hv)]);
    rewrite Hv in Hsz; injection Hsz as <-; rewrite Ess; try rewrite Ees.
  - apply between_bool_end.
  - apply between_bool. apply ideal_exp_between; try assumption. lra.
Qed.

(* ---------- linear epochs (port of Proofs/SizeBetweenQ.v) ---------- *)

Lemma size_linear_core (e : @epoch NumR) (t : rx) :
  @ValidEpoch NumR e -> e_sf e = "linear" -> @epoch_owns NumR t e = true ->
  exists ss es i j, e_ssize e = RF ss i /\ e_esize e = RF es j /\ 0 < ss /\ 0 < es /\
    ((@size_in_epoch NumR e t = Ok (e_esize e) /\
      (@isclose0 NumR t (e_end e) = true \/ @neqb NumR (e_ssize e) (e_esize e) = true)) \/
     exists s en tt i1 i2 i3 k, e_start e = RF s i1 /\ e_end e = RF en i2 /\ t = RF tt i3 /\
       en < tt /\ tt < s /\ ss <> es /\
       @size_in_epoch NumR e t = Ok (RF (ideal_lin ss es s en tt) k)).
Proof.
  intros V Hsf Hown.
  destruct (epoch_shape e t V Hown)
    as (ss & es & en & tt & i & j & i2 & i3 & Ess & Ees & Een & Et & Hss & Hes & Hen & Hl & Hst).
  exists ss, es, i, j. repeat (split; [assumption|]).
  unfold size_in_epoch. rewrite Hsf, Ess, Ees, Een, Et.
  destruct (@isclose0 NumR (RF tt i3) (RF en i2)) eqn:Hc; [left; split; [cbn [orb]; f_equal; apply (clamp_flat_R e ss i es j Ess Ees) | left; reflexivity]|].
  simpl String.eqb. cbn [orb].
  destruct (@neqb NumR (RF ss i) (RF es j)) eqn:He; [left; split; [f_equal; apply (clamp_flat_R e ss i es j Ess Ees) | right; reflexivity]|]. right.
  apply isclose0_false_neq in Hc.
  cbn [neqb NumR rx_eqb] in He. apply Req_bool_false in He.
  destruct Hst as [[_ E] | (s & i1 & Es & Hu)]; [contradiction|].
  exists s, en, tt, i1, i2, i3. rewrite Es.
  unfold pdiv. cbn [neqb NumR rx_eqb rx_sub nsub n0 ndiv rx_div bind].
  rewrite (Req_bool_intro_false (s - en) 0) by lra.
  cbn [bind nadd nmul nsub NumR rx_add rx_mul rx_sub]. eexists.
  repeat (split; [reflexivity || assumption || lra|]).
  f_equal. fold (ideal_lin ss es s en tt).
  apply (clamp_id_R e ss i es j); auto. apply ideal_lin_between. lra.
Qed.

Theorem size_linear_exact_R (e : @epoch NumR) (t : rx) :
  @ValidEpoch NumR e -> e_sf e = "linear" -> @epoch_owns NumR t e = true ->
  exists v, @size_in_epoch NumR e t = Ok v /\
    (v = e_esize e \/
     exists s en ss es tt vv, rval (e_start e) = Some s /\ rval (e_end e) = Some en /\
       rval (e_ssize e) = Some ss /\ rval (e_esize e) = Some es /\ rval t = Some tt /\
       rval v = Some vv /\ en <= tt < s /\ 0 < ss /\ 0 < es /\ vv = ideal_lin ss es s en tt).
Proof.
  intros V Hsf Hown.
  destruct (size_linear_core e t V Hsf Hown)
    as (ss & es & i & j & Ess & Ees & Hss & Hes &
        [[Hv _] | (s & en & tt & i1 & i2 & i3 & k & Es & Een & Et & Hl & Hu & _ & Hv)]).
  - exists (e_esize e). split; [exact Hv | left; reflexivity].
  - eexists. split; [exact Hv|]. right.
    exists s, en, ss, es, tt. eexists.
    rewrite Es, Een, Ess, Ees, Et. cbn [rval].
    repeat (split; [reflexivity || assumption || lra|]). reflexivity.
Qed.

Theorem size_between_linear_R (e : @epoch NumR) (t v : rx) :
  @ValidEpoch NumR e -> e_sf e = "linear" -> @epoch_owns NumR t e = true ->
  @size_in_epoch NumR e t = Ok v ->
  (@nle NumR (e_ssize e) v && @nle NumR v (e_esize e) = true) \/
  (@nle NumR (e_esize e) v && @nle NumR v (e_ssize e) = true).
Proof.
  intros V Hsf Hown Hsz.
  destruct (size_linear_core e t V Hsf Hown)
    as (ss & es & i & j & Ess & Ees & Hss & Hes &
        [[Hv _] | (s & en & tt & i1 & i2 & i3 & k & Es & Een & Et & Hl & Hu & Hne & Hv)]);
    rewrite Hv in Hsz; injection Hsz as <-; rewrite Ess; try rewrite Ees.
  - apply between_bool_end.
  - apply between_bool. apply ideal_lin_between. lra.
Qed.

(* ---------- constant epochs and the whole deme ---------- *)

Theorem size_between_const_R (e : @epoch NumR) (t v : rx) :
  @ValidEpoch NumR e -> e_sf e = "constant" -> @epoch_owns NumR t e = true ->
  @size_in_epoch NumR e t = Ok v ->
  v = e_esize e /\
  ((@nle NumR (e_ssize e) v && @nle NumR v (e_esize e) = true) \/
   (@nle NumR (e_esize e) v && @nle NumR v (e_ssize e) = true)).
Proof.
  intros V Hsf Hown Hsz.
  destruct (epoch_shape e t V Hown)
    as (ss & es & en & tt & i & j & i2 & i3 & Ess & Ees & Een & Et & Hss & Hes & Hen & Hl & Hst).
  unfold size_in_epoch in Hsz. rewrite Hsf in Hsz. simpl String.eqb in Hsz.
  rewrite orb_true_r in Hsz. cbn [orb] in Hsz. rewrite Ees in Hsz.
  rewrite (clamp_flat_R e ss i es j Ess Ees) in Hsz. rewrite <- Ees in Hsz. injection Hsz as <-.
  split; [reflexivity|]. rewrite Ess, Ees. apply between_bool_end.
Qed.

Theorem size_in_epoch_between_R (e : @epoch NumR) (t v : rx) :
  @ValidEpoch NumR e -> @epoch_owns NumR t e = true ->
  @size_in_epoch NumR e t = Ok v ->
  (@nle NumR (e_ssize e) v && @nle NumR v (e_esize e) = true) \/
  (@nle NumR (e_esize e) v && @nle NumR v (e_ssize e) = true).
Proof.
  intros V Hown Hsz.
  destruct (ve_sf e V) as [H|[H|[H|[]]]]; symmetry in H.
  - apply (size_between_const_R e t v V H Hown Hsz).
  - apply (size_between_exp_R e t v V H Hown Hsz).
  - apply (size_between_linear_R e t v V H Hown Hsz).
Qed.

Theorem size_at_between_R (d : @deme NumR) (t v : rx) :
  (forall e, In e (d_epochs d) -> @ValidEpoch NumR e) ->
  @size_at NumR d t = Ok v ->
  v = @n0 NumR
  \/ (exists e es', d_epochs d = e :: es' /\ v = e_ssize e /\ @nisinf NumR t = true)
  \/ (exists e, In e (d_epochs d) /\ @epoch_owns NumR t e = true /\
        ((@nle NumR (e_ssize e) v && @nle NumR v (e_esize e) = true) \/
         (@nle NumR (e_esize e) v && @nle NumR v (e_ssize e) = true))).
Proof.
  intros V Hsz. unfold size_at in Hsz.
  destruct (@nisinf NumR t && @nisinf NumR (d_start d)) eqn:Hinf.
  - apply andb_true_iff in Hinf. destruct Hinf as [Hi _].
    destruct (d_epochs d) as [|e es'] eqn:Ed; [discriminate|].
    injection Hsz as <-. right. left. exists e, es'. auto.
  - destruct (find (@epoch_owns NumR t) (d_epochs d)) as [e|] eqn:Hf.
    + apply find_some in Hf. destruct Hf as [Hin Hown].
      right. right. exists e. split; [assumption|]. split; [assumption|].
      apply (size_in_epoch_between_R e t v (V e Hin) Hown Hsz).
    + injection Hsz as <-. left. reflexivity.
Qed.

(* size_at never fails on a deme with valid epochs (and at least one epoch) *)
Theorem size_in_epoch_total_R (e : @epoch NumR) (t : rx) :
  @ValidEpoch NumR e -> @epoch_owns NumR t e = true -> exists v, @size_in_epoch NumR e t = Ok v.
Proof.
  intros V Hown.
  destruct (ve_sf e V) as [H|[H|[H|[]]]]; symmetry in H.
  - unfold size_in_epoch. rewrite H. simpl String.eqb. rewrite orb_true_r. cbn [orb]. eauto.
  - destruct (size_exp_exact_R e t V H Hown) as (v & Hv & _). eauto.
  - destruct (size_linear_exact_R e t V H Hown) as (v & Hv & _). eauto.
Qed.

Print Assumptions size_exp_exact_R.
Print Assumptions size_exp_end_branch_R.
Print Assumptions size_exp_end_value_R.
Print Assumptions ideal_exp_between.
Print Assumptions ideal_exp_ends.
Print Assumptions ideal_exp_monotone.
Print Assumptions ideal_lin_between.
Print Assumptions ideal_lin_ends.
Print Assumptions size_between_exp_R.
Print Assumptions size_linear_exact_R.
Print Assumptions size_between_linear_R.
Print Assumptions size_between_const_R.
Print Assumptions size_in_epoch_between_R.
Print Assumptions size_at_between_R.
Print Assumptions size_in_epoch_total_R.
