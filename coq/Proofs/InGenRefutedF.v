(* InGenRefutedF: on IEEE binary64 (instance NumF, Coq's primitive floats) Graph.in_generations can
   turn a VALID graph into an INVALID one.  Proofs/InGenValid.v proves  ingen_valid : Valid g ->
   DivOK (g_gt g) (all_times g) -> in_generations g = Ok h -> Valid h,  and Proofs/InGenQ.v shows
   that DivOK always holds over exact rationals.  Here the three recorded findings about
   demes-python are machine-checked counterexamples over NumF (everything is evaluated by
   vm_compute on primitive floats), and for each of them the premise DivOK of ingen_valid is
   shown to be false on that very graph, so theorem and finding meet at the same premise.

     F12c  underflow : 5e-324 / 2 = 0            (start_time = end_time after conversion)
     F12a  collapse  : 1000 / 29 = next_up(1000) / 29   (two distinct times become equal)
     F12b  overflow  : 1e10 / 1e-300 = +infinity  (a finite start time becomes infinite)

   Float literals are written in hexadecimal where the decimal form is not exactly a binary64
   value (so that no "inexact-float" warning is emitted): 0x1p-1074 is the smallest positive
   double, printed 4.9406564584124654e-324, i.e. Python's 5e-324. *)
From Coq Require Import Bool List String QArith Lqa Floats.
From Demes Require Import Base.Num Base.NumF Base.Py Model.MDM Model.Resolve Model.InGen Model.Validb
  Spec.Valid Proofs.ValidbProofs Proofs.InGenProofs Proofs.InGenValid.
Import ListNotations.
Local Open Scope string_scope.
Local Open Scope list_scope.

Definition JN (x : PrimFloat.float) : @jv NumF := JNum x.

(* time_units "years", generation_time [gt]; a root deme A (start_time infinity, one constant epoch
   ending at 0) and a deme B with ancestors [A], start_time [t1], one constant epoch ending at [t2]. *)
Definition mkdoc (gt t1 t2 : PrimFloat.float) : @jv NumF :=
  JDict [
    ("time_units", JStr "years");
    ("generation_time", JN gt);
    ("demes", JList [
       JDict [("name", JStr "A"); ("start_time", JN infinity);
              ("epochs", JList [JDict [("start_size", JN 1000%float); ("end_time", JN 0%float)]])];
       JDict [("name", JStr "B"); ("ancestors", JList [JStr "A"]); ("start_time", JN t1);
              ("epochs", JList [JDict [("start_size", JN 100%float); ("end_time", JN t2)]])]])
  ].

Definition dummy_graph : @graph NumF := mkGraph "" "" n0 [] JNull [] [] [] [].
Definition resolved (doc : @jv NumF) : @graph NumF :=
  match @fromdict NumF doc with Ok g => g | Err _ => dummy_graph end.
Definition converted (g : @graph NumF) : @graph NumF :=
  match @in_generations NumF g with Ok h => h | Err _ => dummy_graph end.

(* validb = false refutes Valid (completeness of the verified checker) *)
Lemma not_valid_of_validb_false (g : @graph NumF) : @validb NumF g = false -> ~ @Valid NumF g.
Proof.
  intros Hb HV. apply (@validb_complete NumF NumFLaws) in HV. rewrite HV in Hb. discriminate Hb.
Qed.

(* ------------------------------------------------------------------ *)
(* F12c: underflow to zero.  B starts at 5e-324 years and ends at 0; generation_time 2. *)
Definition doc : @jv NumF := mkdoc 2%float 0x1p-1074%float 0%float.

Definition g_before : @graph NumF := Eval vm_compute in resolved doc.

Example f12c_resolves : @fromdict NumF doc = Ok g_before.
Proof. vm_compute. reflexivity. Qed.

Example f12c_valid_before : @validb NumF g_before = true.
Proof. vm_compute. reflexivity. Qed.

Theorem f12c_Valid_before : @Valid NumF g_before.
Proof. apply (@validb_sound NumF NumFLaws). exact f12c_valid_before. Qed.

Definition g_after : @graph NumF := Eval vm_compute in converted g_before.

Example f12c_converted : @in_generations NumF g_before = Ok g_after.
Proof. vm_compute. reflexivity. Qed.

Example f12c_invalid_after : @validb NumF g_after = false.
Proof. vm_compute. reflexivity. Qed.

(* what went wrong: B's start time is now equal to its end time *)
Example f12c_times_before : map d_start (g_demes g_before) = [infinity; 0x1p-1074%float] /\
                            map (fun d => map e_end (d_epochs d)) (g_demes g_before) = [[0%float]; [0%float]].
Proof. vm_compute. split; reflexivity. Qed.
Example f12c_times_after : map d_start (g_demes g_after) = [infinity; 0%float] /\
                           map (fun d => map e_end (d_epochs d)) (g_demes g_after) = [[0%float]; [0%float]].
Proof. vm_compute. split; reflexivity. Qed.

Theorem f12c_not_Valid_after : ~ @Valid NumF g_after.
Proof. apply not_valid_of_validb_false. exact f12c_invalid_after. Qed.

Theorem ingen_valid_refuted_F :
  exists g g', @Valid NumF g /\ @in_generations NumF g = Ok g' /\ ~ @Valid NumF g'.
Proof.
  exists g_before, g_after. split; [exact f12c_Valid_before|].
  split; [exact f12c_converted | exact f12c_not_Valid_after].
Qed.

(* ------------------------------------------------------------------ *)
(* F12a: collapse.  B starts at next_up(1000) = 1000.0000000000001 years and ends at 1000 years;
   generation_time 29.  Both quotients are 34.482758620689658. *)
Definition doc_a : @jv NumF := mkdoc 29%float 0x1.f400000000001p9%float 1000%float.

Example f12a_adjacent : next_up 1000%float = 0x1.f400000000001p9%float /\
                        PrimFloat.ltb 1000%float 0x1.f400000000001p9%float = true /\
                        PrimFloat.eqb (1000 / 29)%float (0x1.f400000000001p9 / 29)%float = true.
Proof. vm_compute. repeat split. Qed.

Definition ga_before : @graph NumF := Eval vm_compute in resolved doc_a.

Example f12a_resolves : @fromdict NumF doc_a = Ok ga_before.
Proof. vm_compute. reflexivity. Qed.

Example f12a_valid_before : @validb NumF ga_before = true.
Proof. vm_compute. reflexivity. Qed.

Theorem f12a_Valid_before : @Valid NumF ga_before.
Proof. apply (@validb_sound NumF NumFLaws). exact f12a_valid_before. Qed.

Definition ga_after : @graph NumF := Eval vm_compute in converted ga_before.

Example f12a_converted : @in_generations NumF ga_before = Ok ga_after.
Proof. vm_compute. reflexivity. Qed.

Example f12a_invalid_after : @validb NumF ga_after = false.
Proof. vm_compute. reflexivity. Qed.

Example f12a_times_after :
  map d_start (g_demes ga_after) = [infinity; (1000 / 29)%float] /\
  map (fun d => map e_end (d_epochs d)) (g_demes ga_after) = [[0%float]; [(1000 / 29)%float]].
Proof. vm_compute. split; reflexivity. Qed.

Theorem ingen_collapse_refuted_F :
  exists g g', @Valid NumF g /\ @in_generations NumF g = Ok g' /\ ~ @Valid NumF g' /\
    (* the mechanism: two distinct positive finite times of g have the same nonzero quotient *)
    exists t1 t2, In t1 (all_times g) /\ In t2 (all_times g) /\ nlt t2 t1 = true /\
                  neqb (ndiv t1 (g_gt g)) (ndiv t2 (g_gt g)) = true /\
                  nlt n0 (ndiv t2 (g_gt g)) = true.
Proof.
  exists ga_before, ga_after. split; [exact f12a_Valid_before|].
  split; [exact f12a_converted|].
  split; [apply not_valid_of_validb_false; exact f12a_invalid_after|].
  exists 0x1.f400000000001p9%float, 1000%float.
  split; [vm_compute; auto 10|]. split; [vm_compute; auto 10|].
  vm_compute. repeat split.
Qed.

(* ------------------------------------------------------------------ *)
(* F12b: overflow.  generation_time 0x1.56e1fc2f8f359p-997 (the double nearest to 1e-300: positive,
   finite, < 1); B starts at 1e10 years (finite) and ends at 0.  1e10 / 1e-300 = +infinity. *)
Definition doc_b : @jv NumF := mkdoc 0x1.56e1fc2f8f359p-997%float 1e10%float 0%float.

Definition gb_before : @graph NumF := Eval vm_compute in resolved doc_b.

Example f12b_resolves : @fromdict NumF doc_b = Ok gb_before.
Proof. vm_compute. reflexivity. Qed.

Example f12b_valid_before : @validb NumF gb_before = true.
Proof. vm_compute. reflexivity. Qed.

Theorem f12b_Valid_before : @Valid NumF gb_before.
Proof. apply (@validb_sound NumF NumFLaws). exact f12b_valid_before. Qed.

Definition gb_after : @graph NumF := Eval vm_compute in converted gb_before.

Example f12b_converted : @in_generations NumF gb_before = Ok gb_after.
Proof. vm_compute. reflexivity. Qed.

Example f12b_invalid_after : @validb NumF gb_after = false.
Proof. vm_compute. reflexivity. Qed.

Example f12b_times_after : map d_start (g_demes gb_after) = [infinity; infinity] /\
                           map d_anc (g_demes gb_after) = [[]; ["A"]].
Proof. vm_compute. split; reflexivity. Qed.

Theorem ingen_overflow_refuted_F :
  exists g g', @Valid NumF g /\ @in_generations NumF g = Ok g' /\ ~ @Valid NumF g' /\
    (* the mechanism: the generation time is positive, finite and below 1, and a finite time of g
       has an infinite quotient *)
    nlt n0 (g_gt g) = true /\ nlt (g_gt g) n1 = true /\
    exists t, In t (all_times g) /\ nisinf t = false /\ nisinf (ndiv t (g_gt g)) = true.
Proof.
  exists gb_before, gb_after. split; [exact f12b_Valid_before|].
  split; [exact f12b_converted|].
  split; [apply not_valid_of_validb_false; exact f12b_invalid_after|].
  split; [vm_compute; reflexivity|]. split; [vm_compute; reflexivity|].
  exists 1e10%float. split; [vm_compute; auto 10|]. vm_compute. split; reflexivity.
Qed.

(* ------------------------------------------------------------------ *)
(* The premise DivOK of ingen_valid is what fails. *)

(* generation time 2: strict monotonicity fails on 0 < 5e-324 (both quotients are 0) *)
Lemma divok_fails_F_gen (times : list PrimFloat.float) :
  In 0%float times -> In 0x1p-1074%float times -> ~ @DivOK NumF NumFLaws 2%float times.
Proof.
  intros H0 H1 D.
  pose proof (@dk_mono NumF NumFLaws _ _ D 0%float 0x1p-1074%float H0 H1 eq_refl eq_refl) as M.
  assert (Hlt : @rk NumF NumFLaws 0%float < @rk NumF NumFLaws 0x1p-1074%float)
    by (vm_compute; reflexivity).
  specialize (M Hlt). vm_compute in M. discriminate M.
Qed.

Theorem divok_fails_F : ~ @DivOK NumF NumFLaws (g_gt g_before) (all_times g_before).
Proof.
  change (g_gt g_before) with 2%float.
  apply divok_fails_F_gen; vm_compute; auto 10.
Qed.

(* generation time 29: strict monotonicity fails on 1000 < next_up 1000 *)
Theorem divok_fails_collapse_F : ~ @DivOK NumF NumFLaws (g_gt ga_before) (all_times ga_before).
Proof.
  intro D.
  assert (H0 : In 1000%float (all_times ga_before)) by (vm_compute; auto 10).
  assert (H1 : In 0x1.f400000000001p9%float (all_times ga_before)) by (vm_compute; auto 10).
  pose proof (@dk_mono NumF NumFLaws _ _ D _ _ H0 H1 eq_refl eq_refl) as M.
  assert (Hlt : @rk NumF NumFLaws 1000%float < @rk NumF NumFLaws 0x1.f400000000001p9%float)
    by (vm_compute; reflexivity).
  specialize (M Hlt). vm_compute in M. discriminate M.
Qed.

(* generation time ~1e-300: finite does not stay finite on 1e10 *)
Theorem divok_fails_overflow_F : ~ @DivOK NumF NumFLaws (g_gt gb_before) (all_times gb_before).
Proof.
  intro D.
  assert (H0 : In 1e10%float (all_times gb_before)) by (vm_compute; auto 10).
  pose proof (@dk_fin NumF NumFLaws _ _ D _ H0 eq_refl) as M.
  vm_compute in M. discriminate M.
Qed.

Print Assumptions f12c_Valid_before.
Print Assumptions f12c_not_Valid_after.
Print Assumptions ingen_valid_refuted_F.
Print Assumptions f12a_Valid_before.
Print Assumptions ingen_collapse_refuted_F.
Print Assumptions f12b_Valid_before.
Print Assumptions ingen_overflow_refuted_F.
Print Assumptions divok_fails_F.
Print Assumptions divok_fails_collapse_F.
Print Assumptions divok_fails_overflow_F.
