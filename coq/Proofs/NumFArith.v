(* NumFArith: the arithmetic facts about IEEE binary64 (Coq's primitive floats,
   instance NumF of Base/NumF.v) that theorems of this development take as
   hypotheses: SumOne, InfUnique, x*1 = x, x/1 = x, ArithLaws, DivLaw, SumOK.
   The proofs go through Flocq's binary_float (Prim2B/B2Prim and the *_equiv
   lemmas of Flocq.IEEE754.PrimFloat, the *_correct lemmas of BinarySingleNaN). *)
From Coq Require Import QArith Qabs Lqa Bool ZArith Reals Qreals List Lra Lia.
From Coq Require Import Floats.
From Flocq Require Import Core IEEE754.BinarySingleNaN.
From Flocq Require IEEE754.PrimFloat.
From Demes Require Import Base.Num Base.NumQ Base.NumF Base.Py.
From Demes Require Import Spec.Valid Spec.MsSem.
From Demes Require Proofs.SimplifyDemes Proofs.IOProofs Proofs.FromMsRates Proofs.ResolveMigs.
Import ListNotations.

Local Existing Instance FP.Hprec.
Local Existing Instance FP.Hmax.

Local Notation bf := (binary_float prec emax).

(* ---------- 1. SumOne ---------- *)

Lemma sumone_F : @Proofs.SimplifyDemes.SumOne NumF.
Proof. vm_compute. reflexivity. Qed.

(* ---------- 2. InfUnique ---------- *)

Lemma infunique_F : @Proofs.IOProofs.InfUnique NumF.
Proof.
  intros x Hi Hl.
  cbn [num nisinf nlt n0 ninf NumF] in *.
  apply FP.Prim2B_inj.
  rewrite FP.is_infinity_equiv in Hi. rewrite FP.ltb_equiv in Hl.
  rewrite FP.infinity_equiv, FP.Prim2B_B2Prim.
  rewrite FP.zero_equiv, FP.Prim2B_B2Prim in Hl.
  destruct (FP.Prim2B x) as [s|s| |s m e H]; try discriminate Hi.
  destruct s; [discriminate Hl|reflexivity].
Qed.

(* ---------- facts on binary_float ---------- *)

Lemma Bone_shape : exists m e H, (Bone : bf) = B754_finite false m e H.
Proof.
  pose proof (@is_finite_strict_Bone prec emax _ _) as F.
  pose proof (@Bsign_Bone prec emax _ _) as S.
  destruct (Bone : bf) as [s|s| |s m e H]; try discriminate F.
  simpl in S. subst s. eauto.
Qed.

Lemma round_B2R (x : bf) :
  round radix2 (fexp prec emax) (round_mode mode_NE) (B2R x) = B2R x.
Proof.
  apply round_generic; [apply valid_rnd_round_mode|apply generic_format_B2R].
Qed.

Lemma fin_not_nan (x : bf) : is_finite x = true -> is_nan x = false.
Proof. destruct x; simpl; congruence. Qed.

Lemma Bmult_one (x : bf) : Bmult mode_NE x Bone = x.
Proof.
  destruct (is_finite x) eqn:Fx.
  - pose proof (Bmult_correct prec emax _ _ mode_NE x Bone) as C.
    rewrite Bone_correct, Rmult_1_r, round_B2R in C.
    rewrite Rlt_bool_true in C by (apply abs_B2R_lt_emax).
    destruct C as (R & F & S).
    rewrite Fx, is_finite_Bone in F. simpl in F.
    apply B2R_Bsign_inj; auto.
    rewrite S by (apply fin_not_nan, F).
    rewrite Bsign_Bone. apply xorb_false_r.
  - destruct Bone_shape as (m & e & H & ->).
    destruct x as [s|s| |s mx ex Hx]; try discriminate Fx; simpl;
      try rewrite xorb_false_r; reflexivity.
Qed.

Lemma Bdiv_one (x : bf) : Bdiv mode_NE x Bone = x.
Proof.
  destruct (is_finite x) eqn:Fx.
  - assert (N1 : B2R (Bone : bf) <> 0%R) by (rewrite Bone_correct; lra).
    pose proof (Bdiv_correct prec emax _ _ mode_NE x Bone N1) as C.
    rewrite Bone_correct in C. unfold Rdiv in C.
    rewrite Rinv_1, Rmult_1_r, round_B2R in C.
    rewrite Rlt_bool_true in C by (apply abs_B2R_lt_emax).
    destruct C as (R & F & S).
    rewrite Fx in F.
    apply B2R_Bsign_inj; auto.
    rewrite S by (apply fin_not_nan, F).
    rewrite Bsign_Bone. apply xorb_false_r.
  - destruct Bone_shape as (m & e & H & ->).
    destruct x as [s|s| |s mx ex Hx]; try discriminate Fx; simpl;
      try rewrite xorb_false_r; reflexivity.
Qed.

Lemma Prim2B_one : FP.Prim2B PrimFloat.one = Bone.
Proof. rewrite FP.one_equiv. apply FP.Prim2B_B2Prim. Qed.

(* ---------- 3. x * 1.0 = x ---------- *)

Lemma mul_one_F : forall x : @num NumF, nmul x n1 = x.
Proof.
  intro x. cbn [num nmul n1 NumF] in *.
  apply FP.Prim2B_inj. rewrite FP.mul_equiv, Prim2B_one. apply Bmult_one.
Qed.

(* ---------- 4. x / 1.0 = x, ArithLaws ---------- *)

Lemma div_one_F : forall x : @num NumF, ndiv x n1 = x.
Proof.
  intro x. cbn [num ndiv n1 NumF] in *.
  apply FP.Prim2B_inj. rewrite FP.div_equiv, Prim2B_one. apply Bdiv_one.
Qed.

Lemma Babs_overflow (z : bf) s :
  B2SF z = binary_overflow prec emax mode_NE s -> Babs z = B754_infinity false.
Proof.
  unfold binary_overflow; simpl. destruct z; simpl; intro E; try discriminate E.
  reflexivity.
Qed.

Lemma Babs_Bminus_sym (a b : bf) :
  Babs (Bminus mode_NE b a) = Babs (Bminus mode_NE a b).
Proof.
  destruct (is_finite a) eqn:Fa; [destruct (is_finite b) eqn:Fb|].
  - pose proof (Bminus_correct prec emax _ _ mode_NE b a Fb Fa) as C1.
    pose proof (Bminus_correct prec emax _ _ mode_NE a b Fa Fb) as C2.
    replace (B2R b - B2R a)%R with (- (B2R a - B2R b))%R in C1 by ring.
    simpl round_mode in C1, C2.
    rewrite round_NE_opp, Rabs_Ropp in C1.
    destruct (Rlt_bool _ _).
    + destruct C1 as (R1 & F1 & _). destruct C2 as (R2 & F2 & _).
      apply B2R_Bsign_inj.
      * now rewrite is_finite_Babs.
      * now rewrite is_finite_Babs.
      * rewrite !B2R_Babs, R1, R2. apply Rabs_Ropp.
      * now rewrite !Bsign_Babs.
    + destruct C1 as (O1 & _). destruct C2 as (O2 & _).
      rewrite (Babs_overflow _ _ O1), (Babs_overflow _ _ O2). reflexivity.
  - destruct a as [sa|sa| |sa ma ea Ha]; try discriminate Fa;
    destruct b as [sb|sb| |sb mb eb Hb]; try discriminate Fb;
    try destruct sa; try destruct sb; reflexivity.
  - destruct a as [sa|sa| |sa ma ea Ha]; try discriminate Fa;
    destruct b as [sb|sb| |sb mb eb Hb];
    try destruct sa; try destruct sb; reflexivity.
Qed.

Lemma abs_sub_sym_F : forall a b : @num NumF, nabs (nsub b a) = nabs (nsub a b).
Proof.
  intros a b. cbn [num nabs nsub NumF] in *.
  apply FP.Prim2B_inj. rewrite !FP.abs_equiv, !FP.sub_equiv. apply Babs_Bminus_sym.
Qed.

#[export] Instance NumFArith : ArithLaws NumF NumFLaws.
Proof.
  constructor.
  - intros a b c. rewrite abs_sub_sym_F. reflexivity.
  - intros x H. rewrite div_one_F. split; [exact H|reflexivity].
Qed.

(* ---------- values of constants; saturating addition ---------- *)

Lemma B2R_Prim2B x : B2R (FP.Prim2B x) = SF2R radix2 (Prim2SF x).
Proof. unfold FP.Prim2B. apply B2R_SF2B. Qed.

Lemma fin_Prim2B x : PrimFloat.is_finite x = true -> is_finite (FP.Prim2B x) = true.
Proof. intro H. rewrite <- FP.is_finite_equiv. exact H. Qed.

(* the real value of a literal float *)
Ltac b2r_lit c :=
  rewrite (B2R_Prim2B c);
  let v := eval vm_compute in (Prim2SF c) in
  change (Prim2SF c) with v;
  unfold SF2R, F2R; simpl.

Lemma B2R_zero : B2R (FP.Prim2B PrimFloat.zero) = 0%R.
Proof. b2r_lit PrimFloat.zero. reflexivity. Qed.
Lemma B2R_one : B2R (FP.Prim2B PrimFloat.one) = 1%R.
Proof. rewrite Prim2B_one. apply Bone_correct. Qed.
Lemma B2R_two : B2R (FP.Prim2B PrimFloat.two) = 2%R.
Proof. b2r_lit PrimFloat.two. lra. Qed.

Local Notation RND := (round radix2 (fexp prec emax) ZnearestE).

Lemma RND_le x y : (x <= y)%R -> (RND x <= RND y)%R.
Proof. apply round_le; [apply fexp_correct; reflexivity | apply valid_rnd_N]. Qed.

(* finite + finite: never NaN *)
Lemma Bplus_fin_not_nan (a b : bf) :
  is_finite a = true -> is_finite b = true -> is_nan (Bplus mode_NE a b) = false.
Proof.
  intros Fa Fb. pose proof (Bplus_correct prec emax _ _ mode_NE a b Fa Fb) as C.
  destruct (Rlt_bool _ _).
  - apply fin_not_nan. tauto.
  - destruct C as (O & _). unfold binary_overflow in O; simpl in O.
    destruct (Bplus mode_NE a b); simpl in *; congruence.
Qed.

(* if A + B rounds to A, then adding something of size <= B to something of
   size <= A stays of size <= A (in particular it does not overflow) *)
Lemma Bplus_sat (A B a b : bf) :
  is_finite A = true -> is_finite B = true -> Bplus mode_NE A B = A ->
  is_finite a = true -> is_finite b = true ->
  (Rabs (B2R a) <= B2R A)%R -> (Rabs (B2R b) <= B2R B)%R ->
  is_finite (Bplus mode_NE a b) = true /\
  B2R (Bplus mode_NE a b) = RND (B2R a + B2R b) /\
  (Rabs (B2R (Bplus mode_NE a b)) <= B2R A)%R.
Proof.
  intros FA FB E Fa Fb La Lb.
  assert (RA : RND (B2R A + B2R B) = B2R A).
  { pose proof (Bplus_correct prec emax _ _ mode_NE A B FA FB) as C.
    simpl round_mode in C. rewrite E in C.
    destruct (Rlt_bool _ _).
    - symmetry. tauto.
    - destruct C as (O & _). unfold binary_overflow in O; simpl in O.
      destruct A; simpl in *; congruence. }
  assert (Hr : (Rabs (RND (B2R a + B2R b)) <= B2R A)%R).
  { apply Rabs_le. apply Rabs_le_inv in La, Lb. split.
    - rewrite <- RA, <- round_NE_opp. apply RND_le. lra.
    - rewrite <- RA. apply RND_le. lra. }
  pose proof (Bplus_correct prec emax _ _ mode_NE a b Fa Fb) as C.
  simpl round_mode in C.
  rewrite Rlt_bool_true in C.
  - destruct C as (R & F & _). rewrite R. auto.
  - eapply Rle_lt_trans; [exact Hr|].
    eapply Rle_lt_trans; [apply Rle_abs|]. apply abs_B2R_lt_emax.
Qed.

(* ---------- 5. DivLaw ---------- *)

Definition two53 : PrimFloat.float := 9007199254740992%float.

Lemma two53_sat : Bplus mode_NE (FP.Prim2B two53) (FP.Prim2B PrimFloat.one) = FP.Prim2B two53.
Proof. rewrite <- FP.add_equiv. f_equal. Qed.

Lemma B2R_two53_pos : (0 <= B2R (FP.Prim2B two53))%R.
Proof. unfold two53. b2r_lit 9007199254740992%float. lra. Qed.

Lemma nat_num_fin k :
  is_finite (FP.Prim2B (@nat_num NumF k)) = true /\
  (Rabs (B2R (FP.Prim2B (@nat_num NumF k))) <= B2R (FP.Prim2B two53))%R.
Proof.
  induction k as [|k IH].
  - change (@nat_num NumF 0) with PrimFloat.zero.
    split; [apply fin_Prim2B; reflexivity|].
    rewrite B2R_zero, Rabs_R0. apply B2R_two53_pos.
  - change (@nat_num NumF (S k)) with (PrimFloat.add (@nat_num NumF k) PrimFloat.one).
    rewrite FP.add_equiv. destruct IH as (F & L).
    assert (F1 : is_finite (FP.Prim2B PrimFloat.one) = true) by (apply fin_Prim2B; reflexivity).
    assert (F2 : is_finite (FP.Prim2B two53) = true) by (apply fin_Prim2B; reflexivity).
    assert (L1 : (Rabs (B2R (FP.Prim2B PrimFloat.one)) <= B2R (FP.Prim2B PrimFloat.one))%R).
    { rewrite B2R_one, Rabs_R1. lra. }
    destruct (Bplus_sat _ _ _ _ F2 F1 two53_sat F F1 L L1) as (F' & _ & L').
    split; assumption.
Qed.

(* a non-NaN float divided by a finite non-zero float is not NaN *)
Lemma Bdiv_not_nan (x y : bf) :
  is_nan x = false -> is_finite y = true -> Beqb y (B754_zero false) = false ->
  is_nan (Bdiv mode_NE x y) = false.
Proof.
  intros Nx Fy Zy.
  destruct y as [sy|sy| |sy my ey Hy]; try discriminate Fy.
  - destruct sy; discriminate Zy.
  - destruct x as [sx|sx| |sx mx ex Hx]; try discriminate Nx; try reflexivity.
    assert (NZ : B2R (B754_finite sy my ey Hy) <> 0%R).
    { intro E. simpl in E. apply eq_0_F2R in E. destruct sy; discriminate E. }
    pose proof (Bdiv_correct prec emax _ _ mode_NE
                  (B754_finite sx mx ex Hx) (B754_finite sy my ey Hy) NZ) as C.
    destruct (Rlt_bool _ _).
    + apply fin_not_nan. destruct C as (_ & F & _). rewrite F. reflexivity.
    + unfold binary_overflow in C; simpl overflow_to_inf in C; cbv iota in C.
      destruct (Bdiv _ _ _); simpl in *; congruence.
Qed.

Lemma divlaw_F : @Proofs.FromMsRates.DivLaw NumF.
Proof.
  intros x k Hx Hk. unfold ok in *.
  cbn [num nisnan ndiv neqb n0 NumF] in *.
  rewrite FP.is_nan_equiv in *. rewrite FP.div_equiv.
  rewrite FP.eqb_equiv, FP.zero_equiv, FP.Prim2B_B2Prim in Hk.
  apply Bdiv_not_nan; auto. apply nat_num_fin.
Qed.

(* ---------- 6. SumOK ---------- *)

Definition two54 : PrimFloat.float := 18014398509481984%float.

Lemma two54_sat : Bplus mode_NE (FP.Prim2B two54) (FP.Prim2B PrimFloat.two) = FP.Prim2B two54.
Proof. rewrite <- FP.add_equiv. f_equal. Qed.

Lemma B2R_two53 : B2R (FP.Prim2B two53) = 9007199254740992%R.
Proof. unfold two53. b2r_lit 9007199254740992%float. lra. Qed.

Lemma B2R_two54 : B2R (FP.Prim2B two54) = 18014398509481984%R.
Proof. unfold two54. b2r_lit 18014398509481984%float. lra. Qed.

Lemma RND_0 : RND 0 = 0%R.
Proof. apply round_0. apply valid_rnd_N. Qed.
Lemma RND_1 : RND 1 = 1%R.
Proof. rewrite <- B2R_one. apply round_B2R. Qed.
Lemma RND_2 : RND 2 = 2%R.
Proof. rewrite <- B2R_two. apply round_B2R. Qed.
Lemma RND_m2 : RND (-2) = (-2)%R.
Proof. replace (-2)%R with (Ropp 2) by lra. rewrite round_NE_opp, RND_2. reflexivity. Qed.

Lemma RND_lb l x : RND l = l -> (l <= x)%R -> (l <= RND x)%R.
Proof. intros E H. rewrite <- E. apply RND_le, H. Qed.
Lemma RND_ub h x : RND h = h -> (x <= h)%R -> (RND x <= h)%R.
Proof. intros E H. rewrite <- E. apply RND_le, H. Qed.

Lemma small_lt_emax (X : bf) r : (Rabs r <= B2R X)%R -> (Rabs r < bpow radix2 emax)%R.
Proof.
  intro H. eapply Rle_lt_trans; [exact H|].
  eapply Rle_lt_trans; [apply Rle_abs|]. apply abs_B2R_lt_emax.
Qed.

Lemma RND_near (u : bf) (x : R) : (Rabs (RND (B2R u + x) - (B2R u + x)) <= Rabs x)%R.
Proof.
  pose proof (round_N_pt radix2 (fexp prec emax) (fun z => negb (Z.even z)) (B2R u + x)) as (_ & H).
  specialize (H (B2R u) (generic_format_B2R prec emax u)).
  replace (B2R u - (B2R u + x))%R with (- x)%R in H by ring.
  rewrite Rabs_Ropp in H. exact H.
Qed.

(* the compensation term of one Neumaier step is finite and small *)
Lemma err_bound (u v t : bf) :
  is_finite u = true -> is_finite v = true -> is_finite t = true ->
  (0 <= B2R u)%R -> (0 <= B2R v <= 1)%R -> B2R t = RND (B2R u + B2R v) ->
  is_finite (Bplus mode_NE (Bminus mode_NE u t) v) = true /\
  (Rabs (B2R (Bplus mode_NE (Bminus mode_NE u t) v)) <= B2R (FP.Prim2B PrimFloat.two))%R.
Proof.
  intros Fu Fv Ft Pu Pv Et. rewrite B2R_two.
  assert (Lt : (B2R u <= B2R t)%R).
  { rewrite Et. apply RND_lb; [apply round_B2R|lra]. }
  assert (Ut : (B2R t - B2R u <= 2)%R).
  { pose proof (RND_near u (B2R v)) as N. rewrite <- Et in N.
    rewrite (Rabs_pos_eq (B2R v)) in N by lra.
    apply Rabs_le_inv in N. lra. }
  pose proof (Bminus_correct prec emax _ _ mode_NE u t Fu Ft) as C.
  simpl round_mode in C.
  assert (Rd : (-2 <= RND (B2R u - B2R t) <= 0)%R).
  { split; [apply RND_lb; [apply RND_m2|lra] | apply RND_ub; [apply RND_0|lra]]. }
  rewrite Rlt_bool_true in C.
  2:{ apply (small_lt_emax (FP.Prim2B PrimFloat.two)). rewrite B2R_two.
      apply Rabs_le. lra. }
  destruct C as (Rd' & Fd & _). rewrite <- Rd' in Rd.
  set (d := Bminus mode_NE u t) in *.
  pose proof (Bplus_correct prec emax _ _ mode_NE d v Fd Fv) as C.
  simpl round_mode in C.
  assert (Re : (-2 <= RND (B2R d + B2R v) <= 1)%R).
  { split; [apply RND_lb; [apply RND_m2|lra] | apply RND_ub; [apply RND_1|lra]]. }
  rewrite Rlt_bool_true in C.
  2:{ apply (small_lt_emax (FP.Prim2B PrimFloat.two)). rewrite B2R_two.
      apply Rabs_le. lra. }
  destruct C as (Re' & Fe & _). rewrite Re'. split; [exact Fe|].
  apply Rabs_le. lra.
Qed.

(* invariants of the summation loop *)
Definition UnitF (x : PrimFloat.float) : Prop :=
  is_finite (FP.Prim2B x) = true /\ (0 <= B2R (FP.Prim2B x) <= 1)%R.
Definition SumF (f : PrimFloat.float) : Prop :=
  is_finite (FP.Prim2B f) = true /\
  (0 <= B2R (FP.Prim2B f) <= B2R (FP.Prim2B two53))%R.
Definition CompF (c : PrimFloat.float) : Prop :=
  is_finite (FP.Prim2B c) = true /\
  (Rabs (B2R (FP.Prim2B c)) <= B2R (FP.Prim2B two54))%R.

Lemma fin_one : is_finite (FP.Prim2B PrimFloat.one) = true.
Proof. apply fin_Prim2B; reflexivity. Qed.
Lemma fin_two : is_finite (FP.Prim2B PrimFloat.two) = true.
Proof. apply fin_Prim2B; reflexivity. Qed.
Lemma fin_two53 : is_finite (FP.Prim2B two53) = true.
Proof. apply fin_Prim2B; reflexivity. Qed.
Lemma fin_two54 : is_finite (FP.Prim2B two54) = true.
Proof. apply fin_Prim2B; reflexivity. Qed.

Lemma SumF_add f x : SumF f -> UnitF x ->
  SumF (PrimFloat.add f x) /\
  B2R (FP.Prim2B (PrimFloat.add f x)) = RND (B2R (FP.Prim2B f) + B2R (FP.Prim2B x)).
Proof.
  intros (Ff & Pf) (Fx & Px). unfold SumF. rewrite FP.add_equiv.
  assert (La : (Rabs (B2R (FP.Prim2B f)) <= B2R (FP.Prim2B two53))%R)
    by (apply Rabs_le; lra).
  assert (Lb : (Rabs (B2R (FP.Prim2B x)) <= B2R (FP.Prim2B PrimFloat.one))%R)
    by (rewrite B2R_one; apply Rabs_le; lra).
  destruct (Bplus_sat _ _ _ _ fin_two53 fin_one two53_sat Ff Fx La Lb) as (F' & R' & L').
  split; [|exact R']. split; [exact F'|]. split.
  - rewrite R'. apply RND_lb; [apply RND_0|lra].
  - apply Rabs_le_inv in L'. lra.
Qed.

Lemma CompF_add c e :
  CompF c -> is_finite (FP.Prim2B e) = true ->
  (Rabs (B2R (FP.Prim2B e)) <= B2R (FP.Prim2B PrimFloat.two))%R ->
  CompF (PrimFloat.add c e).
Proof.
  intros (Fc & Lc) Fe Le. unfold CompF; rewrite FP.add_equiv.
  destruct (Bplus_sat _ _ _ _ fin_two54 fin_two two54_sat Fc Fe Lc Le) as (F' & _ & L').
  split; assumption.
Qed.

Lemma step_ok f c x : SumF f -> CompF c -> UnitF x ->
  SumF (PrimFloat.add f x) /\
  CompF (if PrimFloat.leb (PrimFloat.abs x) (PrimFloat.abs f)
         then PrimFloat.add c (PrimFloat.add (PrimFloat.sub f (PrimFloat.add f x)) x)
         else PrimFloat.add c (PrimFloat.add (PrimFloat.sub x (PrimFloat.add f x)) f)).
Proof.
  intros Sf Cc Ux. destruct (SumF_add f x Sf Ux) as (St & Rt).
  split; [exact St|].
  destruct Sf as (Ff & Pf), Ux as (Fx & Px), St as (Ft & _).
  destruct (PrimFloat.leb _ _) eqn:E.
  - destruct (err_bound (FP.Prim2B f) (FP.Prim2B x) (FP.Prim2B (PrimFloat.add f x)))
      as (Fe & Le); auto; try lra.
    apply CompF_add; [exact Cc| |]; rewrite FP.add_equiv, FP.sub_equiv; assumption.
  - rewrite FP.leb_equiv, !FP.abs_equiv in E.
    rewrite Bleb_correct in E by (rewrite is_finite_Babs; assumption).
    rewrite !B2R_Babs in E.
    destruct (Rle_bool_spec (Rabs (B2R (FP.Prim2B x))) (Rabs (B2R (FP.Prim2B f)))) as [H|H];
      [discriminate E|].
    rewrite !Rabs_pos_eq in H by lra.
    rewrite Rplus_comm in Rt.
    destruct (err_bound (FP.Prim2B x) (FP.Prim2B f) (FP.Prim2B (PrimFloat.add f x)))
      as (Fe & Le); auto; try lra.
    apply CompF_add; [exact Cc| |]; rewrite FP.add_equiv, FP.sub_equiv; assumption.
Qed.

Lemma SumF_ok f : SumF f -> PrimFloat.is_nan f = false.
Proof. intros (F & _). rewrite FP.is_nan_equiv. apply fin_not_nan, F. Qed.

Lemma pysum_f_ok l : forall f c,
  (forall x, In x l -> UnitF x) -> SumF f -> CompF c ->
  PrimFloat.is_nan (@pysum_f NumF l f c) = false.
Proof.
  induction l as [|x l IH]; intros f c Hl Sf Cc.
  - cbn [pysum_f]. destruct (_ && _).
    + cbn [nadd NumF]. rewrite FP.is_nan_equiv, FP.add_equiv.
      apply Bplus_fin_not_nan; [apply Sf|apply Cc].
    + apply SumF_ok, Sf.
  - cbn [pysum_f nisint NumF nadd nsub nabs nle].
    destruct (step_ok f c x Sf Cc (Hl x (or_introl eq_refl))) as (St & Cc').
    apply IH; [|exact St|exact Cc'].
    intros y Hy. apply Hl. right. exact Hy.
Qed.

Lemma in_unit_UnitF (x : @num NumF) : in_unit x -> UnitF x.
Proof.
  intros (H0 & H1). cbn [num nle n0 n1 NumF] in *.
  rewrite FP.leb_equiv in H0, H1.
  rewrite FP.zero_equiv, FP.Prim2B_B2Prim in H0.
  assert (F : is_finite (FP.Prim2B x) = true).
  { rewrite Prim2B_one in H1. destruct Bone_shape as (m & e & H & E). rewrite E in H1.
    destruct (FP.Prim2B x) as [s|s| |s mx ex Hx]; try reflexivity; try discriminate H0.
    destruct s; [discriminate H0|discriminate H1]. }
  split; [exact F|].
  rewrite Bleb_correct in H0 by (auto; reflexivity).
  rewrite Bleb_correct in H1 by (auto; apply fin_one).
  rewrite B2R_one in H1. simpl B2R in H0.
  destruct (Rle_bool_spec 0 (B2R (FP.Prim2B x))) as [A|A]; [|discriminate H0].
  destruct (Rle_bool_spec (B2R (FP.Prim2B x)) 1) as [B|B]; [|discriminate H1].
  split; assumption.
Qed.

Lemma SumF_zero : SumF PrimFloat.zero.
Proof.
  split; [apply fin_Prim2B; reflexivity|]. rewrite B2R_zero, B2R_two53. lra.
Qed.

Lemma CompF_zero : CompF PrimFloat.zero.
Proof.
  split; [apply fin_Prim2B; reflexivity|]. rewrite B2R_zero, B2R_two54, Rabs_R0. lra.
Qed.

Lemma sumok_F : @Proofs.ResolveMigs.SumOK NumF.
Proof.
  intros l Hl. unfold ok, pysum. cbn [nisnan NumF].
  destruct l as [|x l].
  - reflexivity.
  - cbn [pysum_i nisint NumF nadd n0 nf0].
    apply pysum_f_ok.
    + intros y Hy. apply in_unit_UnitF, Hl. right. exact Hy.
    + apply SumF_add; [apply SumF_zero|]. apply in_unit_UnitF, Hl. left. reflexivity.
    + apply CompF_zero.
Qed.

(* Non-vacuity: the instances are usable where the hypotheses are expected. *)
Example arith_div_one_ex : rk (ndiv n4 n1) == rk n4.
Proof.
  assert (H : ok (n4 : @num NumF)) by (vm_compute; reflexivity).
  exact (proj2 (@div_one NumF NumFLaws NumFArith n4 H)).
Qed.

Print Assumptions sumone_F.
Print Assumptions infunique_F.
Print Assumptions mul_one_F.
Print Assumptions div_one_F.
Print Assumptions NumFArith.
Print Assumptions divlaw_F.
Print Assumptions sumok_F.
