(* C02 / C03: the resolution rules, one lemma per rule, and acceptance of explicit documents. *)
From Coq Require Import Bool List String QArith Lqa Arith Lia Permutation.
From Demes Require Import Base.Num Base.Py Model.MDM Model.Codec Model.MigMat Model.Resolve
  Spec.Valid Proofs.MigMatProofs Proofs.FixedPoint Proofs.ResolveInv Proofs.ResolveDemes Proofs.ResolveMigs
  Proofs.ResolvePulses Proofs.ResolveValid.
Import ListNotations.
Local Open Scope string_scope.
Local Open Scope list_scope.

(* two binds on the same computation agree if their continuations agree on its result *)
Lemma bind_ext' {A B} (m : res A) (k k' : A -> res B) :
  (forall a, m = Ok a -> k a = k' a) -> bind m k = bind m k'.
Proof. intro H. destruct m as [a|e]; cbn; [now apply H|reflexivity]. Qed.

Ltac bext := apply bind_ext'; intros ? ?.

Section ResolveRules.
  Context {N : NumOps} {L : NumLaws N}.

  (* ---- precedence: explicit field > (deme-level epoch default >) top-level default ---- *)
  Theorem field_explicit kv defaults k v : assoc k kv = Some v -> field kv defaults k = Some v.
  Proof. intro H. unfold field. now rewrite H. Qed.
  Theorem field_default kv defaults k : assoc k kv = None -> field kv defaults k = assoc k defaults.
  Proof. intro H. unfold field. now rewrite H. Qed.

  Lemma assoc_app {A} k (a b : list (string * A)) :
    assoc k (a ++ b) = match assoc k a with Some v => Some v | None => assoc k b end.
  Proof.
    induction a as [|[k' v] a IH]; cbn; [reflexivity|].
    destruct (String.eqb k k'); [reflexivity|exact IH].
  Qed.

  Theorem merge_local_wins glob loc k v : assoc k loc = Some v -> assoc k (merge_defaults glob loc) = Some v.
  Proof. intro H. unfold merge_defaults. rewrite assoc_app. now rewrite H. Qed.
  Theorem merge_global_fallback glob loc k : assoc k loc = None -> assoc k (merge_defaults glob loc) = assoc k glob.
  Proof.
    intro H. unfold merge_defaults. rewrite assoc_app, H.
    induction glob as [|[k' v] glob IH]; cbn; [reflexivity|].
    destruct (String.eqb k k') eqn:E.
    - apply String.eqb_eq in E. subst k'. rewrite H. cbn. now rewrite String.eqb_refl.
    - destruct (assoc k' loc); cbn; [exact IH|]. now rewrite E.
  Qed.

  (* ---- deme: start time from the single ancestor's end or infinity; proportions [1] ---- *)
  Theorem infer_start_root g name desc props :
    add_deme g name desc None None props = add_deme g name desc (Some (JNum ninf)) None props.
  Proof. reflexivity. Qed.
  Theorem infer_start_single g name desc a ad e props :
    lookup g a = Ok ad -> d_end ad = Ok e ->
    add_deme g name desc None (Some (JList [JStr a])) props
    = add_deme g name desc (Some (JNum e)) (Some (JList [JStr a])) props.
  Proof.
    intros H1 H2. unfold add_deme. bext. bext. cbn [list_of bind]. bext.
    cbn [map]. rewrite H1. cbn [bind]. rewrite H2. reflexivity.
  Qed.
  Theorem infer_props_single g name desc start a :
    add_deme g name desc start (Some (JList [a])) None
    = add_deme g name desc start (Some (JList [a])) (Some (JList [JNum nf1])).
  Proof. reflexivity. Qed.
  Theorem infer_props_none g name desc start :
    add_deme g name desc start None None = add_deme g name desc start None (Some (JList [])).
  Proof. reflexivity. Qed.

  (* ---- epochs: sizes carried over, size function inferred, defaults ---- *)
  Theorem infer_first_end_size d en ss sf sr cr :
    d_epochs d = [] -> add_epoch d en (Some ss) None sf sr cr = add_epoch d en (Some ss) (Some ss) sf sr cr.
  Proof. intro H. unfold add_epoch. rewrite H. reflexivity. Qed.
  Theorem infer_first_start_size d en es sf sr cr :
    d_epochs d = [] -> add_epoch d en None (Some es) sf sr cr = add_epoch d en (Some es) (Some es) sf sr cr.
  Proof. intro H. unfold add_epoch. rewrite H. reflexivity. Qed.
  (* ORIGINAL hypothesis: rev (d_epochs d) = prev :: nil \/ (exists l, rev (d_epochs d) = prev :: l)
     (true but clumsy: the left disjunct is an instance of the right one); simplified to the
     equivalent  rev (d_epochs d) = prev :: l. *)
  Theorem infer_later_start_size d prev l en es sf sr cr :
    rev (d_epochs d) = prev :: l ->
    add_epoch d en None es sf sr cr = add_epoch d en (Some (JNum (e_esize prev))) es sf sr cr.
  Proof. intro H. unfold add_epoch. rewrite H. reflexivity. Qed.
  Theorem infer_later_end_size d prev l en ss sf sr cr :
    rev (d_epochs d) = prev :: l ->
    add_epoch d en (Some ss) None sf sr cr = add_epoch d en (Some ss) (Some ss) sf sr cr.
  Proof. intro H. unfold add_epoch. rewrite H. reflexivity. Qed.
  Theorem infer_size_function start en ss es sr cr ssn esn :
    int_or_float ss = Ok ssn -> int_or_float es = Ok esn ->
    make_epoch start en ss es None sr cr
    = make_epoch start en ss es (Some (JStr (if neqb ssn esn then "constant" else "exponential"))) sr cr.
  Proof.
    intros H1 H2. unfold make_epoch. rewrite H1, H2. cbn [bind].
    do 8 bext. destruct (neqb ssn esn); reflexivity.
  Qed.

  (* ---- migrations: symmetric = every ordered pair; bounds default to the pair's interval ---- *)
  Theorem symmetric_expands g l rate start en :
    (2 <= List.length l)%nat ->
    add_sym g (JList l) rate start en
    = foldM (fun g p => add_asym g (fst p) (snd p) rate start en) (perms2 l) g.
  Proof.
    intro H. unfold add_sym. apply Nat.ltb_ge in H. rewrite H. reflexivity.
  Qed.

  Lemma remove_nth_in {A} (l : list A) : forall i y,
    In y (remove_nth i l) <-> exists j, j <> i /\ nth_error l j = Some y.
  Proof.
    induction l as [|a l IH]; intros i y.
    - destruct i; cbn; (split; [intros []|]); intros (j & _ & H); destruct j; discriminate.
    - destruct i as [|i]; cbn [remove_nth].
      + split.
        * intro H. destruct (In_nth_error _ _ H) as (j & Hj). exists (S j). split; [lia|exact Hj].
        * intros (j & Hne & Hj). destruct j as [|j]; [congruence|]. cbn in Hj.
          eapply nth_error_In; eauto.
      + cbn [In]. rewrite IH. split.
        * intros [<-|(j & Hne & Hj)].
          -- exists 0%nat. split; [lia|reflexivity].
          -- exists (S j). split; [lia|exact Hj].
        * intros (j & Hne & Hj). destruct j as [|j].
          -- left. cbn in Hj. congruence.
          -- right. exists j. split; [lia|exact Hj].
  Qed.

  Theorem perms2_spec {A} (l : list A) (x y : A) :
    In (x, y) (perms2 l) <->
    exists i j, i <> j /\ nth_error l i = Some x /\ nth_error l j = Some y.
  Proof.
    unfold perms2. rewrite in_flat_map. split.
    - intros (i & Hi & H). destruct (nth_error l i) as [x'|] eqn:E; [|destruct H].
      apply in_map_iff in H. destruct H as (y' & Hp & Hy). injection Hp as -> ->.
      apply remove_nth_in in Hy. destruct Hy as (j & Hne & Hj).
      exists i, j. auto.
    - intros (i & j & Hne & Hi & Hj). exists i. split.
      + apply in_seq. split; [lia|]. cbn. apply nth_error_Some. congruence.
      + rewrite Hi. apply in_map_iff. exists y. split; [reflexivity|].
        apply remove_nth_in. exists j. auto.
  Qed.

  Lemma ti_explicit g s d lo hi t :
    time_intersection g s d None = Ok (lo, hi) -> nle lo t = true -> nle t hi = true ->
    time_intersection g s d (Some (JNum t)) = Ok (lo, hi).
  Proof.
    unfold time_intersection. intros H H1 H2.
    destruct (lookup g s) as [d1|]; [|discriminate]. destruct (lookup g d) as [d2|]; [|discriminate].
    cbn [bind] in *. destruct (d_end d1) as [e1|]; [|discriminate].
    destruct (d_end d2) as [e2|]; [|discriminate]. cbn [bind] in *.
    injection H as <- <-. cbn [is_number negb raise_if bind]. rewrite H1, H2. reflexivity.
  Qed.

  Lemma ti_explicit_inv g s d t lo hi :
    time_intersection g s d (Some (JNum t)) = Ok (lo, hi) -> nle lo t = true /\ nle t hi = true.
  Proof.
    unfold time_intersection. intro H.
    mbind H d1 H1. mbind H d2 H2. mbind H e1 H3. mbind H e2 H4. cbv zeta in H.
    mbind H u Hu. injection H as <- <-. mraise Hu Hn. apply raise_if_ok in Hu.
    apply negb_false_iff in Hu. apply andb_true_iff in Hu. exact Hu.
  Qed.

  Lemma ti_none g s d t lo hi :
    time_intersection g s d (Some t) = Ok (lo, hi) -> time_intersection g s d None = Ok (lo, hi).
  Proof.
    unfold time_intersection. intro H.
    mbind H d1 H1. mbind H d2 H2. mbind H e1 H3. mbind H e2 H4. cbv zeta in H.
    mbind H u Hu. injection H as <- <-. rewrite H1, H2. cbn [bind]. rewrite H3, H4. reflexivity.
  Qed.

  (* when the coexistence interval is non-empty the defaults are exactly the explicit bounds *)
  Theorem infer_mig_bounds_eq g s d rate lo hi :
    time_intersection g s d None = Ok (lo, hi) -> nle lo hi = true ->
    add_asym g (JStr s) (JStr d) rate None None
    = add_asym g (JStr s) (JStr d) rate (Some (JNum hi)) (Some (JNum lo)).
  Proof.
    intros H Hle.
    assert (ok lo /\ ok hi) as [Ol Oh] by (apply le_true in Hle; tauto).
    assert (nle hi hi = true) as Hh by nord.
    assert (nle lo lo = true) as Hl by nord.
    unfold add_asym. bext. cbn [str_of bind].
    rewrite H, (ti_explicit _ _ _ _ _ hi H Hle Hh), (ti_explicit _ _ _ _ _ lo H Hl Hle).
    reflexivity.
  Qed.

  (* in general (empty interval, NaN bounds) only the exception class can differ *)
  Theorem infer_mig_bounds_iff g s d rate lo hi :
    time_intersection g s d None = Ok (lo, hi) ->
    forall g', add_asym g (JStr s) (JStr d) rate None None = Ok g'
               <-> add_asym g (JStr s) (JStr d) rate (Some (JNum hi)) (Some (JNum lo)) = Ok g'.
  Proof.
    intros H g'.
    assert (nle lo hi = true ->
            add_asym g (JStr s) (JStr d) rate None None
            = add_asym g (JStr s) (JStr d) rate (Some (JNum hi)) (Some (JNum lo))) as Heq
      by (apply infer_mig_bounds_eq; exact H).
    split; intro X.
    - rewrite <- Heq; [exact X|]. unfold add_asym in X.
      mbind X u0 Hc. cbn [str_of bind] in X. rewrite H in X. cbn [bind] in X.
      mbind X s' Hs'. mbind X d' Hd'. mbind X st Hst. mbind X u1 Hst1.
      mbind X en' Hen. mbind X u2 Hen1. mbind X u3 Hen2. mbind X r Hr. mbind X u4 Hr1.
      mraise X Hdist. mraise X Hord.
      apply iof_spec in Hst, Hen. destruct Hst as (Ost & Est & _), Hen as (Oen & Een & _).
      cbn in Est, Een. subst st en'. apply negb_false_iff in Hord. unfold ngt in Hord. nord.
    - rewrite Heq; [exact X|]. unfold add_asym in X.
      mbind X u0 Hc. cbn [str_of bind] in X. mbind X lh Hlh. destruct lh as [lo' hi'].
      pose proof (ti_none _ _ _ _ _ _ Hlh) as Hn. rewrite H in Hn. injection Hn as <- <-.
      apply ti_explicit_inv in Hlh. tauto.
  Qed.

  (* ORIGINAL STATEMENT (true, but the escape disjunct makes it nearly empty):
       time_intersection g s d None = Ok (lo, hi) ->
       add_asym g (JStr s) (JStr d) rate None None
       = add_asym g (JStr s) (JStr d) rate (Some (JNum hi)) (Some (JNum lo)) \/
       (exists e, add_asym g (JStr s) (JStr d) rate None None = Err e).
     The plain equation is false only in the exception class: with an empty interval
     (lo > hi) or a NaN bound the explicit form fails with ValueError in
     _check_time_intersection while the inferred form may fail later with TypeError
     (e.g. a non-numeric rate).  Strongest true form: both calls succeed together and with
     the same graph, and they are equal outright whenever lo <= hi.  The original statement
     is re-derived below as [infer_mig_bounds_orig]. *)
  Theorem infer_mig_bounds g s d rate lo hi :
    time_intersection g s d None = Ok (lo, hi) ->
    (forall g', add_asym g (JStr s) (JStr d) rate None None = Ok g'
                <-> add_asym g (JStr s) (JStr d) rate (Some (JNum hi)) (Some (JNum lo)) = Ok g') /\
    (nle lo hi = true ->
     add_asym g (JStr s) (JStr d) rate None None
     = add_asym g (JStr s) (JStr d) rate (Some (JNum hi)) (Some (JNum lo))).
  Proof.
    intro H. split; [now apply infer_mig_bounds_iff|now apply infer_mig_bounds_eq].
  Qed.

  Theorem infer_mig_bounds_orig g s d rate lo hi :
    time_intersection g s d None = Ok (lo, hi) ->
    add_asym g (JStr s) (JStr d) rate None None
    = add_asym g (JStr s) (JStr d) rate (Some (JNum hi)) (Some (JNum lo)) \/
    (exists e, add_asym g (JStr s) (JStr d) rate None None = Err e).
  Proof.
    intro H. destruct (add_asym g (JStr s) (JStr d) rate None None) as [g'|e] eqn:E.
    - left. symmetry. now apply (infer_mig_bounds_iff _ _ _ _ _ _ H).
    - right. now exists e.
  Qed.

  (* ---- pulses: stably sorted, oldest first ---- *)
  Lemma insert_pulse_perm p l : Permutation (insert_pulse p l) (p :: l).
  Proof.
    induction l as [|q l IH]; cbn; [apply Permutation_refl|].
    destruct (nle (p_time q) (p_time p)); [apply Permutation_refl|].
    eapply perm_trans; [apply perm_skip; exact IH|apply perm_swap].
  Qed.

  Theorem sort_pulses_perm l : Permutation (sort_pulses l) l.
  Proof.
    induction l as [|p l IH]; cbn; [constructor|].
    eapply perm_trans; [apply insert_pulse_perm|]. now apply perm_skip.
  Qed.

  (* [Before p q l]: some occurrence of p in l is followed, later, by an occurrence of q *)
  Inductive Before (p q : pulse) : list pulse -> Prop :=
  | Before_here l : In q l -> Before p q (p :: l)
  | Before_skip x l : Before p q l -> Before p q (x :: l).

  Lemma Before_split p q l :
    Before p q l <-> exists m1 m2 m3, l = m1 ++ p :: m2 ++ q :: m3.
  Proof.
    split.
    - induction 1 as [l Hq|x l _ (m1 & m2 & m3 & ->)].
      + destruct (in_split _ _ Hq) as (m2 & m3 & ->). now exists [], m2, m3.
      + now exists (x :: m1), m2, m3.
    - intros (m1 & m2 & m3 & ->). induction m1 as [|x m1 IH]; cbn.
      + apply Before_here. apply in_or_app. right. now left.
      + now apply Before_skip.
  Qed.

  Lemma Before_insert a p q l : Before p q l -> Before p q (insert_pulse a l).
  Proof.
    induction 1 as [l Hq|x l Hb IH]; cbn [insert_pulse].
    - destruct (nle (p_time p) (p_time a)).
      + apply Before_skip. now apply Before_here.
      + apply Before_here. apply insert_pulse_in. now right.
    - destruct (nle (p_time x) (p_time a)).
      + apply Before_skip. now apply Before_skip.
      + now apply Before_skip.
  Qed.

  (* a new pulse goes in front of every pulse that is not strictly older *)
  Lemma Before_insert_new p q l :
    In q l -> nle (p_time q) (p_time p) = true -> Before p q (insert_pulse p l).
  Proof.
    induction l as [|x l IH]; intros Hq Hle; [destruct Hq|]. cbn [insert_pulse].
    destruct (nle (p_time x) (p_time p)) eqn:E.
    - now apply Before_here.
    - destruct Hq as [->|Hq]; [congruence|]. apply Before_skip. now apply IH.
  Qed.

  Theorem sort_pulses_stable l p q :
    (* two pulses with the same time keep their relative order *)
    neqb (p_time p) (p_time q) = true ->
    forall l1 l2 l3, l = l1 ++ p :: l2 ++ q :: l3 ->
    exists m1 m2 m3, sort_pulses l = m1 ++ p :: m2 ++ q :: m3.
  Proof.
    intros He l1 l2 l3 ->. apply Before_split.
    assert (nle (p_time q) (p_time p) = true) as Hle by nord.
    induction l1 as [|a l1 IH]; cbn.
    - apply Before_insert_new; [|exact Hle].
      apply sort_pulses_in. apply in_or_app. right. now left.
    - now apply Before_insert.
  Qed.

  (* ---- C03 on explicit documents: acceptance <=> validity of the document's content ---- *)

  (* -- inversion: on a fully explicit document every builder returns a determined value -- *)

  Lemma bind_red {A B} (m : res A) (k : A -> res B) r a : bind m k = r -> m = Ok a -> k a = r.
  Proof. intros H ->. exact H. Qed.

  (* H : (x <- m ;; k x) = r, where m computes to some Ok a, becomes H : k a = r *)
  Ltac bred H :=
    match type of H with
    | bind ?m ?k = ?r =>
        let E := fresh "E" in
        eassert (m = Ok _) as E by reflexivity;
        apply (bind_red m k r _ H) in E; clear H; rename E into H; cbv beta in H
    end.

  Lemma iof_num_inv x y : int_or_float (JNum x) = Ok y -> y = x.
  Proof. cbn. destruct (nisnan x); congruence. Qed.

  Lemma mapM_map_inv {A B C} (f : B -> res C) (g : A -> B) (h : A -> C) l : forall l',
    (forall x y, f (g x) = Ok y -> y = h x) -> mapM f (map g l) = Ok l' -> l' = map h l.
  Proof.
    induction l as [|a l IH]; intros l' Hf H; cbn in H.
    - now injection H as <-.
    - mbind H b Hb. mbind H bs Hbs. injection H as <-. cbn.
      rewrite (Hf _ _ Hb), (IH _ Hf Hbs). reflexivity.
  Qed.

  Lemma mapM_iof_inv l pr : mapM int_or_float (map JNum l) = Ok pr -> pr = l.
  Proof.
    intro H. apply (mapM_map_inv _ _ (fun x => x)) in H; [now rewrite map_id in H|].
    intros x y. apply iof_num_inv.
  Qed.

  Lemma deme_name_inv s s' : deme_name_of (JStr s) = Ok s' -> s' = s.
  Proof. intro H. apply deme_name_of_spec in H. destruct H as [H _]. congruence. Qed.

  Lemma mapM_names_inv l an : mapM deme_name_of (map JStr l) = Ok an -> an = l.
  Proof.
    intro H. apply (mapM_map_inv _ _ (fun x => x)) in H; [now rewrite map_id in H|].
    intros x y. apply deme_name_inv.
  Qed.

  Lemma mapM_strs_inv l an : mapM str_of (map JStr l) = Ok an -> an = l.
  Proof.
    intro H. apply (mapM_map_inv _ _ (fun x => x)) in H; [now rewrite map_id in H|].
    intros x y E. cbn in E. congruence.
  Qed.

  Lemma nums_with_inv chk l pr : nums_with chk (jnums l) = Ok pr -> pr = l.
  Proof.
    unfold nums_with, jnums. cbn [list_of bind]. intro H.
    apply (mapM_map_inv _ _ (fun x => x)) in H; [now rewrite map_id in H|].
    intros x y E. mbind E n Hn. mbind E u Hu. injection E as <-. now apply iof_num_inv.
  Qed.

  Lemma make_epoch_inv s en ss es sf sr cr e :
    make_epoch s (JNum en) (JNum ss) (JNum es) (Some (JStr sf)) (JNum sr) (JNum cr) = Ok e ->
    e = mkEpoch s en ss es sf sr cr.
  Proof.
    intro H. unfold make_epoch in H.
    mbind H u0 Hnn.
    mbind H en' Hen. mbind H u1 Hen1. mbind H u2 Hen2.
    mbind H ss' Hss. mbind H u3 Hss1. mbind H u4 Hss2.
    mbind H es' Hes. mbind H u5 Hes1. mbind H u6 Hes2.
    mbind H sf' Hsf.
    mbind H sr' Hsr. mbind H u7 Hsr1.
    mbind H cr' Hcr. mbind H u8 Hcr1.
    mraise H Hord. mraise H Hinf. mraise H Hconst.
    injection H as <-.
    apply iof_num_inv in Hen, Hss, Hes, Hsr, Hcr. subst.
    mraise Hsf Hm. injection Hsf as <-. reflexivity.
  Qed.

  Lemma add_epoch_inv d e d' :
    add_epoch d (JNum (e_end e)) (Some (JNum (e_ssize e))) (Some (JNum (e_esize e)))
              (Some (JStr (e_sf e))) (JNum (e_self e)) (JNum (e_clone e)) = Ok d' ->
    d' = with_epochs d (d_epochs d ++ [mkEpoch (next_start d) (e_end e) (e_ssize e) (e_esize e)
                                               (e_sf e) (e_self e) (e_clone e)]).
  Proof.
    intro H. unfold add_epoch, next_start in *.
    destruct (rev (d_epochs d)) as [|prev r]; cbn [bind] in H; cbv beta iota in H;
      mbind H e' He; apply make_epoch_inv in He; subst e'; injection H as <-; reflexivity.
  Qed.

  Lemma epoch_step_inv nE d j e r :
    epoch_step [] nE (d, j) (jv_of_epoch e) = Ok r ->
    r = (with_epochs d (d_epochs d ++ [mkEpoch (next_start d) (e_end e) (e_ssize e) (e_esize e)
                                                (e_sf e) (e_self e) (e_clone e)]), S j).
  Proof.
    intro H. unfold epoch_step, jv_of_epoch in H. cbn -[add_epoch] in H.
    mbind H d' Hd'. apply add_epoch_inv in Hd'. subst d'. now injection H as <-.
  Qed.

  Lemma epoch_fold_inv nE : forall es d j r,
    foldM (epoch_step [] nE) (map jv_of_epoch es) (d, j) = Ok r ->
    fst r = with_epochs d (d_epochs d ++ rechain (next_start d) es).
  Proof.
    induction es as [|e es IH]; intros d j r H.
    - cbn in H. injection H as <-. cbn. rewrite app_nil_r. destruct d; reflexivity.
    - cbn [map foldM] in H. mbind H r1 H1. apply epoch_step_inv in H1. subst r1.
      apply IH in H. rewrite H, next_start_snoc.
      cbn [with_epochs d_epochs d_name d_desc d_start d_anc d_props rechain e_end].
      rewrite <- app_assoc. reflexivity.
  Qed.

  Lemma add_deme_inv g d g1 :
    add_deme g (JStr (d_name d)) (JStr (d_desc d)) (Some (JNum (d_start d)))
             (Some (jstrs (d_anc d))) (Some (jnums (d_props d))) = Ok g1 ->
    g1 = mkGraph (g_desc g) (g_units g) (g_gt g) (g_doi g) (g_meta g)
                 (g_demes g ++ [with_epochs d []]) (g_migs g) (g_pulses g)
                 (g_index g ++ [(d_name d, List.length (g_demes g))]).
  Proof.
    intro H. unfold add_deme in H.
    mbind H nmk Hk. mraise H Hcont. mbind H ancl Hancl. mbind H u1 Hfa.
    cbv zeta in H.
    mbind H startv Hstart. mraise H Hisnum. mraise H Hroot. mbind H u2 Hanc.
    mbind H nm Hnm. mbind H ds Hds. mbind H st Hst. mbind H u3 Hpos.
    mbind H an Han. mraise H Hnodup. mraise H Hmem. mbind H pr Hpr.
    mraise H Hsum. mbind H u4 Hprs. mraise H Hlen. injection H as <-.
    cbn in Hancl. injection Hancl as <-. injection Hstart as <-.
    apply deme_name_inv in Hnm. cbn in Hds. injection Hds as <-.
    apply iof_num_inv in Hst. apply mapM_names_inv in Han.
    unfold jnums in Hpr. cbn [list_of bind] in Hpr. apply mapM_iof_inv in Hpr.
    subst. reflexivity.
  Qed.

  Definition snoc_deme (g : graph) (d : deme) : graph :=
    mkGraph (g_desc g) (g_units g) (g_gt g) (g_doi g) (g_meta g)
            (g_demes g ++ [redeme d]) (g_migs g) (g_pulses g)
            (g_index g ++ [(d_name d, List.length (g_demes g))]).

  Lemma resolve_deme_inv g d g' :
    resolve_deme [] [] g (jv_of_deme d) = Ok g' -> g' = snoc_deme g d.
  Proof.
    intro H. unfold resolve_deme, jv_of_deme in H.
    bred H.
    bred H.
    bred H.
    mbind H g1 Hg1. apply add_deme_inv in Hg1. subst g1.
    bred H.
    bred H.
    bred H.
    bred H.
    bred H.
    mbind H epochs Hep. cbn -[forM_] in Hep. mbind Hep u Hu. injection Hep as <-.
    mraise H Hne. mbind H d0 Hd0. cbn [g_demes] in Hd0. rewrite rev_unit in Hd0.
    injection Hd0 as <-. mbind H dj Hdj.
    apply (epoch_fold_inv _ (d_epochs d) (with_epochs d []) 0%nat) in Hdj.
    injection H as <-. rewrite Hdj. unfold set_last_deme, snoc_deme.
    cbn [g_desc g_units g_gt g_doi g_meta g_demes g_migs g_pulses g_index].
    rewrite removelast_last. reflexivity.
  Qed.

  Definition app_demes (g : graph) (ds : list deme) : graph :=
    mkGraph (g_desc g) (g_units g) (g_gt g) (g_doi g) (g_meta g)
            (g_demes g ++ map redeme ds) (g_migs g) (g_pulses g)
            (g_index g ++ index_from (List.length (g_demes g)) ds).

  Lemma demes_fold_inv : forall ds g g',
    foldM (resolve_deme [] []) (map jv_of_deme ds) g = Ok g' -> g' = app_demes g ds.
  Proof.
    induction ds as [|d ds IH]; intros g g' H.
    - cbn in H. injection H as <-. unfold app_demes. cbn. rewrite !app_nil_r. destruct g; reflexivity.
    - cbn [map foldM] in H. mbind H g1 H1. apply resolve_deme_inv in H1. subst g1.
      apply IH in H. subst g'. unfold app_demes, snoc_deme.
      cbn [g_desc g_units g_gt g_doi g_meta g_demes g_migs g_pulses g_index map index_from].
      rewrite <- !app_assoc, app_length. cbn [app List.length]. rewrite Nat.add_1_r. reflexivity.
  Qed.

  Lemma add_asym_inv g m g' :
    add_asym g (JStr (m_src m)) (JStr (m_dst m)) (JNum (m_rate m))
             (Some (JNum (m_start m))) (Some (JNum (m_end m))) = Ok g' ->
    g' = mkGraph (g_desc g) (g_units g) (g_gt g) (g_doi g) (g_meta g) (g_demes g)
                 (g_migs g ++ [m]) (g_pulses g) (g_index g).
  Proof.
    intro H. unfold add_asym in H.
    mbind H u0 Hc. mbind H s Hs. mbind H d Hd. mbind H lh Hlh. destruct lh as [lo hi].
    cbv beta iota in H.
    mbind H stv Hstv. mbind H env Henv. mbind H s' Hs'. mbind H d' Hd'.
    mbind H st Hst. mbind H u1 Hst1. mbind H en' Hen. mbind H u2 Hen1. mbind H u3 Hen2.
    mbind H r Hr. mbind H u4 Hr1. mraise H Hdist. mraise H Hord. mraise H Hov.
    injection H as <-.
    injection Hstv as <-. mbind Henv lh2 X. injection Henv as <-.
    apply deme_name_inv in Hs', Hd'. apply iof_num_inv in Hst, Hen, Hr. subst.
    destruct m; reflexivity.
  Qed.

  Lemma resolve_migration_inv g m g' :
    resolve_migration [] g (jv_of_mig m) = Ok g' ->
    g' = mkGraph (g_desc g) (g_units g) (g_gt g) (g_doi g) (g_meta g) (g_demes g)
                 (g_migs g ++ [m]) (g_pulses g) (g_index g).
  Proof.
    intro H. unfold resolve_migration, jv_of_mig in H.
    bred H. bred H. bred H. now apply add_asym_inv.
  Qed.

  Lemma migs_fold_inv : forall ms g g',
    foldM (resolve_migration []) (map jv_of_mig ms) g = Ok g' ->
    g' = mkGraph (g_desc g) (g_units g) (g_gt g) (g_doi g) (g_meta g) (g_demes g)
                 (g_migs g ++ ms) (g_pulses g) (g_index g).
  Proof.
    induction ms as [|m ms IH]; intros g g' H.
    - cbn in H. injection H as <-. rewrite app_nil_r. destruct g; reflexivity.
    - cbn [map foldM] in H. mbind H g1 H1. apply resolve_migration_inv in H1. subst g1.
      apply IH in H. subst g'.
      cbn [g_desc g_units g_gt g_doi g_meta g_demes g_migs g_pulses g_index].
      rewrite <- app_assoc. reflexivity.
  Qed.

  Lemma add_pulse_inv g p g' :
    add_pulse g (jstrs (p_srcs p)) (JStr (p_dst p)) (JNum (p_time p)) (jnums (p_props p)) = Ok g' ->
    g' = mkGraph (g_desc g) (g_units g) (g_gt g) (g_doi g) (g_meta g) (g_demes g)
                 (g_migs g) (g_pulses g ++ [p]) (g_index g).
  Proof.
    intro H. unfold add_pulse in H.
    mbind H srcl Hsrcl. mbind H u0 Hc. mbind H d Hd. mbind H srcs Hsrcs.
    mbind H u1 Hti. mraise H Htn. mbind H dd Hdd. mbind H de' Hde. mbind H t0 Ht0.
    mraise H Hneq. mbind H u2 Hsts. mbind H sn Hsn. mraise H Hsn0. mbind H dn Hdn.
    mbind H t Ht. mbind H u3 Hpos. mbind H u4 Hfin. mbind H prs Hprs.
    mraise H Hmem. mraise H Hnd. mraise H Hlen. mraise H Hsum. injection H as <-.
    cbn in Hsrcl. injection Hsrcl as <-.
    apply mapM_names_inv in Hsn. apply deme_name_inv in Hdn. apply iof_num_inv in Ht.
    apply nums_with_inv in Hprs. subst. destruct p; reflexivity.
  Qed.

  Lemma resolve_pulse_inv g p g' :
    resolve_pulse [] g (jv_of_pulse p) = Ok g' ->
    g' = mkGraph (g_desc g) (g_units g) (g_gt g) (g_doi g) (g_meta g) (g_demes g)
                 (g_migs g) (g_pulses g ++ [p]) (g_index g).
  Proof.
    intro H. unfold resolve_pulse, jv_of_pulse in H.
    bred H. bred H. bred H. bred H. bred H. bred H. now apply add_pulse_inv.
  Qed.

  Lemma pulses_fold_inv : forall ps g g',
    foldM (resolve_pulse []) (map jv_of_pulse ps) g = Ok g' ->
    g' = mkGraph (g_desc g) (g_units g) (g_gt g) (g_doi g) (g_meta g) (g_demes g)
                 (g_migs g) (g_pulses g ++ ps) (g_index g).
  Proof.
    induction ps as [|p ps IH]; intros g g' H.
    - cbn in H. injection H as <-. rewrite app_nil_r. destruct g; reflexivity.
    - cbn [map foldM] in H. mbind H g1 H1. apply resolve_pulse_inv in H1. subst g1.
      apply IH in H. subst g'.
      cbn [g_desc g_units g_gt g_doi g_meta g_demes g_migs g_pulses g_index].
      rewrite <- app_assoc. reflexivity.
  Qed.

  Lemma make_graph_inv g g0 :
    make_graph (JStr (g_desc g)) (JStr (g_units g)) (jstrs (g_doi g)) (JNum (g_gt g))
               (coerce (g_meta g)) = Ok g0 -> g0 = header g.
  Proof.
    intro H. unfold make_graph in H.
    mbind H ds Hds. mbind H un Hun. mraise H Hune. mbind H gto Hgto. mbind H dl Hdl.
    mbind H dois Hdois. mraise H Hmeta. mraise H Hgt1. cbv zeta in H. mraise H Hgen.
    injection H as <-.
    cbn in Hds, Hun, Hdl. injection Hds as <-. injection Hun as <-. injection Hdl as <-.
    mbind Hgto x Hx. mbind Hgto u1 H1. mbind Hgto u2 H2. injection Hgto as <-.
    apply iof_num_inv in Hx. subst x.
    apply (mapM_map_inv _ _ (fun x => x)) in Hdois.
    - rewrite map_id in Hdois. subst dois. reflexivity.
    - intros s y E. cbn [str_of bind] in E. mraise E Hne. now injection E as <-.
  Qed.

  Lemma dict_list_inv {A} (f : A -> jv) (l : list A) dl :
    (l0 <- list_of (JList (map f l)) ;;
     forM_ (fun e => raise_if (negb (is_dict e)) TypeErr) l0 ;;; Ok l0) = Ok dl ->
    dl = map f l.
  Proof. cbn [list_of bind]. intro H. mbind H u Hu. now injection H as <-. Qed.

  (* the graph that resolution rebuilds from the explicit document of g: nothing of g is
     changed except what asdict does not record (epoch start times, the name index: both
     recomputed), the metadata (coerced) and the order of the pulses (sorted) *)
  Definition rebuild (g : graph) : graph :=
    GR (header g) (map redeme (g_demes g)) (g_migs g) (sort_pulses (g_pulses g)).

  Theorem fromdict_asdict_eq g g' : fromdict (asdict g) = Ok g' -> g' = rebuild g.
  Proof.
    intro H. unfold fromdict, asdict in H.
    do 13 bred H.
    mbind H g0 Hg0. apply make_graph_inv in Hg0. subst g0.
    mbind H dl Hdl. unfold dict_list in Hdl. cbn -[forM_ list_of] in Hdl.
    apply dict_list_inv in Hdl. subst dl.
    mraise H Hne.
    mbind H g1 Hg1. apply demes_fold_inv in Hg1. subst g1.
    mbind H ml Hml. unfold dict_list in Hml. cbn -[forM_ list_of] in Hml.
    apply dict_list_inv in Hml. subst ml.
    mbind H g2 Hg2. apply migs_fold_inv in Hg2. subst g2.
    mbind H u Hchk.
    mbind H pl Hpl. unfold dict_list in Hpl. cbn -[forM_ list_of] in Hpl.
    apply dict_list_inv in Hpl. subst pl.
    mbind H g3 Hg3. apply pulses_fold_inv in Hg3. subst g3.
    injection H as <-. unfold rebuild, GR, app_demes, header.
    cbn [g_desc g_units g_gt g_doi g_meta g_demes g_migs g_pulses g_index app List.length].
    f_equal. symmetry. apply index_from_names. apply redeme_names.
  Qed.

  (* what asdict does not record, or fromdict normalises: the name index is the canonical
     one, pulses are listed oldest first, every epoch starts where the previous one ended.
     Every valid graph is canonical. *)
  Definition Canonical (g : graph) : Prop :=
    g_index g = index_from 0 (g_demes g) /\ PulsesSorted (g_pulses g) /\
    forall d, In d (g_demes g) -> Chain (d_start d) (d_epochs d).

  Lemma valid_canonical g : Valid g -> Canonical g.
  Proof.
    intro V. split; [exact (v_index _ V)|]. split; [exact (v_pulse_order _ V)|].
    intros d Hd. destruct (valid_demes_each _ _ (v_demes _ V) d Hd) as (e' & Vd).
    exact (vd_chain _ _ Vd).
  Qed.

  (* ORIGINAL STATEMENT (false):
       Theorem fromdict_asdict_same g g' : fromdict (asdict g) = Ok g' -> SameGraph g g'.
     Counter-example: asdict g ignores g_index g, the epochs' e_start and is accepted with
     its pulses in any order, whereas SameGraph g g' demands g_index g' = g_index g,
     g_pulses g' = g_pulses g and value-equal epoch start times; take a valid g and replace
     its g_index by [("x", 5)].  Fixed by the hypothesis [Canonical g] (which every valid
     graph satisfies, [valid_canonical], and which SameGraph g g' /\ Valid g' implies,
     [same_valid_canonical]); the unconditional content is [fromdict_asdict_eq] above. *)
  Theorem fromdict_asdict_same g g' :
    Canonical g -> fromdict (asdict g) = Ok g' -> SameGraph g g'.
  Proof.
    intros (CI & CP & CC) H. apply fromdict_asdict_eq in H. subst g'.
    unfold SameGraph, rebuild, GR, header.
    cbn [g_desc g_units g_gt g_doi g_meta g_demes g_migs g_pulses g_index].
    do 6 (split; [reflexivity|]). split; [exact (sort_sorted _ CP)|]. split.
    - rewrite CI. apply index_from_names. apply redeme_names.
    - clear CI. induction (g_demes g) as [|d ds IH]; cbn [map]; constructor.
      + cbn [redeme d_name d_desc d_start d_anc d_props d_epochs].
        repeat (split; [reflexivity|]). apply same_epochs. apply CC. now left.
      + apply IH. intros x Hx. apply CC. now right.
  Qed.

  Lemma same_epochs_jv es es' :
    Forall2 (fun e e' =>
               neqb (e_start e') (e_start e) = true /\ e_end e' = e_end e /\
               e_ssize e' = e_ssize e /\ e_esize e' = e_esize e /\ e_sf e' = e_sf e /\
               e_self e' = e_self e /\ e_clone e' = e_clone e) es es' ->
    map jv_of_epoch es' = map jv_of_epoch es.
  Proof.
    induction 1 as [|e e' es es' (_ & E1 & E2 & E3 & E4 & E5 & E6) _ IH]; [reflexivity|].
    cbn [map]. rewrite IH. unfold jv_of_epoch. now rewrite E1, E2, E3, E4, E5, E6.
  Qed.

  Theorem same_asdict g g' : SameGraph g g' -> asdict g' = asdict g.
  Proof.
    intros (E1 & E2 & E3 & E4 & E5 & E6 & E7 & _ & F). unfold asdict.
    rewrite E1, E2, E3, E4, E5, E6, E7, coerce_idem.
    assert (map jv_of_deme (g_demes g') = map jv_of_deme (g_demes g)) as ->; [|reflexivity].
    induction F as [|d d' ds ds' (D1 & D2 & D3 & D4 & D5 & Fe) _ IH]; [reflexivity|].
    cbn [map]. rewrite IH. unfold jv_of_deme.
    now rewrite D1, D2, D3, D4, D5, (same_epochs_jv _ _ Fe).
  Qed.

  (* ORIGINAL STATEMENT (false for the same reason as fromdict_asdict_same: a document
     whose pulses are not listed oldest first is accepted, but no g' with
     g_pulses g' = g_pulses g is valid; likewise for a non-canonical g_index):
       Theorem explicit_accept_iff g :
         SumOK ->
         ((exists g', fromdict (asdict g) = Ok g') <-> (exists g', SameGraph g g' /\ Valid g')).
     Fixed by the hypothesis [Canonical g]; see [explicit_accept_iff_canon] below for the
     hypothesis-free form. *)
  Theorem explicit_accept_iff g :
    SumOK -> Canonical g ->
    ((exists g', fromdict (asdict g) = Ok g') <-> (exists g', SameGraph g g' /\ Valid g')).
  Proof.
    intros SO C. split.
    - intros (g' & H). exists g'. split.
      + now apply fromdict_asdict_same.
      + exact (resolve_valid _ _ SO H).
    - intros (g'' & S & V). destruct (asdict_fixed g'' V) as (g' & H & _).
      rewrite (same_asdict _ _ S) in H. now exists g'.
  Qed.

  (* the hypothesis of explicit_accept_iff is necessary *)
  Lemma Chain_same es es' : forall s,
    Forall2 (fun e e' =>
               neqb (e_start e') (e_start e) = true /\ e_end e' = e_end e /\
               e_ssize e' = e_ssize e /\ e_esize e' = e_esize e /\ e_sf e' = e_sf e /\
               e_self e' = e_self e /\ e_clone e' = e_clone e) es es' ->
    Chain s es' -> Chain s es.
  Proof.
    intros s F. revert s.
    induction F as [|e e' es es' (E0 & E1 & _) _ IH]; intros s HC; [exact Logic.I|].
    destruct HC as [H1 H2]. split; [nord|]. apply IH. now rewrite <- E1.
  Qed.

  Lemma same_valid_canonical g g' : SameGraph g g' -> Valid g' -> Canonical g.
  Proof.
    intros (_ & _ & _ & _ & _ & _ & E7 & E8 & F) V.
    pose proof (valid_demes_each _ _ (v_demes _ V)) as VE.
    split; [|split].
    - rewrite <- E8, (v_index _ V). apply index_from_names. clear VE.
      induction F as [|d d' ds ds' (D1 & _) _ IH]; [reflexivity|]. cbn. now rewrite D1, IH.
    - rewrite <- E7. exact (v_pulse_order _ V).
    - clear E7 E8. induction F as [|d d' ds ds' (_ & _ & D3 & _ & _ & Fe) _ IH];
        intros x Hx; [destruct Hx|]. destruct Hx as [<-|Hx].
      + destruct (VE d' (or_introl eq_refl)) as (ea & Vd).
        rewrite <- D3. exact (Chain_same _ _ _ Fe (vd_chain _ _ Vd)).
      + apply IH; [|exact Hx]. intros y Hy. apply VE. now right.
  Qed.

  Theorem explicit_accept_iff_canon g :
    SumOK ->
    ((exists g', fromdict (asdict g) = Ok g') /\ Canonical g
     <-> (exists g', SameGraph g g' /\ Valid g')).
  Proof.
    intro SO. split.
    - intros [H C]. now apply (explicit_accept_iff g SO C).
    - intros (g' & S & V). pose proof (same_valid_canonical _ _ S V) as C.
      split; [|exact C]. apply (explicit_accept_iff g SO C). now exists g'.
  Qed.
End ResolveRules.

Print Assumptions field_explicit.
Print Assumptions field_default.
Print Assumptions merge_local_wins.
Print Assumptions merge_global_fallback.
Print Assumptions infer_start_root.
Print Assumptions infer_start_single.
Print Assumptions infer_props_single.
Print Assumptions infer_props_none.
Print Assumptions infer_first_end_size.
Print Assumptions infer_first_start_size.
Print Assumptions infer_later_start_size.
Print Assumptions infer_later_end_size.
Print Assumptions infer_size_function.
Print Assumptions symmetric_expands.
Print Assumptions perms2_spec.
Print Assumptions infer_mig_bounds.
Print Assumptions infer_mig_bounds_orig.
Print Assumptions sort_pulses_perm.
Print Assumptions sort_pulses_stable.
Print Assumptions fromdict_asdict_eq.
Print Assumptions fromdict_asdict_same.
Print Assumptions same_asdict.
Print Assumptions explicit_accept_iff.
Print Assumptions explicit_accept_iff_canon.
