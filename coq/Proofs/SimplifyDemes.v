(* C05 (c), demes: resolving the simplified deme dictionaries rebuilds value-equal demes. *)
From Coq Require Import Bool List String QArith Lqa Arith Lia Permutation.
From Demes Require Import Base.Num Base.Py Model.MDM Model.Codec Model.MigMat Model.Resolve
  Model.Simplify Spec.Valid Proofs.MigMatProofs Proofs.FixedPoint Proofs.SimplifyLists
  Proofs.SimplifySearch Proofs.SimplifyTotal.
Import ListNotations.
Local Open Scope string_scope.
Local Open Scope list_scope.

Section SimplifyDemes.
  Context {N : NumOps} {L : NumLaws N}.

  (* ------------------------------------------------------------------ *)
  (* epochs *)

  Definition sepoch (e : epoch) : epoch :=
    mkEpoch (e_start e) (e_end e) (e_ssize e)
            (if neqb (e_ssize e) (e_esize e) then e_ssize e else e_esize e) (e_sf e)
            (if neqb (e_self e) n0 then n0 else e_self e)
            (if neqb (e_clone e) n0 then n0 else e_clone e).

  Definition sf_field (e : epoch) : option jv :=
    if String.eqb (e_sf e) (if neqb (e_ssize e) (e_esize e) then "constant" else "exponential")
    then None else Some (JStr (e_sf e)).

  Lemma simp_epoch_fields e :
    exists ekv, simp_epoch e = JDict ekv /\
      check_allowed ekv epoch_fields = Ok tt /\
      field ekv [] "end_time" = Some (JNum (e_end e)) /\
      field_nn ekv [] "start_size" = Some (JNum (e_ssize e)) /\
      field_nn ekv [] "end_size"
        = (if neqb (e_ssize e) (e_esize e) then None else Some (JNum (e_esize e))) /\
      field_nn ekv [] "size_function" = sf_field e /\
      jdefault (field ekv [] "selfing_rate") (JNum n0) = JNum (e_self (sepoch e)) /\
      jdefault (field ekv [] "cloning_rate") (JNum n0) = JNum (e_clone (sepoch e)).
  Proof.
    eexists. split; [reflexivity|]. unfold sf_field, sepoch. cbn [e_self e_clone].
    destruct (neqb (e_ssize e) (e_esize e)), (String.eqb (e_sf e) _),
      (neqb (e_self e) n0), (neqb (e_clone e) n0); repeat split; reflexivity.
  Qed.

  Lemma sepoch_valid e : ValidEpoch e -> ValidEpoch (sepoch e).
  Proof.
    intros [V1 V2 V3 [V4 V4'] [V5 V5'] V6 V7 V8 [V9 V9'] [V10 V10']].
    assert (ok (e_ssize e)) by (apply lt_true in V4; tauto).
    constructor; unfold sepoch; cbn [e_start e_end e_ssize e_esize e_sf e_self e_clone]; auto;
      try (split; assumption).
    - destruct (neqb (e_ssize e) (e_esize e)); split; assumption.
    - intro Hc. destruct (neqb (e_ssize e) (e_esize e)) eqn:E; [now apply eq_refl_ok|].
      specialize (V7 Hc). discriminate V7.
    - intro Hi. destruct (neqb (e_ssize e) (e_esize e)) eqn:E; [now apply eq_refl_ok|].
      specialize (V8 Hi). discriminate V8.
    - destruct (neqb (e_self e) n0); [split; nord|split; assumption].
    - destruct (neqb (e_clone e) n0); [split; nord|split; assumption].
  Qed.

  (* make_epoch with an explicit or an inferred size function *)
  Lemma make_epoch_ok' s e sfo :
    ValidEpoch e -> neqb (e_start e) s = true ->
    (sfo = Some (JStr (e_sf e)) \/
     (sfo = None /\ e_sf e = if neqb (e_ssize e) (e_esize e) then "constant" else "exponential")) ->
    make_epoch s (JNum (e_end e)) (JNum (e_ssize e)) (JNum (e_esize e)) sfo
               (JNum (e_self e)) (JNum (e_clone e))
    = Ok (mkEpoch s (e_end e) (e_ssize e) (e_esize e) (e_sf e) (e_self e) (e_clone e)).
  Proof.
    intros V Hs [->|[-> Hsf]]; [now apply make_epoch_ok|].
    rewrite <- (make_epoch_ok s e V Hs).
    destruct V as [V1 V2 V3 [V4 V4'] [V5 V5'] V6 V7 V8 [V9 V9'] [V10 V10']].
    destruct e as [st en ss es sf sr cr]; cbn [e_start e_end e_ssize e_esize e_sf e_self e_clone] in *.
    assert (E8 : mem sf size_functions = true) by (apply mem_true; exact V6).
    unfold make_epoch.
    destruct (non_negative s); cbn [bind]; [|reflexivity].
    destruct (int_or_float (JNum en)); cbn [bind]; [|reflexivity].
    destruct (non_negative a0); cbn [bind]; [|reflexivity].
    destruct (finite a0); cbn [bind]; [|reflexivity].
    assert (okss : ok ss) by (apply lt_true in V4; tauto).
    assert (okes : ok es) by (apply lt_true in V5; tauto).
    rewrite !iof_num by assumption. cbn [bind].
    destruct (positive ss); cbn [bind]; [|reflexivity].
    destruct (finite ss); cbn [bind]; [|reflexivity].
    destruct (positive es); cbn [bind]; [|reflexivity].
    destruct (finite es); cbn [bind]; [|reflexivity].
    rewrite E8. cbn [negb raise_if bind]. rewrite <- Hsf. reflexivity.
  Qed.

  Lemma add_epoch_ok' d e :
    ValidEpoch e -> neqb (e_start e) (next_start d) = true ->
    add_epoch d (JNum (e_end e)) (Some (JNum (e_ssize e)))
              (if neqb (e_ssize e) (e_esize e) then None else Some (JNum (e_esize e)))
              (sf_field e) (JNum (e_self (sepoch e))) (JNum (e_clone (sepoch e)))
    = Ok (with_epochs d (d_epochs d ++
            [mkEpoch (next_start d) (e_end e) (e_ssize e) (e_esize (sepoch e)) (e_sf e)
                     (e_self (sepoch e)) (e_clone (sepoch e))])).
  Proof.
    intros V Hs. pose proof (sepoch_valid e V) as V'.
    assert (G : make_epoch (next_start d) (JNum (e_end e)) (JNum (e_ssize e))
                  (JNum (e_esize (sepoch e))) (sf_field e)
                  (JNum (e_self (sepoch e))) (JNum (e_clone (sepoch e)))
                = Ok (mkEpoch (next_start d) (e_end e) (e_ssize e) (e_esize (sepoch e)) (e_sf e)
                              (e_self (sepoch e)) (e_clone (sepoch e)))).
    { apply (make_epoch_ok' (next_start d) (sepoch e) (sf_field e) V' Hs).
      unfold sf_field, sepoch. cbn [e_sf e_ssize e_esize].
      destruct (String.eqb (e_sf e) _) eqn:E; [right|now left]. split; [reflexivity|].
      apply String.eqb_eq in E. rewrite E.
      destruct (neqb (e_ssize e) (e_esize e)) eqn:E2; [|now rewrite E2].
      rewrite eq_refl_ok; [reflexivity|]. destruct (ve_ssize _ V) as [H _].
      apply lt_true in H. tauto. }
    assert (Et : neqb (e_ssize e) (e_esize e) = true -> e_esize (sepoch e) = e_ssize e).
    { intro H. unfold sepoch. cbn. now rewrite H. }
    assert (Ef : neqb (e_ssize e) (e_esize e) = false -> e_esize (sepoch e) = e_esize e).
    { intro H. unfold sepoch. cbn. now rewrite H. }
    unfold add_epoch, next_start in *.
    destruct (rev (d_epochs d)) as [|prev r]; cbn [bind];
      destruct (neqb (e_ssize e) (e_esize e));
      [rewrite (Et eq_refl) in *|rewrite (Ef eq_refl) in *|rewrite (Et eq_refl) in *
      |rewrite (Ef eq_refl) in *]; cbn [bind]; rewrite G; reflexivity.
  Qed.

  Lemma epoch_step_ok' nE d j e :
    ValidEpoch e -> neqb (e_start e) (next_start d) = true ->
    epoch_step [] nE (d, j) (simp_epoch e)
    = Ok (with_epochs d (d_epochs d ++
            [mkEpoch (next_start d) (e_end e) (e_ssize e) (e_esize (sepoch e)) (e_sf e)
                     (e_self (sepoch e)) (e_clone (sepoch e))]), S j).
  Proof.
    intros V Hs. destruct (simp_epoch_fields e) as (ekv & -> & K1 & K2 & K3 & K4 & K5 & K6 & K7).
    unfold epoch_step. cbn [dict_of bind]. rewrite K1. cbn [bind]. rewrite K2. cbn [bind].
    rewrite K3, K4, K5, K6, K7. rewrite (add_epoch_ok' d e V Hs). reflexivity.
  Qed.

  Lemma epoch_fold' nE : forall es d j,
    Chain (next_start d) es -> (forall e, In e es -> ValidEpoch e) ->
    foldM (epoch_step [] nE) (map simp_epoch es) (d, j)
    = Ok (with_epochs d (d_epochs d ++ rechain (next_start d) (map sepoch es)),
          (j + List.length es)%nat).
  Proof.
    induction es as [|e es IH]; intros d j HC HV.
    - cbn. rewrite app_nil_r, Nat.add_0_r. destruct d; reflexivity.
    - cbn [map foldM]. destruct HC as [Hs HC].
      rewrite (epoch_step_ok' nE d j e (HV e (or_introl eq_refl)) Hs). cbn [bind].
      rewrite IH.
      + rewrite next_start_snoc.
        cbn [with_epochs d_epochs d_name d_desc d_start d_anc d_props rechain List.length e_end].
        rewrite <- app_assoc. cbn [app]. unfold sepoch at 2 3 4 5 6 7.
        cbn [e_end e_ssize e_esize e_sf e_self e_clone]. do 2 f_equal. lia.
      + rewrite next_start_snoc. exact HC.
      + intros e' He'. apply HV. now right.
  Qed.

  (* ------------------------------------------------------------------ *)
  (* the simplified deme dictionary *)

  Definition anc_end (g : graph) (d : deme) : option num :=
    match d_anc d with
    | [a] => match fd a (g_demes g) with
             | Some ad => match d_end ad with Ok ea => Some ea | Err _ => None end
             | None => None
             end
    | _ => None
    end.

  Definition dropb (g : graph) (d : deme) : bool :=
    if nisinf (d_start d) then true
    else match anc_end g d with Some ea => neqb ea (d_start d) | None => false end.

  Definition sstart (g : graph) (d : deme) : num :=
    if nisinf (d_start d) then ninf
    else match anc_end g d with
         | Some ea => if neqb ea (d_start d) then ea else d_start d
         | None => d_start d
         end.

  Definition singleb (d : deme) : bool :=
    match d_anc d, d_props d with [_], [p] => neqb p n1 | _, _ => false end.

  Definition sprops (d : deme) : list num := if singleb d then [nf1] else d_props d.

  Definition sdeme (g : graph) (d : deme) : deme :=
    mkDeme (d_name d) (d_desc d) (sstart g d) (d_anc d) (sprops d)
           (rechain (sstart g d) (map sepoch (d_epochs d))).

  Definition deme_kv (name desc : string) (so : option num) (anc : list string)
             (po : option (list num)) (eps : list jv) : list (string * jv) :=
    [("name", JStr name)] ++ nonempty_str "description" desc
    ++ (match so with None => [] | Some x => [("start_time", JNum x)] end)
    ++ nonempty_list "ancestors" (map JStr anc)
    ++ (match po with None => [] | Some l => nonempty_list "proportions" (map JNum l) end)
    ++ [("epochs", JList eps)].

  Definition sjv (g : graph) (d : deme) : jv :=
    JDict (deme_kv (d_name d) (d_desc d) (if dropb g d then None else Some (d_start d)) (d_anc d)
                   (if singleb d then None else Some (d_props d))
                   (map simp_epoch (d_epochs d))).

  Lemma simp_deme_eq g d : Valid g -> In d (g_demes g) -> simp_deme g d = Ok (sjv g d).
  Proof.
    intros V Hd. unfold simp_deme, sjv, dropb, anc_end, deme_kv, singleb.
    destruct (nisinf (d_start d)).
    - cbn [bind]. destruct (d_anc d) as [|a [|b l]], (d_props d) as [|p [|q r]];
        try destruct (neqb p n1); reflexivity.
    - destruct (d_anc d) as [|a [|b l]] eqn:E.
      + cbn [bind]. destruct (d_props d) as [|p [|q r]]; reflexivity.
      + destruct (valid_anc g d a V Hd) as (ad & ea & F & _ & He & _); [rewrite E; now left|].
        rewrite (lookup_fd _ _ (v_index _ V)), F. cbn [bind]. rewrite He. cbn [bind].
        destruct (neqb ea (d_start d)), (d_props d) as [|p [|q r]];
          try destruct (neqb p n1); reflexivity.
      + cbn [bind]. destruct (d_props d) as [|p [|q r]]; reflexivity.
  Qed.

  Lemma deme_kv_fields name desc so anc po eps :
    let kv := deme_kv name desc so anc po eps in
    assoc "name" kv = Some (JStr name) /\
    check_allowed kv deme_fields = Ok tt /\
    jdefault (field kv [] "description") (JStr "") = JStr desc /\
    field_nn kv [] "start_time" = option_map JNum so /\
    field_nn kv [] "ancestors" = (match anc with [] => None | _ => Some (jstrs anc) end) /\
    field_nn kv [] "proportions"
      = (match po with Some (p :: l) => Some (jnums (p :: l)) | _ => None end) /\
    assoc "defaults" kv = None /\
    assoc "epochs" kv = Some (JList eps).
  Proof.
    unfold deme_kv, nonempty_str.
    destruct (String.eqb desc "") eqn:E.
    - apply String.eqb_eq in E. subst desc.
      destruct so, anc, po as [[|p l]|]; repeat split; reflexivity.
    - destruct so, anc, po as [[|p l]|]; repeat split; reflexivity.
  Qed.

  (* ------------------------------------------------------------------ *)
  (* facts about the re-inferred values *)

  Lemma sepoch_end e : e_end (sepoch e) = e_end e.
  Proof. reflexivity. Qed.

  Lemma d_end_sdeme g d : d_end (sdeme g d) = d_end d.
  Proof.
    rewrite !d_end_map. cbn [sdeme d_epochs]. rewrite rechain_ends, map_map.
    rewrite (map_ext _ e_end sepoch_end). reflexivity.
  Qed.

  Lemma fd_sdeme g name ds : fd name (map (sdeme g) ds) = option_map (sdeme g) (fd name ds).
  Proof.
    unfold fd. induction ds as [|d ds IH]; cbn; [reflexivity|].
    destruct (String.eqb (d_name d) name); [reflexivity|exact IH].
  Qed.

  Lemma sdeme_names g ds : map d_name (map (sdeme g) ds) = map d_name ds.
  Proof. rewrite map_map. reflexivity. Qed.

  Lemma valid_in g d : Valid g -> In d (g_demes g) ->
    exists e1 e2, g_demes g = e1 ++ d :: e2 /\ ValidDeme e1 d.
  Proof.
    intros V Hd. destruct (valid_prefix _ _ _ (v_demes _ V) Hd) as (r1 & r2 & E & Vd). eauto.
  Qed.

  Lemma sstart_veq g d : Valid g -> In d (g_demes g) -> neqb (d_start d) (sstart g d) = true.
  Proof.
    intros V Hd. destruct (valid_in g d V Hd) as (e1 & e2 & _ & Vd).
    pose proof (vd_start _ _ Vd) as P. unfold sstart.
    destruct (nisinf (d_start d)) eqn:Ei; [nord|].
    assert (ok (d_start d)) by (apply lt_true in P; tauto).
    destruct (anc_end g d) as [ea|]; [|now apply eq_refl_ok].
    destruct (neqb ea (d_start d)) eqn:E; [now apply neqb_sym|now apply eq_refl_ok].
  Qed.

  Lemma fd_prefix name (l1 l2 : list deme) d :
    fd name l1 = Some d -> fd name (l1 ++ l2) = Some d.
  Proof. unfold fd. intro H. now rewrite find_app, H. Qed.

  (* ------------------------------------------------------------------ *)
  (* add_deme with optional start time, ancestors and proportions *)

  Lemma add_deme_ok' h ds' name desc so anc po start' props' :
    fd name ds' = None -> is_identifier name = true -> NoDup anc ->
    (forall a, In a anc -> is_identifier a = true /\
       exists ad ea, fd a ds' = Some ad /\ d_end ad = Ok ea /\
                     nlt start' (d_start ad) = true /\ nle ea start' = true) ->
    (match so with
     | Some x => start' = x
     | None => (anc = [] /\ start' = ninf) \/
               (exists a ad, anc = [a] /\ fd a ds' = Some ad /\ d_end ad = Ok start')
     end) ->
    nlt n0 start' = true -> (anc = [] -> nisinf start' = true) ->
    (match po with
     | Some l => props' = l
     | None => props' = if Nat.eqb (List.length anc) 1 then [nf1] else []
     end) ->
    List.length props' = List.length anc ->
    (forall p, In p props' -> in_unit_lo p) ->
    (props' <> [] -> isclose0 (pysum props') nf1 = true) ->
    add_deme (GR h ds' [] []) (JStr name) (JStr desc) (option_map JNum so)
             (match anc with [] => None | _ => Some (jstrs anc) end)
             (match po with Some (p :: l) => Some (jnums (p :: l)) | _ => None end)
    = Ok (GR h (ds' ++ [mkDeme name desc start' anc props' []]) [] []).
  Proof.
    intros Fn In_ ND FA HS P0 HR HP HL HU HC.
    assert (okst : ok start') by (apply lt_true in P0; tauto).
    assert (EA : (match (match anc with [] => None | _ => Some (jstrs anc) end) with
                  | None => Ok [] | Some v => list_of v end) = Ok (map JStr anc)).
    { destruct anc; reflexivity. }
    assert (EP : (match (match po with Some (p :: l) => Some (jnums (p :: l)) | _ => None end) with
                  | Some v => v
                  | None => if Nat.eqb (List.length (map JStr anc)) 1
                            then JList [JNum nf1] else JList []
                  end) = jnums props').
    { rewrite map_length. destruct po as [[|p l]|].
      - subst props'. destruct anc; [reflexivity|discriminate HL].
      - now subst props'.
      - subst props'. destruct (Nat.eqb (List.length anc) 1); reflexivity. }
    unfold add_deme. cbn [bind].
    rewrite contains_GR, Fn. cbn [raise_if bind].
    rewrite EA. cbn [bind]. rewrite EP.
    eapply sbind_ok.
    { apply forM_map_ok. intros a Ha. destruct (FA a Ha) as (_ & ad & ea & Hf & _).
      rewrite contains_GR, Hf. reflexivity. }
    rewrite map_map, (map_id_ext _ anc) by reflexivity.
    eapply sbind_ok with (a := JNum start').
    { destruct so as [x|]; cbn [option_map]; [now subst|].
      destruct HS as [[-> ->]|(a & ad & -> & Hf & He)]; [reflexivity|].
      rewrite lookup_GR, Hf. cbn [bind]. rewrite He. reflexivity. }
    cbn [is_number negb raise_if bind].
    eapply sbind_ok.
    { apply raise_if_false. rewrite map_length. destruct anc as [|a anc']; [|reflexivity].
      cbn. now rewrite HR. }
    eapply sbind_ok.
    { apply forM_ok. intros a Ha. destruct (FA a Ha) as (_ & ad & ea & Hf & He & A1 & A2).
      rewrite lookup_GR, Hf. cbn [bind]. rewrite He. cbn [bind].
      unfold ngt, nge. rewrite A1, A2. reflexivity. }
    unfold deme_name_of. cbn [str_of bind]. rewrite In_. cbn [negb raise_if bind].
    rewrite (iof_num _ okst). cbn [bind].
    eapply sbind_ok.
    { unfold positive. apply raise_if_false. nord. }
    eapply sbind_ok.
    { apply (mapM_map_ok deme_name_of JStr (fun x => x)). intros a Ha.
      destruct (FA a Ha) as (Hi & _). unfold deme_name_of. cbn. rewrite Hi. reflexivity. }
    rewrite map_id.
    rewrite (nodupb_true _ ND). cbn [negb raise_if bind].
    rewrite mem_false.
    2:{ intro Hin. destruct (FA _ Hin) as (_ & ad & ea & Hf & _). congruence. }
    cbn [raise_if bind jnums list_of].
    eapply sbind_ok.
    { apply (mapM_map_ok int_or_float JNum (fun x => x)). intros x Hx. apply iof_num.
      destruct (HU x Hx) as [Hp _]. apply lt_true in Hp. tauto. }
    rewrite map_id.
    eapply sbind_ok.
    { apply raise_if_false. destruct props' as [|p props'']; [reflexivity|].
      rewrite HC by discriminate. reflexivity. }
    eapply sbind_ok.
    { apply forM_ok. intros p Hp. destruct (HU p Hp) as [P1 P2].
      unfold unit_interval, positive.
      assert (ok p) by (apply lt_true in P1; tauto).
      assert (E1 : nle n0 p = true) by nord.
      assert (E2 : nle p n0 = false) by nord.
      rewrite E1, P2, E2. reflexivity. }
    rewrite HL, Nat.eqb_refl. cbn [negb raise_if bind].
    unfold GR.
    cbn [d_name d_desc d_start d_anc d_props g_desc g_units g_gt g_doi g_meta g_demes g_migs
         g_pulses g_index].
    rewrite index_from_app. reflexivity.
  Qed.

  (* ------------------------------------------------------------------ *)
  (* one deme, all demes *)

  (* sum([1.0]) is close to 1.0: true of binary64, not derivable from the abstract laws
     (no law relates nadd to the order) *)
  Definition SumOne : Prop := isclose0 (pysum [nf1]) nf1 = true.

  Lemma NoDup_app_l {A} (l1 l2 : list A) : NoDup (l1 ++ l2) -> NoDup l1.
  Proof.
    induction l1 as [|a l1 IH]; cbn; intro H; [constructor|].
    inversion H; subst. constructor; [|auto]. intro Hin. apply H2. apply in_or_app. now left.
  Qed.

  Lemma Chain_veq s s' es : neqb s s' = true -> Chain s es -> Chain s' es.
  Proof.
    intro H. destruct es as [|e es]; cbn; [auto|]. intros [H1 H2]. split; [nord|exact H2].
  Qed.

  Lemma Chain_sepoch : forall es s, Chain s es -> Chain s (map sepoch es).
  Proof. induction es as [|e es IH]; intros s; cbn; [auto|]. intros [H1 H2]. split; auto. Qed.

  Lemma singleb_spec d :
    singleb d = true -> exists a p, d_anc d = [a] /\ d_props d = [p] /\ neqb p n1 = true.
  Proof.
    unfold singleb. destruct (d_anc d) as [|a [|b l]]; try discriminate.
    destruct (d_props d) as [|p [|q r]]; try discriminate. eauto.
  Qed.

  Lemma resolve_deme_ok' h g earlier d rest :
    SumOne -> Valid g -> g_demes g = earlier ++ d :: rest ->
    resolve_deme [] [] (GR h (map (sdeme g) earlier) [] []) (sjv g d)
    = Ok (GR h (map (sdeme g) (earlier ++ [d])) [] []).
  Proof.
    intros S1 V Eg.
    assert (Hd : In d (g_demes g)) by (rewrite Eg; apply in_or_app; right; now left).
    assert (Hsub : forall x, In x earlier -> In x (g_demes g)).
    { intros x Hx. rewrite Eg. apply in_or_app. now left. }
    assert (Vd : ValidDeme earlier d).
    { pose proof (v_demes _ V) as VD. rewrite Eg in VD. clear -VD.
      assert (G : forall l e, ValidDemes e (l ++ d :: rest) -> ValidDeme (e ++ l) d).
      { induction l as [|a l IH]; intros e H; cbn in H.
        - rewrite app_nil_r. tauto.
        - destruct H as [_ H]. apply IH in H. now rewrite <- app_assoc in H. }
      exact (G earlier [] VD). }
    assert (NDe : NoDup (map d_name earlier)).
    { pose proof (valid_names_nodup g V) as ND. rewrite Eg, map_app in ND.
      exact (NoDup_app_l _ _ ND). }
    assert (IDe : forall a, In a earlier -> is_identifier (d_name a) = true).
    { intros a Ha. exact (valid_demes_ident _ _ (v_demes _ V) a (Hsub a Ha)). }
    pose proof (sstart_veq g d V Hd) as SV.
    destruct (deme_kv_fields (d_name d) (d_desc d) (if dropb g d then None else Some (d_start d))
                (d_anc d) (if singleb d then None else Some (d_props d))
                (map simp_epoch (d_epochs d))) as (K1 & K2 & K3 & K4 & K5 & K6 & K7 & K8).
    cbv zeta in K1, K2, K3, K4, K5, K6, K7, K8.
    unfold resolve_deme, sjv. cbn [dict_of bind]. rewrite K1. cbn [bind]. rewrite K2. cbn [bind].
    rewrite K3, K4, K5, K6.
    assert (FA : forall a, In a (d_anc d) -> is_identifier a = true /\
              exists ad ea, fd a (g_demes g) = Some (ad) /\
                            fd a (map (sdeme g) earlier) = Some (sdeme g ad) /\
                            d_end (sdeme g ad) = Ok ea /\ d_end ad = Ok ea /\
                            nlt (sstart g d) (d_start (sdeme g ad)) = true /\
                            nle ea (sstart g d) = true).
    { intros a Ha. destruct (vd_anc _ _ Vd a Ha) as (ad & Hin & Hn & (ea & He & A1 & A2)).
      subst a. split; [now apply IDe|]. exists ad, ea.
      assert (F1 : fd (d_name ad) earlier = Some ad) by now apply fd_some.
      pose proof (sstart_veq g ad V (Hsub ad Hin)) as SVa.
      unfold DEnd in He. repeat split.
      - rewrite Eg. now apply fd_prefix.
      - rewrite fd_sdeme, F1. reflexivity.
      - now rewrite d_end_sdeme.
      - exact He.
      - cbn [sdeme d_start]. nord.
      - nord. }
    erewrite (add_deme_ok' h (map (sdeme g) earlier) (d_name d) (d_desc d) _ (d_anc d) _
                           (sstart g d) (sprops d)).
    - cbn [bind]. unfold pop_object. rewrite K7.
      cbn [bind check_allowed forM_ assoc merge_defaults filter app].
      rewrite K8. cbn [andb List.length Nat.eqb raise_if bind list_of].
      eapply sbind_ok.
      { rewrite all_dicts_ok; [reflexivity|]. intros x; reflexivity. }
      eapply sbind_ok.
      { apply raise_if_false. pose proof (vd_epochs_ne _ _ Vd) as Hne.
        destruct (d_epochs d); [congruence|reflexivity]. }
      eapply sbind_ok.
      { cbn [GR g_demes]. rewrite rev_unit. reflexivity. }
      eapply sbind_ok.
      { apply (epoch_fold' _ (d_epochs d)
                 (mkDeme (d_name d) (d_desc d) (sstart g d) (d_anc d) (sprops d) []) 0%nat).
        - unfold next_start. cbn [d_epochs rev d_start].
          exact (Chain_veq _ _ _ SV (vd_chain _ _ Vd)).
        - exact (vd_epochs _ _ Vd). }
      unfold set_last_deme, GR.
      cbn [fst g_desc g_units g_gt g_doi g_meta g_demes g_migs g_pulses g_index].
      rewrite removelast_last, map_app. cbn [map]. f_equal. f_equal.
      apply index_from_names. rewrite !map_app. reflexivity.
    - rewrite fd_sdeme, (fd_none _ _ (vd_fresh _ _ Vd)). reflexivity.
    - exact (vd_name _ _ Vd).
    - exact (vd_anc_nodup _ _ Vd).
    - intros a Ha. destruct (FA a Ha) as (Hi & ad & ea & _ & F2 & E2 & _ & A1 & A2).
      split; [exact Hi|]. exists (sdeme g ad), ea. auto.
    - unfold dropb, sstart. destruct (nisinf (d_start d)) eqn:Ei.
      + left. split; [|reflexivity]. now apply (vd_root _ _ Vd).
      + unfold anc_end. destruct (d_anc d) as [|a [|b l]] eqn:Ea; try reflexivity.
        destruct (FA a (or_introl eq_refl)) as (_ & ad & ea & F1 & F2 & E2 & E1 & _).
        rewrite F1, E1. destruct (neqb ea (d_start d)); [|reflexivity].
        right. exists a, (sdeme g ad). auto.
    - pose proof (vd_start _ _ Vd). nord.
    - intro Ea. apply (vd_root _ _ Vd) in Ea. unfold sstart. rewrite Ea. nord.
    - unfold sprops. destruct (singleb d) eqn:Es; [|reflexivity].
      destruct (singleb_spec d Es) as (a & p & -> & _). reflexivity.
    - unfold sprops. destruct (singleb d) eqn:Es; [|exact (vd_props_len _ _ Vd)].
      destruct (singleb_spec d Es) as (a & p & -> & _). reflexivity.
    - unfold sprops. destruct (singleb d); [|exact (vd_props _ _ Vd)].
      intros p [<-|[]]. split; nord.
    - unfold sprops. destruct (singleb d); [intros _; exact S1|exact (vd_props_sum _ _ Vd)].
  Qed.

  Lemma demes_fold' h g : SumOne -> Valid g -> forall rest earlier,
    g_demes g = earlier ++ rest ->
    foldM (resolve_deme [] []) (map (sjv g) rest) (GR h (map (sdeme g) earlier) [] [])
    = Ok (GR h (map (sdeme g) (earlier ++ rest)) [] []).
  Proof.
    intros S1 V. induction rest as [|d rest IH]; intros earlier Eg.
    - cbn. now rewrite app_nil_r.
    - cbn [map foldM]. rewrite (resolve_deme_ok' h g earlier d rest S1 V Eg). cbn [bind].
      rewrite IH; [now rewrite <- app_assoc|]. rewrite <- app_assoc. exact Eg.
  Qed.

  Lemma simp_demes_eq g : Valid g -> mapM (simp_deme g) (g_demes g) = Ok (map (sjv g) (g_demes g)).
  Proof.
    intro V.
    assert (G : forall l, (forall d, In d l -> In d (g_demes g)) ->
                          mapM (simp_deme g) l = Ok (map (sjv g) l)).
    { induction l as [|d l IH]; intro H; [reflexivity|]. cbn [mapM map].
      rewrite (simp_deme_eq g d V (H d (or_introl eq_refl))). cbn [bind].
      rewrite IH; [reflexivity|]. intros x Hx. apply H. now right. }
    apply G. auto.
  Qed.

  (* ------------------------------------------------------------------ *)
  (* the rebuilt demes are value-equal to the originals *)

  Definition Veq (x y : num) : Prop := neqb x y = true.
  Definition EpochVEq0 (a b : epoch) : Prop :=
    Veq (e_start a) (e_start b) /\ Veq (e_end a) (e_end b) /\ Veq (e_ssize a) (e_ssize b) /\
    Veq (e_esize a) (e_esize b) /\ e_sf a = e_sf b /\ Veq (e_self a) (e_self b) /\
    Veq (e_clone a) (e_clone b).
  Definition DemeVEq0 (a b : deme) : Prop :=
    d_name a = d_name b /\ d_desc a = d_desc b /\ Veq (d_start a) (d_start b) /\
    d_anc a = d_anc b /\ Forall2 Veq (d_props a) (d_props b) /\
    Forall2 EpochVEq0 (d_epochs a) (d_epochs b).

  Lemma epochs_veq : forall es s,
    Chain s es -> (forall e, In e es -> ValidEpoch e) ->
    Forall2 EpochVEq0 es (rechain s (map sepoch es)).
  Proof.
    induction es as [|e es IH]; intros s HC HV; cbn [map rechain]; constructor.
    - destruct HC as [Hs _].
      destruct (HV e (or_introl eq_refl)) as [V1 V2 V3 [V4 V4'] [V5 V5'] V6 V7 V8 [V9 V9'] [V10 V10']].
      unfold EpochVEq0, Veq, sepoch. cbn [e_start e_end e_ssize e_esize e_sf e_self e_clone].
      assert (ok (e_end e)) by (apply le_true in V1; tauto).
      assert (ok (e_ssize e)) by (apply lt_true in V4; tauto).
      assert (ok (e_esize e)) by (apply lt_true in V5; tauto).
      assert (ok (e_self e)) by (apply le_true in V9; tauto).
      assert (ok (e_clone e)) by (apply le_true in V10; tauto).
      repeat split.
      + exact Hs.
      + now apply eq_refl_ok.
      + now apply eq_refl_ok.
      + destruct (neqb (e_ssize e) (e_esize e)) eqn:E; [now apply neqb_sym|now apply eq_refl_ok].
      + destruct (neqb (e_self e) n0) eqn:E; [exact E|now apply eq_refl_ok].
      + destruct (neqb (e_clone e) n0) eqn:E; [exact E|now apply eq_refl_ok].
    - destruct HC as [_ HC]. cbn [sepoch e_end]. apply IH; [exact HC|].
      intros x Hx. apply HV. now right.
  Qed.

  Lemma sdeme_veq g d : Valid g -> In d (g_demes g) -> DemeVEq0 d (sdeme g d).
  Proof.
    intros V Hd. destruct (valid_in g d V Hd) as (e1 & e2 & _ & Vd).
    pose proof (sstart_veq g d V Hd) as SV.
    unfold DemeVEq0, sdeme. cbn [d_name d_desc d_start d_anc d_props d_epochs].
    repeat split; auto.
    - unfold sprops. destruct (singleb d) eqn:Es.
      + destruct (singleb_spec d Es) as (a & p & _ & -> & Hp). constructor; [|constructor].
        unfold Veq. nord.
      + apply Forall2_refl_in. intros p Hp. destruct (vd_props _ _ Vd p Hp) as [H _].
        unfold Veq. apply eq_refl_ok. apply lt_true in H. tauto.
    - apply epochs_veq; [|exact (vd_epochs _ _ Vd)].
      exact (Chain_veq _ _ _ SV (vd_chain _ _ Vd)).
  Qed.
End SimplifyDemes.
