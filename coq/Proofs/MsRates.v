(* C07 — semantic soundness of the migration part of demes.to_ms, and of which
   populations are still in existence, against the ms semantics of Spec/MsSem.v.
   Stated on the event list before the final uniform division of every time by
   4*N0 (Model/ToMs.v: to_ms_unscaled), i.e. with times in generations. *)
From Coq Require Import Bool List String QArith Lqa Lia Arith Permutation.
From Demes Require Import Base.Num Base.Py Model.MDM Model.InGen Model.MigMat Model.MsOpt
  Model.ToMs Spec.Valid Spec.MsSem Proofs.MigMatProofs Proofs.ResolveInv
  Proofs.InGenProofs Proofs.MsProofs.
Import ListNotations.
Local Open Scope string_scope.
Local Open Scope list_scope.
Local Open Scope nat_scope.

(* ---------- small list facts ---------- *)
Section ListFacts.
  Context {N : NumOps}.

  Lemma upd_length {A} (f : A -> A) l : forall k, List.length (upd k f l) = List.length l.
  Proof. induction l as [|x l IH]; intros [|k]; cbn; auto. Qed.

  Lemma nth_upd_eq {A} (f : A -> A) d l : forall k,
    k < List.length l -> nth k (upd k f l) d = f (nth k l d).
  Proof.
    induction l as [|x l IH]; intros [|k] H; cbn in *; try lia; auto. apply IH. lia.
  Qed.

  Lemma nth_upd_neq {A} (f : A -> A) d l : forall k k',
    k <> k' -> nth k (upd k' f l) d = nth k l d.
  Proof.
    induction l as [|x l IH]; intros [|k] [|k'] H; cbn; auto; try congruence.
  Qed.

  Lemma nth_error_upd {A} (f : A -> A) l : forall k k',
    nth_error (upd k f l) k' =
    if Nat.eqb k' k then option_map f (nth_error l k') else nth_error l k'.
  Proof.
    induction l as [|x l IH]; intros [|k] [|k']; cbn; auto;
      try (destruct (Nat.eqb k' k); reflexivity).
  Qed.

  Lemma In_upd {A} (f : A -> A) l : forall k y,
    In y (upd k f l) -> In y l \/ exists x, In x l /\ y = f x.
  Proof.
    induction l as [|x l IH]; intros [|k] y H; cbn in *; auto.
    - destruct H as [<-|H]; [right; eauto|auto].
    - destruct H as [<-|H]; [auto|].
      destruct (IH _ _ H) as [H'|(z & Hz & ->)]; [auto|right; eauto].
  Qed.

  Lemma mapi_length {A B} (f : nat -> A -> B) l : forall s,
    List.length (mapi s f l) = List.length l.
  Proof. induction l as [|x l IH]; intro s; cbn; auto. Qed.

  Lemma nth_mapi {A B} (f : nat -> A -> B) d d' l : forall s k,
    k < List.length l -> nth k (mapi s f l) d = f (s + k) (nth k l d').
  Proof.
    induction l as [|x l IH]; intros s [|k] H; cbn in *; try lia.
    - now rewrite Nat.add_0_r.
    - rewrite IH by lia. f_equal. lia.
  Qed.

  Lemma nth_map_lt {A B} (f : A -> B) d d' l : forall k,
    k < List.length l -> nth k (map f l) d = f (nth k l d').
  Proof. induction l as [|x l IH]; intros [|k] H; cbn in *; try lia; auto. apply IH. lia. Qed.

  Lemma filter_nil {A} (P : A -> bool) l :
    (forall x, In x l -> P x = false) -> filter P l = [].
  Proof.
    induction l as [|x l IH]; intro H; cbn; [reflexivity|].
    rewrite (H x (or_introl eq_refl)). apply IH. intros y Hy. apply H. now right.
  Qed.

  Lemma rev_nth_error {A} (l : list A) k x :
    nth_error (rev l) (List.length l - S k) = Some x -> k < List.length l ->
    nth_error l k = Some x.
  Proof.
    intros H Hk.
    pose proof (nth_error_nth _ _ x H) as E.
    rewrite rev_nth in E by lia.
    replace (List.length l - S (List.length l - S k)) with k in E by lia.
    rewrite <- E. now apply nth_error_nth'.
  Qed.
End ListFacts.

(* ---------- more about the generic stable sort of Proofs/MsProofs.v ---------- *)
Section SortFacts.
  Context {N : NumOps} {L : NumLaws N} {A : Type} (key : A -> num).

  Lemma SSorted_last l z :
    SSorted key (l ++ [z]) -> forall x, In x l -> nle (key x) (key z) = true.
  Proof.
    induction l as [|a l IH]; intros S x Hx; [destruct Hx|].
    cbn in S. destruct S as [Ha S]. destruct Hx as [<-|Hx].
    - apply Ha. apply in_or_app. right. now left.
    - now apply IH.
  Qed.

  Lemma SSorted_eqkeys t l :
    ok t -> (forall y, In y l -> neqb (key y) t = true) -> SSorted key l.
  Proof.
    intros Ot. induction l as [|x l IH]; intro H; cbn; [exact Logic.I|].
    split.
    - intros y Hy. pose proof (H x (or_introl eq_refl)) as E1.
      pose proof (H y (or_intror Hy)) as E2. nord.
    - apply IH. intros a Ha. apply H. now right.
  Qed.

  (* the last element of the sorted list is a maximum *)
  Lemma gsort_last_max l :
    l <> [] -> (forall y, In y l -> ok (key y)) ->
    exists l' z, gsort key l = l' ++ [z] /\ In z l /\
                 forall y, In y l -> nle (key y) (key z) = true.
  Proof.
    intros Hne Ol.
    pose proof (gsort_perm key l) as P.
    pose proof (gsort_sorted key l Ol) as S.
    destruct (exists_last (l := gsort key l)) as (l' & z & E).
    { intro E. rewrite E in P. apply Permutation_nil in P. congruence. }
    rewrite E in S, P. exists l', z. split; [exact E|].
    assert (In z l) as Hz.
    { apply (Permutation_in _ P). apply in_or_app. right. now left. }
    split; [exact Hz|]. intros y Hy.
    apply (Permutation_in _ (Permutation_sym P)) in Hy. apply in_app_or in Hy.
    destruct Hy as [Hy|[<-|[]]].
    - eapply SSorted_last; eauto.
    - specialize (Ol _ Hz). nord.
  Qed.

  (* stability: an element of the second block that dominates everything else, and strictly
     dominates every other member of its own block, ends up last *)
  Lemma gsort_last_stable l1 l2 e :
    (forall y, In y (l1 ++ l2) -> ok (key y)) -> In e l2 ->
    (forall y, In y l1 -> nle (key y) (key e) = true) ->
    (forall y, In y l2 -> y = e \/ nlt (key y) (key e) = true) ->
    exists l', gsort key (l1 ++ l2) = l' ++ [e].
  Proof.
    intros Ol He H1 H2.
    assert (ok (key e)) as Oe by (apply Ol; apply in_or_app; now right).
    destruct (gsort_last_max (l1 ++ l2)) as (l' & z & E & Hz & Hmax).
    { intro E. assert (In e (l1 ++ l2)) as X by (apply in_or_app; now right).
      rewrite E in X. destruct X. }
    { exact Ol. }
    exists l'. rewrite E. f_equal. f_equal.
    assert (nle (key e) (key z) = true) as Hez by (apply Hmax; apply in_or_app; now right).
    apply in_app_or in Hz. destruct Hz as [Hz|Hz].
    2:{ destruct (H2 z Hz) as [->|Hlt]; [reflexivity|]. exfalso. nord. }
    specialize (H1 z Hz).
    set (Q := fun y => neqb (key y) (key e)).
    assert (filter Q (gsort key (l1 ++ l2)) = filter Q l1 ++ filter Q l2) as EQ.
    { rewrite gsort_filter by exact Ol. rewrite filter_app. apply gsort_id.
      apply (SSorted_eqkeys (key e)); [exact Oe|].
      intros y Hy. apply in_app_or in Hy.
      destruct Hy as [Hy|Hy]; apply filter_In in Hy; apply Hy. }
    rewrite E, filter_app in EQ. cbn [filter] in EQ.
    assert (Q z = true) as Qz by (unfold Q; nord).
    rewrite Qz in EQ.
    assert (In e (filter Q l2)) as He2.
    { apply filter_In. split; [exact He|]. unfold Q. now apply eq_refl_ok. }
    destruct (exists_last (l := filter Q l2)) as (b' & w & Eb).
    { intro X. rewrite X in He2. destruct He2. }
    assert (w = e) as ->.
    { assert (In w (filter Q l2)) as Hw by (rewrite Eb; apply in_or_app; right; now left).
      apply filter_In in Hw. destruct Hw as [Hw Qw].
      destruct (H2 w Hw) as [->|Hlt]; [reflexivity|]. exfalso. unfold Q in Qw. nord. }
    rewrite Eb, app_assoc in EQ. apply app_inj_tail in EQ. apply EQ.
  Qed.
End SortFacts.

Section MsRates.
  Context {N : NumOps} {L : NumLaws N}.

  (* the migration of g for the ordered pair src -> dst in force at time T, if any
     (start exclusive, end inclusive: Spec/Valid.v activeb) *)
  Definition active_mig (g : graph) (src dst : string) (T : num) : option mig :=
    find (fun m => String.eqb (m_src m) src && String.eqb (m_dst m) dst && activeb m T) (g_migs g).

  (* ms matrix entry: rate at which a lineage in population i moves, backwards in time, to j
     (0-based); forwards in time that is migration from j into i *)
  Definition entry (st : mstate) (i j : nat) : num := nth j (nth i (st_mig st) []) nf0.

  (* the three spellings of "no migration" the interpreter can hold: the initial value
     0/(n-1) of an -I without rate, the 0.0 of a fresh row/column, float(0) of a switch-off event *)
  Definition ZeroEntry (n : nat) (x : num) : Prop :=
    x = nf0 \/ x = nfloat n0 \/ x = ndiv n0 (nat_num (n - 1)).

  (* ================= the interpreter ================= *)

  (* the migration matrix is square, of the size of the population list *)
  Definition Sq (s : mstate) : Prop :=
    List.length (st_mig s) = npops s /\
    forall row, In row (st_mig s) -> List.length row = npops s.

  Definition noM (e : msev) : Prop :=
    match e with EvM _ _ | Evma _ _ _ _ => False | _ => True end.

  Definition vstep (i j : nat) (v : num) (e : msev) : num :=
    match e with
    | Evm _ a b x => if Nat.eqb a (S i) && Nat.eqb b (S j) then x else v
    | _ => v
    end.
  Definition Pij (i j : nat) (e : msev) : bool :=
    match e with Evm _ a b _ => Nat.eqb a (S i) && Nat.eqb b (S j) | _ => false end.
  Definition evval (e : msev) : num := match e with Evm _ _ _ x => x | _ => nf0 end.
  Definition leT (T : num) (e : msev) : bool := nle (ev_time e) T.

  Lemma apply_ev_entry s e s' i j :
    Sq s -> i < npops s -> j < npops s -> noM e -> apply_ev s e = Ok s' ->
    Sq s' /\ npops s <= npops s' /\ entry s' i j = vstep i j (entry s i j) e.
  Proof.
    intros [Sq1 Sq2] Hi Hj HM H. unfold apply_ev in H.
    destruct e as [t a|t a al|t x|t a x tm|t x|t a b x|t np m ini|t a p|t a b]; cbn in HM; try contradiction.
    - injection H as <-. unfold Sq, npops, entry in *. cbn. rewrite map_length. auto.
    - mraise H Hc. injection H as <-. unfold Sq, npops, entry in *. cbn. rewrite upd_length. auto.
    - injection H as <-. unfold Sq, npops, entry in *. cbn. rewrite map_length. auto.
    - mraise H Hc. injection H as <-. unfold Sq, npops, entry in *. cbn. rewrite upd_length. auto.
    - mraise H Hc. injection H as <-.
      apply orb_false_iff in Hc. destruct Hc as [Hc Hab]. apply negb_false_iff in Hc.
      apply andb_true_iff in Hc. destruct Hc as [Ha Hb].
      apply andb_true_iff in Ha. destruct Ha as [Ha1 Ha2].
      apply andb_true_iff in Hb. destruct Hb as [Hb1 Hb2].
      apply Nat.leb_le in Ha1, Ha2, Hb1, Hb2.
      split; [|split; [unfold npops; cbn; lia|]].
      + unfold Sq, npops in *. cbn. rewrite upd_length. split; [exact Sq1|].
        intros row Hrow. apply In_upd in Hrow.
        destruct Hrow as [Hrow|(r0 & Hr0 & ->)]; [auto|]. rewrite upd_length. auto.
      + unfold entry, vstep. cbn [st_mig].
        assert (i < List.length (st_mig s)) as Hi' by (rewrite Sq1; exact Hi).
        assert (j < List.length (nth i (st_mig s) [])) as Hj'.
        { rewrite (Sq2 (nth i (st_mig s) [])); [exact Hj|]. now apply nth_In. }
        destruct (Nat.eqb a (S i)) eqn:Ea; cbn [andb].
        * apply Nat.eqb_eq in Ea. replace (a - 1) with i by lia.
          rewrite nth_upd_eq by exact Hi'.
          destruct (Nat.eqb b (S j)) eqn:Eb.
          -- apply Nat.eqb_eq in Eb. replace (b - 1) with j by lia.
             now rewrite nth_upd_eq by exact Hj'.
          -- apply Nat.eqb_neq in Eb. rewrite nth_upd_neq by lia. reflexivity.
        * apply Nat.eqb_neq in Ea. rewrite nth_upd_neq by lia. reflexivity.
    - mraise H Hc. injection H as <-.
      assert (i < List.length (st_mig s)) as Hi' by (rewrite Sq1; exact Hi).
      assert (j < List.length (nth i (st_mig s) [])) as Hj'.
      { rewrite (Sq2 (nth i (st_mig s) [])); [exact Hj|]. now apply nth_In. }
      split; [|split].
      + unfold Sq, npops in *. cbn [st_pops st_mig]. rewrite !app_length, map_length. cbn.
        split; [lia|]. intros row Hrow. apply in_app_or in Hrow.
        destruct Hrow as [Hrow|[<-|[]]].
        * apply in_map_iff in Hrow. destruct Hrow as (r0 & <- & Hr0).
          rewrite app_length, (Sq2 _ Hr0). cbn. reflexivity.
        * cbn. rewrite repeat_length. lia.
      + unfold npops. cbn. rewrite app_length. lia.
      + unfold entry, vstep. cbn [st_mig].
        rewrite app_nth1 by (rewrite map_length; exact Hi').
        rewrite (nth_map_lt _ _ []) by exact Hi'.
        now rewrite app_nth1 by exact Hj'.
    - mraise H Hc. injection H as <-. unfold Sq, npops, entry in *. cbn. rewrite upd_length. auto.
  Qed.

  Lemma fold_entry T i j l : forall s s',
    Sq s -> i < npops s -> j < npops s -> (forall e, In e l -> noM e) ->
    foldM (fun s e => if nle (ev_time e) T then apply_ev s e else Ok s) l s = Ok s' ->
    entry s' i j = fold_left (vstep i j) (filter (leT T) l) (entry s i j).
  Proof.
    induction l as [|e l IH]; intros s s' HS Hi Hj HM H; cbn in H.
    - now injection H as <-.
    - mbind H s1 H1. cbn [filter]. unfold leT at 1.
      assert (forall x, In x l -> noM x) as HM' by (intros x Hx; apply HM; now right).
      destruct (nle (ev_time e) T).
      + destruct (apply_ev_entry _ _ _ i j HS Hi Hj (HM e (or_introl eq_refl)) H1) as (HS1 & Hn & He).
        cbn [fold_left]. rewrite <- He. apply IH; auto; lia.
      + injection H1 as <-. now apply IH.
  Qed.

  Lemma vstep_filter i j l : forall v,
    fold_left (vstep i j) l v = fold_left (vstep i j) (filter (Pij i j) l) v.
  Proof.
    induction l as [|e l IH]; intro v; cbn; [reflexivity|].
    destruct (Pij i j e) eqn:E; cbn; [apply IH|].
    rewrite <- IH. f_equal. destruct e; cbn in *; try reflexivity. now rewrite E.
  Qed.

  Lemma vstep_last i j l e v :
    Pij i j e = true -> fold_left (vstep i j) (l ++ [e]) v = evval e.
  Proof.
    intro H. rewrite fold_left_app. cbn. destruct e; cbn in *; try discriminate. now rewrite H.
  Qed.

  (* population i is emptied exactly by an applied -ej whose first index is i+1 *)
  Definition isJ (i : nat) (e : msev) : bool :=
    match e with Evj _ a _ => Nat.eqb a (S i) | _ => false end.

  Lemma apply_ev_alive s e s' i p :
    apply_ev s e = Ok s' -> nth_error (st_pops s) i = Some p ->
    exists p', nth_error (st_pops s') i = Some p' /\ alive p' = alive p && negb (isJ i e).
  Proof.
    intros H Hp. unfold apply_ev in H.
    destruct e as [t a|t a al|t x|t a x tm|t x|t a b x|t np m ini|t a p0|t a b]; cbn [isJ negb];
      rewrite ?andb_true_r.
    - injection H as <-. cbn. rewrite nth_error_map, Hp. cbn. eexists. split; [reflexivity|].
      destruct (alive p) eqn:E; [|exact E]. unfold alive, regrow in *. cbn. exact E.
    - mraise H Hc. injection H as <-. cbn. rewrite nth_error_upd, Hp.
      destruct (Nat.eqb i (a - 1)); cbn; eexists; split; try reflexivity.
    - injection H as <-. cbn. rewrite nth_error_map, Hp. cbn. eexists. split; [reflexivity|].
      destruct (alive p) eqn:E; [|exact E]. unfold alive, resize in *. cbn. exact E.
    - mraise H Hc. injection H as <-. cbn. rewrite nth_error_upd, Hp.
      destruct (Nat.eqb i (a - 1)); cbn; eexists; split; try reflexivity.
    - injection H as <-. cbn. eauto.
    - mraise H Hc. injection H as <-. cbn. eauto.
    - mraise H Hc. injection H as <-. cbn. eauto.
    - mraise H Hc. injection H as <-. cbn.
      rewrite nth_error_app1 by (apply nth_error_Some; congruence). eauto.
    - mraise H Hc. injection H as <-.
      apply orb_false_iff in Hc. destruct Hc as [Hc Hab]. apply negb_false_iff in Hc.
      apply andb_true_iff in Hc. destruct Hc as [Ha Hb].
      apply andb_true_iff in Ha. destruct Ha as [Ha1 Ha2]. apply Nat.leb_le in Ha1.
      cbn [st_pops]. rewrite nth_error_upd, Hp.
      destruct (Nat.eqb a (S i)) eqn:Ea.
      + apply Nat.eqb_eq in Ea. replace (Nat.eqb i (a - 1)) with true by (symmetry; apply Nat.eqb_eq; lia).
        cbn. eexists. split; [reflexivity|]. unfold alive. cbn. now rewrite andb_false_r.
      + apply Nat.eqb_neq in Ea. replace (Nat.eqb i (a - 1)) with false by (symmetry; apply Nat.eqb_neq; lia).
        cbn. eexists. split; [reflexivity|]. now rewrite andb_true_r.
  Qed.

  Lemma fold_alive T i l : forall s s' p,
    foldM (fun s e => if nle (ev_time e) T then apply_ev s e else Ok s) l s = Ok s' ->
    nth_error (st_pops s) i = Some p ->
    exists p', nth_error (st_pops s') i = Some p' /\
      alive p' = alive p && negb (existsb (fun e => leT T e && isJ i e) l).
  Proof.
    induction l as [|e l IH]; intros s s' p H Hp; cbn in H.
    - injection H as <-. exists p. split; [exact Hp|]. cbn. now rewrite andb_true_r.
    - mbind H s1 H1. cbn [existsb]. unfold leT at 1.
      destruct (nle (ev_time e) T).
      + destruct (apply_ev_alive _ _ _ _ _ H1 Hp) as (p1 & Hp1 & A1).
        destruct (IH _ _ _ H Hp1) as (p' & Hp' & A'). exists p'. split; [exact Hp'|].
        rewrite A', A1. cbn [andb]. rewrite negb_orb. now rewrite andb_assoc.
      + injection H1 as <-. cbn [andb orb]. exact (IH _ _ _ H Hp).
  Qed.

  (* the initial state of -I n *)
  Lemma init_sq c : Sq (init_state c) /\ npops (init_state c) = c_npop c.
  Proof.
    unfold Sq, npops, init_state. cbn [st_pops st_mig].
    rewrite mapi_length, !repeat_length. split; [split; [reflexivity|]|reflexivity].
    intros row Hrow.
    destruct (In_nth _ _ [] Hrow) as (k & Hk & <-).
    rewrite mapi_length, repeat_length in Hk.
    rewrite (nth_mapi _ _ (repeat tt (c_npop c))) by (now rewrite repeat_length).
    rewrite mapi_length. rewrite nth_repeat. now rewrite repeat_length.
  Qed.

  Lemma init_entry c i j :
    i < c_npop c -> j < c_npop c -> i <> j ->
    entry (init_state c) i j = ndiv (c_irate c) (nat_num (c_npop c - 1)).
  Proof.
    intros Hi Hj Hij. unfold entry, init_state. cbn [st_mig].
    replace (Nat.leb 2 (c_npop c)) with true by (symmetry; apply Nat.leb_le; lia).
    rewrite (nth_mapi _ _ (repeat tt (c_npop c))) by (now rewrite repeat_length).
    rewrite nth_repeat.
    rewrite (nth_mapi _ _ tt) by (now rewrite repeat_length).
    cbn [Nat.add]. replace (Nat.eqb i j) with false by (symmetry; apply Nat.eqb_neq; lia).
    reflexivity.
  Qed.

  Lemma init_pop c i : i < c_npop c ->
    exists p, nth_error (st_pops (init_state c)) i = Some p /\ alive p = true.
  Proof.
    intro Hi. unfold init_state. cbn [st_pops].
    destruct (nth_error (repeat (mkPop n1 n0 n0 n0 None) (c_npop c)) i) as [p|] eqn:E.
    - exists p. split; [reflexivity|]. apply nth_error_In in E. apply repeat_spec in E. now subst.
    - apply nth_error_None in E. rewrite repeat_length in E. lia.
  Qed.

  (* ================= names and ids ================= *)

  Lemma id_of_nth names nm a :
    id_of names nm = Ok a -> exists k, a = S k /\ nth_error names k = Some nm.
  Proof.
    intro H. apply id_of_spec in H. destruct H as [[H1 H2] H3].
    exists (a - 1). split; [lia|].
    apply rev_nth_error; [|lia]. replace (S (a - 1)) with a by lia. exact H3.
  Qed.

  Lemma id_of_unique names nm i a :
    NoDup names -> nth_error names i = Some nm -> id_of names nm = Ok a -> a = S i.
  Proof.
    intros ND Hi Ha. apply id_of_nth in Ha. destruct Ha as (k & -> & Hk). f_equal.
    apply (proj1 (NoDup_nth_error names) ND).
    - apply nth_error_Some. congruence.
    - congruence.
  Qed.

  Lemma id_of_name names nm nm' i :
    nth_error names i = Some nm' -> id_of names nm = Ok (S i) -> nm = nm'.
  Proof.
    intros Hi Ha. apply id_of_nth in Ha. destruct Ha as (k & E & Hk).
    injection E as <-. congruence.
  Qed.

  Lemma deme_by_name (ds : list deme) i di d :
    NoDup (map d_name ds) -> nth_error ds i = Some di -> In d ds -> d_name d = d_name di -> d = di.
  Proof.
    intros ND Hi Hd En. apply In_nth_error in Hd. destruct Hd as [k Hk].
    assert (k = i) as ->.
    { apply (proj1 (NoDup_nth_error _) ND).
      - rewrite map_length. apply nth_error_Some. congruence.
      - rewrite (map_nth_error d_name _ _ Hk), (map_nth_error d_name _ _ Hi). now rewrite En. }
    congruence.
  Qed.

  Lemma valid_lookup g nm dd i di :
    Valid g -> nth_error (g_demes g) i = Some di -> nm = d_name di ->
    lookup g nm = Ok dd -> dd = di.
  Proof.
    intros V Hi -> H. apply lookup_find in H; [|exact (v_index _ V)].
    apply find_deme_spec in H. destruct H as [Hin En].
    eapply deme_by_name; eauto.
    exact (proj1 (valid_demes_nodup _ _ (v_demes _ V))).
  Qed.

  Lemma ValidDemes_in l : forall e d, ValidDemes e l -> In d l -> exists e', ValidDeme e' d.
  Proof.
    induction l as [|x l IH]; intros e d V Hd; [destruct Hd|].
    destruct V as [Vx Vl]. destruct Hd as [<-|Hd]; [eauto|]. eapply IH; eauto.
  Qed.

  (* ================= what to_ms generates ================= *)

  Definition isM (e : msev) : bool := match e with Evm _ _ _ _ => true | _ => false end.

  (* -es/-ej group *)
  Lemma anc_events_spec names d self : forall ancs k c evs c',
    ancestry_events names d self k ancs c = Ok (evs, c') ->
    c <= c' /\
    (forall e, In e evs ->
       match e with
       | Evs t _ _ => t = nfloat (d_start d)
       | Evj t a _ => t = nfloat (d_start d) /\ (c < a \/ a = self)
       | _ => False
       end) /\
    (ancs <> [] -> exists b, In (Evj (nfloat (d_start d)) self b) evs).
  Proof.
    induction ancs as [|a rest IH]; intros k c evs c' H.
    - cbn in H. injection H as <- <-. split; [lia|]. split; [intros e []|congruence].
    - cbn in H. mbind H anc_id Hanc. mbind H pk Hpk. mbind H prop Hprop.
      destruct rest as [|a2 rest2].
      + mraise H Hcl. mbind H e He. injection H as <- <-. apply mk_j_inv in He. subst e.
        split; [lia|]. split.
        * intros e [<-|[]]. cbn. auto.
        * intros _. exists anc_id. now left.
      + cbv beta iota zeta in H. mbind H e1 He1. mbind H e2 He2. mbind H r Hr. injection H as <- <-.
        destruct r as [evs_r c_r]. cbn [fst snd].
        apply mk_s_inv in He1. apply mk_j_inv in He2. subst e1 e2.
        destruct (IH _ _ _ _ Hr) as (Hle & Hev & Hex).
        split; [lia|]. split.
        * intros e [<-|[<-|He]]; [reflexivity|split; [reflexivity|left; lia]|].
          specialize (Hev e He). destruct e; auto. destruct Hev as [Ht [Hc|Hs]]; split; auto. left. lia.
        * intros _. destruct Hex as [b Hb]; [discriminate|]. exists b. right. right. exact Hb.
  Qed.

  Definition sjok (names : list string) (c : nat) (dps : list dp) (e : msev) : Prop :=
    match e with
    | Evs t _ _ => exists x, In x dps /\ t = nfloat (dp_time x)
    | Evj t a _ =>
        (exists x, In x dps /\ t = nfloat (dp_time x)) /\
        (c < a \/ exists d, In (DP_deme d) dps /\ id_of names (d_name d) = Ok a /\
                            d_anc d <> [] /\ t = nfloat (d_start d))
    | _ => False
    end.

  Lemma sjok_mono names c c1 dps e : c <= c1 -> sjok names c1 dps e -> sjok names c dps e.
  Proof.
    intros Hc H. destruct e; cbn in *; auto. destruct H as [H1 [H2|H2]]; split; auto. left. lia.
  Qed.

  Lemma sj_fold_spec names dps0 : forall dps acc acc',
    (forall x, In x dps -> In x dps0) ->
    foldM (sj_step names) dps acc = Ok acc' ->
    snd acc <= snd acc' /\
    (forall e, In e (fst acc') -> In e (fst acc) \/ sjok names (snd acc) dps0 e) /\
    (forall e, In e (fst acc) -> In e (fst acc')) /\
    (forall d, In (DP_deme d) dps -> d_anc d <> [] ->
       exists self b, id_of names (d_name d) = Ok self /\
                      In (Evj (nfloat (d_start d)) self b) (fst acc')).
  Proof.
    induction dps as [|x dps IH]; intros acc acc' Hsub H; cbn in H.
    - injection H as <-. split; [lia|]. split; [auto|]. split; [auto|]. intros d [].
    - mbind H acc1 H1.
      destruct (IH _ _ (fun y Hy => Hsub y (or_intror Hy)) H) as (L2 & F2 & K2 & X2).
      pose proof (Hsub x (or_introl eq_refl)) as Hx.
      destruct x as [d|p]; cbn [sj_step] in H1.
      + mbind H1 self Hself. mbind H1 r Hr. injection H1 as <-. destruct r as [evs c']. cbn [fst snd] in *.
        destruct (anc_events_spec _ _ _ _ _ _ _ _ Hr) as (L1 & F1 & X1).
        split; [lia|]. split; [|split].
        * intros e He. destruct (F2 e He) as [He1|He1].
          -- apply in_app_or in He1. destruct He1 as [He1|He1]; [now left|right].
             specialize (F1 e He1). destruct e; try contradiction.
             ++ cbn. exists (DP_deme d). auto.
             ++ destruct F1 as [Ht Hc]. cbn. split; [exists (DP_deme d); auto|].
                destruct Hc as [Hc | ->]; [now left|right].
                exists d. repeat split; auto.
                intro E. rewrite E in Hr. cbn in Hr. injection Hr as <- _. destruct He1.
          -- right. eapply sjok_mono; [|exact He1]. exact L1.
        * intros e He. apply K2. apply in_or_app. now left.
        * intros d' [E|Hd'] Hne; [|now apply X2].
          injection E as <-. destruct (X1 Hne) as [b Hb]. exists self, b. split; [exact Hself|].
          apply K2. apply in_or_app. now right.
      + cbv zeta in H1. mraise H1 Hc. mbind H1 dst Hdst. mbind H1 p0 Hp0. mbind H1 s0 Hs0.
        mbind H1 e1 He1. mbind H1 src Hsrc. mbind H1 e2 He2. injection H1 as <-. cbn [fst snd] in *.
        apply mk_s_inv in He1. apply mk_j_inv in He2. subst e1 e2.
        split; [lia|]. split; [|split].
        * intros e He. destruct (F2 e He) as [He1|He1].
          -- apply in_app_or in He1. destruct He1 as [He1|[<-|[<-|[]]]]; [now left|right|right].
             ++ cbn. exists (DP_pulse p). auto.
             ++ cbn. split; [exists (DP_pulse p); auto|left; lia].
          -- right. eapply sjok_mono; [|exact He1]. lia.
        * intros e He. apply K2. apply in_or_app. now left.
        * intros d' [E|Hd'] Hne; [discriminate|now apply X2].
  Qed.

  (* -em groups *)
  Definition off_cond (m : mig) (dd sd : deme) : bool :=
    negb (nisinf (m_start m)) && nneq (m_start m) (d_start dd) && nneq (m_start m) (d_start sd).

  Lemma off_fold_spec g names ms : forall acc acc',
    foldM (off_step g names) ms acc = Ok acc' ->
    (forall e, In e acc' -> In e acc \/
       exists m a b, In m ms /\ id_of names (m_dst m) = Ok a /\ id_of names (m_src m) = Ok b /\
                     e = Evm (nfloat (m_start m)) a b (nfloat n0)) /\
    (forall e, In e acc -> In e acc') /\
    (forall m, In m ms -> exists dd sd,
       lookup g (m_dst m) = Ok dd /\ lookup g (m_src m) = Ok sd /\
       (off_cond m dd sd = true -> exists a b,
          id_of names (m_dst m) = Ok a /\ id_of names (m_src m) = Ok b /\
          In (Evm (nfloat (m_start m)) a b (nfloat n0)) acc')).
  Proof.
    induction ms as [|m ms IH]; intros acc acc' H; cbn in H.
    - injection H as <-. split; [auto|]. split; [auto|]. intros m [].
    - mbind H acc1 H1. destruct (IH _ _ H) as (F2 & K2 & X2).
      unfold off_step in H1. mbind H1 dd Hdd. mbind H1 sd Hsd.
      fold (off_cond m dd sd) in H1.
      destruct (off_cond m dd sd) eqn:C.
      + mbind H1 a Ha. mbind H1 b Hb. mbind H1 e He. injection H1 as <-.
        apply mk_m_inv in He. subst e.
        split; [|split].
        * intros e He. destruct (F2 e He) as [He1|(m' & a' & b' & Hm' & R)].
          -- apply in_app_or in He1. destruct He1 as [He1|[<-|[]]]; [now left|right].
             exists m, a, b. repeat split; auto. now left.
          -- right. exists m', a', b'. split; [now right|exact R].
        * intros e He. apply K2. apply in_or_app. now left.
        * intros m' [<-|Hm']; [|now apply X2].
          exists dd, sd. split; [exact Hdd|]. split; [exact Hsd|]. intros _.
          exists a, b. split; [exact Ha|]. split; [exact Hb|].
          apply K2. apply in_or_app. right. now left.
      + injection H1 as <-. split; [|split].
        * intros e He. destruct (F2 e He) as [He1|(m' & a' & b' & Hm' & R)]; [now left|].
          right. exists m', a', b'. split; [now right|exact R].
        * exact K2.
        * intros m' [<-|Hm']; [|now apply X2].
          exists dd, sd. split; [exact Hdd|]. split; [exact Hsd|]. intro X. congruence.
  Qed.

  Lemma on_fold_spec names x ms : forall acc acc',
    foldM (on_step names x) ms acc = Ok acc' ->
    (forall e, In e acc' -> In e acc \/
       exists m a b, In m ms /\ id_of names (m_dst m) = Ok a /\ id_of names (m_src m) = Ok b /\
                     e = Evm (nfloat (m_end m)) a b (nfloat (nmul x (m_rate m)))) /\
    (forall e, In e acc -> In e acc') /\
    (forall m, In m ms -> exists a b,
       id_of names (m_dst m) = Ok a /\ id_of names (m_src m) = Ok b /\
       In (Evm (nfloat (m_end m)) a b (nfloat (nmul x (m_rate m)))) acc').
  Proof.
    induction ms as [|m ms IH]; intros acc acc' H; cbn in H.
    - injection H as <-. split; [auto|]. split; [auto|]. intros m [].
    - mbind H acc1 H1. destruct (IH _ _ H) as (F2 & K2 & X2).
      unfold on_step in H1. mbind H1 a Ha. mbind H1 b Hb. mbind H1 e He. injection H1 as <-.
      apply mk_m_inv in He. subst e.
      split; [|split].
      + intros e He. destruct (F2 e He) as [He1|(m' & a' & b' & Hm' & R)].
        * apply in_app_or in He1. destruct He1 as [He1|[<-|[]]]; [now left|right].
          exists m, a, b. repeat split; auto. now left.
        * right. exists m', a', b'. split; [now right|exact R].
      + intros e He. apply K2. apply in_or_app. now left.
      + intros m' [<-|Hm']; [|now apply X2].
        exists a, b. split; [exact Ha|]. split; [exact Hb|].
        apply K2. apply in_or_app. right. now left.
  Qed.

  (* ================= the shape of the emitted list ================= *)

  Lemma valid_mig_ok g m : Valid g -> In m (g_migs g) -> ok (m_start m) /\ ok (m_end m).
  Proof.
    intros V Hm. pose proof (vm_order _ _ (v_migs _ V m Hm)) as H. apply lt_true in H. tauto.
  Qed.

  Lemma valid_deme_ok g d : Valid g -> In d (g_demes g) ->
    ok (d_start d) /\ forall ep, In ep (d_epochs d) -> ok (e_end ep).
  Proof.
    intros V Hd. destruct (ValidDemes_in _ _ _ (v_demes _ V) Hd) as [e' Vd]. split.
    - pose proof (vd_start _ _ Vd) as H. apply lt_true in H. tauto.
    - intros ep Hep. pose proof (ve_end_nonneg _ (vd_epochs _ _ Vd ep Hep)) as H.
      apply le_true in H. tauto.
  Qed.

  Lemma valid_pulse_ok g p : Valid g -> In p (g_pulses g) -> ok (p_time p).
  Proof.
    intros V Hp. destruct (vp_time _ _ (v_pulses _ V p Hp)) as [H _]. apply lt_true in H. tauto.
  Qed.

  Definition Shape (g : graph) (N0 : num) (n : nat) (A off on : list msev) : Prop :=
    let names := map d_name (g_demes g) in
    (forall e, In e (A ++ off ++ on) -> ok (ev_time e) /\ noM e) /\
    (forall e, In e A -> isM e = false) /\
    (forall t a b, In (Evj t a b) A ->
       n < a \/ exists d, In d (g_demes g) /\ id_of names (d_name d) = Ok a /\
                          d_anc d <> [] /\ t = nfloat (d_start d)) /\
    (forall d, In d (g_demes g) -> d_anc d <> [] ->
       exists self b, id_of names (d_name d) = Ok self /\ In (Evj (nfloat (d_start d)) self b) A) /\
    (forall e, In e off ->
       exists m a b, In m (g_migs g) /\ id_of names (m_dst m) = Ok a /\ id_of names (m_src m) = Ok b /\
                     e = Evm (nfloat (m_start m)) a b (nfloat n0)) /\
    (forall m, In m (g_migs g) -> exists dd sd,
       lookup g (m_dst m) = Ok dd /\ lookup g (m_src m) = Ok sd /\
       (off_cond m dd sd = true -> exists a b,
          id_of names (m_dst m) = Ok a /\ id_of names (m_src m) = Ok b /\
          In (Evm (nfloat (m_start m)) a b (nfloat n0)) off)) /\
    (forall e, In e on ->
       exists m a b, In m (g_migs g) /\ id_of names (m_dst m) = Ok a /\ id_of names (m_src m) = Ok b /\
                     e = Evm (nfloat (m_end m)) a b (nfloat (nmul (nmul n4 N0) (m_rate m)))) /\
    (forall m, In m (g_migs g) -> exists a b,
       id_of names (m_dst m) = Ok a /\ id_of names (m_src m) = Ok b /\
       In (Evm (nfloat (m_end m)) a b (nfloat (nmul (nmul n4 N0) (m_rate m)))) on).

  Lemma to_ms_shape g0 g N0 n evs :
    in_generations g0 = Ok g -> Valid g -> to_ms_unscaled g0 N0 = Ok (n, evs) ->
    n = List.length (g_demes g) /\
    exists A off on, evs = sort_events (A ++ off ++ on) /\ Shape g N0 n A off on.
  Proof.
    intros Hg V H. unfold to_ms_unscaled in H. rewrite Hg in H. cbn [bind] in H. cbv zeta in H.
    mbind H sz Hsz. mbind H sj Hsj. mbind H off Hoff. mbind H on Hon.
    injection H as <- <-. split; [reflexivity|].
    set (names := map d_name (g_demes g)) in *.
    set (n := List.length (g_demes g)) in *.
    change (foldM (sz_step N0 (nmul n4 N0)) (g_demes g) ([], 1) = Ok sz) in Hsz.
    apply sz_fold in Hsz. destruct Hsz as (esz & Esz & Psz). cbn [fst snd app] in Esz, Psz.
    set (dps := sort_dp (map DP_pulse (rev (g_pulses g)) ++ map DP_deme (g_demes g))) in *.
    change (foldM (sj_step names) dps ([], n) = Ok sj) in Hsj.
    apply (sj_fold_spec names dps) in Hsj; [|auto].
    destruct Hsj as (Lsj & Fsj & _ & Xsj). cbn [fst snd] in Lsj, Fsj.
    change (foldM (off_step g names) (g_migs g) [] = Ok off) in Hoff.
    apply off_fold_spec in Hoff. destruct Hoff as (Foff & _ & Xoff).
    change (foldM (on_step names (nmul n4 N0)) (g_migs g) [] = Ok on) in Hon.
    apply on_fold_spec in Hon. destruct Hon as (Fon & _ & Xon).
    assert (forall x, In x dps <-> In x (map DP_pulse (rev (g_pulses g)) ++ map DP_deme (g_demes g))) as Hdps.
    { intro x. unfold dps. rewrite sort_dp_g. split; intro Hx.
      - apply (Permutation_in _ (gsort_perm dp_time _)). exact Hx.
      - apply (Permutation_in _ (Permutation_sym (gsort_perm dp_time _))). exact Hx. }
    assert (forall x, In x dps -> ok (dp_time x)) as Odps.
    { intros x Hx. apply Hdps in Hx. apply in_app_or in Hx.
      destruct Hx as [Hx|Hx]; apply in_map_iff in Hx; destruct Hx as (y & <- & Hy); cbn.
      - eapply valid_pulse_ok; eauto. now apply in_rev.
      - eapply valid_deme_ok; eauto. }
    assert (forall d, In (DP_deme d) dps <-> In d (g_demes g)) as Hdd.
    { intro d. rewrite Hdps. split; intro Hx.
      - apply in_app_or in Hx. destruct Hx as [Hx|Hx]; apply in_map_iff in Hx;
          destruct Hx as (y & E & Hy); [discriminate|]. now injection E as <-.
      - apply in_or_app. right. now apply in_map. }
    exists (esz ++ fst sj), off, on. split.
    { rewrite Esz. now rewrite <- app_assoc. }
    unfold Shape. fold names.
    assert (forall e, In e esz -> ok (ev_time e) /\ (exists j, szlocal j e)) as Qsz.
    { intros e He. destruct (Psz e He) as ((j & _ & Hl) & d & ep & Hd & Hep & Ht).
      split; [|eauto]. rewrite Ht. apply ok_float.
      destruct (valid_deme_ok _ _ V Hd) as [_ Ho]. now apply Ho. }
    assert (forall e, In e (fst sj) -> sjok names n dps e) as Qsj.
    { intros e He. destruct (Fsj e He) as [[]|Hs]. exact Hs. }
    split; [|split; [|split; [|split; [|split; [|split; [|split]]]]]].
    - intros e He. apply in_app_or in He. destruct He as [He|He].
      + apply in_app_or in He. destruct He as [He|He].
        * destruct (Qsz e He) as (Ho & j & Hl). split; [exact Ho|]. destruct e; cbn in Hl |- *; auto.
        * specialize (Qsj e He). destruct e; cbn in Qsj |- *; try contradiction.
          -- destruct Qsj as (x & Hx & ->). split; [|exact Logic.I]. apply ok_float. now apply Odps.
          -- destruct Qsj as ((x & Hx & ->) & _). split; [|exact Logic.I]. apply ok_float. now apply Odps.
      + apply in_app_or in He. destruct He as [He|He].
        * destruct (Foff e He) as [[]|(m & a & b & Hm & _ & _ & ->)]. cbn. split; [|exact Logic.I].
          apply ok_float. eapply valid_mig_ok; eauto.
        * destruct (Fon e He) as [[]|(m & a & b & Hm & _ & _ & ->)]. cbn. split; [|exact Logic.I].
          apply ok_float. eapply valid_mig_ok; eauto.
    - intros e He. apply in_app_or in He. destruct He as [He|He].
      + destruct (Qsz e He) as (_ & j & Hl). destruct e; cbn in Hl |- *; auto; contradiction.
      + specialize (Qsj e He). destruct e; cbn in Qsj |- *; auto; contradiction.
    - intros t a b He. apply in_app_or in He. destruct He as [He|He].
      + destruct (Qsz _ He) as (_ & j & Hl). destruct Hl.
      + specialize (Qsj _ He). cbn in Qsj. destruct Qsj as [_ [Hc|(d & Hd & R)]]; [now left|right].
        exists d. split; [now apply Hdd|exact R].
    - intros d Hd Hne. apply Hdd in Hd. destruct (Xsj d Hd Hne) as (self & b & Hs & Hin).
      exists self, b. split; [exact Hs|]. apply in_or_app. now right.
    - intros e He. destruct (Foff e He) as [[]|R]. exact R.
    - exact Xoff.
    - intros e He. destruct (Fon e He) as [[]|R]. exact R.
    - exact Xon.
  Qed.

  Lemma ms_at_sorted n U T st :
    (forall e, In e U -> ok (ev_time e)) ->
    ms_at (mkCmd n true n0 [] (sort_events U)) T = Ok st ->
    foldM (fun s e => if nle (ev_time e) T then apply_ev s e else Ok s) (sort_events U)
          (init_state (mkCmd n true n0 [] (sort_events U))) = Ok st.
  Proof.
    intros OU H. unfold ms_at, all_events in H. cbn [c_init c_events app] in H.
    rewrite sort_events_id in H; [exact H| |now apply sort_events_sorted].
    intros e He. apply OU. apply (Permutation_in _ (sort_events_perm U)). exact He.
  Qed.

  (* two migrations of the same ordered pair: if one is in force at T and the other has
     ended by T, the other one started no later than the first one's end *)
  Lemma overlap_order g k k' m m' T :
    Valid g -> nth_error (g_migs g) k = Some m -> nth_error (g_migs g) k' = Some m' -> k <> k' ->
    m_src m = m_src m' -> m_dst m = m_dst m' -> ok T ->
    nlt T (m_start m) = true -> nle (m_end m) T = true -> nle (m_end m') T = true ->
    nle (m_start m') (m_end m) = true.
  Proof.
    intros V Hk Hk' Hne Es Ed OT A1 A2 B2.
    pose proof (vm_order _ _ (v_migs _ V m' (nth_error_In _ _ Hk'))) as O'.
    assert (ok (m_start m') /\ ok (m_end m')) as [Os' Oe'] by (apply lt_true in O'; tauto).
    assert (ok (m_start m) /\ ok (m_end m)) as [Os Oe].
    { apply lt_true in A1. apply le_true in A2. tauto. }
    destruct (nlt (m_end m) (m_start m')) eqn:C; [exfalso|nord].
    destruct (nle (m_end m) (m_end m')) eqn:D.
    - apply (v_overlap _ V k k' m m' (m_end m')); auto; split; nord.
    - apply (v_overlap _ V k k' m m' (m_end m)); auto; split; nord.
  Qed.

  Lemma Pij_inv i j e : Pij i j e = true -> exists t x, e = Evm t (S i) (S j) x.
  Proof.
    destruct e; cbn; try discriminate. intro H. apply andb_true_iff in H. destruct H as [H1 H2].
    apply Nat.eqb_eq in H1, H2. subst. eauto.
  Qed.

  (* For a graph g already in generations (g = in_generations g0) and valid, at any time T
     at which both demes of an ordered pair have not yet reached their start (looking
     backwards), the ms state produced by the emitted events holds, for that pair, exactly
     4*N0*rate of the migration in force at T — and a zero when none is in force.  Whatever
     the number of migrations of the pair, their adjacency, coincidences with other events,
     or the -es/-ej events in between. *)
  Theorem to_ms_rates g0 g N0 n evs T st i j di dj :
    in_generations g0 = Ok g -> Valid g ->
    to_ms_unscaled g0 N0 = Ok (n, evs) ->
    ok T -> nle n0 T = true ->
    ms_at (mkCmd n true n0 [] evs) T = Ok st ->
    nth_error (g_demes g) i = Some di -> nth_error (g_demes g) j = Some dj -> i <> j ->
    nlt T (d_start di) = true -> nlt T (d_start dj) = true ->
    match active_mig g (d_name dj) (d_name di) T with
    | Some m => entry st i j = nfloat (nmul (nmul n4 N0) (m_rate m))
    | None => ZeroEntry n (entry st i j)
    end.
  Proof.
    intros Hg V Hms OT HT0 Hat Hdi Hdj Hij HTi HTj.
    destruct (to_ms_shape _ _ _ _ _ Hg V Hms) as (Hn & A & off & on & -> & SH).
    destruct SH as (HU & HA & _ & _ & Foff & Xoff & Fon & Xon).
    set (names := map d_name (g_demes g)) in *.
    set (U := A ++ off ++ on) in *.
    assert (forall e, In e U -> ok (ev_time e)) as OU by (intros e He; now apply HU).
    apply ms_at_sorted in Hat; [|exact OU].
    assert (i < n /\ j < n) as [Hi Hj].
    { rewrite Hn. split; apply nth_error_Some; congruence. }
    destruct (init_sq (mkCmd n true n0 [] (sort_events U))) as [SQ0 NP0]. cbn [c_npop] in NP0.
    apply (fold_entry T i j) in Hat; [|exact SQ0|rewrite NP0; exact Hi|rewrite NP0; exact Hj|].
    2:{ intros e He. apply HU. apply (Permutation_in _ (sort_events_perm U)). exact He. }
    rewrite init_entry in Hat by (cbn [c_npop]; auto). cbn [c_irate c_npop] in Hat.
    rewrite vstep_filter in Hat.
    rewrite sort_events_g in Hat.
    rewrite (gsort_filter ev_time (leT T)) in Hat by exact OU.
    rewrite (gsort_filter ev_time (Pij i j)) in Hat.
    2:{ intros e He. apply filter_In in He. apply OU. tauto. }
    unfold U in Hat. rewrite !filter_app in Hat.
    rewrite (filter_nil (Pij i j) (filter (leT T) A)) in Hat.
    2:{ intros e He. apply filter_In in He. destruct He as [He _]. specialize (HA e He).
        destruct e; cbn in HA |- *; auto; discriminate. }
    cbn [app] in Hat.
    set (offP := filter (Pij i j) (filter (leT T) off)) in *.
    set (onP := filter (Pij i j) (filter (leT T) on)) in *.
    assert (forall e, In e offP <-> In e off /\ leT T e = true /\ Pij i j e = true) as Ioff.
    { intro e. unfold offP. rewrite !filter_In. tauto. }
    assert (forall e, In e onP <-> In e on /\ leT T e = true /\ Pij i j e = true) as Ion.
    { intro e. unfold onP. rewrite !filter_In. tauto. }
    assert (forall e, In e (offP ++ onP) -> ok (ev_time e)) as OP.
    { intros e He. apply OU. unfold U. apply in_or_app. right. apply in_or_app.
      apply in_app_or in He. destruct He as [He|He]; [left; apply Ioff in He|right; apply Ion in He]; tauto. }
    assert (forall e, In e (offP ++ onP) -> Pij i j e = true) as PP.
    { intros e He. apply in_app_or in He. destruct He as [He|He]; [apply Ioff in He|apply Ion in He]; tauto. }
    (* names *)
    pose proof (proj1 (valid_demes_nodup _ _ (v_demes _ V))) as ND. fold names in ND.
    assert (nth_error names i = Some (d_name di)) as Ni by (unfold names; now apply map_nth_error).
    assert (nth_error names j = Some (d_name dj)) as Nj by (unfold names; now apply map_nth_error).
    assert (ok (d_start di) /\ ok (d_start dj)) as [Odi Odj].
    { apply lt_true in HTi, HTj. tauto. }
    unfold active_mig.
    destruct (find _ (g_migs g)) as [m|] eqn:F.
    - (* a migration is in force *)
      apply find_some in F. destruct F as [Hm Pm].
      apply andb_true_iff in Pm. destruct Pm as [Pm Act].
      apply andb_true_iff in Pm. destruct Pm as [Es Ed].
      apply String.eqb_eq in Es, Ed.
      unfold activeb in Act. apply andb_true_iff in Act. destruct Act as [A1 A2].
      destruct (valid_mig_ok _ _ V Hm) as [Oms Ome].
      destruct (In_nth_error _ _ Hm) as [k Hk].
      destruct (Xon m Hm) as (a & b & Ha & Hb & Hin). fold names in Ha, Hb.
      rewrite Ed in Ha. rewrite Es in Hb.
      apply (id_of_unique _ _ _ _ ND Ni) in Ha. apply (id_of_unique _ _ _ _ ND Nj) in Hb. subst a b.
      set (em := Evm (nfloat (m_end m)) (S i) (S j) (nfloat (nmul (nmul n4 N0) (m_rate m)))) in *.
      destruct (float_rk _ Ome) as [Ofe Rfe].
      assert (In em onP) as Hem.
      { apply Ion. split; [exact Hin|]. split.
        - unfold leT, em. cbn [ev_time]. nord.
        - unfold em. cbn. now rewrite !Nat.eqb_refl. }
      destruct (gsort_last_stable ev_time offP onP em OP Hem) as [l' El].
      + (* off events *)
        intros y Hy. apply Ioff in Hy. destruct Hy as (Hy & Ly & Py).
        destruct (Foff y Hy) as (m' & a & b & Hm' & Ha & Hb & ->). fold names in Ha, Hb.
        cbn in Py. apply andb_true_iff in Py. destruct Py as [Pa Pb].
        apply Nat.eqb_eq in Pa, Pb. subst a b.
        apply (id_of_name _ _ _ _ Ni) in Ha. apply (id_of_name _ _ _ _ Nj) in Hb.
        destruct (valid_mig_ok _ _ V Hm') as [Oms' Ome'].
        pose proof (vm_order _ _ (v_migs _ V m' Hm')) as O'.
        destruct (float_rk _ Oms') as [Ofs' Rfs'].
        unfold leT in Ly. cbn [ev_time] in Ly. unfold em. cbn [ev_time].
        destruct (In_nth_error _ _ Hm') as [k' Hk'].
        destruct (Nat.eq_dec k k') as [<-|Hkk].
        * exfalso. assert (m' = m) as -> by congruence. nord.
        * assert (nle (m_start m') (m_end m) = true) as Hord.
          { apply (overlap_order g k k' m m' T); auto; try congruence. nord. }
          nord.
      + (* on events *)
        intros y Hy. apply Ion in Hy. destruct Hy as (Hy & Ly & Py).
        destruct (Fon y Hy) as (m' & a & b & Hm' & Ha & Hb & ->). fold names in Ha, Hb.
        cbn in Py. apply andb_true_iff in Py. destruct Py as [Pa Pb].
        apply Nat.eqb_eq in Pa, Pb. subst a b.
        apply (id_of_name _ _ _ _ Ni) in Ha. apply (id_of_name _ _ _ _ Nj) in Hb.
        destruct (valid_mig_ok _ _ V Hm') as [Oms' Ome'].
        pose proof (vm_order _ _ (v_migs _ V m' Hm')) as O'.
        destruct (float_rk _ Ome') as [Ofe' Rfe'].
        unfold leT in Ly. cbn [ev_time] in Ly.
        destruct (In_nth_error _ _ Hm') as [k' Hk'].
        destruct (Nat.eq_dec k k') as [<-|Hkk].
        * left. assert (m' = m) as -> by congruence. reflexivity.
        * right. assert (nle (m_start m') (m_end m) = true) as Hord.
          { apply (overlap_order g k k' m m' T); auto; try congruence. nord. }
          unfold em. cbn [ev_time]. nord.
      + rewrite El, vstep_last in Hat by (apply PP; apply in_or_app; now right).
        exact Hat.
    - (* no migration is in force *)
      pose proof (find_none _ _ F) as NA. cbv beta in NA.
      destruct (offP ++ onP) as [|e0 rest] eqn:EP.
      + cbn in Hat. right. right. exact Hat.
      + rewrite <- EP in *.
        destruct (gsort_last_max ev_time (offP ++ onP)) as (l' & z & El & Hz & Hmax).
        { rewrite EP. discriminate. }
        { exact OP. }
        rewrite El, vstep_last in Hat by (now apply PP).
        apply in_app_or in Hz. destruct Hz as [Hz|Hz].
        * apply Ioff in Hz. destruct Hz as (Hz & _ & _).
          destruct (Foff z Hz) as (m' & a & b & _ & _ & _ & ->). cbn in Hat. right. left. exact Hat.
        * exfalso. apply Ion in Hz. destruct Hz as (Hz & Lz & Pz).
          destruct (Fon z Hz) as (m' & a & b & Hm' & Ha & Hb & ->). fold names in Ha, Hb.
          cbn in Pz. apply andb_true_iff in Pz. destruct Pz as [Pa Pb].
          apply Nat.eqb_eq in Pa, Pb. subst a b.
          pose proof (id_of_name _ _ _ _ Ni Ha) as Ed. pose proof (id_of_name _ _ _ _ Nj Hb) as Es.
          destruct (valid_mig_ok _ _ V Hm') as [Oms' Ome'].
          pose proof (vm_order _ _ (v_migs _ V m' Hm')) as O'.
          pose proof (vm_end_nonneg _ _ (v_migs _ V m' Hm')) as NN'.
          destruct (float_rk _ Ome') as [Ofe' Rfe'].
          destruct (float_rk _ Oms') as [Ofs' Rfs'].
          unfold leT in Lz. cbn [ev_time] in Lz.
          specialize (NA m' Hm'). rewrite Es, Ed, !String.eqb_refl in NA. cbn [andb] in NA.
          unfold activeb in NA.
          assert (nle (m_end m') T = true) as B2 by nord.
          rewrite B2, andb_true_r in NA.
          destruct (Xoff m' Hm') as (dd & sd & Hdd & Hsd & Hcond).
          apply (valid_lookup g _ _ i di V Hdi Ed) in Hdd.
          apply (valid_lookup g _ _ j dj V Hdj Es) in Hsd. subst dd sd.
          destruct Hcond as (a & b & Ha' & Hb' & Hin).
          { unfold off_cond. rewrite !andb_true_iff. split; [split|]; nord. }
          fold names in Ha', Hb'. rewrite Ed in Ha'. rewrite Es in Hb'.
          apply (id_of_unique _ _ _ _ ND Ni) in Ha'. apply (id_of_unique _ _ _ _ ND Nj) in Hb'. subst a b.
          assert (In (Evm (nfloat (m_start m')) (S i) (S j) (nfloat n0)) (offP ++ onP)) as Hoffev.
          { apply in_or_app. left. apply Ioff. split; [exact Hin|]. split.
            - unfold leT. cbn [ev_time]. nord.
            - cbn. now rewrite !Nat.eqb_refl. }
          specialize (Hmax _ Hoffev). cbn [ev_time] in Hmax. nord.
  Qed.

  (* Population i (the i-th deme) has been emptied by an -ej at time T exactly when the deme
     has ancestors and its start time is at or before T. *)
  Theorem to_ms_alive g0 g N0 n evs T st i di :
    in_generations g0 = Ok g -> Valid g ->
    to_ms_unscaled g0 N0 = Ok (n, evs) ->
    ok T -> nle n0 T = true ->
    ms_at (mkCmd n true n0 [] evs) T = Ok st ->
    nth_error (g_demes g) i = Some di ->
    exists p, nth_error (st_pops st) i = Some p /\
      alive p = negb (match d_anc di with [] => false | _ => true end && nle (d_start di) T).
  Proof.
    intros Hg V Hms OT HT0 Hat Hdi.
    destruct (to_ms_shape _ _ _ _ _ Hg V Hms) as (Hn & A & off & on & -> & SH).
    destruct SH as (HU & HA & FJ & XJ & Foff & _ & Fon & _).
    set (names := map d_name (g_demes g)) in *.
    set (U := A ++ off ++ on) in *.
    assert (forall e, In e U -> ok (ev_time e)) as OU by (intros e He; now apply HU).
    apply ms_at_sorted in Hat; [|exact OU].
    assert (i < n) as Hi by (rewrite Hn; apply nth_error_Some; congruence).
    destruct (init_pop (mkCmd n true n0 [] (sort_events U)) i Hi) as (p0 & Hp0 & A0).
    destruct (fold_alive T i _ _ _ _ Hat Hp0) as (p & Hp & Ap).
    exists p. split; [exact Hp|]. rewrite Ap, A0. cbn [andb]. f_equal.
    pose proof (proj1 (valid_demes_nodup _ _ (v_demes _ V))) as ND. fold names in ND.
    assert (nth_error names i = Some (d_name di)) as Ni by (unfold names; now apply map_nth_error).
    assert (In di (g_demes g)) as Hin by (eapply nth_error_In; eauto).
    destruct (valid_deme_ok _ _ V Hin) as [Odi _].
    destruct (float_rk _ Odi) as [Ofd Rfd].
    apply eq_true_iff_eq. rewrite existsb_exists, andb_true_iff. split.
    - intros (e & He & Pe). apply andb_true_iff in Pe. destruct Pe as [Le Je].
      apply (Permutation_in _ (sort_events_perm U)) in He.
      destruct e; cbn in Je; try discriminate. apply Nat.eqb_eq in Je. subst i0.
      unfold leT in Le. cbn [ev_time] in Le.
      unfold U in He. apply in_app_or in He. destruct He as [He|He].
      + destruct (FJ _ _ _ He) as [Hc|(d & Hd & Hid & Hne & ->)]; [lia|].
        fold names in Hid. apply (id_of_name _ _ _ _ Ni) in Hid.
        assert (d = di) as -> by (eapply deme_by_name; eauto).
        split; [destruct (d_anc di); congruence|nord].
      + exfalso. apply in_app_or in He. destruct He as [He|He].
        * destruct (Foff _ He) as (m & a & b & _ & _ & _ & E). discriminate.
        * destruct (Fon _ He) as (m & a & b & _ & _ & _ & E). discriminate.
    - intros [Hanc Hle].
      assert (d_anc di <> []) as Hne by (destruct (d_anc di); congruence).
      destruct (XJ di Hin Hne) as (self & b & Hs & HinA). fold names in Hs.
      apply (id_of_unique _ _ _ _ ND Ni) in Hs. subst self.
      exists (Evj (nfloat (d_start di)) (S i) b). split.
      + apply (Permutation_in _ (Permutation_sym (sort_events_perm U))).
        unfold U. apply in_or_app. now left.
      + apply andb_true_iff. split; [unfold leT; cbn [ev_time]; nord|cbn; apply Nat.eqb_refl].
  Qed.
End MsRates.

Print Assumptions to_ms_rates.
Print Assumptions to_ms_alive.
