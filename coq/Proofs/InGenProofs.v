(* C11: conversion to generations rescales all the times and nothing else. *)
From Coq Require Import Bool List String QArith Lqa Arith Lia.
From Demes Require Import Base.Num Base.Py Model.MDM Model.InGen Spec.Valid.
Import ListNotations.
Local Open Scope string_scope.
Local Open Scope list_scope.

Section InGenProofs.
  Context {N : NumOps} {L : NumLaws N}.

  (* [TimesRel R g h]: h is g with every time x replaced by some y with R x y, and
     every other field, every list length and every order unchanged (units and
     generation time are stated separately). *)
  Definition EpochRel (R : num -> num -> Prop) (a b : epoch) : Prop :=
    R (e_start a) (e_start b) /\ R (e_end a) (e_end b) /\
    e_ssize b = e_ssize a /\ e_esize b = e_esize a /\ e_sf b = e_sf a /\
    e_self b = e_self a /\ e_clone b = e_clone a.
  Definition DemeRel (R : num -> num -> Prop) (a b : deme) : Prop :=
    d_name b = d_name a /\ d_desc b = d_desc a /\ R (d_start a) (d_start b) /\
    d_anc b = d_anc a /\ d_props b = d_props a /\ Forall2 (EpochRel R) (d_epochs a) (d_epochs b).
  Definition MigRel (R : num -> num -> Prop) (a b : mig) : Prop :=
    m_src b = m_src a /\ m_dst b = m_dst a /\ R (m_start a) (m_start b) /\
    R (m_end a) (m_end b) /\ m_rate b = m_rate a.
  Definition PulseRel (R : num -> num -> Prop) (a b : pulse) : Prop :=
    p_srcs b = p_srcs a /\ p_dst b = p_dst a /\ R (p_time a) (p_time b) /\ p_props b = p_props a.
  Definition TimesRel (R : num -> num -> Prop) (g h : graph) : Prop :=
    g_desc h = g_desc g /\ g_doi h = g_doi g /\ g_meta h = g_meta g /\ g_index h = g_index g /\
    Forall2 (DemeRel R) (g_demes g) (g_demes h) /\
    Forall2 (MigRel R) (g_migs g) (g_migs h) /\
    Forall2 (PulseRel R) (g_pulses g) (g_pulses h).

  Definition deme_times (d : deme) : list num :=
    d_start d :: flat_map (fun e => [e_start e; e_end e]) (d_epochs d).
  Definition graph_times (g : graph) : list num :=
    flat_map deme_times (g_demes g) ++ flat_map (fun m => [m_start m; m_end m]) (g_migs g)
    ++ map p_time (g_pulses g).

  (* ---------- generic lemmas about mapM / Forall2 ---------- *)
  Lemma mapM_Forall2 {A B} (f : A -> res B) l l' :
    mapM f l = Ok l' -> Forall2 (fun a b => f a = Ok b) l l'.
  Proof.
    revert l'. induction l as [|a l IH]; intros l' H; cbn in H.
    - inversion H; subst. constructor.
    - destruct (f a) as [b|e] eqn:Ea; cbn in H; [|discriminate].
      destruct (mapM f l) as [bs|e] eqn:El; cbn in H; [|discriminate].
      inversion H; subst. constructor; [assumption|]. apply IH. reflexivity.
  Qed.

  Lemma mapM_total {A B} (f : A -> res B) l :
    (forall a, In a l -> exists b, f a = Ok b) -> exists l', mapM f l = Ok l'.
  Proof.
    induction l as [|a l IH]; intro H; cbn.
    - eexists; reflexivity.
    - destruct (H a) as [b Eb]; [left; reflexivity|].
      destruct IH as [bs Ebs]; [intros x Hx; apply H; right; assumption|].
      rewrite Eb, Ebs. cbn. eexists; reflexivity.
  Qed.

  Lemma Forall2_impl_In {A B} (P Q : A -> B -> Prop) l l' :
    (forall a b, In a l -> P a b -> Q a b) -> Forall2 P l l' -> Forall2 Q l l'.
  Proof.
    intros H F. induction F as [|a b l l' Hab F IH]; constructor.
    - apply H; [left; reflexivity|assumption].
    - apply IH. intros x y Hx. apply H. right; assumption.
  Qed.

  (* ---------- pdiv ---------- *)
  Lemma pdiv_ok x gt : neqb gt n0 = false -> pdiv x gt = Ok (ndiv x gt).
  Proof. intro H. unfold pdiv. rewrite H. reflexivity. Qed.

  Lemma pdiv_inv x gt y : pdiv x gt = Ok y -> y = ndiv x gt.
  Proof.
    unfold pdiv. destruct (neqb gt n0); intro H; [discriminate|].
    inversion H; reflexivity.
  Qed.

  (* ---------- totality of the components ---------- *)
  Lemma epoch_ingen_total gt e :
    neqb gt n0 = false -> exists e', epoch_ingen gt e = Ok e'.
  Proof.
    intro H. unfold epoch_ingen. rewrite !(pdiv_ok _ _ H). cbn. eexists; reflexivity.
  Qed.

  Lemma deme_ingen_total gt d :
    neqb gt n0 = false -> exists d', deme_ingen gt d = Ok d'.
  Proof.
    intro H. unfold deme_ingen. rewrite (pdiv_ok _ _ H). cbn.
    destruct (mapM_total (epoch_ingen gt) (d_epochs d)) as [es Ees].
    - intros e _. apply epoch_ingen_total; assumption.
    - rewrite Ees. cbn. eexists; reflexivity.
  Qed.

  Lemma mig_ingen_total gt m :
    neqb gt n0 = false -> exists m', mig_ingen gt m = Ok m'.
  Proof.
    intro H. unfold mig_ingen. rewrite !(pdiv_ok _ _ H). cbn. eexists; reflexivity.
  Qed.

  Lemma pulse_ingen_total gt p :
    neqb gt n0 = false -> exists p', pulse_ingen gt p = Ok p'.
  Proof.
    intro H. unfold pulse_ingen. rewrite (pdiv_ok _ _ H). cbn. eexists; reflexivity.
  Qed.

  (* ---------- specification of the components ---------- *)
  Lemma epoch_ingen_spec gt a b :
    epoch_ingen gt a = Ok b -> EpochRel (fun x y => y = ndiv x gt) a b.
  Proof.
    unfold epoch_ingen. intro H.
    destruct (pdiv (e_start a) gt) as [s|] eqn:Es; cbn in H; [|discriminate].
    destruct (pdiv (e_end a) gt) as [en|] eqn:Ee; cbn in H; [|discriminate].
    inversion H; subst; clear H. apply pdiv_inv in Es, Ee.
    unfold EpochRel; cbn. repeat split; assumption.
  Qed.

  Lemma deme_ingen_spec gt a b :
    deme_ingen gt a = Ok b -> DemeRel (fun x y => y = ndiv x gt) a b.
  Proof.
    unfold deme_ingen. intro H.
    destruct (pdiv (d_start a) gt) as [s|] eqn:Es; cbn in H; [|discriminate].
    destruct (mapM (epoch_ingen gt) (d_epochs a)) as [es|] eqn:Ee; cbn in H; [|discriminate].
    inversion H; subst; clear H. apply pdiv_inv in Es. apply mapM_Forall2 in Ee.
    unfold DemeRel; cbn. repeat split; try assumption.
    eapply Forall2_impl_In; [|exact Ee]. intros x y _. apply epoch_ingen_spec.
  Qed.

  Lemma mig_ingen_spec gt a b :
    mig_ingen gt a = Ok b -> MigRel (fun x y => y = ndiv x gt) a b.
  Proof.
    unfold mig_ingen. intro H.
    destruct (pdiv (m_start a) gt) as [s|] eqn:Es; cbn in H; [|discriminate].
    destruct (pdiv (m_end a) gt) as [en|] eqn:Ee; cbn in H; [|discriminate].
    inversion H; subst; clear H. apply pdiv_inv in Es, Ee.
    unfold MigRel; cbn. repeat split; assumption.
  Qed.

  Lemma pulse_ingen_spec gt a b :
    pulse_ingen gt a = Ok b -> PulseRel (fun x y => y = ndiv x gt) a b.
  Proof.
    unfold pulse_ingen. intro H.
    destruct (pdiv (p_time a) gt) as [t|] eqn:Et; cbn in H; [|discriminate].
    inversion H; subst; clear H. apply pdiv_inv in Et.
    unfold PulseRel; cbn. repeat split; assumption.
  Qed.

  (* ---------- weakening the relation on the times that occur ---------- *)
  Lemma EpochRel_impl (R R' : num -> num -> Prop) a b :
    (forall x y, In x [e_start a; e_end a] -> R x y -> R' x y) ->
    EpochRel R a b -> EpochRel R' a b.
  Proof.
    intros H (H1 & H2 & H3). unfold EpochRel. repeat split; try tauto.
    - apply H; [cbn; auto|assumption].
    - apply H; [cbn; auto|assumption].
  Qed.

  Lemma DemeRel_impl (R R' : num -> num -> Prop) a b :
    (forall x y, In x (deme_times a) -> R x y -> R' x y) ->
    DemeRel R a b -> DemeRel R' a b.
  Proof.
    intros H (H1 & H2 & H3 & H4 & H5 & H6). unfold DemeRel. repeat split; try assumption.
    - apply H; [left; reflexivity|assumption].
    - eapply Forall2_impl_In; [|exact H6]. intros e e' He. apply EpochRel_impl.
      intros x y Hx. apply H. unfold deme_times. right.
      apply in_flat_map. exists e. split; assumption.
  Qed.

  Lemma MigRel_impl (R R' : num -> num -> Prop) a b :
    (forall x y, In x [m_start a; m_end a] -> R x y -> R' x y) ->
    MigRel R a b -> MigRel R' a b.
  Proof.
    intros H (H1 & H2 & H3 & H4 & H5). unfold MigRel. repeat split; try assumption.
    - apply H; [cbn; auto|assumption].
    - apply H; [cbn; auto|assumption].
  Qed.

  Lemma PulseRel_impl (R R' : num -> num -> Prop) a b :
    (forall x y, x = p_time a -> R x y -> R' x y) ->
    PulseRel R a b -> PulseRel R' a b.
  Proof.
    intros H (H1 & H2 & H3 & H4). unfold PulseRel. repeat split; try assumption.
    apply H; [reflexivity|assumption].
  Qed.

  Lemma TimesRel_impl (R R' : num -> num -> Prop) g h :
    (forall x y, In x (graph_times g) -> R x y -> R' x y) ->
    TimesRel R g h -> TimesRel R' g h.
  Proof.
    intros H (H1 & H2 & H3 & H4 & H5 & H6 & H7). unfold TimesRel.
    repeat split; try assumption.
    - eapply Forall2_impl_In; [|exact H5]. intros d d' Hd. apply DemeRel_impl.
      intros x y Hx. apply H. unfold graph_times. apply in_or_app. left.
      apply in_flat_map. exists d. split; assumption.
    - eapply Forall2_impl_In; [|exact H6]. intros m m' Hm. apply MigRel_impl.
      intros x y Hx. apply H. unfold graph_times. apply in_or_app. right.
      apply in_or_app. left. apply in_flat_map. exists m. split; assumption.
    - eapply Forall2_impl_In; [|exact H7]. intros p p' Hp. apply PulseRel_impl.
      intros x y Hx. apply H. unfold graph_times. apply in_or_app. right.
      apply in_or_app. right. subst x. apply in_map. assumption.
  Qed.

  (* 1. it succeeds whenever the generation time is not zero *)
  Theorem ingen_total g : neqb (g_gt g) n0 = false -> exists h, in_generations g = Ok h.
  Proof.
    intro H. unfold in_generations.
    destruct (mapM_total (deme_ingen (g_gt g)) (g_demes g)) as [ds Eds];
      [intros d _; apply deme_ingen_total; assumption|].
    destruct (mapM_total (mig_ingen (g_gt g)) (g_migs g)) as [ms Ems];
      [intros m _; apply mig_ingen_total; assumption|].
    destruct (mapM_total (pulse_ingen (g_gt g)) (g_pulses g)) as [ps Eps];
      [intros p _; apply pulse_ingen_total; assumption|].
    rewrite Eds, Ems, Eps. cbn. eexists; reflexivity.
  Qed.

  (* 2. every time is the original divided by the generation time; nothing else changes *)
  Theorem ingen_spec g h :
    in_generations g = Ok h ->
    g_units h = "generations" /\ g_gt h = n1 /\
    TimesRel (fun x y => y = ndiv x (g_gt g)) g h.
  Proof.
    unfold in_generations. intro H.
    destruct (mapM (deme_ingen (g_gt g)) (g_demes g)) as [ds|] eqn:Eds; cbn in H; [|discriminate].
    destruct (mapM (mig_ingen (g_gt g)) (g_migs g)) as [ms|] eqn:Ems; cbn in H; [|discriminate].
    destruct (mapM (pulse_ingen (g_gt g)) (g_pulses g)) as [ps|] eqn:Eps; cbn in H; [|discriminate].
    inversion H; subst; clear H. cbn.
    apply mapM_Forall2 in Eds, Ems, Eps.
    split; [reflexivity|]. split; [reflexivity|].
    unfold TimesRel; cbn. repeat split.
    - eapply Forall2_impl_In; [|exact Eds]. intros x y _. apply deme_ingen_spec.
    - eapply Forall2_impl_In; [|exact Ems]. intros x y _. apply mig_ingen_spec.
    - eapply Forall2_impl_In; [|exact Eps]. intros x y _. apply pulse_ingen_spec.
  Qed.

  (* 3. applying it twice changes no value: needs only x / 1 == x *)
  Theorem ingen_idem g h h' :
    (forall x, ok x -> ok (ndiv x n1) /\ rk (ndiv x n1) == rk x) ->
    (forall x, In x (graph_times h) -> ok x) ->
    in_generations g = Ok h -> in_generations h = Ok h' ->
    g_units h' = g_units h /\ g_gt h' = g_gt h /\
    TimesRel (fun x y => neqb y x = true) h h'.
  Proof.
    intros Hdiv Hok Hg Hh.
    apply ingen_spec in Hg. destruct Hg as (Hu & Hgt & _).
    apply ingen_spec in Hh. destruct Hh as (Hu' & Hgt' & Hrel).
    split; [congruence|]. split; [congruence|].
    rewrite Hgt in Hrel.
    eapply TimesRel_impl; [|exact Hrel].
    intros x y Hx Hy. cbv beta in Hy. subst y.
    specialize (Hok x Hx). destruct (Hdiv x Hok) as [Hok' Hrk].
    apply eq_iff; assumption.
  Qed.
End InGenProofs.

Print Assumptions ingen_total.
Print Assumptions ingen_spec.
Print Assumptions ingen_idem.
