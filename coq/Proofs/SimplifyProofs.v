(* C05: the simplified form is a valid model that resolves back to the same graph.
   Auxiliary files (in dependency order): Proofs/SimplifyLists.v, Proofs/SimplifySearch.v,
   Proofs/SimplifyTotal.v, Proofs/SimplifyDemes.v, Proofs/SimplifyResolve.v,
   Proofs/SimplifyRates.v. *)
From Coq Require Import Bool List String QArith Lqa Arith Lia Permutation.
From Demes Require Import Base.Num Base.Py Model.MDM Model.Codec Model.MigMat Model.Resolve
  Model.Simplify Spec.Valid Proofs.MigMatProofs Proofs.FixedPoint Proofs.SimplifyLists
  Proofs.SimplifySearch Proofs.SimplifyTotal Proofs.SimplifyDemes Proofs.SimplifyResolve
  Proofs.SimplifyRates Proofs.ResolveMigs.
Import ListNotations.
Local Open Scope string_scope.
Local Open Scope list_scope.

Section SimplifyProofs.
  Context {N : NumOps} {L : NumLaws N} {SL : SumLaws N L}.

  (* value equality of graphs: strings and list shapes equal, numbers == (so 1 and 1.0 agree),
     migrations up to order *)
  Definition veq (x y : num) : Prop := neqb x y = true.
  Definition EpochVEq (a b : epoch) : Prop :=
    veq (e_start a) (e_start b) /\ veq (e_end a) (e_end b) /\ veq (e_ssize a) (e_ssize b) /\
    veq (e_esize a) (e_esize b) /\ e_sf a = e_sf b /\ veq (e_self a) (e_self b) /\
    veq (e_clone a) (e_clone b).
  Definition DemeVEq (a b : deme) : Prop :=
    d_name a = d_name b /\ d_desc a = d_desc b /\ veq (d_start a) (d_start b) /\
    d_anc a = d_anc b /\ Forall2 veq (d_props a) (d_props b) /\
    Forall2 EpochVEq (d_epochs a) (d_epochs b).
  Definition MigVEq (a b : mig) : Prop :=
    m_src a = m_src b /\ m_dst a = m_dst b /\ veq (m_start a) (m_start b) /\
    veq (m_end a) (m_end b) /\ veq (m_rate a) (m_rate b).
  Definition PulseVEq (a b : pulse) : Prop :=
    p_srcs a = p_srcs b /\ p_dst a = p_dst b /\ veq (p_time a) (p_time b) /\
    Forall2 veq (p_props a) (p_props b).
  Definition GraphVEq (g g' : graph) : Prop :=
    g_desc g' = g_desc g /\ g_units g' = g_units g /\ veq (g_gt g) (g_gt g') /\ g_doi g' = g_doi g /\
    g_meta g' = coerce (g_meta g) /\ g_index g' = g_index g /\
    Forall2 DemeVEq (g_demes g) (g_demes g') /\
    (exists ms, Permutation ms (g_migs g') /\ Forall2 MigVEq (g_migs g) ms) /\
    Forall2 PulseVEq (g_pulses g) (g_pulses g').

  (* (a) simplification never fails on a valid graph (the subset search has enough fuel and
         list.remove never misses) *)
  Theorem simplify_total g : Valid g -> exists doc, asdict_simplified g = Ok doc.
  Proof. exact (simplify_total' g). Qed.

  (* (b) the merge preserves the migrations: expanding every symmetric group into all ordered
         pairs of its demes (with that group's rate and bounds) and adding the remaining
         directional entries gives back, as a multiset, the list of stripped migrations *)
  Definition expand_sym (s : symmig) : list smig :=
    map (fun p => mkSmig (fst p) (snd p) (sy_rate s) (sy_start s) (sy_end s)) (perms2 (sy_demes s)).
  Definition SmigVEq (a b : smig) : Prop := smig_eqb a b = true.
  Theorem simplify_migrations_preserve g syms asym stripped :
    Valid g -> simplify_migrations g = Ok (syms, asym) ->
    mapM (strip_bounds g) (g_migs g) = Ok stripped ->
    exists l, Permutation l (flat_map expand_sym syms ++ asym) /\ Forall2 SmigVEq stripped l.
  Proof.
    intros V H Hs. exact (proj1 (simplify_migrations_spec g syms asym stripped V H Hs)).
  Qed.

  (* every symmetric group lists at least two pairwise distinct demes *)
  Theorem simplify_groups_wellformed g syms asym :
    Valid g -> simplify_migrations g = Ok (syms, asym) ->
    forall s, In s syms -> (2 <= List.length (sy_demes s))%nat /\ NoDup (sy_demes s).
  Proof.
    intros V H. destruct (strip_total g V) as (stripped & Hs).
    exact (proj2 (simplify_migrations_spec g syms asym stripped V H Hs)).
  Qed.

  (* ------------------------------------------------------------------ *)
  (* (c): the top-level dictionary *)

  Definition top_kv (desc units : string) (gt : num) (doi : list string) (meta : jv)
             (demes : list jv) (migsf : list (string * jv)) (pulses : list pulse)
    : list (string * jv) :=
    nonempty_str "description" desc
    ++ [("time_units", JStr units); ("generation_time", JNum gt)]
    ++ nonempty_list "doi" (map JStr doi)
    ++ meta_nonempty meta
    ++ [("demes", JList demes)] ++ migsf
    ++ nonempty_list "pulses" (map jv_of_pulse pulses).

  Lemma top_fields desc units gt doi meta demes migsf pulses :
    is_mapping meta = true ->
    (migsf = [] \/ exists ml, migsf = [("migrations", JList ml)]) ->
    let kv := top_kv desc units gt doi meta demes migsf pulses in
    check_allowed kv toplevel_fields = Ok tt /\
    assoc "defaults" kv = None /\
    assoc "time_units" kv = Some (JStr units) /\
    jdefault (assoc "description" kv) (JStr "") = JStr desc /\
    jdefault (assoc "doi" kv) (JList []) = jstrs doi /\
    jdefault (assoc "generation_time" kv) JNull = JNum gt /\
    jdefault (assoc "metadata" kv) (JDict []) = coerce meta /\
    assoc "demes" kv = Some (JList demes) /\
    assoc "migrations" kv = assoc "migrations" migsf /\
    assoc "pulses" kv
      = (match pulses with [] => None | _ => Some (JList (map jv_of_pulse pulses)) end).
  Proof.
    intros Hm Hmig. unfold top_kv, nonempty_str.
    destruct meta as [ | | | | |mkv| ]; try discriminate Hm.
    destruct (String.eqb desc "") eqn:E.
    - apply String.eqb_eq in E. subst desc.
      destruct Hmig as [->|(ml & ->)]; destruct doi, mkv, pulses; repeat split; reflexivity.
    - destruct Hmig as [->|(ml & ->)]; destruct doi, mkv, pulses; repeat split; reflexivity.
  Qed.

  (* the migrations entry of the simplified dictionary resolves to a permutation of
     value-equal migrations *)
  Lemma migs_entry g migsf kv :
    Valid g ->
    (match g_migs g with
     | [] => Ok []
     | _ => sa <- simplify_migrations g ;;
            Ok [("migrations", JList (map jv_of_sym (fst sa) ++ map jv_of_smig (snd sa)))]
     end) = Ok migsf ->
    assoc "migrations" kv = assoc "migrations" migsf ->
    (migsf = [] \/ exists ml, migsf = [("migrations", JList ml)]) /\
    exists post ml,
      (l <- dict_list kv "migrations" false ;;
       foldM (resolve_migration []) l (G2 (header g) g [] [])) = Ok (G2 (header g) g post []) /\
      Permutation (g_migs g) ml /\ Forall2 MigVEq0 ml post.
  Proof.
    intros V H Ha. unfold dict_list. rewrite Ha.
    destruct (g_migs g) as [|m0 ms0] eqn:Em.
    - injection H as <-. split; [now left|]. exists [], []. cbn. repeat split; constructor.
    - rewrite <- Em in *. apply sbind_inv in H. destruct H as ([syms asym] & Hsm & H).
      injection H as <-. cbn [fst snd]. split; [right; eauto|].
      destruct (migs_resolve (header g) g syms asym V Hsm) as (post & ml & Hf & Pm & Fm).
      exists post, ml. split; [|split; assumption].
      cbn [assoc String.eqb Ascii.eqb Bool.eqb list_of bind].
      eapply sbind_ok; [|exact Hf].
      eapply sbind_ok; [|reflexivity].
      apply forM_app_ok; apply all_dicts_ok; intro x; reflexivity.
  Qed.

  (* (c) the simplified dictionary is accepted and resolves to the same model.
     ORIGINAL STATEMENT (false for abstract numbers, so not provable from NumLaws/SumLaws):
       Theorem simplify_resolves g :
         Valid g -> exists doc g', asdict_simplified g = Ok doc /\ fromdict doc = Ok g' /\ GraphVEq g g'.
     Counter-model 1: a deme with one ancestor and proportions [1] is written without
     "proportions"; resolution re-infers [1.0] and checks isclose(sum([1.0]), 1.0), i.e.
     isclose0 (nadd n0 nf1) nf1, and no law constrains nadd (take nadd n0 nf1 = NaN).
     Counter-model 2: sum_float_veq allows both ingress sums to be (different) NaNs, for
     which isclose_veq gives nothing, so the ingress bound cannot be transferred.
     FIX: two arithmetic hypotheses about the number system, both true of binary64:
       SumOne : isclose0 (pysum [nf1]) nf1 = true          (Proofs/SimplifyDemes.v)
       SumOK  : a sum of numbers of [0,1] is not NaN         (Proofs/ResolveMigs.v, already the
                hypothesis of C01 resolve_valid and proved for NumQ in Proofs/SumOKQ.v). *)
  Theorem simplify_resolves g :
    SumOne -> SumOK -> Valid g ->
    exists doc g', asdict_simplified g = Ok doc /\ fromdict doc = Ok g' /\ GraphVEq g g'.
  Proof.
    intros S1 SO V.
    set (h := header g).
    unfold asdict_simplified. rewrite (simp_demes_eq g V). cbn [bind].
    destruct (simplify_total' g V) as (doc0 & Hdoc0). unfold asdict_simplified in Hdoc0.
    rewrite (simp_demes_eq g V) in Hdoc0. cbn [bind] in Hdoc0.
    apply sbind_inv in Hdoc0. destruct Hdoc0 as (migsf & Hmf & _).
    rewrite Hmf. cbn [bind].
    fold (top_kv (g_desc g) (g_units g) (g_gt g) (g_doi g) (g_meta g)
                 (map (sjv g) (g_demes g)) migsf (g_pulses g)).
    set (kv := top_kv _ _ _ _ _ _ _ _).
    assert (Hmig0 : migsf = [] \/ exists ml, migsf = [("migrations", JList ml)]).
    { destruct (g_migs g); [injection Hmf as <-; now left|].
      apply sbind_inv in Hmf. destruct Hmf as (sa & _ & Hmf). injection Hmf as <-. right. eauto. }
    destruct (top_fields (g_desc g) (g_units g) (g_gt g) (g_doi g) (g_meta g)
                (map (sjv g) (g_demes g)) migsf (g_pulses g) (v_meta _ V) Hmig0)
      as (K1 & K2 & K3 & K4 & K5 & K6 & K7 & K8 & K9 & K10).
    fold kv in K1, K2, K3, K4, K5, K6, K7, K8, K9, K10.
    destruct (migs_entry g migsf kv V Hmf K9) as (_ & post & ml & Hmigs & Pm & Fm).
    exists (JDict kv), (G2 h g post (g_pulses g)).
    split; [reflexivity|]. split.
    - unfold fromdict. cbn [dict_of bind]. rewrite K1. cbn [bind].
      unfold pop_object at 1. rewrite K2.
      cbn [bind check_allowed forM_ pop_object assoc]. rewrite K3. cbn [bind].
      rewrite K4, K5, K6, K7.
      eapply sbind_ok; [exact (make_graph_ok g V)|].
      eapply sbind_ok.
      { unfold dict_list. rewrite K8. cbn [list_of bind].
        rewrite all_dicts_ok; [reflexivity|]. intro; reflexivity. }
      eapply sbind_ok.
      { apply raise_if_false. rewrite map_length. pose proof (v_demes_ne _ V).
        destruct (g_demes g); [congruence|reflexivity]. }
      eapply sbind_ok.
      { exact (demes_fold' h g S1 V (g_demes g) [] eq_refl). }
      cbn [app]. fold (G2 h g [] []).
      apply sbind_inv in Hmigs. destruct Hmigs as (ml0 & Hml0 & Hmigs).
      eapply sbind_ok; [exact Hml0|]. eapply sbind_ok; [exact Hmigs|].
      eapply sbind_ok; [exact (post_rates_ok g post ml V Pm Fm h SO)|].
      eapply sbind_ok with (a := map jv_of_pulse (g_pulses g)).
      { unfold dict_list. rewrite K10. destruct (g_pulses g) as [|p ps]; [reflexivity|].
        cbn [list_of bind]. rewrite all_dicts_ok; [reflexivity|]. intro; reflexivity. }
      eapply sbind_ok.
      { exact (pulses_fold' h g post V (g_pulses g) [] (v_pulses _ V)). }
      unfold G2, GR.
      cbn [g_desc g_units g_gt g_doi g_meta g_demes g_migs g_pulses g_index app].
      rewrite (sort_sorted _ (v_pulse_order _ V)). reflexivity.
    - unfold GraphVEq, G2, GR, h, header.
      cbn [g_desc g_units g_gt g_doi g_meta g_demes g_migs g_pulses g_index].
      split; [reflexivity|]. split; [reflexivity|]. split.
      { unfold veq. apply eq_refl_ok. destruct (v_gt _ V) as [H _]. apply lt_true in H. tauto. }
      split; [reflexivity|]. split; [reflexivity|]. split.
      { rewrite (v_index _ V). apply index_from_names. apply sdeme_names. }
      split.
      { apply Forall2_map_r. apply Forall2_refl_in. intros d Hd. exact (sdeme_veq g d V Hd). }
      split.
      { destruct (Permutation_Forall2 (Permutation_sym Pm) Fm) as (ms & P2 & F2).
        exists ms. split; [now apply Permutation_sym|exact F2]. }
      apply Forall2_refl_in. intros p Hp. destruct (v_pulses _ V p Hp) as [_ _ _ _ P5 _ [P7 _] _ _].
      unfold PulseVEq, veq. repeat split.
      + apply eq_refl_ok. apply lt_true in P7. tauto.
      + apply Forall2_refl_in. intros x Hx. destruct (P5 x Hx) as [X1 _].
        apply eq_refl_ok. apply lt_true in X1. tauto.
  Qed.
End SimplifyProofs.

Print Assumptions simplify_total.
Print Assumptions simplify_migrations_preserve.
Print Assumptions simplify_groups_wellformed.
Print Assumptions simplify_resolves.
