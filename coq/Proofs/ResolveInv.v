(* C01 support: inversion of the result monad, validators, the name index,
   and small list facts used by the proof that fromdict returns valid graphs. *)
From Coq Require Import Bool List String QArith Lqa Arith Lia.
From Demes Require Import Base.Num Base.Py Model.MDM Model.Codec Model.MigMat Model.Resolve
  Spec.Valid Proofs.MigMatProofs.
Import ListNotations.
Local Open Scope string_scope.
Local Open Scope list_scope.

(* ------------------------------------------------------------------ *)
(* monad inversion *)

Lemma bind_ok {A B} (m : res A) (k : A -> res B) y :
  bind m k = Ok y -> exists a, m = Ok a /\ k a = Ok y.
Proof. destruct m; cbn; intro H; [eauto|discriminate]. Qed.

Lemma raise_if_ok b e u : raise_if b e = Ok u -> b = false.
Proof. destruct b; cbn; [discriminate|auto]. Qed.

(* H : (x <- m ;; k x) = Ok y   becomes   Hx : m = Ok x,  H : k x = Ok y *)
Ltac mbind H x Hx :=
  apply bind_ok in H; destruct H as (x & Hx & H); cbv beta in H.

(* H : (raise_if b e ;;; k) = Ok y   becomes   Hb : b = false,  H : k = Ok y *)
Ltac mraise H Hb :=
  let u := fresh "u" in
  apply bind_ok in H; destruct H as (u & Hb & H); cbv beta in H;
  apply raise_if_ok in Hb; clear u.

Lemma forM_inv {A} (f : A -> res unit) l u :
  forM_ f l = Ok u -> forall x, In x l -> f x = Ok tt.
Proof.
  revert u. induction l as [|a l IH]; intros u H x Hx; [destruct Hx|].
  cbn in H. apply bind_ok in H. destruct H as ([] & Ha & H).
  destruct Hx as [<-|Hx]; [exact Ha|]. eapply IH; eauto.
Qed.

Lemma mapM_inv {A B} (f : A -> res B) l : forall l',
  mapM f l = Ok l' -> Forall2 (fun a b => f a = Ok b) l l'.
Proof.
  induction l as [|a l IH]; intros l' H; cbn in H.
  - injection H as <-. constructor.
  - mbind H b Hb. mbind H bs Hbs. injection H as <-. constructor; auto.
Qed.

Lemma foldM_inv {A S} (f : S -> A -> res S) (P : S -> Prop) :
  (forall s a s', P s -> f s a = Ok s' -> P s') ->
  forall l s s', P s -> foldM f l s = Ok s' -> P s'.
Proof.
  intros Hstep. induction l as [|a l IH]; intros s s' Hs H; cbn in H.
  - injection H as <-. exact Hs.
  - mbind H s1 H1. eapply IH; [|exact H]. eapply Hstep; eauto.
Qed.

(* an invariant P, and a property Q established by every step *)
Lemma foldM_inv_ne {A S} (f : S -> A -> res S) (P Q : S -> Prop) :
  (forall s a s', P s -> f s a = Ok s' -> P s' /\ Q s') ->
  forall l s s', l <> [] -> P s -> foldM f l s = Ok s' -> P s' /\ Q s'.
Proof.
  intros Hstep l s s' Hne Hs H. destruct l as [|a l]; [congruence|].
  cbn in H. mbind H s1 H1.
  apply (foldM_inv f (fun s => P s /\ Q s)) with (l := l) (s := s1); auto.
  - intros s2 b s3 [HP _] Hf. eapply Hstep; eauto.
  - eapply Hstep; eauto.
Qed.

Lemma Forall2_length' {A B} (R : A -> B -> Prop) l l' :
  Forall2 R l l' -> List.length l = List.length l'.
Proof. induction 1; cbn; auto. Qed.

Lemma Forall2_in_r {A B} (R : A -> B -> Prop) l l' :
  Forall2 R l l' -> forall b, In b l' -> exists a, In a l /\ R a b.
Proof.
  induction 1 as [|a b l l' Hab _ IH]; intros x Hx; [destruct Hx|].
  destruct Hx as [<-|Hx].
  - exists a. split; [now left|auto].
  - destruct (IH x Hx) as (a' & Ha' & Hr). exists a'. split; [now right|auto].
Qed.

Section ResolveInv.
  Context {N : NumOps} {L : NumLaws N}.

  (* ------------------------------------------------------------------ *)
  (* validators *)

  (* the number a document value denotes (bool is a subclass of int) *)
  Definition jval (v : jv) : num :=
    match v with JNum x => x | JBool b => jnum_of_bool b | _ => n0 end.

  Lemma ok_bool b : ok (jnum_of_bool b).
  Proof. destruct b; cbn; auto with nan. Qed.

  Lemma iof_spec v x : int_or_float v = Ok x -> ok x /\ jval v = x /\ is_number v = true.
  Proof.
    destruct v; cbn; try discriminate.
    - intro H. injection H as <-. repeat split. apply ok_bool.
    - destruct (nisnan x0) eqn:E; [discriminate|]. intro H. injection H as <-. auto.
  Qed.

  Lemma positive_spec x u : ok x -> positive x = Ok u -> nlt n0 x = true.
  Proof. intros Hx H. apply raise_if_ok in H. nord. Qed.

  Lemma non_negative_spec x u : ok x -> non_negative x = Ok u -> nle n0 x = true.
  Proof. intros Hx H. apply raise_if_ok in H. nord. Qed.

  Lemma finite_spec x u : finite x = Ok u -> nisinf x = false.
  Proof. intro H. now apply raise_if_ok in H. Qed.

  Lemma unit_interval_spec x u : unit_interval x = Ok u -> in_unit x.
  Proof.
    intro H. apply raise_if_ok in H. apply negb_false_iff in H.
    apply andb_true_iff in H. exact H.
  Qed.

  Lemma unit_interval_lo_spec x u : unit_interval_lo x = Ok u -> in_unit_lo x.
  Proof.
    intro H. apply raise_if_ok in H. apply negb_false_iff in H.
    apply andb_true_iff in H. exact H.
  Qed.

  Lemma pos_fin_1 : pos_fin n1.
  Proof. split; nord. Qed.

  Lemma str_of_spec v s : str_of v = Ok s -> v = JStr s.
  Proof. destruct v; cbn; try discriminate. intro H. now injection H as <-. Qed.

  Lemma list_of_spec v l : list_of v = Ok l -> v = JList l.
  Proof. destruct v; cbn; try discriminate. intro H. now injection H as <-. Qed.

  Lemma deme_name_of_spec v s :
    deme_name_of v = Ok s -> v = JStr s /\ is_identifier s = true.
  Proof.
    unfold deme_name_of. intro H. mbind H s' Hs. mraise H Hid. injection H as <-.
    apply str_of_spec in Hs. apply negb_false_iff in Hid. auto.
  Qed.

  Lemma mapM_names l an :
    mapM deme_name_of l = Ok an ->
    l = map JStr an /\ forall a, In a an -> is_identifier a = true.
  Proof.
    intro H. apply mapM_inv in H. induction H as [|v s l an Hv _ IH].
    - split; [reflexivity|]. intros a [].
    - apply deme_name_of_spec in Hv. destruct Hv as [-> Hid]. destruct IH as [-> IH].
      split; [reflexivity|]. intros a [<-|Ha]; auto.
  Qed.

  Lemma mapM_strs l an : mapM str_of l = Ok an -> l = map JStr an.
  Proof.
    intro H. apply mapM_inv in H. induction H as [|v s l an Hv _ IH]; [reflexivity|].
    apply str_of_spec in Hv. subst. reflexivity.
  Qed.

  Lemma map_unstr (l : list string) :
    map (fun a : jv => match a with JStr s => s | _ => "" end) (map JStr l) = l.
  Proof. rewrite map_map. apply map_id. Qed.

  Lemma nums_with_spec chk v l :
    nums_with chk v = Ok l -> forall x, In x l -> ok x /\ chk x = Ok tt.
  Proof.
    unfold nums_with. intro H. mbind H jl Hjl. apply mapM_inv in H.
    intros x Hx. destruct (Forall2_in_r _ _ _ H x Hx) as (a & _ & Ha).
    mbind Ha n Hn. mbind Ha u Hu. injection Ha as <-. destruct u.
    apply iof_spec in Hn. tauto.
  Qed.

  Lemma mem_in s l : mem s l = true -> In s l.
  Proof.
    unfold mem. intro H. apply existsb_exists in H. destruct H as (x & Hx & E).
    apply String.eqb_eq in E. now subst.
  Qed.

  Lemma mem_not_in s l : mem s l = false -> ~ In s l.
  Proof.
    unfold mem. intros H Hin. assert (existsb (String.eqb s) l = true) as E.
    { apply existsb_exists. exists s. split; auto. apply String.eqb_refl. }
    congruence.
  Qed.

  Lemma nodupb_spec l : nodupb l = true -> NoDup l.
  Proof.
    induction l as [|a l IH]; cbn; intro H; [constructor|].
    apply andb_true_iff in H. destruct H as [H1 H2]. apply negb_true_iff in H1.
    constructor; auto. now apply mem_not_in.
  Qed.

  (* ------------------------------------------------------------------ *)
  (* the name index *)

  Definition Idx (g : graph) : Prop := g_index g = index_from 0 (g_demes g).

  Definition byname (n : string) (d : deme) : bool := String.eqb (d_name d) n.

  Lemma assoc_index_some n ds : forall i j,
    assoc n (index_from i ds) = Some j ->
    exists d, (i <= j)%nat /\ nth_error ds (j - i) = Some d /\ find (byname n) ds = Some d.
  Proof.
    induction ds as [|a ds IH]; intros i j H; cbn in H; [discriminate|].
    cbn [find]. unfold byname at 1. rewrite String.eqb_sym.
    destruct (String.eqb n (d_name a)) eqn:E.
    - injection H as <-. exists a. rewrite Nat.sub_diag. auto.
    - destruct (IH _ _ H) as (d & Hle & Hn & Hf). exists d. split; [lia|]. split; [|exact Hf].
      replace (j - i)%nat with (S (j - S i)) by lia. exact Hn.
  Qed.

  Lemma assoc_index_none n ds : forall i,
    assoc n (index_from i ds) = None -> ~ In n (map d_name ds).
  Proof.
    induction ds as [|a ds IH]; intros i H; cbn in *; [tauto|].
    destruct (String.eqb n (d_name a)) eqn:E; [discriminate|].
    apply String.eqb_neq in E. intros [E'|Hin]; [congruence|]. eapply IH; eauto.
  Qed.

  Lemma find_byname n ds d : find (byname n) ds = Some d -> In d ds /\ d_name d = n.
  Proof.
    intro H. apply find_some in H. destruct H as [H1 H2]. split; auto.
    now apply String.eqb_eq in H2.
  Qed.

  Lemma lookup_find g n d : Idx g -> lookup g n = Ok d -> find_deme g n = Some d.
  Proof.
    unfold Idx, lookup, find_deme. intros I H. rewrite I in H.
    destruct (assoc n (index_from 0 (g_demes g))) as [j|] eqn:E; [|discriminate].
    destruct (assoc_index_some _ _ _ _ E) as (d' & _ & Hn & Hf).
    rewrite Nat.sub_0_r in Hn. rewrite Hn in H. injection H as <-. exact Hf.
  Qed.

  Lemma find_deme_spec g n d : find_deme g n = Some d -> In d (g_demes g) /\ d_name d = n.
  Proof. apply find_byname. Qed.

  Lemma contains_true g n : Idx g -> contains g n = true -> In n (deme_names g).
  Proof.
    unfold Idx, contains, deme_names. intros I H. rewrite I in H.
    destruct (assoc n (index_from 0 (g_demes g))) as [j|] eqn:E; [|discriminate].
    destruct (assoc_index_some _ _ _ _ E) as (d' & _ & _ & Hf).
    apply find_byname in Hf. destruct Hf as [Hin <-]. now apply in_map.
  Qed.

  Lemma contains_false g n : Idx g -> contains g n = false -> ~ In n (deme_names g).
  Proof.
    unfold Idx, contains, deme_names. intros I H. rewrite I in H.
    destruct (assoc n (index_from 0 (g_demes g))) as [j|] eqn:E; [discriminate|].
    eapply assoc_index_none; eauto.
  Qed.

  Lemma index_from_app l d : forall i,
    index_from i (l ++ [d]) = index_from i l ++ [(d_name d, (i + List.length l)%nat)].
  Proof.
    induction l as [|a l IH]; intro i; cbn.
    - now rewrite Nat.add_0_r.
    - rewrite IH. replace (S i + List.length l)%nat with (i + S (List.length l))%nat by lia.
      reflexivity.
  Qed.

  Lemma ValidDemes_app l d : forall e,
    ValidDemes e l -> ValidDeme (e ++ l) d -> ValidDemes e (l ++ [d]).
  Proof.
    induction l as [|a l IH]; intros e Hl Hd; cbn in *.
    - rewrite app_nil_r in Hd. auto.
    - destruct Hl as [Ha Hl]. split; auto. apply IH; auto. now rewrite <- app_assoc.
  Qed.

  (* ------------------------------------------------------------------ *)
  (* epochs *)

  Fixpoint lastend (s : num) (es : list epoch) : num :=
    match es with [] => s | e :: es' => lastend (e_end e) es' end.

  Lemma lastend_app s es e : lastend s (es ++ [e]) = e_end e.
  Proof. revert s. induction es as [|a es IH]; intro s; cbn; auto. Qed.

  Lemma lastend_rev s es p r : rev es = p :: r -> lastend s es = e_end p.
  Proof.
    intro H. assert (es = rev r ++ [p]) as ->.
    { rewrite <- (rev_involutive es), H. reflexivity. }
    apply lastend_app.
  Qed.

  Lemma Chain_app es e : forall s,
    Chain s es -> neqb (e_start e) (lastend s es) = true -> Chain s (es ++ [e]).
  Proof.
    induction es as [|a es IH]; intros s Hc He; cbn in *; [auto|].
    destruct Hc as [H1 H2]. split; auto.
  Qed.

  (* the graph-level fields that no builder step touches *)
  Definition hdr (g : graph) := (g_units g, g_gt g, g_doi g, g_meta g).

  Lemma rev_last_cons {A} (l : list A) x : rev (l ++ [x]) = x :: rev l.
  Proof. rewrite rev_app_distr. reflexivity. Qed.

End ResolveInv.
