(* SizeBetweenFixedF: on IEEE binary64 (instance NumF, Coq's primitive floats) the clause "inside
   an epoch Deme.size_at lies between the epoch's start and end sizes" was REFUTED, in the last
   place, for the old code of Deme.size_at (finding F24), was repaired in the library by clamping
   the interpolated value into [min (ss, es), max (ss, es)], and is now a THEOREM for binary64
   (the NumF instance of the generic Proofs/SizeBetweenAny.v).

   Mechanism of the old failure (still visible in the unclamped formula, [old_formula_outside]).
   For a time t just above the epoch's end (not math.isclose to it, since abs_tol = 0 and the end
   is 0) the interpolation weight dt = (s - t) / (s - e) rounds to exactly 1.0, so the formula
   gives  fl (ss + fl (es - ss))  with two roundings.  That double-rounded value need not be es:
   here it is two floats BELOW es = min (ss, es), so it is outside [min (ss, es), max (ss, es)].
   The repaired size_at returns  min (max (N, lo), hi)  and hence exactly es at this witness.

   Witness (found by running demes-python): one linear epoch, start_time 1000, end_time 0,
     start_size ss = 0x1.4fb8dff19c1c8p+9  (671.4443342220557)
     end_size   es = 0x1.008009326459ap+6  (64.1250350831746)
     selfing_rate = cloning_rate = 0;
   query time  t = 0x1.79ca10c924223p-67  (the double nearest to 1e-20), and a second one
               t = 0x1p-1074               (5e-324, the float next to the epoch's end 0).
   Unclamped   N = 0x1.0080093264598p+6  (64.12503508317457) = es - 2 ulp  <  es < ss.
   Everything is evaluated by vm_compute on primitive floats.

   Float literals are written in hexadecimal where the decimal form is not exactly a binary64
   value (so that no "inexact-float" warning is emitted). *)
From Coq Require Import Bool List String QArith Lqa Floats.
From Demes Require Import Base.Num Base.NumF Base.Py Model.MDM Model.SizeAt Spec.Valid
  Proofs.SizeAtProofs Proofs.SizeBetweenAny.
Import ListNotations.
Local Open Scope string_scope.
Local Open Scope list_scope.

(* ------------------------------------------------------------------ *)
(* The witness. *)

Definition w_ss : PrimFloat.float := 0x1.4fb8dff19c1c8p+9%float.   (* 671.4443342220557 *)
Definition w_es : PrimFloat.float := 0x1.008009326459ap+6%float.   (* 64.1250350831746 *)
Definition w_t  : PrimFloat.float := 0x1.79ca10c924223p-67%float.  (* 1e-20 *)
Definition w_v  : PrimFloat.float := 0x1.0080093264598p+6%float.   (* 64.12503508317457 *)

Definition w_epoch : @epoch NumF :=
  mkEpoch 1000%float 0%float w_ss w_es "linear" 0%float 0%float.

Definition w_deme : @deme NumF := mkDeme "A" "" 1000%float [] [] [w_epoch].

(* the interpolation weight computed by size_in_epoch *)
Definition weight (e : @epoch NumF) (t : PrimFloat.float) : res PrimFloat.float :=
  @pdiv NumF (nsub (e_start e) t) (nsub (e_start e) (e_end e)).

(* the UNCLAMPED interpolation formula of the linear branch,  ss + (es - ss) * dt  *)
Definition old_formula (e : @epoch NumF) (t : PrimFloat.float) : res PrimFloat.float :=
  dt <- weight e t ;;
  Ok (@nadd NumF (e_ssize e) (@nmul NumF (@nsub NumF (e_esize e) (e_ssize e)) dt)).

(* ------------------------------------------------------------------ *)
(* The epoch satisfies the validity predicate (Spec/Valid.v, ValidEpoch): 0 <= end, end finite,
   end < start, both sizes positive and finite, a known size function, rates in [0, 1]. *)
Theorem w_epoch_valid : @ValidEpoch NumF w_epoch.
Proof.
  constructor.
  - vm_compute. reflexivity.
  - vm_compute. reflexivity.
  - vm_compute. reflexivity.
  - split; vm_compute; reflexivity.
  - split; vm_compute; reflexivity.
  - cbn. right. right. left. reflexivity.
  - cbn. intro H. discriminate H.
  - vm_compute. intro H. discriminate H.
  - split; vm_compute; reflexivity.
  - split; vm_compute; reflexivity.
Qed.

Theorem w_deme_epochs_valid : forall e, In e (d_epochs w_deme) -> @ValidEpoch NumF e.
Proof.
  intros e [H|[]]. subst e. exact w_epoch_valid.
Qed.

Example w_epoch_in : In w_epoch (d_epochs w_deme).
Proof. left. reflexivity. Qed.

Example w_epoch_linear : e_sf w_epoch = "linear".
Proof. reflexivity. Qed.

(* sizes differ, and the end size is the smaller one: min (ss, es) = es *)
Example w_sizes : @neqb NumF (e_ssize w_epoch) (e_esize w_epoch) = false /\
                  @nlt NumF (e_esize w_epoch) (e_ssize w_epoch) = true.
Proof. vm_compute. split; reflexivity. Qed.

Example w_lo_hi : @pymin NumF (e_ssize w_epoch) (e_esize w_epoch) = w_es /\
                  @pymax NumF (e_ssize w_epoch) (e_esize w_epoch) = w_ss.
Proof. vm_compute. split; reflexivity. Qed.

(* ------------------------------------------------------------------ *)
(* First witness: t = 1e-20. *)

(* start_time > t >= end_time *)
Example w_owns : @epoch_owns NumF w_t w_epoch = true.
Proof. vm_compute. reflexivity. Qed.

(* t is strictly inside the epoch and positive *)
Example w_t_inside : @nlt NumF (e_end w_epoch) w_t = true /\ @nlt NumF w_t (e_start w_epoch) = true.
Proof. vm_compute. split; reflexivity. Qed.

(* t is NOT math.isclose to the epoch's end (rel_tol 1e-9, abs_tol 0): the formula branch runs *)
Example w_not_close : @isclose0 NumF w_t (e_end w_epoch) = false.
Proof. vm_compute. reflexivity. Qed.

(* the weight (s - t) / (s - e) is exactly 1.0 *)
Example w_weight : weight w_epoch w_t = Ok 1%float.
Proof. vm_compute. reflexivity. Qed.

(* already the numerator: 1000 - 1e-20 rounds to 1000 *)
Example w_numerator : (1000 - w_t)%float = 1000%float.
Proof. vm_compute. reflexivity. Qed.

(* ss + (es - ss) is not es: double rounding *)
Example w_double_rounding :
  (w_ss + (w_es - w_ss))%float = w_v /\ PrimFloat.ltb w_v w_es = true /\
  next_down (next_down w_es) = w_v.
Proof. vm_compute. repeat split. Qed.

(* (a) the rounding is real: the unclamped formula value at the witness is two floats below es,
   strictly below BOTH sizes, i.e. outside [min (ss, es), max (ss, es)] -- at both query times *)
Example old_formula_outside :
  old_formula w_epoch w_t = Ok w_v /\
  old_formula w_epoch 0x1p-1074%float = Ok w_v /\
  next_down (next_down (e_esize w_epoch)) = w_v /\
  @nlt NumF w_v (e_esize w_epoch) = true /\ @nlt NumF w_v (e_ssize w_epoch) = true /\
  (@nle NumF (e_ssize w_epoch) w_v && @nle NumF w_v (e_esize w_epoch) = false) /\
  (@nle NumF (e_esize w_epoch) w_v && @nle NumF w_v (e_ssize w_epoch) = false).
Proof. vm_compute. repeat split. Qed.

(* the clamp brings exactly that value back to es *)
Example w_clamp : @clamp_size NumF w_epoch w_v = w_es.
Proof. vm_compute. reflexivity. Qed.

(* (b) the repaired function returns exactly the end size *)
Example w_size_in_epoch : @size_in_epoch NumF w_epoch w_t = Ok w_es.
Proof. vm_compute. reflexivity. Qed.

Example w_size_at : @size_at NumF w_deme w_t = Ok w_es.
Proof. vm_compute. reflexivity. Qed.

(* ------------------------------------------------------------------ *)
(* Second witness: t = 5e-324, the float next to the epoch's end. *)

Definition w_t2 : PrimFloat.float := 0x1p-1074%float.

Example w2_adjacent : next_up (e_end w_epoch) = w_t2.
Proof. vm_compute. reflexivity. Qed.

Example w2_owns : @epoch_owns NumF w_t2 w_epoch = true.
Proof. vm_compute. reflexivity. Qed.

Example w2_not_close : @isclose0 NumF w_t2 (e_end w_epoch) = false.
Proof. vm_compute. reflexivity. Qed.

Example w2_weight : weight w_epoch w_t2 = Ok 1%float.
Proof. vm_compute. reflexivity. Qed.

Example w2_size_at : @size_at NumF w_deme w_t2 = Ok w_es.
Proof. vm_compute. reflexivity. Qed.

(* ------------------------------------------------------------------ *)
(* The witness of the old refutation, now fixed: all the hypotheses of the old counterexample
   (valid linear epoch, ownership, t not isclose to the end), and size_at is exactly the end size,
   at both query times. *)
Theorem size_at_witness_fixed_F :
  exists (d : @deme NumF) (e : @epoch NumF) (t t2 : @num NumF),
    In e (d_epochs d) /\ @ValidEpoch NumF e /\ e_sf e = "linear" /\
    @epoch_owns NumF t e = true /\ @isclose0 NumF t (e_end e) = false /\
    t2 = next_up (e_end e) /\
    @epoch_owns NumF t2 e = true /\ @isclose0 NumF t2 (e_end e) = false /\
    old_formula e t = Ok w_v /\ old_formula e t2 = Ok w_v /\
    @nlt NumF w_v (e_esize e) = true /\ @nlt NumF w_v (e_ssize e) = true /\
    @size_at NumF d t = Ok (e_esize e) /\ @size_at NumF d t2 = Ok (e_esize e).
Proof.
  exists w_deme, w_epoch, w_t, w_t2.
  split; [exact w_epoch_in|]. split; [exact w_epoch_valid|]. split; [exact w_epoch_linear|].
  split; [exact w_owns|]. split; [exact w_not_close|].
  split; [symmetry; exact w2_adjacent|].
  split; [exact w2_owns|]. split; [exact w2_not_close|].
  destruct old_formula_outside as (A & B & _ & C & D & _).
  split; [exact A|]. split; [exact B|]. split; [exact C|]. split; [exact D|].
  split; [exact w_size_at | exact w2_size_at].
Qed.

(* ------------------------------------------------------------------ *)
(* Between-ness on binary64, for every deme with valid epochs and every time: the instantiation
   of Proofs/SizeBetweenAny.v at NumF. *)
Theorem size_in_epoch_between_F (e : @epoch NumF) (t v : @num NumF) :
  @ValidEpoch NumF e -> @size_in_epoch NumF e t = Ok v -> @ok NumF v ->
  @nle NumF (@pymin NumF (e_ssize e) (e_esize e)) v = true /\
  @nle NumF v (@pymax NumF (e_ssize e) (e_esize e)) = true.
Proof. exact (@size_in_epoch_between NumF NumFLaws e t v). Qed.

Theorem size_at_between_F (d : @deme NumF) (t v : @num NumF) :
  (forall e, In e (d_epochs d) -> @ValidEpoch NumF e) ->
  @size_at NumF d t = Ok v -> @ok NumF v ->
  v = @n0 NumF
  \/ (exists e es', d_epochs d = e :: es' /\ v = e_ssize e /\
        @nisinf NumF t = true /\ @nisinf NumF (d_start d) = true)
  \/ (exists e, In e (d_epochs d) /\ @epoch_owns NumF t e = true /\
        @nle NumF (@pymin NumF (e_ssize e) (e_esize e)) v = true /\
        @nle NumF v (@pymax NumF (e_ssize e) (e_esize e)) = true).
Proof. exact (@size_at_between NumF NumFLaws d t v). Qed.

(* the statements that were shown FALSE for the old code (SizeBetweenRefutedF:
   size_between_linear_statement_false_F, size_at_between_statement_false_F) now hold for every
   non-NaN answer *)
Theorem size_between_sizes_F (e : @epoch NumF) (t v : @num NumF) :
  @ValidEpoch NumF e -> @size_in_epoch NumF e t = Ok v -> @ok NumF v ->
  (@nle NumF (e_ssize e) v && @nle NumF v (e_esize e) = true) \/
  (@nle NumF (e_esize e) v && @nle NumF v (e_ssize e) = true).
Proof. exact (@size_in_epoch_between_sizes NumF NumFLaws e t v). Qed.

Print Assumptions w_epoch_valid.
Print Assumptions old_formula_outside.
Print Assumptions size_at_witness_fixed_F.
Print Assumptions size_in_epoch_between_F.
Print Assumptions size_at_between_F.
Print Assumptions size_between_sizes_F.
