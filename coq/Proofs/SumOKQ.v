(* Non-vacuity of the arithmetic hypothesis of resolve_valid: SumOK holds for
   the exact-rational instance NumQ (sums of finite rationals are finite). *)
From Coq Require Import QArith Bool List.
From Demes Require Import Base.Num Base.NumQ Base.Py Model.MDM Spec.Valid Proofs.ResolveMigs.
Import ListNotations.

Definition isF (x : qx) : Prop := match x with QF _ _ => True | _ => False end.

Lemma add_F x y : isF x -> isF y -> isF (qx_add x y).
Proof. destruct x, y; cbn; tauto. Qed.

Lemma sub_F x y : isF x -> isF y -> isF (qx_sub x y).
Proof. destruct x, y; cbn; tauto. Qed.

Lemma pysum_f_F l : forall f c,
  (forall x, In x l -> isF x) -> isF f -> isF c -> isF (@pysum_f NumQ l f c).
Proof.
  induction l as [|a l IH]; intros f c Hl Hf Hc; cbn.
  - destruct (_ && _); auto using add_F.
  - assert (isF a) as Ha by (apply Hl; now left).
    assert (forall x, In x l -> isF x) as Hl' by (intros; apply Hl; now right).
    destruct (qx_isint a); [apply IH; auto using add_F|].
    apply IH; auto using add_F.
    destruct (qx_le _ _); auto using add_F, sub_F.
Qed.

Lemma pysum_i_F l : forall acc,
  (forall x, In x l -> isF x) -> isF acc -> isF (@pysum_i NumQ l acc).
Proof.
  induction l as [|a l IH]; intros acc Hl Hacc; cbn; auto.
  assert (isF a) as Ha by (apply Hl; now left).
  assert (forall x, In x l -> isF x) as Hl' by (intros; apply Hl; now right).
  destruct (qx_isint a); [apply IH; auto using add_F|].
  apply pysum_f_F; auto using add_F. exact Logic.I.
Qed.

Theorem sumok_Q : @SumOK NumQ.
Proof.
  intros l H.
  assert (isF (@pysum NumQ l)) as F.
  { apply pysum_i_F; [|exact Logic.I]. intros x Hx. destruct (H x Hx) as [A B].
    destruct x; cbn in *; try discriminate; exact Logic.I. }
  unfold ok. destruct (@pysum NumQ l); cbn in *; tauto.
Qed.

Print Assumptions sumok_Q.
