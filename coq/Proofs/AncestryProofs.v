(* C14: predecessor, successor and discrete-event views are exact views of ancestry. *)
From Coq Require Import Bool List String QArith Lqa Arith Lia.
From Demes Require Import Base.Num Base.Py Model.MDM Model.Ancestry Spec.Valid.
Import ListNotations.
Local Open Scope string_scope.
Local Open Scope list_scope.

Section AncestryProofs.
  Context {N : NumOps} {L : NumLaws N}.

  (* what the views need from validity *)
  Fixpoint AncBefore (earlier : list string) (ds : list deme) : Prop :=
    match ds with
    | [] => True
    | d :: ds' => (forall a, In a (d_anc d) -> In a earlier) /\ ~ In (d_name d) earlier /\
                  ~ In (d_name d) (d_anc d) /\ NoDup (d_anc d) /\ d_epochs d <> [] /\
                  AncBefore (earlier ++ [d_name d]) ds'
    end.

  Record AncOK (g : graph) : Prop := {
    ak_order : AncBefore [] (g_demes g);
    ak_index : g_index g = index_from 0 (g_demes g) }.

  (* ---------------------------------------------------------------- *)
  (* generic facts about lists and association lists                   *)
  (* ---------------------------------------------------------------- *)

  Lemma assoc_app {A} k (l1 l2 : list (string * A)) :
    assoc k (l1 ++ l2) = match assoc k l1 with Some v => Some v | None => assoc k l2 end.
  Proof.
    induction l1 as [|[k' v] l1 IH]; cbn; [reflexivity|].
    destruct (String.eqb k k'); auto.
  Qed.

  Lemma assoc_none_keys {A} k (l : list (string * A)) :
    assoc k l = None <-> ~ In k (map fst l).
  Proof.
    induction l as [|[k' v] l IH]; cbn.
    - tauto.
    - destruct (String.eqb_spec k k') as [E|E].
      + split; [discriminate|]. intros H; exfalso; apply H; left; auto.
      + rewrite IH. split; intros H; [intros [X|X]; [congruence|tauto] | tauto].
  Qed.

  Lemma assoc_in {A} k v (l : list (string * A)) : assoc k l = Some v -> In (k, v) l.
  Proof.
    induction l as [|[k' v'] l IH]; cbn; [discriminate|].
    destruct (String.eqb_spec k k') as [E|E]; intros H.
    - inversion H; subst; auto.
    - auto.
  Qed.

  Lemma in_assoc {A} k v (l : list (string * A)) :
    NoDup (map fst l) -> In (k, v) l -> assoc k l = Some v.
  Proof.
    induction l as [|[k' v'] l IH]; cbn; intros Hnd Hin; [tauto|].
    inversion Hnd as [|? ? Hni Hnd']; subst.
    destruct Hin as [E|Hin].
    - inversion E; subst. rewrite String.eqb_refl. reflexivity.
    - destruct (String.eqb_spec k k') as [E|E].
      + subst. exfalso. apply Hni. change k' with (fst (k', v)). apply in_map; auto.
      + auto.
  Qed.

  Lemma existsb_eqb_iff a l : existsb (String.eqb a) l = true <-> In a l.
  Proof.
    rewrite existsb_exists. split.
    - intros (x & Hx & E). apply String.eqb_eq in E. subst; auto.
    - intros H. exists a. split; auto. apply String.eqb_refl.
  Qed.

  Lemma existsb_eqb_false a l : ~ In a l -> existsb (String.eqb a) l = false.
  Proof.
    intro H. destruct (existsb (String.eqb a) l) eqn:E; auto.
    apply existsb_eqb_iff in E. contradiction.
  Qed.

  Lemma nodup_snoc {A} (l : list A) x : NoDup l -> ~ In x l -> NoDup (l ++ [x]).
  Proof.
    induction l as [|y l IH]; cbn; intros Hnd Hx.
    - constructor; auto.
    - inversion Hnd as [|? ? Hni Hnd']; subst. constructor.
      + rewrite in_app_iff. cbn. intros [X|[X|[]]]; [auto|subst; auto].
      + apply IH; auto.
  Qed.

  Lemma filter_nil {A} (f : A -> bool) l : (forall x, In x l -> f x = false) -> filter f l = [].
  Proof.
    induction l as [|a l IH]; cbn; intro H; [reflexivity|].
    rewrite (H a (or_introl eq_refl)). apply IH. intros x Hx. apply H. now right.
  Qed.

  Lemma filter_snoc {A} (f : A -> bool) l x :
    filter f (l ++ [x]) = filter f l ++ (if f x then [x] else []).
  Proof. rewrite filter_app. reflexivity. Qed.

  Lemma map_id_ext {A} (f : A -> A) l : (forall x, In x l -> f x = x) -> map f l = l.
  Proof.
    induction l as [|a l IH]; cbn; intro H; [reflexivity|].
    rewrite (H a (or_introl eq_refl)). f_equal. apply IH. intros x Hx. apply H. now right.
  Qed.

  (* ---------------------------------------------------------------- *)
  (* consequences of AncBefore                                         *)
  (* ---------------------------------------------------------------- *)

  Lemma ab_fresh E ds : AncBefore E ds -> forall d, In d ds -> ~ In (d_name d) E.
  Proof.
    revert E; induction ds as [|d0 ds IH]; intros E H d Hd; [destruct Hd|].
    cbn in H. destruct H as (_ & Hf & _ & _ & _ & Hr).
    destruct Hd as [<-|Hd]; [assumption|].
    intro Hin. apply (IH _ Hr d Hd). apply in_or_app; auto.
  Qed.

  Lemma ab_nodup E ds : AncBefore E ds -> NoDup (map d_name ds).
  Proof.
    revert E; induction ds as [|d0 ds IH]; intros E H; cbn [map]; [constructor|].
    cbn in H. destruct H as (_ & _ & _ & _ & _ & Hr). constructor.
    - intro Hin. apply in_map_iff in Hin. destruct Hin as (d' & En & Hd').
      apply (ab_fresh _ _ Hr d' Hd'). rewrite En. apply in_or_app; right; left; auto.
    - eauto.
  Qed.

  Lemma ab_anc E ds :
    AncBefore E ds -> forall d a, In d ds -> In a (d_anc d) -> In a (E ++ map d_name ds).
  Proof.
    revert E; induction ds as [|d0 ds IH]; intros E H d a Hd Ha; [destruct Hd|].
    cbn in H. destruct H as (Hanc & _ & _ & _ & _ & Hr). cbn [map].
    destruct Hd as [<-|Hd].
    - apply in_or_app; left; auto.
    - specialize (IH _ Hr d a Hd Ha). rewrite <- app_assoc in IH. exact IH.
  Qed.

  Lemma ab_each E ds :
    AncBefore E ds -> forall d, In d ds ->
    ~ In (d_name d) (d_anc d) /\ NoDup (d_anc d) /\ d_epochs d <> [].
  Proof.
    revert E; induction ds as [|d0 ds IH]; intros E H d Hd; [destruct Hd|].
    cbn in H. destruct H as (_ & _ & H1 & H2 & H3 & Hr).
    destruct Hd as [<-|Hd]; [auto|eauto].
  Qed.

  Lemma nodup_name_eq ds d d' :
    NoDup (map d_name ds) -> In d ds -> In d' ds -> d_name d = d_name d' -> d = d'.
  Proof.
    induction ds as [|d0 ds IH]; cbn; intros Hnd H1 H2 E; [tauto|].
    inversion Hnd as [|? ? Hni Hnd']; subst.
    destruct H1 as [H1|H1], H2 as [H2|H2]; subst; auto.
    - exfalso; apply Hni. rewrite E. apply in_map; auto.
    - exfalso; apply Hni. rewrite <- E. apply in_map; auto.
  Qed.

  Lemma find_name ds d :
    NoDup (map d_name ds) -> In d ds ->
    find (fun x => String.eqb (d_name x) (d_name d)) ds = Some d.
  Proof.
    induction ds as [|d0 ds IH]; cbn; intros Hnd Hin; [tauto|].
    inversion Hnd as [|? ? Hni Hnd']; subst.
    destruct (String.eqb_spec (d_name d0) (d_name d)) as [E|E].
    - f_equal. destruct Hin as [|Hin]; auto. exfalso; apply Hni. rewrite E. apply in_map; auto.
    - destruct Hin as [->|Hin]; [congruence|auto].
  Qed.

  Lemma assoc_index ds : forall i d,
    NoDup (map d_name ds) -> In d ds ->
    exists k, assoc (d_name d) (index_from i ds) = Some (i + k)%nat /\ nth_error ds k = Some d.
  Proof.
    induction ds as [|d0 ds IH]; cbn; intros i d Hnd Hin; [tauto|].
    inversion Hnd as [|? ? Hni Hnd']; subst.
    destruct (String.eqb_spec (d_name d) (d_name d0)) as [E|E].
    - exists 0%nat. rewrite Nat.add_0_r. split; auto. cbn. f_equal.
      destruct Hin as [|Hin]; auto.
      exfalso; apply Hni. rewrite <- E. apply in_map; auto.
    - destruct Hin as [->|Hin]; [congruence|].
      destruct (IH (S i) d Hnd' Hin) as (k & A & B).
      exists (S k). rewrite A. split; [f_equal; lia|exact B].
  Qed.

  Lemma assoc_map_name {A} (f : deme -> A) ds d :
    NoDup (map d_name ds) -> In d ds ->
    assoc (d_name d) (map (fun d => (d_name d, f d)) ds) = Some (f d).
  Proof.
    intros Hnd Hin. apply in_assoc.
    - rewrite map_map. cbn. exact Hnd.
    - apply (in_map (fun d => (d_name d, f d))). exact Hin.
  Qed.

  Lemma assoc_map_name_inv {A} (f : deme -> A) ds a v :
    assoc a (map (fun d => (d_name d, f d)) ds) = Some v ->
    exists d, In d ds /\ d_name d = a /\ v = f d.
  Proof.
    intro H. apply assoc_in in H. apply in_map_iff in H.
    destruct H as (d & E & Hin). inversion E; subst. eauto.
  Qed.

  (* ---------------------------------------------------------------- *)
  (* validity gives AncOK                                              *)
  (* ---------------------------------------------------------------- *)

  Lemma valid_demes_ab E ds : ValidDemes E ds -> AncBefore (map d_name E) ds.
  Proof.
    revert E; induction ds as [|d ds IH]; intros E H; cbn; [exact I|].
    cbn in H. destruct H as [Hv Hr].
    split; [|split; [|split; [|split; [|split]]]].
    - intros a Ha. destruct (vd_anc _ _ Hv a Ha) as (ad & Hin & En & _).
      rewrite <- En. apply in_map; auto.
    - exact (vd_fresh _ _ Hv).
    - intro Hin. destruct (vd_anc _ _ Hv _ Hin) as (ad & Hin' & En & _).
      apply (vd_fresh _ _ Hv). rewrite <- En. apply in_map; auto.
    - exact (vd_anc_nodup _ _ Hv).
    - exact (vd_epochs_ne _ _ Hv).
    - specialize (IH _ Hr). rewrite map_app in IH. exact IH.
  Qed.

  Theorem valid_anc_ok g : Valid g -> AncOK g.
  Proof.
    intro V. constructor.
    - exact (valid_demes_ab [] _ (v_demes _ V)).
    - exact (v_index _ V).
  Qed.

  (* lookups by name return the deme of that name *)
  Theorem lookup_spec g d : AncOK g -> In d (g_demes g) -> lookup g (d_name d) = Ok d.
  Proof.
    intros [Ho Hi] Hin. unfold lookup. rewrite Hi.
    destruct (assoc_index (g_demes g) 0%nat d (ab_nodup _ _ Ho) Hin) as (k & A & B).
    rewrite A. cbn. rewrite B. reflexivity.
  Qed.

  (* ---------------------------------------------------------------- *)
  (* predecessors                                                      *)
  (* ---------------------------------------------------------------- *)

  Lemma append_to_last k x (acc : ndict) v :
    ~ In k (map fst acc) -> append_to k x (acc ++ [(k, v)]) = acc ++ [(k, v ++ [x])].
  Proof.
    induction acc as [|[k' v'] acc IH]; cbn; intros H.
    - rewrite String.eqb_refl. reflexivity.
    - destruct (String.eqb_spec k k') as [E|E]; [exfalso; apply H; auto|].
      rewrite IH; auto.
  Qed.

  Lemma pred_inner k l : forall (acc : ndict) v,
    ~ In k (map fst acc) ->
    fold_left (fun pred a => append_to k a pred) l (acc ++ [(k, v)]) = acc ++ [(k, v ++ l)].
  Proof.
    induction l as [|a l IH]; cbn; intros acc v H.
    - rewrite app_nil_r. reflexivity.
    - rewrite append_to_last by assumption. rewrite IH by assumption.
      rewrite <- app_assoc. reflexivity.
  Qed.

  Lemma pred_step (acc : ndict) d :
    ~ In (d_name d) (map fst acc) ->
    fold_left (fun pred a => append_to (d_name d) a pred) (d_anc d) (setdefault (d_name d) acc)
    = acc ++ [(d_name d, d_anc d)].
  Proof.
    intro H. unfold setdefault. apply assoc_none_keys in H as H'. rewrite H'.
    rewrite pred_inner by assumption. reflexivity.
  Qed.

  Lemma pred_fold ds : forall E (acc : ndict),
    AncBefore E ds -> (forall k, In k (map fst acc) -> In k E) ->
    fold_left (fun pred d =>
                 fold_left (fun pred a => append_to (d_name d) a pred)
                           (d_anc d) (setdefault (d_name d) pred)) ds acc
    = acc ++ map (fun d => (d_name d, d_anc d)) ds.
  Proof.
    induction ds as [|d ds IH]; intros E acc H Hk; cbn [fold_left map].
    - now rewrite app_nil_r.
    - cbn in H. destruct H as (_ & Hf & _ & _ & _ & Hr).
      assert (~ In (d_name d) (map fst acc)) as Hn by (intro X; apply Hf, Hk, X).
      rewrite pred_step by assumption.
      rewrite (IH (E ++ [d_name d])); auto.
      + rewrite <- app_assoc. reflexivity.
      + intros k. rewrite map_app, !in_app_iff. cbn. intros [X|X]; auto.
  Qed.

  (* 1. predecessors: one entry per deme, in deme order, listing its ancestors in order *)
  Theorem pred_spec g :
    AncOK g -> predecessors g = map (fun d => (d_name d, d_anc d)) (g_demes g).
  Proof.
    intros [Ho _]. unfold predecessors.
    rewrite (pred_fold (g_demes g) [] []); [reflexivity|exact Ho|intros k []].
  Qed.

  (* ---------------------------------------------------------------- *)
  (* successors                                                        *)
  (* ---------------------------------------------------------------- *)

  Definition lists (a c : deme) : bool := existsb (String.eqb (d_name a)) (d_anc c).
  Definition succ_of (P : list deme) (a : deme) : string * list string :=
    (d_name a, map d_name (filter (lists a) P)).
  Definition upd (l : list string) (x : string) (D : ndict) : ndict :=
    map (fun kv => (fst kv, if existsb (String.eqb (fst kv)) l then snd kv ++ [x] else snd kv)) D.
  Definition upd1 (a : string) (x : string) (D : ndict) : ndict :=
    map (fun kv => (fst kv, if String.eqb (fst kv) a then snd kv ++ [x] else snd kv)) D.

  Lemma keys_upd l x D : map fst (upd l x D) = map fst D.
  Proof. unfold upd. rewrite map_map. reflexivity. Qed.
  Lemma keys_upd1 a x D : map fst (upd1 a x D) = map fst D.
  Proof. unfold upd1. rewrite map_map. reflexivity. Qed.

  Lemma append_to_upd1 a x (D : ndict) : NoDup (map fst D) -> append_to a x D = upd1 a x D.
  Proof.
    induction D as [|[k v] D IH]; cbn; intros Hnd; [reflexivity|].
    inversion Hnd as [|? ? Hni Hnd']; subst.
    destruct (String.eqb_spec a k) as [E|E].
    - subst. rewrite String.eqb_refl. f_equal. symmetry. apply map_id_ext.
      intros [k' v'] Hin. cbn.
      destruct (String.eqb_spec k' k) as [E|E]; [|reflexivity].
      subst. exfalso. apply Hni. change k with (fst (k, v')). apply in_map; auto.
    - destruct (String.eqb_spec k a) as [E'|E']; [congruence|].
      rewrite IH; auto.
  Qed.

  Lemma succ_inner x : forall l (D : ndict),
    NoDup (map fst D) -> NoDup l -> (forall a, In a l -> In a (map fst D)) ->
    fold_left (fun succ a => append_to a x (setdefault a succ)) l D = upd l x D.
  Proof.
    induction l as [|a l IH]; intros D HD Hl Hsub; cbn [fold_left].
    - unfold upd. cbn. symmetry. apply map_id_ext. intros [k v] _. reflexivity.
    - inversion Hl as [|? ? Hni Hl']; subst.
      assert (setdefault a D = D) as ->.
      { unfold setdefault. destruct (assoc a D) eqn:E; [reflexivity|].
        apply assoc_none_keys in E. exfalso. apply E, Hsub. left; auto. }
      rewrite append_to_upd1 by assumption.
      rewrite IH; auto.
      + unfold upd, upd1. rewrite map_map. apply map_ext. intros [k v]. cbn.
        destruct (String.eqb_spec k a) as [E|E]; cbn; [|reflexivity].
        subst. rewrite (existsb_eqb_false a l Hni). reflexivity.
      + rewrite keys_upd1. exact HD.
      + intros b Hb. rewrite keys_upd1. apply Hsub. right; auto.
  Qed.

  Definition Closed (P : list deme) : Prop :=
    forall c a, In c P -> In a (d_anc c) -> In a (map d_name P).

  Lemma keys_succ_of Q P : map fst (map (succ_of Q) P) = map d_name P.
  Proof. rewrite map_map. reflexivity. Qed.

  Lemma succ_step P d :
    NoDup (map d_name P) -> Closed P -> ~ In (d_name d) (map d_name P) ->
    (forall a, In a (d_anc d) -> In a (map d_name P)) ->
    ~ In (d_name d) (d_anc d) -> NoDup (d_anc d) ->
    fold_left (fun succ a => append_to a (d_name d) (setdefault a succ)) (d_anc d)
              (setdefault (d_name d) (map (succ_of P) P))
    = map (succ_of (P ++ [d])) (P ++ [d]).
  Proof.
    intros Hnd Hcl Hf Hanc Hself Hna.
    assert (setdefault (d_name d) (map (succ_of P) P) = map (succ_of P) P ++ [(d_name d, [])]) as ->.
    { unfold setdefault.
      assert (assoc (d_name d) (map (succ_of P) P) = None) as ->; [|reflexivity].
      apply assoc_none_keys. rewrite keys_succ_of. exact Hf. }
    rewrite succ_inner; auto.
    - unfold upd. rewrite !map_app. f_equal.
      + rewrite map_map. apply map_ext. intros a. unfold succ_of. cbn [fst snd]. f_equal.
        rewrite filter_snoc, map_app. unfold lists.
        destruct (existsb (String.eqb (d_name a)) (d_anc d)); cbn; [reflexivity|].
        rewrite app_nil_r. reflexivity.
      + cbn [map fst snd]. f_equal. unfold succ_of. f_equal.
        rewrite (existsb_eqb_false _ _ Hself).
        rewrite filter_snoc.
        assert (lists d d = false) as -> by (apply existsb_eqb_false; exact Hself).
        rewrite filter_nil; [reflexivity|].
        intros c Hc. apply existsb_eqb_false. intro Hin. apply Hf. eapply Hcl; eauto.
    - rewrite map_app, keys_succ_of. cbn. apply nodup_snoc; auto.
    - intros a Ha. rewrite map_app, keys_succ_of. apply in_or_app. left. auto.
  Qed.

  Lemma succ_fold : forall ds P,
    AncBefore (map d_name P) ds -> NoDup (map d_name P) -> Closed P ->
    fold_left (fun succ d =>
                 fold_left (fun succ a => append_to a (d_name d) (setdefault a succ))
                           (d_anc d) (setdefault (d_name d) succ)) ds (map (succ_of P) P)
    = map (succ_of (P ++ ds)) (P ++ ds).
  Proof.
    induction ds as [|d ds IH]; intros P H Hnd Hcl; cbn [fold_left].
    - rewrite app_nil_r. reflexivity.
    - cbn in H. destruct H as (Hanc & Hf & Hself & Hna & _ & Hr).
      rewrite succ_step by assumption.
      replace (P ++ d :: ds) with ((P ++ [d]) ++ ds) by (rewrite <- app_assoc; reflexivity).
      apply IH.
      + rewrite map_app. exact Hr.
      + rewrite map_app. cbn. apply nodup_snoc; auto.
      + intros c a Hc Ha. rewrite map_app. apply in_or_app.
        apply in_app_or in Hc. destruct Hc as [Hc|[<-|[]]].
        * left. eapply Hcl; eauto.
        * left. auto.
  Qed.

  (* 2. successors: one entry per deme, in deme order; the successors of a are exactly the demes
        that list a as an ancestor, in deme order *)
  Theorem succ_spec g :
    AncOK g ->
    successors g =
      map (fun a => (d_name a,
                     map d_name (filter (fun c => existsb (String.eqb (d_name a)) (d_anc c)) (g_demes g))))
          (g_demes g).
  Proof.
    intros [Ho _]. unfold successors.
    apply (succ_fold (g_demes g) []).
    - exact Ho.
    - constructor.
    - intros c a [].
  Qed.

  (* 3. transpose *)
  Theorem succ_transpose g a c :
    AncOK g ->
    (exists cs, assoc a (successors g) = Some cs /\ In c cs) <->
    (exists ps, assoc c (predecessors g) = Some ps /\ In a ps).
  Proof.
    intros Hg. rewrite (succ_spec g Hg), (pred_spec g Hg).
    destruct Hg as [Ho _]. pose proof (ab_nodup _ _ Ho) as Hnd.
    split.
    - intros (cs & Ha & Hc).
      apply (assoc_map_name_inv
               (fun a => map d_name (filter (fun c => existsb (String.eqb (d_name a)) (d_anc c))
                                            (g_demes g)))) in Ha.
      destruct Ha as (da & Hda & <- & ->).
      apply in_map_iff in Hc. destruct Hc as (dc & <- & Hdc).
      apply filter_In in Hdc. destruct Hdc as [Hdc Hl]. apply existsb_eqb_iff in Hl.
      exists (d_anc dc). split; [|exact Hl].
      apply (assoc_map_name d_anc); auto.
    - intros (ps & Hc & Ha).
      apply (assoc_map_name_inv d_anc) in Hc. destruct Hc as (dc & Hdc & <- & ->).
      pose proof (ab_anc _ _ Ho dc a Hdc Ha) as Hin. cbn in Hin.
      apply in_map_iff in Hin. destruct Hin as (da & <- & Hda).
      eexists. split.
      + apply (assoc_map_name
                 (fun a => map d_name (filter (fun c => existsb (String.eqb (d_name a)) (d_anc c))
                                              (g_demes g)))); auto.
      + apply in_map. apply filter_In. split; auto. apply existsb_eqb_iff. exact Ha.
  Qed.

  (* ---- discrete events ---- *)
  Definition dend_t (d : deme) : num :=
    match rev (d_epochs d) with e :: _ => e_end e | [] => n0 end.

  (* the deme's start coincides with the end of its ancestor named a *)
  Definition aligned_with (g : graph) (d : deme) (a : string) : bool :=
    match find_deme g a with Some ad => neqb (d_start d) (dend_t ad) | None => false end.

  Definition is_split_child (g : graph) (d : deme) : bool :=
    match d_anc d with [p] => aligned_with g d p | _ => false end.
  Definition is_branch (g : graph) (d : deme) : bool :=
    match d_anc d with [p] => negb (aligned_with g d p) | _ => false end.
  Definition is_merger (g : graph) (d : deme) : bool :=
    (2 <=? List.length (d_anc d))%nat && forallb (aligned_with g d) (d_anc d).
  Definition is_admix (g : graph) (d : deme) : bool :=
    (2 <=? List.length (d_anc d))%nat && negb (forallb (aligned_with g d) (d_anc d)).

  (* every deme with ancestors satisfies exactly one of the four *)
  Theorem classify_exactly_once g d :
    d_anc d <> [] ->
    let l := [is_split_child g d; is_branch g d; is_merger g d; is_admix g d] in
    List.length (filter (fun b => b) l) = 1%nat.
  Proof.
    intro Hne. unfold is_split_child, is_branch, is_merger, is_admix.
    destruct (d_anc d) as [|p0 [|p1 l]]; [congruence| |].
    - cbn. destruct (aligned_with g d p0); reflexivity.
    - cbn [List.length Nat.leb andb].
      destruct (forallb (aligned_with g d) (p0 :: p1 :: l)); reflexivity.
  Qed.

  Definition anc_rec (d : deme) := (d_anc d, d_props d, d_name d, d_start d).

  (* the loop body of discrete_events *)
  Definition ev_step (g : graph) (st : ndict * events) (cp : string * list string)
    : res (ndict * events) :=
    let '(splits, ev) := st in
    let '(c, p) := cp in
    match p with
    | [] => Ok st
    | [p0] =>
        dc <- lookup g c ;; dp <- lookup g p0 ;; ep <- d_end dp ;;
        if neqb (d_start dc) ep then Ok (add_child p0 c splits, ev)
        else Ok (splits, mkEvents (ev_splits ev) (ev_branches ev ++ [(p0, c, d_start dc)])
                                  (ev_mergers ev) (ev_admixtures ev))
    | _ =>
        dc <- lookup g c ;;
        aligned <- foldM (fun acc a =>
                            da <- lookup g a ;; ea <- d_end da ;;
                            Ok (if nneq (d_start dc) ea then false else acc)) p true ;;
        let rec := (d_anc dc, d_props dc, c, d_start dc) in
        if aligned then
          Ok (splits, mkEvents (ev_splits ev) (ev_branches ev) (ev_mergers ev ++ [rec])
                               (ev_admixtures ev))
        else
          Ok (splits, mkEvents (ev_splits ev) (ev_branches ev) (ev_mergers ev)
                               (ev_admixtures ev ++ [rec]))
    end.

  Lemma discrete_events_unfold g :
    discrete_events g =
    (st <- foldM (ev_step g) (predecessors g) ([], mkEvents [] [] [] []) ;;
     let '(splits, ev) := st in
     sp <- mapM (fun pc : string * list string =>
                   dp <- lookup g (fst pc) ;; ep <- d_end dp ;;
                   Ok (fst pc, snd pc, ep)) splits ;;
     Ok (mkEvents sp (ev_branches ev) (ev_mergers ev) (ev_admixtures ev))).
  Proof. reflexivity. Qed.

  (* split children of parent p among the demes P, in order *)
  Definition sc_of (g : graph) (p : string) (P : list deme) : list string :=
    map d_name (filter (fun d => is_split_child g d && String.eqb (hd "" (d_anc d)) p) P).
  Definition ne_opt {A} (l : list A) : option (list A) :=
    match l with [] => None | _ => Some l end.

  Lemma ne_opt_default {A} (l : list A) :
    match ne_opt l with Some v => v | None => [] end = l.
  Proof. destruct l; reflexivity. Qed.
  Lemma ne_opt_snoc {A} (l : list A) x : ne_opt (l ++ [x]) = Some (l ++ [x]).
  Proof. destruct l; reflexivity. Qed.
  Lemma ne_opt_some {A} (l cs : list A) : ne_opt l = Some cs -> cs = l /\ l <> [].
  Proof. destruct l; cbn; intro H; inversion H; split; auto; discriminate. Qed.

  Lemma sc_snoc g p P d :
    sc_of g p (P ++ [d]) =
    sc_of g p P ++ (if is_split_child g d && String.eqb (hd "" (d_anc d)) p then [d_name d] else []).
  Proof.
    unfold sc_of. rewrite filter_snoc, map_app.
    destruct (is_split_child g d && String.eqb (hd "" (d_anc d)) p); reflexivity.
  Qed.

  Lemma sc_names g p P c : In c (sc_of g p P) -> In c (map d_name P).
  Proof.
    unfold sc_of. intro H. apply in_map_iff in H. destruct H as (d & <- & Hd).
    apply filter_In in Hd. apply in_map. tauto.
  Qed.

  Lemma sc_nonempty g p P : sc_of g p P <> [] -> exists d, In d P /\ d_anc d = [p].
  Proof.
    unfold sc_of. intro H.
    destruct (filter (fun d => is_split_child g d && String.eqb (hd "" (d_anc d)) p) P)
      as [|d l] eqn:E; [cbn in H; congruence|].
    assert (In d (d :: l)) as Hin by (left; auto). rewrite <- E in Hin.
    apply filter_In in Hin. destruct Hin as [Hin Hc]. apply andb_true_iff in Hc.
    destruct Hc as [Hs He]. exists d. split; auto.
    unfold is_split_child in Hs. destruct (d_anc d) as [|p0 [|p1 l']]; try discriminate.
    cbn in He. apply String.eqb_eq in He. congruence.
  Qed.

  (* dictionary operations through assoc *)
  Lemma assoc_setdefault k p (D : ndict) :
    assoc p (setdefault k D) =
    if String.eqb p k then Some (match assoc k D with Some v => v | None => [] end)
    else assoc p D.
  Proof.
    unfold setdefault. destruct (assoc k D) eqn:E.
    - destruct (String.eqb_spec p k) as [->|]; auto.
    - rewrite assoc_app. cbn.
      destruct (String.eqb_spec p k) as [->|Hne].
      + rewrite E. reflexivity.
      + destruct (assoc p D); reflexivity.
  Qed.

  Lemma nodup_setdefault k (D : ndict) : NoDup (map fst D) -> NoDup (map fst (setdefault k D)).
  Proof.
    intro H. unfold setdefault. destruct (assoc k D) eqn:E; [exact H|].
    rewrite map_app. cbn. apply nodup_snoc; auto. apply assoc_none_keys. exact E.
  Qed.

  Lemma keys_append_to k x (D : ndict) : map fst (append_to k x D) = map fst D.
  Proof.
    induction D as [|[k' v] D IH]; cbn; [reflexivity|].
    destruct (String.eqb k k'); cbn; [reflexivity|]. rewrite IH. reflexivity.
  Qed.

  Lemma assoc_append_to k x p (D : ndict) :
    assoc p (append_to k x D) =
    if String.eqb p k then option_map (fun v => v ++ [x]) (assoc k D) else assoc p D.
  Proof.
    induction D as [|[k' v] D IH]; cbn.
    - destruct (String.eqb p k); reflexivity.
    - destruct (String.eqb_spec k k') as [E|E]; cbn.
      + subst k'. destruct (String.eqb_spec p k); reflexivity.
      + destruct (String.eqb_spec p k') as [E1|E1].
        * subst k'. destruct (String.eqb_spec p k); [congruence|reflexivity].
        * exact IH.
  Qed.

  Lemma add_child_spec p0 c (D : ndict) :
    NoDup (map fst D) ->
    (forall cs, assoc p0 D = Some cs -> ~ In c cs) ->
    NoDup (map fst (add_child p0 c D)) /\
    forall p, assoc p (add_child p0 c D) =
      if String.eqb p p0
      then Some (match assoc p0 D with Some cs => cs | None => [] end ++ [c])
      else assoc p D.
  Proof.
    intros Hnd Hc. unfold add_child.
    set (cs0 := match assoc p0 D with Some v => v | None => [] end).
    assert (assoc p0 (setdefault p0 D) = Some cs0) as H0
      by (rewrite assoc_setdefault, String.eqb_refl; reflexivity).
    rewrite H0.
    assert (existsb (String.eqb c) cs0 = false) as ->.
    { apply existsb_eqb_false. unfold cs0. destruct (assoc p0 D) eqn:E2; [|intros []].
      eapply Hc; eauto. }
    split.
    - rewrite keys_append_to. apply nodup_setdefault; auto.
    - intro p. rewrite assoc_append_to.
      destruct (String.eqb_spec p p0) as [E|E].
      + rewrite H0. reflexivity.
      + rewrite assoc_setdefault. destruct (String.eqb_spec p p0); [contradiction|reflexivity].
  Qed.

  (* loop invariant *)
  Record EvInv (g : graph) (P : list deme) (D : ndict) (ev : events) : Prop := {
    ei_br : ev_branches ev = map (fun d => (hd "" (d_anc d), d_name d, d_start d))
                                 (filter (is_branch g) P);
    ei_mg : ev_mergers ev = map anc_rec (filter (is_merger g) P);
    ei_ad : ev_admixtures ev = map anc_rec (filter (is_admix g) P);
    ei_nd : NoDup (map fst D);
    ei_sp : forall p, assoc p D = ne_opt (sc_of g p P) }.

  Definition AncFound (g : graph) (a : string) : Prop :=
    exists ad, lookup g a = Ok ad /\ find_deme g a = Some ad /\ d_end ad = Ok (dend_t ad).
  Definition DemeOK (g : graph) (d : deme) : Prop :=
    lookup g (d_name d) = Ok d /\ forall a, In a (d_anc d) -> AncFound g a.

  Lemma d_end_ok d : d_epochs d <> [] -> d_end d = Ok (dend_t d).
  Proof.
    intro H. unfold d_end, dend_t. destruct (rev (d_epochs d)) eqn:E; [|reflexivity].
    exfalso. apply H. rewrite <- (rev_involutive (d_epochs d)), E. reflexivity.
  Qed.

  Lemma anc_found_in g d : AncOK g -> In d (g_demes g) -> AncFound g (d_name d).
  Proof.
    intros Hg Hin. exists d. split; [apply lookup_spec; auto|]. destruct Hg as [Ho _]. split.
    - unfold find_deme. apply find_name; auto. eapply ab_nodup; eauto.
    - apply d_end_ok. eapply ab_each; eauto.
  Qed.

  Lemma deme_ok g d : AncOK g -> In d (g_demes g) -> DemeOK g d.
  Proof.
    intros Hg Hin. split; [apply lookup_spec; auto|].
    intros a Ha. pose proof (ab_anc _ _ (ak_order _ Hg) d a Hin Ha) as H. cbn in H.
    apply in_map_iff in H. destruct H as (ad & <- & Had). apply anc_found_in; auto.
  Qed.

  Lemma aligned_fold g d l :
    (forall a, In a l -> AncFound g a) ->
    forall acc,
    foldM (fun acc a => da <- lookup g a ;; ea <- d_end da ;;
                        Ok (if nneq (d_start d) ea then false else acc)) l acc
    = Ok (acc && forallb (aligned_with g d) l).
  Proof.
    induction l as [|a l IH]; intros H acc; cbn [foldM forallb].
    - rewrite andb_true_r. reflexivity.
    - destruct (H a (or_introl eq_refl)) as (ad & A & B & C).
      rewrite A. cbn [bind]. rewrite C. cbn [bind].
      rewrite IH by (intros b Hb; apply H; right; auto). f_equal.
      assert (aligned_with g d a = neqb (d_start d) (dend_t ad)) as ->
        by (unfold aligned_with; rewrite B; reflexivity).
      unfold nneq. destruct (neqb (d_start d) (dend_t ad)), acc; reflexivity.
  Qed.

  Lemma ev_inv_same g P D ev d :
    is_split_child g d = false -> is_branch g d = false ->
    is_merger g d = false -> is_admix g d = false ->
    EvInv g P D ev -> EvInv g (P ++ [d]) D ev.
  Proof.
    intros H1 H2 H3 H4 [I1 I2 I3 I4 I5]. constructor; auto.
    - rewrite filter_snoc, H2, app_nil_r. exact I1.
    - rewrite filter_snoc, H3, app_nil_r. exact I2.
    - rewrite filter_snoc, H4, app_nil_r. exact I3.
    - intro p. rewrite sc_snoc, H1. cbn. rewrite app_nil_r. apply I5.
  Qed.

  Lemma ev_step_ok g P D ev d :
    DemeOK g d -> ~ In (d_name d) (map d_name P) -> EvInv g P D ev ->
    exists D' ev', ev_step g (D, ev) (d_name d, d_anc d) = Ok (D', ev') /\
                   EvInv g (P ++ [d]) D' ev'.
  Proof.
    intros [Hl Hanc] Hfresh Inv. unfold ev_step.
    destruct (d_anc d) as [|p0 [|p1 l]] eqn:Ea.
    - exists D, ev. split; [reflexivity|].
      apply ev_inv_same; auto; unfold is_split_child, is_branch, is_merger, is_admix;
        rewrite Ea; reflexivity.
    - destruct (Hanc p0 (or_introl eq_refl)) as (ad & A & B & C).
      rewrite Hl. cbn [bind]. rewrite A. cbn [bind]. rewrite C. cbn [bind].
      assert (aligned_with g d p0 = neqb (d_start d) (dend_t ad)) as Hal
        by (unfold aligned_with; rewrite B; reflexivity).
      assert (is_merger g d = false) as Hm by (unfold is_merger; rewrite Ea; reflexivity).
      assert (is_admix g d = false) as Hx by (unfold is_admix; rewrite Ea; reflexivity).
      assert (is_split_child g d = aligned_with g d p0) as Hs
        by (unfold is_split_child; rewrite Ea; reflexivity).
      assert (is_branch g d = negb (aligned_with g d p0)) as Hb
        by (unfold is_branch; rewrite Ea; reflexivity).
      rewrite Hal in Hs, Hb.
      destruct Inv as [I1 I2 I3 I4 I5].
      destruct (neqb (d_start d) (dend_t ad)) eqn:En; cbn in Hs, Hb.
      + (* split child *)
        destruct (add_child_spec p0 (d_name d) D I4) as [K1 K2].
        { intros cs Hcs Hin. rewrite I5 in Hcs. apply ne_opt_some in Hcs.
          destruct Hcs as [-> _]. apply Hfresh. eapply sc_names; eauto. }
        eexists _, _. split; [reflexivity|]. constructor; auto.
        * rewrite filter_snoc, Hb, app_nil_r. exact I1.
        * rewrite filter_snoc, Hm, app_nil_r. exact I2.
        * rewrite filter_snoc, Hx, app_nil_r. exact I3.
        * intro p. rewrite K2, sc_snoc, Hs, Ea. cbn [hd andb].
          rewrite (String.eqb_sym p0 p).
          destruct (String.eqb_spec p p0) as [->|Hne].
          -- rewrite I5, ne_opt_default, ne_opt_snoc. reflexivity.
          -- rewrite app_nil_r. apply I5.
      + (* branch *)
        eexists _, _. split; [reflexivity|]. constructor; cbn; auto.
        * rewrite filter_snoc, Hb, map_app, <- I1. cbn. rewrite Ea. reflexivity.
        * rewrite filter_snoc, Hm, app_nil_r. exact I2.
        * rewrite filter_snoc, Hx, app_nil_r. exact I3.
        * intro p. rewrite sc_snoc, Hs. cbn. rewrite app_nil_r. apply I5.
    - rewrite Hl. cbn [bind].
      rewrite (aligned_fold g d (p0 :: p1 :: l)) by exact Hanc.
      cbn [bind andb].
      assert (is_split_child g d = false) as Hs by (unfold is_split_child; rewrite Ea; reflexivity).
      assert (is_branch g d = false) as Hb by (unfold is_branch; rewrite Ea; reflexivity).
      assert (is_merger g d = forallb (aligned_with g d) (p0 :: p1 :: l)) as Hm
        by (unfold is_merger; rewrite Ea; reflexivity).
      assert (is_admix g d = negb (forallb (aligned_with g d) (p0 :: p1 :: l))) as Hx
        by (unfold is_admix; rewrite Ea; reflexivity).
      destruct Inv as [I1 I2 I3 I4 I5].
      destruct (forallb (aligned_with g d) (p0 :: p1 :: l)) eqn:Ef; cbn in Hx.
      + eexists _, _. split; [reflexivity|]. constructor; cbn; auto.
        * rewrite filter_snoc, Hb, app_nil_r. exact I1.
        * rewrite filter_snoc, Hm, map_app, <- I2. cbn. unfold anc_rec. rewrite Ea. reflexivity.
        * rewrite filter_snoc, Hx, app_nil_r. exact I3.
        * intro p. rewrite sc_snoc, Hs. cbn. rewrite app_nil_r. apply I5.
      + eexists _, _. split; [reflexivity|]. constructor; cbn; auto.
        * rewrite filter_snoc, Hb, app_nil_r. exact I1.
        * rewrite filter_snoc, Hm, app_nil_r. exact I2.
        * rewrite filter_snoc, Hx, map_app, <- I3. cbn. unfold anc_rec. rewrite Ea. reflexivity.
        * intro p. rewrite sc_snoc, Hs. cbn. rewrite app_nil_r. apply I5.
  Qed.

  Lemma ev_fold g : forall R P D ev,
    (forall d, In d R -> DemeOK g d) -> NoDup (map d_name (P ++ R)) -> EvInv g P D ev ->
    exists D' ev',
      foldM (ev_step g) (map (fun d => (d_name d, d_anc d)) R) (D, ev) = Ok (D', ev') /\
      EvInv g (P ++ R) D' ev'.
  Proof.
    induction R as [|d R IH]; intros P D ev Hok Hnd Inv; cbn [map foldM].
    - exists D, ev. rewrite app_nil_r. auto.
    - assert (~ In (d_name d) (map d_name P)) as Hf.
      { rewrite map_app in Hnd. cbn in Hnd. apply NoDup_remove_2 in Hnd.
        intro X. apply Hnd. apply in_or_app. left; auto. }
      destruct (ev_step_ok g P D ev d (Hok d (or_introl eq_refl)) Hf Inv) as (D1 & ev1 & E1 & Inv1).
      rewrite E1. cbn [bind].
      replace (P ++ d :: R) with ((P ++ [d]) ++ R) in * by (rewrite <- app_assoc; reflexivity).
      apply IH; auto. intros d' Hd'. apply Hok. right; auto.
  Qed.

  Lemma mapM_ok {A B} (f : A -> res B) (h : A -> B) l :
    (forall x, In x l -> f x = Ok (h x)) -> mapM f l = Ok (map h l).
  Proof.
    induction l as [|a l IH]; intro H; cbn [mapM map]; [reflexivity|].
    rewrite (H a (or_introl eq_refl)). cbn [bind].
    rewrite IH by (intros x Hx; apply H; right; auto). reflexivity.
  Qed.

  (* 4. the event lists are exactly the four classes, in deme order, with the deme's own
        time, parents and proportions; each split groups all split-children of one parent.
        (The non-NaN hypothesis of events_spec below is not needed.) *)
  Theorem events_spec_strong g :
    AncOK g ->
    exists ev, discrete_events g = Ok ev /\
      ev_branches ev = map (fun d => (hd "" (d_anc d), d_name d, d_start d))
                           (filter (is_branch g) (g_demes g)) /\
      ev_mergers ev = map anc_rec (filter (is_merger g) (g_demes g)) /\
      ev_admixtures ev = map anc_rec (filter (is_admix g) (g_demes g)) /\
      NoDup (map (fun s => fst (fst s)) (ev_splits ev)) /\
      (forall p cs t, In (p, cs, t) (ev_splits ev) <->
         cs <> [] /\
         cs = map d_name (filter (fun d => is_split_child g d && String.eqb (hd "" (d_anc d)) p)
                                 (g_demes g)) /\
         exists pd, find_deme g p = Some pd /\ t = dend_t pd).
  Proof.
    intro Hg.
    destruct (ev_fold g (g_demes g) [] [] (mkEvents [] [] [] [])) as (D & ev & Ef & Inv).
    { intros d Hd. apply deme_ok; auto. }
    { cbn. eapply ab_nodup. exact (ak_order _ Hg). }
    { constructor; cbn; auto. constructor. }
    cbn [app] in Inv. destruct Inv as [I1 I2 I3 I4 I5].
    set (h := fun pc : string * list string =>
                (fst pc, snd pc,
                 match find_deme g (fst pc) with Some pd => dend_t pd | None => n0 end)).
    assert (forall p cs, In (p, cs) D -> AncFound g p) as Hkeys.
    { intros p cs Hin. apply in_assoc in Hin; auto. rewrite I5 in Hin.
      apply ne_opt_some in Hin. destruct Hin as [_ Hne].
      apply sc_nonempty in Hne. destruct Hne as (d & Hd & Ea).
      destruct (deme_ok g d Hg Hd) as [_ Hanc]. apply Hanc. rewrite Ea. left; auto. }
    rewrite discrete_events_unfold, (pred_spec g Hg). unfold ndict in *. rewrite Ef. cbn [bind].
    rewrite (mapM_ok _ h).
    2:{ intros [p cs] Hin. destruct (Hkeys p cs Hin) as (ad & A & B & C).
        cbn [fst snd]. rewrite A. cbn [bind]. rewrite C. cbn [bind].
        unfold h. cbn [fst snd]. rewrite B. reflexivity. }
    cbn [bind]. eexists. split; [reflexivity|]. cbn [ev_branches ev_mergers ev_admixtures ev_splits].
    split; [exact I1|]. split; [exact I2|]. split; [exact I3|]. split.
    - rewrite map_map. cbn. exact I4.
    - intros p cs t. fold (sc_of g p (g_demes g)). split.
      + intro Hin. apply in_map_iff in Hin. destruct Hin as ([p' cs'] & E & Hin).
        unfold h in E. cbn [fst snd] in E. inversion E; subst p' cs'. clear E.
        destruct (Hkeys p cs Hin) as (ad & A & B & C). rewrite B.
        apply in_assoc in Hin; auto. rewrite I5 in Hin. apply ne_opt_some in Hin.
        destruct Hin as [-> Hne]. split; [exact Hne|]. split; [reflexivity|]. eauto.
      + intros (Hne & -> & pd & Hpd & ->).
        apply in_map_iff. exists (p, sc_of g p (g_demes g)). split.
        * unfold h. cbn [fst snd]. rewrite Hpd. reflexivity.
        * apply assoc_in. rewrite I5. destruct (sc_of g p (g_demes g)); [congruence|reflexivity].
  Qed.

  Theorem events_spec g :
    AncOK g ->
    (forall d, In d (g_demes g) -> ok (d_start d) /\ ok (dend_t d)) ->
    exists ev, discrete_events g = Ok ev /\
      ev_branches ev = map (fun d => (hd "" (d_anc d), d_name d, d_start d))
                           (filter (is_branch g) (g_demes g)) /\
      ev_mergers ev = map anc_rec (filter (is_merger g) (g_demes g)) /\
      ev_admixtures ev = map anc_rec (filter (is_admix g) (g_demes g)) /\
      NoDup (map (fun s => fst (fst s)) (ev_splits ev)) /\
      (forall p cs t, In (p, cs, t) (ev_splits ev) <->
         cs <> [] /\
         cs = map d_name (filter (fun d => is_split_child g d && String.eqb (hd "" (d_anc d)) p)
                                 (g_demes g)) /\
         exists pd, find_deme g p = Some pd /\ t = dend_t pd).
  Proof. intros Hg _. apply events_spec_strong. exact Hg. Qed.
End AncestryProofs.

Print Assumptions valid_anc_ok.
Print Assumptions lookup_spec.
Print Assumptions pred_spec.
Print Assumptions succ_spec.
Print Assumptions succ_transpose.
Print Assumptions classify_exactly_once.
Print Assumptions events_spec_strong.
Print Assumptions events_spec.
