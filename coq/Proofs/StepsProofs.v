(* C20 — every cost function of Model/Steps.v is bounded by a low-degree polynomial in the
   size of the graph (number of demes + epochs + ancestor references + migrations + pulses +
   pulse sources). *)
From Coq Require Import Bool List String Arith Lia.
From Demes Require Import Base.Num Base.Py Model.MDM Model.MigMat Model.Steps.
Import ListNotations.
Local Open Scope list_scope.

Section StepsProofs.
  Context {N : NumOps}.

  Lemma insert_desc_length (x : num) (l : list num) :
    List.length (insert_desc x l) <= S (List.length l).
  Proof.
    induction l as [|y l IH]; simpl.
    - lia.
    - destruct (neqb x y); simpl; [lia|].
      destruct (nlt y x); simpl; lia.
  Qed.

  Lemma fold_insert_desc_length (xs acc : list num) :
    List.length (fold_left (fun acc x => insert_desc x acc) xs acc)
    <= List.length xs + List.length acc.
  Proof.
    revert acc. induction xs as [|x xs IH]; intros acc; simpl.
    - lia.
    - specialize (IH (insert_desc x acc)).
      pose proof (insert_desc_length x acc) as Hi. lia.
  Qed.

  Lemma uniq_desc_length (xs : list num) : List.length (uniq_desc xs) <= List.length xs.
  Proof.
    unfold uniq_desc. pose proof (fold_insert_desc_length xs []) as H. simpl in H. lia.
  Qed.

  Lemma filter_length_le {A} (f : A -> bool) (l : list A) :
    List.length (filter f l) <= List.length l.
  Proof.
    induction l as [|a l IH]; simpl; [lia|]. destruct (f a); simpl; lia.
  Qed.

  (* the set of end times has at most one element per migration bound, plus the final 0 *)
  Theorem end_times_count (ms : list mig) : List.length (mm_end_times ms) <= 2 * List.length ms + 1.
  Proof.
    unfold mm_end_times.
    set (fin := filter (fun x => negb (neqb x ninf)) (map m_start ms ++ map m_end ms)).
    assert (Hfin : List.length fin <= 2 * List.length ms).
    { unfold fin.
      pose proof (filter_length_le (fun x => negb (neqb x ninf)) (map m_start ms ++ map m_end ms)) as Hf.
      rewrite app_length, !map_length in Hf. lia. }
    pose proof (uniq_desc_length fin) as Hu.
    destruct (last_opt (uniq_desc fin)) as [z|]; simpl.
    - destruct (negb (neqb z n0)).
      + rewrite app_length. simpl. lia.
      + lia.
    - lia.
  Qed.

  Theorem nT_bound g : nT g <= 2 * nM g + 1.
  Proof. unfold nT, nM. apply end_times_count. Qed.

  Theorem steps_in_generations_linear g : steps_in_generations g <= gsize g.
  Proof. unfold steps_in_generations, gsize. lia. Qed.
  Theorem steps_asdict_linear g : steps_asdict g <= gsize g.
  Proof. unfold steps_asdict. lia. Qed.
  Theorem steps_events_linear g : steps_events g <= gsize g.
  Proof. unfold steps_events, gsize. lia. Qed.
  Theorem steps_to_ms_linear g : steps_to_ms g <= 2 * gsize g.
  Proof. unfold steps_to_ms, gsize. lia. Qed.

  Lemma migmat_arith (T D M s : nat) :
    T <= 2 * M + 1 -> D + M <= s -> T * (D + M) + M <= 2 * s * s + 2 * s.
  Proof.
    intros HT Hs.
    assert (H1 : T * (D + M) <= (2 * s + 1) * s).
    { apply Nat.mul_le_mono; lia. }
    lia.
  Qed.

  Theorem steps_migmat_quadratic g : steps_migmat g <= 3 * (gsize g + 1) * (gsize g + 1).
  Proof.
    pose proof (nT_bound g) as HT.
    assert (Hs : nD g + nM g <= gsize g) by (unfold gsize; lia).
    unfold steps_migmat.
    pose proof (migmat_arith (nT g) (nD g) (nM g) (gsize g) HT Hs) as H.
    generalize dependent (gsize g). intros s _ H. clear HT.
    generalize dependent (nT g * (nD g + nM g) + nM g). intros x Hx.
    lia.
  Qed.

  Lemma fromdict_arith (T D E A M P S s x : nat) :
    T <= 2 * M + 1 -> s = D + E + A + M + P + S -> x <= 2 * s * s + 2 * s ->
    D + E + A + M * M + x + T * D + P * P + S <= 8 * (s + 1) * (s + 1).
  Proof.
    intros HT Hs Hx.
    assert (HM : M * M <= s * s) by (apply Nat.mul_le_mono; lia).
    assert (HP : P * P <= s * s) by (apply Nat.mul_le_mono; lia).
    assert (HTD : T * D <= (2 * s + 1) * s) by (apply Nat.mul_le_mono; lia).
    assert (Hl : D + E + A + S <= s) by lia.
    clear Hs HT.
    remember (s * s) as q eqn:Hq.
    assert (Hc : 8 * (s + 1) * (s + 1) = 8 * q + 16 * s + 8) by (subst q; ring).
    rewrite Hc.
    assert (Hd : (2 * s + 1) * s = 2 * q + s) by (subst q; ring).
    rewrite Hd in HTD.
    assert (Hx' : x <= 2 * q + 2 * s) by (subst q; lia).
    lia.
  Qed.

  Theorem steps_fromdict_quadratic g : steps_fromdict g <= 8 * (gsize g + 1) * (gsize g + 1).
  Proof.
    unfold steps_fromdict.
    apply fromdict_arith.
    - apply nT_bound.
    - reflexivity.
    - apply migmat_arith; [apply nT_bound | unfold gsize; lia].
  Qed.
End StepsProofs.

Print Assumptions end_times_count.
Print Assumptions nT_bound.
Print Assumptions steps_in_generations_linear.
Print Assumptions steps_asdict_linear.
Print Assumptions steps_events_linear.
Print Assumptions steps_to_ms_linear.
Print Assumptions steps_migmat_quadratic.
Print Assumptions steps_fromdict_quadratic.
