(* C08 — end to end for migration rates: the graph demes.from_ms returns for an ms command has,
   for every ordered pair of populations and at every time, exactly one migration in force when
   the ms semantics (Spec/MsSem.v) has a non-zero entry M[a][b] in force at that time, with rate
   (numerically that entry) / (4*N0), and none when the entry is zero.
   Composition of: init_refine + from_ms_history (Proofs/FromMsRefine.v, FromMsHistory.v: the
   history of matrices is the semantics' matrix, interval by interval), migs_from_matrices_sound
   (Proofs/MigsFromMatrices.v: the records are the inverse of the history), the division of each
   rate by 4*N0 in build_doc, and the resolution of the explicit migration records by fromdict
   (Proofs/ResolveRules.v: *_inv lemmas). *)
From Coq Require Import Bool List String Ascii QArith Lqa Lia Arith Permutation.
From Demes Require Import Base.Num Base.Py Model.MDM Model.Codec Model.Resolve Model.MsOpt Model.FromMs
  Spec.Valid Spec.MsSem Proofs.ResolveInv Proofs.ResolveDemes Proofs.ResolveMigs Proofs.ResolvePulses
  Proofs.ResolveValid Proofs.ResolveRules Proofs.MsProofs Proofs.FromMsRefine
  Proofs.FromMsHistory Proofs.MigsFromMatrices.
Import ListNotations.
Local Open Scope string_scope.
Local Open Scope list_scope.

(* ---------- deme names: "deme" ++ decimal(k) is injective ---------- *)
Section DemeNames.
  Local Open Scope nat_scope.

  Fixpoint parse_dec (acc : nat) (s : string) : nat :=
    match s with
    | EmptyString => acc
    | String c s' => parse_dec (10 * acc + (nat_of_ascii c - 48)) s'
    end.

  Lemma parse_digits : forall f n sfx, n < f -> parse_dec 0 (digits f n sfx) = parse_dec n sfx.
  Proof.
    induction f as [|f IH]; intros n sfx Hn; [lia|].
    cbn [digits]. cbv zeta.
    pose proof (Nat.mod_upper_bound n 10) as Hm.
    destruct (Nat.ltb_spec n 10) as [H|H].
    - cbn [parse_dec]. rewrite nat_ascii_embedding by lia.
      rewrite Nat.mod_small by lia. f_equal. lia.
    - rewrite IH.
      + cbn [parse_dec]. rewrite nat_ascii_embedding by lia. f_equal.
        pose proof (Nat.div_mod n 10). lia.
      + assert (n / 10 < n) by (apply Nat.div_lt; lia). lia.
  Qed.

  Lemma append_inj_l p : forall x y, (p ++ x)%string = (p ++ y)%string -> x = y.
  Proof. induction p as [|c p IH]; intros x y H; cbn in H; [exact H|]. injection H as H. auto. Qed.

  Lemma deme_name_inj a b : deme_name a = deme_name b -> a = b.
  Proof.
    unfold deme_name. intro H. apply append_inj_l in H.
    apply (f_equal (parse_dec 0)) in H. rewrite !parse_digits in H by lia. exact H.
  Qed.

  Definition dnames (n : nat) : list string := map (fun k => deme_name (S k)) (seq 0 n).

  Lemma dnames_length n : List.length (dnames n) = n.
  Proof. unfold dnames. now rewrite map_length, seq_length. Qed.

  Lemma dnames_nth n k : k < n -> nth k (dnames n) "" = deme_name (S k).
  Proof.
    intro H. unfold dnames. rewrite (nth_map' _ _ k "" 0) by now rewrite seq_length.
    now rewrite seq_nth.
  Qed.

  Lemma dnames_S n : dnames (S n) = dnames n ++ [deme_name (S n)].
  Proof. unfold dnames. rewrite seq_S, map_app. reflexivity. Qed.

  Lemma dnames_NoDup n : NoDup (dnames n).
  Proof.
    unfold dnames. generalize (seq_NoDup n 0). generalize (seq 0 n).
    induction 1 as [|x l Hx _ IH]; cbn [map]; constructor; auto.
    intro Hin. apply in_map_iff in Hin. destruct Hin as (y & E & Hy).
    apply deme_name_inj in E. injection E as ->. contradiction.
  Qed.
End DemeNames.

(* ---------- generic list facts ---------- *)
Section ListFacts2.
  Local Open Scope nat_scope.

  Lemma nth_mapi_gen {A B} (f : nat -> A -> B) l : forall k0 i d d',
    nth i (mapi k0 f l) d = if Nat.ltb i (List.length l) then f (k0 + i) (nth i l d') else d.
  Proof.
    intros k0 i d d'. destruct (Nat.ltb_spec i (List.length l)) as [H|H].
    - now apply nth_mapi.
    - apply nth_overflow. now rewrite mapi_length.
  Qed.

  Lemma nth_upd_gen {A} (f : A -> A) l : forall i k d,
    nth k (upd i f l) d = if Nat.eqb k i && Nat.ltb k (List.length l) then f (nth k l d) else nth k l d.
  Proof.
    intros i k d. destruct (Nat.ltb_spec k (List.length l)) as [H|H].
    - rewrite nth_upd by exact H. now rewrite andb_true_r.
    - rewrite andb_false_r. rewrite !nth_overflow; auto. now rewrite upd_length.
  Qed.

  Lemma filter_map_comm {A B} (f : A -> B) (p : B -> bool) (q : A -> bool) l :
    (forall x, p (f x) = q x) -> filter p (map f l) = map f (filter q l).
  Proof.
    intro H. induction l as [|a l IH]; cbn; [reflexivity|].
    rewrite H. destruct (q a); cbn; now rewrite IH.
  Qed.

  Lemma filter_filter_le {A} (p q : A -> bool) l :
    List.length (filter p (filter q l)) <= List.length (filter p l).
  Proof.
    induction l as [|a l IH]; cbn; [lia|].
    destruct (q a); cbn; destruct (p a); cbn; lia.
  Qed.

  Lemma fold_left_ext_in {A B} (f g : A -> B -> A) l :
    (forall a x, In x l -> f a x = g a x) -> forall a, fold_left f l a = fold_left g l a.
  Proof.
    induction l as [|x l IH]; intros H a; cbn; [reflexivity|].
    rewrite (H a x) by now left. apply IH. intros a' y Hy. apply H. now right.
  Qed.
End ListFacts2.

Section FromMsRates.
  Context {N : NumOps} {L : NumLaws N}.

  (* the migrations of g for the ordered pair src -> dst in force at (generation) time t *)
  Definition gmigs_in_force (g : graph) (src dst : string) (t : num) : list mig :=
    filter (fun m => String.eqb (m_src m) src && String.eqb (m_dst m) dst && activeb m t) (g_migs g).

  (* ====================================================================================== *)
  (* 1. Invariants of the interpreter: deme k is named deme_name (S k); the number of demes
        is the initial number plus the number of -es events                                *)
  Local Open Scope nat_scope.

  Definition NmInv (s : bstate) : Prop := map bd_name (b_demes s) = dnames (b_n s).

  Lemma epoch_resolve_name d time d' : epoch_resolve d time = Ok d' -> bd_name d' = bd_name d.
  Proof.
    unfold epoch_resolve. destruct (bd_epochs d) as [|e rest]; [discriminate|].
    intro H. mraise H H1. destruct (ngt time (be_end e)).
    - mbind H x Hx. now injection H as <-.
    - now injection H as <-.
  Qed.

  Lemma edit_head_name f d : bd_name (edit_head f d) = bd_name d.
  Proof. unfold edit_head. now destruct (bd_epochs d). Qed.

  Lemma set_growth_name time g d d' : set_growth time g d = Ok d' -> bd_name d' = bd_name d.
  Proof.
    unfold set_growth. destruct (bd_epochs d) as [|e rest]; [discriminate|].
    destruct (nneq (growth_of e) g).
    - intro H. mbind H d1 H1. injection H as <-. rewrite edit_head_name.
      eapply epoch_resolve_name; eauto.
    - intro H. now injection H as <-.
  Qed.

  Lemma set_size_name time sz r d d' : set_size time sz r d = Ok d' -> bd_name d' = bd_name d.
  Proof.
    unfold set_size. destruct (bd_epochs d) as [|e rest]; [discriminate|].
    destruct (nneq (growth_of e) n0 || nneq (be_esize e) sz).
    - intro H. mbind H d1 H1. injection H as <-. rewrite edit_head_name.
      eapply epoch_resolve_name; eauto.
    - intro H. now injection H as <-.
  Qed.

  Lemma mapiM_names (f : nat -> bdeme -> res bdeme) :
    (forall j d d', f j d = Ok d' -> bd_name d' = bd_name d) ->
    forall l i l', mapiM i f l = Ok l' -> map bd_name l' = map bd_name l.
  Proof.
    intros Hf. induction l as [|x l IH]; intros i l' H; cbn in H.
    - now injection H as <-.
    - mbind H y Hy. mbind H r Hr. injection H as <-. cbn. rewrite (Hf _ _ _ Hy). f_equal. eauto.
  Qed.

  Lemma updM_names (f : bdeme -> res bdeme) :
    (forall d d', f d = Ok d' -> bd_name d' = bd_name d) ->
    forall l i l', updM i f l = Ok l' -> map bd_name l' = map bd_name l.
  Proof.
    intros Hf. induction l as [|x l IH]; intros i l' H; destruct i; cbn in H; try discriminate.
    - mbind H y Hy. injection H as <-. cbn. now rewrite (Hf _ _ Hy).
    - mbind H r Hr. injection H as <-. cbn. f_equal. eauto.
  Qed.

  Lemma mapM_names_bd (f : bdeme -> res bdeme) :
    (forall d d', f d = Ok d' -> bd_name d' = bd_name d) ->
    forall l l', mapM f l = Ok l' -> map bd_name l' = map bd_name l.
  Proof.
    intros Hf. induction l as [|x l IH]; intros l' H; cbn in H.
    - now injection H as <-.
    - mbind H y Hy. mbind H r Hr. injection H as <-. cbn. rewrite (Hf _ _ Hy). f_equal. eauto.
  Qed.

  Lemma touch_demes f s time :
    b_demes (edit_matrix f (matrix_at s time)) = b_demes s /\
    b_n (edit_matrix f (matrix_at s time)) = b_n s.
  Proof.
    unfold matrix_at.
    destruct (b_mms s) as [|m rest] eqn:Em; destruct (b_ends s) as [|e ends] eqn:Ee;
      unfold edit_matrix; rewrite ?Em; cbn; auto.
    - destruct (ngt time e); cbn; rewrite ?Em; cbn; auto.
  Qed.

  Definition nsplit (e : msev) : nat := if is_split e then 1 else 0.

  Lemma step_nm N0 time s gs e s' gs' :
    NmInv s -> step N0 time (s, gs) e = Ok (s', gs') ->
    NmInv s' /\ b_n s' = b_n s + nsplit e.
  Proof.
    unfold NmInv, nsplit. intros HI Hs.
    destruct e as [t a|t i a|t x|t i x timed|t x|t i j x|t np m ini|t i p|t i j]; unfold step in Hs;
      cbn [is_split]; rewrite ?Nat.add_0_r.
    - mbind Hs g Hg. mbind Hs ds Hds. injection Hs as <- <-. cbn [with_demes b_demes b_n]. split; [|reflexivity].
      rewrite <- HI. eapply mapiM_names; [|exact Hds].
      intros j d d' X. cbv beta in X. destruct (memn j (b_joined s)); [now injection X as <-|].
      eapply set_growth_name; eauto.
    - mbind Hs p Hp. mbind Hs g Hg. mbind Hs ds Hds. injection Hs as <- <-. cbn [with_demes b_demes b_n]. split; [|reflexivity].
      rewrite <- HI. eapply updM_names; [|exact Hds]. intros d d' X. eapply set_growth_name; eauto.
    - mbind Hs ds Hds. injection Hs as <- <-. cbn [with_demes b_demes b_n]. split; [|reflexivity].
      rewrite <- HI. eapply mapiM_names; [|exact Hds].
      intros j d d' X. cbv beta in X. destruct (memn j (b_joined s)); [now injection X as <-|].
      eapply set_size_name; eauto.
    - mbind Hs p Hp. mbind Hs ds Hds. injection Hs as <- <-. cbn [with_demes b_demes b_n]. split; [|reflexivity].
      rewrite <- HI. eapply updM_names; [|exact Hds]. intros d d' X. eapply set_size_name; eauto.
    - mbind Hs v Hv. injection Hs as <- <-.
      match goal with |- context [edit_matrix ?F _] => destruct (touch_demes F s time) as [E1 E2] end.
      rewrite E1, E2. auto.
    - mbind Hs pi Hpi. mbind Hs pj Hpj. mraise Hs Hij. injection Hs as <- <-.
      match goal with |- context [edit_matrix ?F _] => destruct (touch_demes F s time) as [E1 E2] end.
      rewrite E1, E2. auto.
    - mraise Hs H1. mraise Hs H2. injection Hs as <- <-.
      match goal with |- context [edit_matrix ?F _] => destruct (touch_demes F s time) as [E1 E2] end.
      rewrite E1, E2. auto.
    - mbind Hs pp Hpp. injection Hs as <- <-. cbn [b_demes b_n]. split; [|lia].
      rewrite map_app, HI, dnames_S. reflexivity.
    - mbind Hs pi Hpi. mbind Hs pj Hpj. mbind Hs ds Hds. injection Hs as <- <-. cbn [b_demes b_n].
      match goal with |- context [edit_matrix ?F _] =>
        destruct (touch_demes F (with_demes s ds) time) as [E1 E2] end.
      rewrite E1, E2. cbn [with_demes b_demes b_n]. split; [|reflexivity]. rewrite <- HI.
      eapply updM_names; [|exact Hds]. intros d d' X. cbv beta in X. now injection X as <-.
  Qed.

  Lemma steps_nm N0 time evs : forall s gs s' gs',
    NmInv s -> foldM (step N0 time) evs (s, gs) = Ok (s', gs') ->
    NmInv s' /\ b_n s' = b_n s + List.length (filter is_split evs).
  Proof.
    induction evs as [|e evs IH]; intros s gs s' gs' HI H; cbn in H.
    - injection H as <- <-. cbn. split; [exact HI|lia].
    - mbind H sg1 H1. destruct sg1 as [s1 gs1].
      destruct (step_nm _ _ _ _ _ _ _ HI H1) as [I1 E1].
      destruct (IH _ _ _ _ I1 H) as [I2 E2]. split; [exact I2|].
      rewrite E2, E1. unfold nsplit. cbn [filter]. destruct (is_split e); cbn; lia.
  Qed.

  Lemma finish_group_nm time gs : forall s s',
    NmInv s -> finish_group time s gs = Ok s' -> NmInv s' /\ b_n s' = b_n s.
  Proof.
    intros s s' HI H. unfold finish_group in H.
    refine (foldM_inv _ (fun x => NmInv x /\ b_n x = b_n s) _ _ _ _ _ H); [|auto].
    clear. intros x [[j k] p] x' [Hx En] Hf.
    destruct (filter _ _); [injection Hf as <-; auto|].
    destruct (neqb _ n0 && memn _ _).
    - mbind Hf ds Hds. injection Hf as <-. split; [|exact En]. unfold NmInv in *. cbn [with_demes b_demes b_n].
      rewrite <- Hx. eapply updM_names; [|exact Hds]. intros d d' X. cbv beta in X. now injection X as <-.
    - injection Hf as <-. split; [exact Hx|exact En].
  Qed.

  Lemma run_group_nm N0 s t evs s' :
    NmInv s -> run_group N0 s (t, evs) = Ok s' ->
    NmInv s' /\ b_n s' = b_n s + List.length (filter is_split evs).
  Proof.
    intros HI H. unfold run_group in H. mbind H r Hr. destruct r as [s1 gs1]. cbn [fst snd] in H.
    destruct (steps_nm _ _ _ _ _ _ _ HI Hr) as [I1 E1].
    destruct (finish_group_nm _ _ _ _ I1 H) as [I2 E2]. split; [exact I2|congruence].
  Qed.

  Lemma groups_nm N0 groups : forall s0 s,
    NmInv s0 -> foldM (run_group N0) groups s0 = Ok s ->
    NmInv s /\ b_n s = b_n s0 + List.length (filter is_split (List.concat (map snd groups))).
  Proof.
    induction groups as [|[t g] groups IH]; intros s0 s HI H; cbn in H.
    - injection H as <-. cbn. split; [exact HI|lia].
    - mbind H s1 H1. destruct (run_group_nm _ _ _ _ _ HI H1) as [I1 E1].
      destruct (IH _ _ I1 H) as [I2 E2]. split; [exact I2|].
      cbn [map snd List.concat]. rewrite filter_app, app_length. lia.
  Qed.

  (* the semantics' side: only -es adds a population *)
  Lemma apply_ev_npops st e st' : apply_ev st e = Ok st' -> npops st' = npops st + nsplit e.
  Proof.
    unfold nsplit, npops.
    destruct e as [t a|t i a|t x|t i x timed|t x|t i j x|t np m ini|t i p|t i j]; unfold apply_ev;
      cbn [is_split]; rewrite ?Nat.add_0_r; intro H.
    - injection H as <-. cbn. apply map_length.
    - mraise H H1. injection H as <-. cbn. apply upd_length.
    - injection H as <-. cbn. apply map_length.
    - mraise H H1. injection H as <-. cbn. apply upd_length.
    - injection H as <-. reflexivity.
    - mraise H H1. injection H as <-. reflexivity.
    - mraise H H1. injection H as <-. reflexivity.
    - mraise H H1. injection H as <-. cbn. rewrite app_length. reflexivity.
    - mraise H H1. injection H as <-. cbn. apply upd_length.
  Qed.

  Lemma run_upto_npops T evs : forall st0 st, run_upto evs T st0 = Ok st ->
    npops st = npops st0 + List.length (filter is_split (filter (fun e => nle (ev_time e) T) evs)).
  Proof.
    unfold run_upto. induction evs as [|e evs IH]; intros st0 st H; cbn in H.
    - injection H as <-. cbn. lia.
    - mbind H st1 H1. cbn [filter]. destruct (nle (ev_time e) T).
      + apply apply_ev_npops in H1. rewrite (IH _ _ H), H1. unfold nsplit. cbn [filter].
        destruct (is_split e); cbn; lia.
      + injection H1 as <-. eauto.
  Qed.

  (* ====================================================================================== *)
  (* 2. Invariant: every off-diagonal entry of every matrix of the history is a number
        (not NaN), provided the event parameters are                                       *)
  Definition ROk (j : nat) (row : list num) : Prop := forall k, j <> k -> ok (nth k row n0).
  Definition MOk (m : list (list num)) : Prop := forall j, ROk j (nth j m []).
  Definition HOk (s : bstate) : Prop := Forall MOk (b_mms s).

  (* the parameters that end up in migration matrices are numbers *)
  Definition EvOk (e : msev) : Prop :=
    match e with
    | EvM _ x => ok x
    | Evm _ _ _ x => ok x
    | Evma _ _ m _ => Forall (Forall ok) m
    | _ => True
    end.
  (* x / k is a number when x is and k is a non-zero count (true for binary64) *)
  Definition DivLaw : Prop :=
    forall x k, ok x -> neqb (nat_num k) n0 = false -> ok (ndiv x (nat_num k)).

  Lemma ROk_nil j : ROk j [].
  Proof. intros k _. rewrite nth_nil. apply ok_0. Qed.

  Lemma ROk_mapi (g : nat -> num -> num) row j :
    (forall k y, j <> k -> ok y -> ok (g k y)) -> ROk j row -> ROk j (mapi 0 g row).
  Proof.
    intros Hg Hr k Hk. rewrite (nth_mapi_gen g row 0 k n0 n0).
    destruct (Nat.ltb k (List.length row)); [cbn [Nat.add]; apply Hg; auto|apply ok_0].
  Qed.

  Lemma MOk_mapi (F : nat -> list num -> list num) m :
    (forall j row, ROk j row -> ROk j (F j row)) -> MOk m -> MOk (mapi 0 F m).
  Proof.
    intros HF Hm j. rewrite (nth_mapi_gen F m 0 j [] []).
    destruct (Nat.ltb j (List.length m)); [cbn [Nat.add]; apply HF; apply Hm|apply ROk_nil].
  Qed.

  Lemma MOk_upd2 m pi pj x : ok x -> MOk m -> MOk (upd pi (upd pj (fun _ => x)) m).
  Proof.
    intros Hx Hm j. rewrite nth_upd_gen. destruct (_ && _); [|apply Hm].
    intros k Hk. rewrite nth_upd_gen. destruct (_ && _); [exact Hx|now apply Hm].
  Qed.

  Lemma MOk_same m m' : Same m m' -> MOk m -> MOk m'.
  Proof. intros HS Hm j k Hjk. rewrite HS. now apply Hm. Qed.

  Lemma MOk_full m : Forall (Forall ok) m -> MOk m.
  Proof.
    intros H j k _. rewrite Forall_forall in H.
    destruct (nth_in_or_default j m []) as [Hin| ->]; [|rewrite nth_nil; apply ok_0].
    specialize (H _ Hin). rewrite Forall_forall in H.
    destruct (nth_in_or_default k (nth j m []) n0) as [Hin'| ->]; [auto|apply ok_0].
  Qed.

  Lemma edit_at_hok f s time :
    HOk s -> (forall m, MOk m -> MOk (f m)) -> HOk (edit_matrix f (matrix_at s time)).
  Proof.
    unfold HOk. intros H Hf. unfold matrix_at.
    destruct (b_mms s) as [|m rest] eqn:Em; destruct (b_ends s) as [|e ends] eqn:Ee;
      unfold edit_matrix; rewrite ?Em; cbn [b_mms]; auto.
    - inversion H; subst. constructor; auto.
    - destruct (ngt time e); cbn [b_mms]; rewrite ?Em; inversion H; subst; repeat constructor; auto.
  Qed.

  Lemma pdiv_inv2 a b v : pdiv a b = Ok v -> neqb b n0 = false /\ v = ndiv a b.
  Proof. unfold pdiv. destruct (neqb b n0); [discriminate|]. intro H. split; congruence. Qed.

  Lemma step_hok N0 time s gs e s' gs' :
    DivLaw -> EvOk e -> HOk s -> step N0 time (s, gs) e = Ok (s', gs') -> HOk s'.
  Proof.
    intros DL He HI Hs.
    destruct e as [t a|t i a|t x|t i x timed|t x|t i j x|t np m ini|t i p|t i j]; unfold step in Hs.
    - mbind Hs g Hg. mbind Hs ds Hds. injection Hs as <- <-. exact HI.
    - mbind Hs p Hp. mbind Hs g Hg. mbind Hs ds Hds. injection Hs as <- <-. exact HI.
    - mbind Hs ds Hds. injection Hs as <- <-. exact HI.
    - mbind Hs p Hp. mbind Hs ds Hds. injection Hs as <- <-. exact HI.
    - mbind Hs v Hv. injection Hs as <- <-. apply edit_at_hok; [exact HI|].
      assert (ok v) as Ov.
      { destruct (existsb _ _).
        - apply pdiv_inv2 in Hv. destruct Hv as [Hz ->]. apply DL; [exact He|exact Hz].
        - injection Hv as <-. apply ok_0. }
      intros m0 Hm0. apply MOk_mapi; [|exact Hm0]. intros j row Hr.
      destruct (memn j (b_joined s)); [exact Hr|]. apply ROk_mapi; [|exact Hr].
      intros k y _ Hy. destruct (_ && _); assumption.
    - mbind Hs pi Hpi. mbind Hs pj Hpj. mraise Hs Hij. injection Hs as <- <-.
      apply edit_at_hok; [exact HI|]. intros m0 Hm0. apply MOk_upd2; assumption.
    - mraise Hs H1. mraise Hs H2. injection Hs as <- <-.
      apply edit_at_hok; [exact HI|]. intros _ _. apply MOk_mapi; [|apply MOk_full; exact He].
      intros j row Hr. apply ROk_mapi; [|exact Hr].
      intros k y _ Hy. destruct (Nat.eqb j k); [apply ok_0|]. destruct (_ || _); [apply ok_0|exact Hy].
    - mbind Hs pp Hpp. injection Hs as <- <-. unfold HOk in *. cbn [b_mms].
      apply Forall_map. eapply Forall_impl; [|exact HI]. intros m0 Hm0.
      eapply MOk_same; [exact (Same_ext (S (b_n s)) m0)|exact Hm0].
    - mbind Hs pi Hpi. mbind Hs pj Hpj. mbind Hs ds Hds. injection Hs as <- <-.
      unfold HOk. cbn [b_mms].
      match goal with |- Forall MOk (b_mms (edit_matrix ?F _)) =>
        apply (edit_at_hok F (with_demes s ds) time) end; [exact HI|].
      intros m0 Hm0. apply MOk_mapi; [|exact Hm0]. intros r row Hr. apply ROk_mapi; [|exact Hr].
      intros c y _ Hy. destruct (_ || _); [apply ok_0|exact Hy].
  Qed.

  Lemma steps_hok N0 time evs : forall s gs s' gs',
    DivLaw -> (forall e, In e evs -> EvOk e) -> HOk s ->
    foldM (step N0 time) evs (s, gs) = Ok (s', gs') -> HOk s'.
  Proof.
    induction evs as [|e evs IH]; intros s gs s' gs' DL He HI H; cbn in H.
    - injection H as <- <-. exact HI.
    - mbind H sg1 H1. destruct sg1 as [s1 gs1].
      eapply IH; [exact DL| | |exact H].
      + intros x Hx. apply He. now right.
      + eapply step_hok; eauto. apply He. now left.
  Qed.

  Lemma run_group_hok N0 s t evs s' :
    DivLaw -> (forall e, In e evs -> EvOk e) -> HOk s -> run_group N0 s (t, evs) = Ok s' -> HOk s'.
  Proof.
    intros DL He HI H. unfold run_group in H. mbind H r Hr. destruct r as [s1 gs1]. cbn [fst snd] in H.
    apply finish_group_hist in H. destruct H as [Em _]. unfold HOk. rewrite Em.
    eapply steps_hok; eauto.
  Qed.

  Lemma groups_hok N0 groups : forall s0 s,
    DivLaw -> (forall e, In e (List.concat (map snd groups)) -> EvOk e) -> HOk s0 ->
    foldM (run_group N0) groups s0 = Ok s -> HOk s.
  Proof.
    induction groups as [|[t g] groups IH]; intros s0 s DL He HI H; cbn in H.
    - now injection H as <-.
    - mbind H s1 H1. eapply IH; [exact DL| | |exact H].
      + intros e Hin. apply He. cbn [map snd List.concat]. apply in_or_app. now right.
      + refine (run_group_hok N0 s0 t g s1 DL _ HI H1). intros e Hin. apply He. cbn [map snd List.concat]. apply in_or_app. now left.
  Qed.

  (* migs_from_matrices never reads the diagonal: zero it *)
  Definition clean (m : list (list num)) : list (list num) :=
    mapi 0 (fun j row => mapi 0 (fun k y => if Nat.eqb j k then n0 else y) row) m.

  Lemma clean_entry m j k :
    nth k (nth j (clean m) []) n0 = if Nat.eqb j k then n0 else nth k (nth j m []) n0.
  Proof.
    unfold clean. rewrite (nth_mapi_gen _ m 0 j [] []).
    destruct (Nat.ltb_spec j (List.length m)) as [Hj|Hj].
    - cbn [Nat.add]. rewrite (nth_mapi_gen _ _ 0 k n0 n0).
      destruct (Nat.ltb_spec k (List.length (nth j m []))) as [Hk|Hk]; [reflexivity|].
      rewrite (nth_overflow (nth j m [])) by exact Hk. now destruct (Nat.eqb j k).
    - rewrite (nth_overflow m) by exact Hj. rewrite !nth_nil. now destruct (Nat.eqb j k).
  Qed.

  Lemma cell_step_clean names start en m co j k : j <> k ->
    cell_step names start en (clean m) co (j, k) = cell_step names start en m co (j, k).
  Proof.
    intro Hne. unfold cell_step. destruct co as [current out]. rewrite clean_entry.
    apply Nat.eqb_neq in Hne. rewrite Hne. reflexivity.
  Qed.

  Lemma outer_step_clean names acc m en :
    outer_step names acc (clean m, en) = outer_step names acc (m, en).
  Proof.
    unfold outer_step. destruct acc as [[start current] out].
    rewrite (fold_left_ext_in (cell_step names start en (clean m)) (cell_step names start en m));
      [reflexivity|].
    intros a [j k] Hin. apply in_cells in Hin. apply cell_step_clean. tauto.
  Qed.

  Lemma mfm_clean names mms ends :
    migs_from_matrices names (map clean mms) ends = migs_from_matrices names mms ends.
  Proof.
    rewrite !migs_from_matrices_unfold.
    assert (forall acc, fold_left (outer_step names) (combine (map clean mms) ends) acc
                        = fold_left (outer_step names) (combine mms ends) acc) as ->; [|reflexivity].
    revert ends. induction mms as [|m mms IH]; intros ends acc; [reflexivity|].
    destruct ends as [|e ends]; [reflexivity|]. cbn [map combine fold_left].
    rewrite outer_step_clean. apply IH.
  Qed.

  Lemma mentry_clean mms i j k :
    mentry (map clean mms) i j k = if Nat.eqb j k then n0 else mentry mms i j k.
  Proof.
    unfold mentry.
    replace (nth i (map clean mms) []) with (clean (nth i mms []))
      by (symmetry; exact (map_nth clean mms [] i)).
    apply clean_entry.
  Qed.

  Lemma mentry_clean_ok mms : Forall MOk mms -> forall i j k, ok (mentry (map clean mms) i j k).
  Proof.
    intros H i j k. rewrite mentry_clean. destruct (Nat.eqb_spec j k) as [E|E]; [apply ok_0|].
    unfold mentry. rewrite Forall_forall in H.
    destruct (nth_in_or_default i mms []) as [Hin| ->].
    - now apply (H _ Hin j k).
    - rewrite !nth_nil. apply ok_0.
  Qed.

  (* ====================================================================================== *)
  (* 3. The intervals of the history cover [0, inf)                                         *)
  Lemma interval_exists t : forall ends start,
    ok t -> (forall e, In e ends -> ok e) -> ends <> [] -> last ends n0 = nf0 ->
    nle nf0 t = true -> nlt t start = true ->
    exists i, i < List.length ends /\ nle (nth i ends n0) t = true /\
              nlt t (match i with O => start | S i' => nth i' ends n0 end) = true.
  Proof.
    induction ends as [|x l IH]; intros start Ot Oe Hne Hl H0 Hs; [congruence|].
    destruct l as [|y r].
    - cbn in Hl. subst x. exists 0. cbn. repeat split; auto.
    - assert (ok x) as Ox by (apply Oe; now left).
      destruct (nle x t) eqn:E.
      + exists 0. cbn. repeat split; auto. lia.
      + assert (nlt t x = true) as Hx by nord.
        destruct (IH x) as (i & Hi & H1 & H2); auto.
        * intros e He. apply Oe. now right.
        * discriminate.
        * exists (S i). split; [cbn in *; lia|]. split; [exact H1|].
          destruct i; exact H2.
  Qed.

  (* ====================================================================================== *)
  (* 4. Resolution of the document: the explicit migration records become g_migs, in order  *)
  Definition bm2mig (m : bmig) : mig :=
    mkMig (bm_src m) (bm_dst m) (bm_start m) (bm_end m) (bm_rate m).
  Definition mj (m : bmig) : jv :=
    JDict [("source", JStr (bm_src m)); ("dest", JStr (bm_dst m));
           ("start_time", JNum (bm_start m)); ("end_time", JNum (bm_end m));
           ("rate", JNum (bm_rate m))].

  Lemma fromdict_migs dm migs' rest g :
    (rest = [] \/ exists ps, rest = [("pulses", ps)]) ->
    fromdict (JDict (("time_units", JStr "generations") :: ("demes", dm)
                     :: ("migrations", JList (map mj migs')) :: rest)) = Ok g ->
    g_migs g = map bm2mig migs'.
  Proof.
    intros Hrest H. unfold fromdict in H.
    mbind H kv Hkv. cbn [dict_of] in Hkv. injection Hkv as <-.
    mbind H u0 Hca. mbind H defaults Hdef.
    assert (defaults = []) as ->.
    { destruct Hrest as [->|[ps ->]]; cbn in Hdef; congruence. }
    mbind H u1 Hca2. mbind H ddef Hddef. cbn in Hddef. injection Hddef as <-. mbind H u2 Hcd.
    mbind H mdef Hmdef. cbn in Hmdef. injection Hmdef as <-. mbind H u3 Hcm.
    mbind H pdef Hpdef. mbind H u4 Hcp. mbind H edef Hedef. mbind H u5 Hce.
    mbind H units Hunits. mbind H g0 Hg0. mbind H dl Hdl. mraise H Hdl0.
    mbind H g1 Hg1. mbind H ml Hml. mbind H g2 Hg2. mbind H u6 Hchk.
    mbind H pl Hpl. mbind H g3 Hg3. injection H as <-. cbn [g_migs].
    assert (ml = map mj migs') as ->.
    { unfold dict_list in Hml. cbn -[forM_ list_of] in Hml. now apply dict_list_inv in Hml. }
    destruct (make_graph_spec _ _ _ _ _ _ Hg0) as (Hh & D0 & M0 & P0 & I0).
    assert (DInv g0) as DI0.
    { unfold DInv, Idx. rewrite D0, M0, P0, I0. cbn. auto. }
    assert (DInv g1) as (I1 & V1 & M1 & P1).
    { eapply (foldM_inv _ DInv); [|exact DI0|exact Hg1].
      intros ga dv gb Da X. destruct (resolve_deme_spec _ _ _ _ _ Da X) as [[Db _] _]. exact Db. }
    assert (map mj migs' = map jv_of_mig (map bm2mig migs')) as Emap by (rewrite map_map; reflexivity).
    rewrite Emap in Hg2. apply migs_fold_inv in Hg2.
    assert (Idx g2) as I2 by (subst g2; exact I1).
    assert (PInv g2 g3) as (_ & M23 & _).
    { eapply (foldM_inv _ (PInv g2)); [| |exact Hg3].
      - intros ga pv gb Pa X. eapply resolve_pulse_spec; eauto.
      - split; [apply same_demes_refl|]. split; auto.
        intros p Hp. subst g2. cbn [g_pulses] in Hp. rewrite P1 in Hp. destruct Hp. }
    rewrite M23. subst g2. cbn [g_migs]. rewrite M1. reflexivity.
  Qed.

  (* ====================================================================================== *)
  (* 5. The end-to-end theorem                                                              *)

  (* ORIGINAL STATEMENT (false as written, and not provable from the order laws alone):
       Theorem from_ms_rates c N0 g T st a b :
         (forall x : num, nmul x n1 = x) ->
         (1 <= c_npop c)%nat ->
         (forall e, In e (c_init c ++ c_events c) -> SquareMa e) ->
         (forall e, In e (c_init c ++ c_events c) -> ok (ev_time e) /\ nle n0 (ev_time e) = true) ->
         TimeSorted (c_init c ++ sort_events (c_events c)) ->
         ScaleMono N0 (T :: n0 :: map ev_time (c_init c ++ sort_events (c_events c))) ->
         ok T -> nle n0 T = true ->
         build_graph c N0 = Ok g -> ms_at c T = Ok st ->
         (a < npops st)%nat -> (b < npops st)%nat -> a <> b ->
         match gmigs_in_force g (deme_name (S b)) (deme_name (S a)) (scale N0 T) with
         | [] => neqb (sentry st a b) n0 = true
         | [m] => exists y, neqb y (sentry st a b) = true /\ neqb y n0 = false /\
                            m_rate m = ndiv y (nmul n4 N0)
         | _ => False
         end.
     The conclusion is unchanged.
     Added hypotheses, each with the reason:
     (a) nisinf (scale N0 T) = false.  COUNTER-EXAMPLE without it: two populations, -I rate 1, no
         events, T = inf (ok, >= 0, and ScaleMono holds when 4*N0*inf = inf): the semantics has
         M[0][1] <> 0 at T, the graph has one migration with start_time inf, and no migration is
         in force at time inf (start times are exclusive), so the conclusion asks 1 == 0.
     (b) nle n0 (scale N0 T) = true.  ScaleMono only relates scaled times to each other; the
         history's last end time is the literal 0.0, so "the scaled time is not negative" must be
         given (with an nmul that maps every scaled time below 0.0 no migration is in force).
     (c) the scaled event times are not infinite: hypothesis of migs_from_matrices_sound (an end
         time of the history that is infinite would make the oldest interval empty).
     (d) the parameters that enter migration matrices are numbers: ok (c_irate c) (when there are
         >= 2 populations), EvOk for the events (-eM / -em rates, -ma / -ema entries), and DivLaw
         (x / k is a number for a non-zero count k; NumLaws says nothing about ndiv).  With a NaN
         entry M[a][b] the conclusion is false for any graph (neqb y NaN is never true), and the
         abstract arithmetic allows NaN / (4*N0) to be an acceptable rate. *)
  Theorem from_ms_rates c N0 g T st a b :
    (forall x : num, nmul x n1 = x) ->
    DivLaw ->
    (1 <= c_npop c)%nat ->
    ((2 <= c_npop c)%nat -> ok (c_irate c)) ->
    (forall e, In e (c_init c ++ c_events c) -> SquareMa e) ->
    (forall e, In e (c_init c ++ c_events c) -> EvOk e) ->
    (forall e, In e (c_init c ++ c_events c) -> ok (ev_time e) /\ nle n0 (ev_time e) = true) ->
    (forall e, In e (c_init c ++ c_events c) -> nisinf (scale N0 (ev_time e)) = false) ->
    TimeSorted (c_init c ++ sort_events (c_events c)) ->
    ScaleMono N0 (T :: n0 :: map ev_time (c_init c ++ sort_events (c_events c))) ->
    ok T -> nle n0 T = true ->
    nle n0 (scale N0 T) = true -> nisinf (scale N0 T) = false ->
    build_graph c N0 = Ok g ->
    ms_at c T = Ok st ->
    (a < npops st)%nat -> (b < npops st)%nat -> a <> b ->
    (* M[a][b]: lineages of population a+1 move, backwards in time, to population b+1: forwards that is
       migration from deme b+1 into deme a+1 *)
    match gmigs_in_force g (deme_name (S b)) (deme_name (S a)) (scale N0 T) with
    | [] => neqb (sentry st a b) n0 = true
    | [m] => exists y, neqb y (sentry st a b) = true /\ neqb y n0 = false /\
                       m_rate m = ndiv y (nmul n4 N0)
    | _ => False
    end.
  Proof.
    intros Hmul DL Hn Hirate HSq0 HEv0 Hev0 Hfin0 TS SM OT HT HT0 HTfin Hbg Hms Ha Hb Hab.
    set (evs := c_init c ++ sort_events (c_events c)) in *.
    assert (forall e, In e evs -> In e (c_init c ++ c_events c)) as Hin.
    { intros e He. unfold evs in He. apply in_app_or in He. apply in_or_app.
      destruct He as [He|He]; [now left|right].
      exact (Permutation_in _ (sort_events_perm (c_events c)) He). }
    assert (forall e, In e evs -> SquareMa e) as HSq by auto.
    assert (forall e, In e evs -> EvOk e) as HEv by auto.
    assert (forall e, In e evs -> ok (ev_time e) /\ nle n0 (ev_time e) = true) as Hev by auto.
    assert (forall e, In e evs -> nisinf (scale N0 (ev_time e)) = false) as Hfin by auto.
    clear HSq0 HEv0 Hev0 Hfin0 Hin.
    (* -- unfold build_graph / build_doc -- *)
    unfold build_graph in Hbg. mbind Hbg doc Hdoc. unfold build_doc in Hdoc.
    mraise Hdoc H1. mraise Hdoc H2. mbind Hdoc u3 H3. cbv zeta in Hdoc. mbind Hdoc m0 Hm0.
    fold evs in Hdoc. mbind Hdoc s Hs.
    mbind Hdoc ds Hds. mbind Hdoc migs' Hmigs. mbind Hdoc kept0 Htr. injection Hdoc as <-.
    set (n := c_npop c) in *.
    set (demes0 := map (fun j => mkBD (deme_name (S j)) ninf None None [mkBE n0 N0 None None]) (seq 0 n)) in *.
    set (s0 := mkB n [m0] [nf0] [] demes0 []) in *.
    (* -- the initial states -- *)
    assert (MRel s0 (init_state c) /\ MOk m0) as [HR Hm0ok].
    { destruct (Nat.ltb 1 n) eqn:E1.
      - mbind Hm0 v Hv. injection Hm0 as Em0.
        pose proof (init_refine c v Hmul Hn (fun _ => Hv)) as HR. cbv zeta in HR. fold n in HR.
        rewrite E1 in HR. specialize (HR demes0 []). rewrite Em0 in HR. split; [exact HR|].
        apply pdiv_inv2 in Hv. destruct Hv as [Hz ->].
        assert (ok (ndiv (c_irate c) (nat_num (n - 1)))) as Ov.
        { apply DL; [|exact Hz]. apply Hirate. apply Nat.ltb_lt in E1. fold n. lia. }
        rewrite <- Em0. intros r. rewrite (nth_mapi_gen _ _ 0 r [] tt).
        destruct (Nat.ltb r (List.length (repeat tt n))); [|apply ROk_nil].
        intros k Hk. rewrite (nth_mapi_gen _ _ 0 k n0 tt).
        destruct (Nat.ltb k (List.length (repeat tt n))); [|apply ok_0].
        cbn [Nat.add]. assert (Nat.eqb k r = false) as -> by (apply Nat.eqb_neq; lia).
        rewrite Hmul. exact Ov.
      - injection Hm0 as Em0.
        assert (Nat.ltb 1 n = true -> pdiv (c_irate c) (nat_num (n - 1)) = Ok n0) as Hv
          by (intro X; congruence).
        pose proof (init_refine c n0 Hmul Hn Hv) as HR. cbv zeta in HR. fold n in HR.
        rewrite E1 in HR. specialize (HR demes0 []). rewrite Em0 in HR. split; [exact HR|].
        rewrite <- Em0. apply MOk_full. repeat constructor. apply ok_f0. }
    assert (NmInv s0) as HN0.
    { unfold NmInv, s0, demes0, dnames. cbn [b_demes b_n]. rewrite map_map. reflexivity. }
    assert (HOk s0) as HO0 by (unfold HOk, s0; cbn [b_mms]; repeat constructor; exact Hm0ok).
    (* -- the final interpreter state -- *)
    destruct (groups_nm N0 _ _ _ HN0 Hs) as [HNs Ebn].
    rewrite group_by_time_concat in Ebn. change (b_n s0) with n in Ebn.
    assert (HOk s) as HOs.
    { apply (groups_hok N0 (group_by_time evs) s0 s DL); auto.
      rewrite group_by_time_concat. exact HEv. }
    destruct (hinv_groups N0 (group_by_time evs) s0 s eq_refl eq_refl Hs)
      as (Hlen & (ts & Eends & Hincl) & SD).
    (* -- the semantics' state at T -- *)
    unfold ms_at, all_events in Hms. fold evs in Hms.
    change (run_upto evs T (init_state c) = Ok st) in Hms.
    pose proof (run_upto_npops T evs _ _ Hms) as Enp.
    assert (npops (init_state c) = n) as Enp0 by (unfold npops, init_state; cbn; apply repeat_length).
    rewrite Enp0 in Enp.
    pose proof (filter_filter_le is_split (fun e => nle (ev_time e) T) evs) as Hle.
    assert (a < b_n s /\ b < b_n s) as [Ha' Hb'] by lia.
    (* -- the scaled time -- *)
    set (t := scale N0 T) in *.
    destruct SM as [SM1 SM2].
    assert (ok t) as Ot by (apply SM1; [now left|exact OT]).
    assert (forall e, In e (b_ends s) -> ok e /\ nisinf e = false) as Hends.
    { intros e He. rewrite Eends in He. apply in_app_or in He. destruct He as [He|[<-|[]]].
      - apply in_map_iff in He. destruct He as (t' & <- & Ht').
        apply Hincl in Ht'. apply in_map_iff in Ht'. destruct Ht' as ([t'' g'] & E & Hg').
        cbn in E. subst t''. pose proof (group_time_in evs t' g' Hg') as Hx.
        apply in_map_iff in Hx. destruct Hx as (x & <- & Hx).
        assert (In x evs) as Hxe by (eapply group_in_l; eauto).
        split; [|now apply Hfin]. apply SM1; [|now apply Hev].
        right. right. now apply in_map.
      - split; [apply ok_f0|]. pose proof ok_f0. nord. }
    destruct (interval_exists t (b_ends s) ninf) as (i & Hi & Hi1 & Hi2); auto.
    { intros e He. now apply Hends. }
    { rewrite Eends. now destruct (map (scale N0) ts). }
    { rewrite Eends. apply last_last. }
    { pose proof ok_f0. nord. }
    { pose proof ok_inf. nord. }
    change (nlt t (hstart (b_ends s) i) = true) in Hi2.
    (* -- the history entry is the semantics' entry -- *)
    assert (ZEq (nth b (nth a (nth i (b_mms s) []) []) n0) (sentry st a b)) as HZ.
    { apply (from_ms_history N0 evs s0 (init_state c) s T st i (nth i (b_mms s) []) (nth i (b_ends s) n0));
        auto.
      - split; assumption.
      - apply nth_error_combine. split; apply nth_error_nth'; lia. }
    (* -- the records built from the history -- *)
    set (names := map bd_name ds) in *.
    assert (names = dnames (b_n s)) as Enames.
    { unfold names. rewrite <- HNs. eapply mapM_names_bd; [|exact Hds].
      intros d d' X. cbv beta in X. destruct (bd_epochs d) as [|e rest]; [discriminate|].
      destruct (nneq (growth_of e) n0).
      - mraise X X1. mbind X x Hx. now injection X as <-.
      - now injection X as <-. }
    pose proof (migs_from_matrices_sound names (map clean (b_mms s)) (b_ends s) i a b t) as HS.
    rewrite mfm_clean, mentry_clean in HS.
    assert (Nat.eqb a b = false) as Eab by now apply Nat.eqb_neq.
    rewrite Eab, Enames, !dnames_nth in HS by assumption.
    rewrite dnames_length, map_length in HS.
    specialize (HS (dnames_NoDup _) Hlen SD Hends (mentry_clean_ok _ HOs)).
    assert (i < List.length (b_mms s)) as Hi' by lia.
    specialize (HS Hi' Ha' Hb' Hab Ot Hi1 Hi2).
    unfold mentry in HS.
    (* -- division by 4*N0 -- *)
    set (divf := fun m => mkBM (bm_src m) (bm_dst m) (bm_start m) (bm_end m)
                               (ndiv (bm_rate m) (nmul n4 N0))).
    assert (migs' = map divf (migs_from_matrices (dnames (b_n s)) (b_mms s) (b_ends s))) as Emigs.
    { rewrite <- Enames. eapply mapM_map; [|exact Hmigs].
      intros m r X. mbind X q Hq. apply pdiv_inv in Hq. subst q. now injection X as <-. }
    (* -- resolution -- *)
    cbn [app] in Hbg.
    assert (g_migs g = map bm2mig migs') as Eg.
    { refine (fromdict_migs _ migs' _ g _ Hbg).
      destruct (b_pulses s); [left; reflexivity|right; eexists; reflexivity]. }
    unfold gmigs_in_force. rewrite Eg, Emigs, map_map.
    rewrite (filter_map_comm _ _ (pm (deme_name (S b)) (deme_name (S a)) t)) by reflexivity.
    rewrite <- in_force_pm.
    destruct (in_force (migs_from_matrices (dnames (b_n s)) (b_mms s) (b_ends s))
                       (deme_name (S b)) (deme_name (S a)) t) as [|m [|m2 rest]]; cbn [map].
    - destruct HZ as [<-|[_ [-> | ->]]]; [exact HS|apply eq_refl_ok; apply ok_0|].
      pose proof ok_f0. nord.
    - destruct HS as [HS1 HS2]. exists (bm_rate m). cbn [m_rate bm2mig divf bm_rate].
      destruct HZ as [<-|[[E|E] _]].
      + split; [exact HS1|]. split; [|reflexivity].
        assert (ok (bm_rate m) /\ ok (nth b (nth a (nth i (b_mms s) []) []) n0)) as [O1 O2]
          by (apply eq_true in HS1; tauto).
        nord.
      + exfalso. rewrite E in HS2. rewrite eq_refl_ok in HS2 by apply ok_0. discriminate.
      + exfalso. rewrite E in HS2. pose proof ok_f0. nord.
    - exact HS.
  Qed.
End FromMsRates.

Print Assumptions from_ms_rates.
