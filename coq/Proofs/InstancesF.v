(* InstancesF: theorems about IEEE binary64 ITSELF (instance NumF of Base/NumF.v over
   Coq's primitive floats), obtained by instantiating the generic theorems (stated over
   any NumOps with NumLaws under named arithmetic hypotheses) at NumF and discharging
   the hypotheses with the facts proved in Proofs/NumFArith.v:
     SumOK      by sumok_F,      InfUnique by infunique_F,
     ArithLaws  by the instance NumFArith.
   No arithmetic hypothesis is left in any statement below.  State: complete
   (this file compiles, every proof closed by Qed).  The theorems that also need SumLaws NumF
   (simplify_total_F, simplify_resolves_F, roundtrip_simplified_F) and the instance
   NumFSum : SumLaws NumF NumFLaws are in Proofs/SumLawsF.v (also complete).
   Print Assumptions lists only the standard library's primitive-float, real-number
   and classical axioms that NumF / Flocq bring in; none is declared by this development. *)
From Coq Require Import Bool List String QArith.
From Demes Require Import Base.Num Base.NumF Base.Py Model.MDM Model.Codec Model.MigMat
  Model.Resolve Model.Simplify Model.IO Model.Close Spec.Valid
  Proofs.MigMatProofs Proofs.FixedPoint Proofs.IOProofs Proofs.ResolveMigs
  Proofs.ResolveValid Proofs.ResolveRules Proofs.SimplifyDemes Proofs.SimplifyProofs
  Proofs.IOShape Proofs.IOMore Proofs.CloseProofsA Proofs.CloseProofsB Proofs.NumFArith.
Import ListNotations.
Local Open Scope string_scope.
Local Open Scope list_scope.

(* ---------- C01 / C03: resolution ---------- *)

(* every graph that resolution of any document returns, over binary64, is Valid *)
Theorem resolve_valid_F :
  forall (doc : @jv NumF) (g : @graph NumF), @fromdict NumF doc = Ok g -> @Valid NumF g.
Proof. intros doc g. exact (@resolve_valid NumF NumFLaws doc g sumok_F). Qed.

(* a fully explicit document is accepted iff its content is a valid graph *)
Theorem explicit_accept_iff_F :
  forall g : @graph NumF, @Canonical NumF g ->
    ((exists g', @fromdict NumF (asdict g) = Ok g') <->
     (exists g', @SameGraph NumF g g' /\ @Valid NumF g')).
Proof. intros g. exact (@explicit_accept_iff NumF NumFLaws g sumok_F). Qed.

Theorem explicit_accept_iff_canon_F :
  forall g : @graph NumF,
    ((exists g', @fromdict NumF (asdict g) = Ok g') /\ @Canonical NumF g
     <-> (exists g', @SameGraph NumF g g' /\ @Valid NumF g')).
Proof. intros g. exact (@explicit_accept_iff_canon NumF NumFLaws g sumok_F). Qed.

(* ---------- C04 / C16: data-level round trips, infinities ---------- *)

Theorem unstringify_stringify_F :
  forall (g : @graph NumF) (d : @jv NumF),
    @Valid NumF g -> stringify_infinities (asdict g) = Ok d ->
    unstringify_infinities d = Ok (asdict g).
Proof. intros g d. exact (@unstringify_stringify NumF NumFLaws g d infunique_F). Qed.

Theorem unstringify_stringify_simplified_F :
  forall (g : @graph NumF) (doc d : @jv NumF),
    @Valid NumF g -> asdict_simplified g = Ok doc -> stringify_infinities doc = Ok d ->
    unstringify_infinities d = Ok doc.
Proof.
  intros g doc d.
  exact (@unstringify_stringify_simplified NumF NumFLaws g doc d infunique_F).
Qed.

(* dump then load of the resolved form gives back the same graph, YAML and JSON *)
Theorem roundtrip_resolved_F :
  forall (g : @graph NumF) (json : bool),
    @Valid NumF g ->
    exists d g', dump_pre json false g = Ok d /\ load_post d = Ok g' /\
                 @SameGraph NumF g g' /\ asdict g' = asdict g.
Proof.
  intros g json. exact (@roundtrip_resolved NumF NumFLaws g json (fun _ => infunique_F)).
Qed.

(* ---------- C10: closeness ---------- *)

Theorem isclose_sym_F :
  forall a b rel abs : @num NumF, @isclose NumF a b rel abs = @isclose NumF b a rel abs.
Proof. exact (@isclose_sym NumF NumFLaws NumFArith). Qed.

Theorem close_sym_F :
  forall (rel abs : @num NumF) (a b : @graph NumF),
    @close_graph NumF rel abs a b = @close_graph NumF rel abs b a.
Proof. exact (@close_sym NumF NumFLaws NumFArith). Qed.

Theorem close_refl_F :
  forall (rel abs : @num NumF) (g : @graph NumF),
    @GraphNums NumF g -> @close_graph NumF rel abs g g = true.
Proof. exact (@close_refl NumF NumFLaws). Qed.

Print Assumptions resolve_valid_F.
Print Assumptions explicit_accept_iff_F.
Print Assumptions explicit_accept_iff_canon_F.
Print Assumptions unstringify_stringify_F.
Print Assumptions unstringify_stringify_simplified_F.
Print Assumptions roundtrip_resolved_F.
Print Assumptions isclose_sym_F.
Print Assumptions close_sym_F.
Print Assumptions close_refl_F.
