(* C02 — COMPOSITION of the document re-spelling rules.

   Proofs/DocRules.v proves each re-spelling rule as an equation between two runs of the
   per-deme / per-migration / per-pulse step (some only at the graph state reached so far),
   Proofs/DocOrder.v proves key-order invariance.  Here the rules are closed under
   composition: a document may apply any number of them at once — several at one deme, at
   different demes, in demes and migrations and pulses and top-level keys, interleaved with
   key permutations — and still resolves to the same outcome.

   Contents
     1. [SameOutcome] (same graph, or both rejected) is an equivalence.
     2. State-dependent extensionality of the folds of Graph.fromdict:
        [foldM_reached_ext] and its three liftings [fromdict_demes_reached_ext],
        [fromdict_migrations_reached_ext], [fromdict_pulses_reached_ext].
     3. The single steps [DemeStep], [MigStep], [PulseStep], [TopStep] (one constructor per
        theorem of DocRules.v, carrying exactly its hypotheses), their closures
        [DemeRespell], [MigRespell], [PulseRespell], and the list-level relations
        [DemesRespell], [MigsRespell] (with the one-to-two symmetric-migration block),
        [PulsesRespell], all indexed by the state reached.
     4. [DocRespell] and the main theorem [fromdict_respell].
     5. A computed instance over NumQ that uses seven re-spellings at once. *)
From Coq Require Import Bool List String QArith Lqa Lia Arith Permutation.
From Demes Require Import Base.Num Base.NumQ Base.Py Model.MDM Model.MigMat Model.Resolve Spec.Valid
  Proofs.ResolveInv Proofs.ResolveRules Proofs.DocRules Proofs.DocOrder.
Import ListNotations.
Local Open Scope string_scope.
Local Open Scope list_scope.

(* ------------------------------------------------------------------ *)
(* "the same successes": r and r' return the same value, or both fail *)

Definition same {A} (r r' : res A) : Prop := forall a, r = Ok a <-> r' = Ok a.

Lemma same_refl {A} (r : res A) : same r r.
Proof. intro a. tauto. Qed.
Lemma same_sym {A} (r r' : res A) : same r r' -> same r' r.
Proof. intros H a. symmetry. apply H. Qed.
Lemma same_trans {A} (r1 r2 r3 : res A) : same r1 r2 -> same r2 r3 -> same r1 r3.
Proof. intros H1 H2 a. rewrite (H1 a). apply H2. Qed.
Lemma same_of_eq {A} (r r' : res A) : r = r' -> same r r'.
Proof. intros ->. apply same_refl. Qed.

Lemma same_of_rrel {A} (r r' : res A) : rrel eq r r' -> same r r'.
Proof.
  destruct r as [a|e], r' as [b|e']; cbn; intros H x; try contradiction.
  - subst b. tauto.
  - split; discriminate.
Qed.

Lemma same_bind {A B} (m m' : res A) (k k' : A -> res B) :
  same m m' -> (forall a, m = Ok a -> same (k a) (k' a)) -> same (bind m k) (bind m' k').
Proof.
  intros Hm Hk b. split; intro H; apply bind_ok in H; destruct H as (a & Ha & H).
  - pose proof (proj1 (Hm a) Ha) as Ha'. rewrite Ha'. cbn [bind]. apply (Hk a Ha). exact H.
  - pose proof (proj2 (Hm a) Ha) as Ha'. rewrite Ha'. cbn [bind]. apply (Hk a Ha'). exact H.
Qed.

(* the reflexive-symmetric-transitive closure of a relation of single steps *)
Inductive Closure {A} (R : A -> A -> Prop) : A -> A -> Prop :=
| C_refl x : Closure R x x
| C_step x y : R x y -> Closure R x y
| C_sym x y : Closure R x y -> Closure R y x
| C_trans x y z : Closure R x y -> Closure R y z -> Closure R x z.

Lemma closure_inv {A T} (R : A -> A -> Prop) (P : A -> T) :
  (forall x y, R x y -> P x = P y) -> forall x y, Closure R x y -> P x = P y.
Proof. intros H x y C. induction C; [reflexivity|auto|congruence|congruence]. Qed.

Section DocCompose.
  Context {N : NumOps} {L : NumLaws N}.

  (* ================================================================ *)
  (* 1. SameOutcome *)

  Definition SameOutcome (r r' : res graph) : Prop :=
    (exists g, r = Ok g /\ r' = Ok g) \/ ((exists e, r = Err e) /\ (exists e', r' = Err e')).

  Lemma SameOutcome_iff r r' : SameOutcome r r' <-> same r r'.
  Proof.
    split.
    - intros [(g & -> & ->)|((e & ->) & (e' & ->))] a; split; intro H; try exact H; discriminate.
    - intro H. destruct r as [g|e].
      + left. exists g. split; [reflexivity|]. apply H. reflexivity.
      + right. split; [eauto|]. destruct r' as [g'|e']; [|eauto].
        pose proof (proj2 (H g') eq_refl) as X. discriminate X.
  Qed.

  Theorem SameOutcome_refl r : SameOutcome r r.
  Proof. apply SameOutcome_iff, same_refl. Qed.
  Theorem SameOutcome_sym r r' : SameOutcome r r' -> SameOutcome r' r.
  Proof. rewrite !SameOutcome_iff. apply same_sym. Qed.
  Theorem SameOutcome_trans r1 r2 r3 : SameOutcome r1 r2 -> SameOutcome r2 r3 -> SameOutcome r1 r3.
  Proof. rewrite !SameOutcome_iff. apply same_trans. Qed.

  (* ================================================================ *)
  (* 2a. the fold, with the step equation required only at the states actually reached *)

  (* h is the state after the first i items of l, starting from g *)
  Definition reached {A} (f : graph -> A -> res graph) (l : list A) (g : graph) (i : nat) (h : graph)
    : Prop := foldM f (firstn i l) g = Ok h.

  Theorem foldM_reached_ext {A} (f : graph -> A -> res graph) (l l' : list A) g :
    List.length l = List.length l' ->
    (forall i x y h, nth_error l i = Some x -> nth_error l' i = Some y ->
                     reached f l g i h -> f h x = f h y) ->
    foldM f l g = foldM f l' g.
  Proof.
    revert l' g. induction l as [|x l IH]; intros [|y l'] g Hlen H; try discriminate Hlen;
      [reflexivity|].
    pose proof (H 0%nat x y g eq_refl eq_refl eq_refl) as E.
    cbn [foldM]. rewrite <- E. apply bind_ext'. intros g1 Hg1.
    apply IH; [cbn in Hlen; lia|]. intros i a b h Ha Hb Hr.
    apply (H (S i) a b h); [exact Ha|exact Hb|].
    unfold reached in *. cbn [firstn foldM]. rewrite Hg1. exact Hr.
  Qed.

  Lemma dict_check_nth (l l' : list jv) :
    List.length l = List.length l' ->
    (forall i x y, nth_error l i = Some x -> nth_error l' i = Some y -> is_dict x = is_dict y) ->
    dict_check l = dict_check l'.
  Proof.
    revert l'. induction l as [|x l IH]; intros [|y l'] Hlen H; try discriminate Hlen;
      [reflexivity|].
    unfold dict_check in *. cbn [forM_]. rewrite (H 0%nat x y eq_refl eq_refl).
    rewrite (IH l'); [reflexivity|cbn in Hlen; lia|].
    intros i a b Ha Hb. exact (H (S i) a b Ha Hb).
  Qed.

  (* ================================================================ *)
  (* 2b. Graph.fromdict cut into its four stages *)

  Record header := mkHeader {
    h_ddef : list (string * jv); h_mdef : list (string * jv);
    h_pdef : list (string * jv); h_edef : list (string * jv); h_g0 : graph }.

  (* everything before the demes: allowed keys, the four default tables, the empty graph *)
  Definition doc_header (kv : list (string * jv)) : res header :=
    check_allowed kv toplevel_fields ;;;
    defaults <- pop_object kv "defaults" ;;
    check_allowed defaults ["deme"; "migration"; "pulse"; "epoch"] ;;;
    ddef <- pop_object defaults "deme" ;; forM_ check_default_deme ddef ;;;
    mdef <- pop_object defaults "migration" ;; forM_ check_default_migration mdef ;;;
    pdef <- pop_object defaults "pulse" ;; forM_ check_default_pulse pdef ;;;
    edef <- pop_object defaults "epoch" ;; forM_ check_default_epoch edef ;;;
    units <- (match assoc "time_units" kv with Some v => Ok v | None => Err KeyErr end) ;;
    g0 <- make_graph (jdefault (assoc "description" kv) (JStr "")) units
                     (jdefault (assoc "doi" kv) (JList []))
                     (jdefault (assoc "generation_time" kv) JNull)
                     (jdefault (assoc "metadata" kv) (JDict [])) ;;
    Ok (mkHeader ddef mdef pdef edef g0).

  (* dict_list, as a function of the value found under the key *)
  Definition items_of (o : option jv) (required : bool) : res (list jv) :=
    match o with
    | None => if required then Err KeyErr else Ok []
    | Some v => l <- list_of v ;;
                forM_ (fun e => raise_if (negb (is_dict e)) TypeErr) l ;;; Ok l
    end.

  Definition demes_stage (o : option jv) (hd : header) : res graph :=
    dl <- items_of o true ;;
    raise_if (Nat.eqb (List.length dl) 0) ValueErr ;;;
    foldM (resolve_deme (h_ddef hd) (h_edef hd)) dl (h_g0 hd).

  Definition migs_stage (o : option jv) (hd : header) (g1 : graph) : res graph :=
    ml <- items_of o false ;;
    g2 <- foldM (resolve_migration (h_mdef hd)) ml g1 ;;
    check_migration_rates g2 ;;; Ok g2.

  Definition pulses_stage (o : option jv) (hd : header) (g2 : graph) : res graph :=
    pl <- items_of o false ;;
    g3 <- foldM (resolve_pulse (h_pdef hd)) pl g2 ;;
    Ok (mkGraph (g_desc g3) (g_units g3) (g_gt g3) (g_doi g3) (g_meta g3) (g_demes g3)
                (g_migs g3) (sort_pulses (g_pulses g3)) (g_index g3)).

  Ltac bcase :=
    match goal with
    | |- bind ?m _ = bind (bind ?m _) _ =>
        destruct m; cbn [bind h_ddef h_mdef h_pdef h_edef h_g0]; [|reflexivity]
    | |- bind ?m _ = bind ?m _ =>
        destruct m; cbn [bind h_ddef h_mdef h_pdef h_edef h_g0]; [|reflexivity]
    end.

  Lemma fromdict_stages kv :
    fromdict (JDict kv)
    = (hd <- doc_header kv ;;
       g1 <- demes_stage (assoc "demes" kv) hd ;;
       g2 <- migs_stage (assoc "migrations" kv) hd g1 ;;
       pulses_stage (assoc "pulses" kv) hd g2).
  Proof.
    unfold fromdict, doc_header. cbn [dict_of bind].
    change (dict_list kv "demes" true) with (items_of (assoc "demes" kv) true).
    change (dict_list kv "migrations" false) with (items_of (assoc "migrations" kv) false).
    change (dict_list kv "pulses" false) with (items_of (assoc "pulses" kv) false).
    unfold demes_stage, migs_stage. repeat bcase. reflexivity.
  Qed.

  (* two documents with the same header resolve alike if each stage does, at the states the
     first document reaches *)
  Lemma fromdict_same_stages kv kv' :
    doc_header kv = doc_header kv' ->
    (forall hd, doc_header kv = Ok hd ->
       same (demes_stage (assoc "demes" kv) hd) (demes_stage (assoc "demes" kv') hd)) ->
    (forall hd g1, doc_header kv = Ok hd -> demes_stage (assoc "demes" kv) hd = Ok g1 ->
       same (migs_stage (assoc "migrations" kv) hd g1) (migs_stage (assoc "migrations" kv') hd g1)) ->
    (forall hd g1 g2, doc_header kv = Ok hd -> demes_stage (assoc "demes" kv) hd = Ok g1 ->
       migs_stage (assoc "migrations" kv) hd g1 = Ok g2 ->
       same (pulses_stage (assoc "pulses" kv) hd g2) (pulses_stage (assoc "pulses" kv') hd g2)) ->
    same (fromdict (JDict kv)) (fromdict (JDict kv')).
  Proof.
    intros Hh Hd Hm Hp. rewrite !fromdict_stages, <- Hh.
    apply same_bind; [apply same_refl|]. intros hd Hhd.
    apply same_bind; [now apply Hd|]. intros g1 Hg1.
    apply same_bind; [now apply Hm|]. intros g2 Hg2.
    now apply (Hp hd g1 g2).
  Qed.

  Lemma fromdict_eq_stages kv kv' :
    doc_header kv = doc_header kv' ->
    (forall hd, doc_header kv = Ok hd ->
       demes_stage (assoc "demes" kv) hd = demes_stage (assoc "demes" kv') hd) ->
    (forall hd g1, doc_header kv = Ok hd -> demes_stage (assoc "demes" kv) hd = Ok g1 ->
       migs_stage (assoc "migrations" kv) hd g1 = migs_stage (assoc "migrations" kv') hd g1) ->
    (forall hd g1 g2, doc_header kv = Ok hd -> demes_stage (assoc "demes" kv) hd = Ok g1 ->
       migs_stage (assoc "migrations" kv) hd g1 = Ok g2 ->
       pulses_stage (assoc "pulses" kv) hd g2 = pulses_stage (assoc "pulses" kv') hd g2) ->
    fromdict (JDict kv) = fromdict (JDict kv').
  Proof.
    intros Hh Hd Hm Hp. rewrite !fromdict_stages, <- Hh.
    apply bind_ext'. intros hd Hhd. rewrite <- (Hd hd Hhd).
    apply bind_ext'. intros g1 Hg1. rewrite <- (Hm hd g1 Hhd Hg1).
    apply bind_ext'. intros g2 Hg2. exact (Hp hd g1 g2 Hhd Hg1 Hg2).
  Qed.

  (* the two documents have the same keys in the same order and the same values except,
     possibly, under the key K *)
  Definition AgreeOutside (K : string) (kv kv' : list (string * jv)) : Prop :=
    map fst kv = map fst kv' /\ forall k, k <> K -> assoc k kv = assoc k kv'.

  Lemma agree_outside_mid K pre post v v' :
    AgreeOutside K (pre ++ (K, v) :: post) (pre ++ (K, v') :: post).
  Proof.
    split; [now rewrite !map_app|]. intros k Hk.
    apply String.eqb_neq in Hk. now rewrite !assoc_mid_ne by exact Hk.
  Qed.

  Lemma doc_header_ext K kv kv' :
    In K ["demes"; "migrations"; "pulses"] -> AgreeOutside K kv kv' ->
    doc_header kv = doc_header kv'.
  Proof.
    intros HK [Hfst Hk]. unfold doc_header, pop_object at 1 6.
    rewrite (check_allowed_fst _ _ _ Hfst).
    assert (forall k, In k ["defaults"; "time_units"; "description"; "doi"; "generation_time";
                            "metadata"] -> assoc k kv = assoc k kv') as E.
    { intros k Hin. apply Hk. intro X. subst k. cbn in HK, Hin.
      decompose [or] HK; decompose [or] Hin; subst; try contradiction; discriminate. }
    rewrite (E "defaults"), (E "time_units"), (E "description"), (E "doi"),
      (E "generation_time"), (E "metadata") by (cbn; tauto).
    reflexivity.
  Qed.

  Lemma agree_other K K' kv kv' :
    AgreeOutside K kv kv' -> K' <> K -> assoc K' kv = assoc K' kv'.
  Proof. intros [_ H] Hne. now apply H. Qed.

  (* the stages on a document that does have a list under the key *)
  Definition runL (f : graph -> jv -> res graph) (l : list jv) (g : graph) : res graph :=
    dict_check l ;;; foldM f l g.

  Lemma items_of_list l r : items_of (Some (JList l)) r = (dict_check l ;;; Ok l).
  Proof. reflexivity. Qed.

  Lemma demes_stage_list dl hd :
    demes_stage (Some (JList dl)) hd
    = (raise_if (Nat.eqb (List.length dl) 0) ValueErr ;;;
       runL (resolve_deme (h_ddef hd) (h_edef hd)) dl (h_g0 hd)).
  Proof.
    unfold demes_stage, runL. rewrite items_of_list.
    destruct dl as [|x dl]; [reflexivity|].
    destruct (dict_check (x :: dl)) as [[]|e]; reflexivity.
  Qed.

  Lemma migs_stage_list ml hd g1 :
    migs_stage (Some (JList ml)) hd g1
    = (g2 <- runL (resolve_migration (h_mdef hd)) ml g1 ;; check_migration_rates g2 ;;; Ok g2).
  Proof.
    unfold migs_stage, runL. rewrite items_of_list.
    destruct (dict_check ml) as [[]|e]; reflexivity.
  Qed.

  Lemma pulses_stage_list pl hd g2 :
    pulses_stage (Some (JList pl)) hd g2
    = (g3 <- runL (resolve_pulse (h_pdef hd)) pl g2 ;;
       Ok (mkGraph (g_desc g3) (g_units g3) (g_gt g3) (g_doi g3) (g_meta g3) (g_demes g3)
                   (g_migs g3) (sort_pulses (g_pulses g3)) (g_index g3))).
  Proof.
    unfold pulses_stage, runL. rewrite items_of_list.
    destruct (dict_check pl) as [[]|e]; reflexivity.
  Qed.

  (* ================================================================ *)
  (* 2c. state-dependent extensionality of the three folds of Graph.fromdict: the step
     equation is asked only at the state reached by the preceding items of the FIRST
     document (under that document's defaults); the conclusion is an outright equation,
     error class included *)

  Definition ItemsAgreeAt (f : graph -> jv -> res graph) (g : graph) (l l' : list jv) : Prop :=
    List.length l = List.length l' /\
    forall i x y, nth_error l i = Some x -> nth_error l' i = Some y ->
                  is_dict x = is_dict y /\ forall h, reached f l g i h -> f h x = f h y.

  Lemma runL_reached_ext f g l l' : ItemsAgreeAt f g l l' -> runL f l g = runL f l' g.
  Proof.
    intros [Hlen H]. unfold runL.
    rewrite (dict_check_nth l l' Hlen) by (intros i x y Hx Hy; apply (H i x y Hx Hy)).
    rewrite (foldM_reached_ext f l l' g Hlen); [reflexivity|].
    intros i x y h Hx Hy. apply (H i x y Hx Hy).
  Qed.

  Theorem fromdict_demes_reached_ext kv kv' dl dl' :
    AgreeOutside "demes" kv kv' ->
    assoc "demes" kv = Some (JList dl) -> assoc "demes" kv' = Some (JList dl') ->
    (forall hd, doc_header kv = Ok hd ->
       ItemsAgreeAt (resolve_deme (h_ddef hd) (h_edef hd)) (h_g0 hd) dl dl') ->
    fromdict (JDict kv) = fromdict (JDict kv').
  Proof.
    intros HA Hd Hd' H. apply fromdict_eq_stages.
    - apply (doc_header_ext "demes"); [cbn; tauto|exact HA].
    - intros hd Hhd. rewrite Hd, Hd', !demes_stage_list.
      rewrite (runL_reached_ext _ _ _ _ (H hd Hhd)).
      now rewrite (proj1 (H hd Hhd)).
    - intros hd g1 _ _. now rewrite (agree_other _ "migrations" _ _ HA).
    - intros hd g1 g2 _ _ _. now rewrite (agree_other _ "pulses" _ _ HA).
  Qed.

  Theorem fromdict_migrations_reached_ext kv kv' ml ml' :
    AgreeOutside "migrations" kv kv' ->
    assoc "migrations" kv = Some (JList ml) -> assoc "migrations" kv' = Some (JList ml') ->
    (forall hd g1, doc_header kv = Ok hd -> demes_stage (assoc "demes" kv) hd = Ok g1 ->
       ItemsAgreeAt (resolve_migration (h_mdef hd)) g1 ml ml') ->
    fromdict (JDict kv) = fromdict (JDict kv').
  Proof.
    intros HA Hm Hm' H. apply fromdict_eq_stages.
    - apply (doc_header_ext "migrations"); [cbn; tauto|exact HA].
    - intros hd _. now rewrite (agree_other _ "demes" _ _ HA).
    - intros hd g1 Hhd Hg1. rewrite Hm, Hm', !migs_stage_list.
      now rewrite (runL_reached_ext _ _ _ _ (H hd g1 Hhd Hg1)).
    - intros hd g1 g2 _ _ _. now rewrite (agree_other _ "pulses" _ _ HA).
  Qed.

  Theorem fromdict_pulses_reached_ext kv kv' pl pl' :
    AgreeOutside "pulses" kv kv' ->
    assoc "pulses" kv = Some (JList pl) -> assoc "pulses" kv' = Some (JList pl') ->
    (forall hd g1 g2, doc_header kv = Ok hd -> demes_stage (assoc "demes" kv) hd = Ok g1 ->
       migs_stage (assoc "migrations" kv) hd g1 = Ok g2 ->
       ItemsAgreeAt (resolve_pulse (h_pdef hd)) g2 pl pl') ->
    fromdict (JDict kv) = fromdict (JDict kv').
  Proof.
    intros HA Hp Hp' H. apply fromdict_eq_stages.
    - apply (doc_header_ext "pulses"); [cbn; tauto|exact HA].
    - intros hd _. now rewrite (agree_other _ "demes" _ _ HA).
    - intros hd g1 _ _. now rewrite (agree_other _ "migrations" _ _ HA).
    - intros hd g1 g2 Hhd Hg1 Hg2. rewrite Hp, Hp', !pulses_stage_list.
      now rewrite (runL_reached_ext _ _ _ _ (H hd g1 g2 Hhd Hg1 Hg2)).
  Qed.

  (* ================================================================ *)
  (* 3a. lists of items related block by block, each block at the state reached *)

  Section ListRespell.
    Context (f : graph -> jv -> res graph).
    (* B g l l': the consecutive items l may be re-spelt as the items l' at state g *)
    Context (B : graph -> list jv -> list jv -> Prop).

    Inductive ListRespell : graph -> list jv -> list jv -> Prop :=
    | LR_refl g l : ListRespell g l l
    | LR_block g l l' : B g l l' -> ListRespell g l l'
    | LR_app g l1 l1' l2 l2' :
        ListRespell g l1 l1' ->
        (forall g1, foldM f l1 g = Ok g1 -> ListRespell g1 l2 l2') ->
        ListRespell g (l1 ++ l2) (l1' ++ l2')
    | LR_sym g l l' : ListRespell g l l' -> ListRespell g l' l
    | LR_trans g l1 l2 l3 : ListRespell g l1 l2 -> ListRespell g l2 l3 -> ListRespell g l1 l3.

    (* what a related pair of lists has in common: emptiness, and the outcome of checking
       and folding them from g *)
    Definition LSound (g : graph) (l l' : list jv) : Prop :=
      (l = [] <-> l' = []) /\ same (runL f l g) (runL f l' g).

    Lemma runL_ok l g g1 : runL f l g = Ok g1 <-> dict_check l = Ok tt /\ foldM f l g = Ok g1.
    Proof.
      unfold runL. destruct (dict_check l) as [[]|e]; cbn [bind]; split.
      - auto.
      - tauto.
      - discriminate.
      - intros [X _]. discriminate X.
    Qed.

    Lemma runL_app l1 l2 g g2 :
      runL f (l1 ++ l2) g = Ok g2 <-> exists g1, runL f l1 g = Ok g1 /\ runL f l2 g1 = Ok g2.
    Proof.
      rewrite runL_ok, dict_check_app, foldM_app. split.
      - intros [Hd Hf]. apply bind_ok in Hd. destruct Hd as (u & Hd1 & Hd2).
        apply bind_ok in Hf. destruct Hf as (g1 & Hf1 & Hf2). exists g1.
        rewrite !runL_ok. destruct u. auto.
      - intros (g1 & H1 & H2). apply runL_ok in H1, H2.
        destruct H1 as [A1 B1], H2 as [A2 B2]. rewrite A1, B1. cbn [bind]. auto.
    Qed.

    Lemma list_respell_sound :
      (forall g l l', B g l l' -> LSound g l l') ->
      forall g l l', ListRespell g l l' -> LSound g l l'.
    Proof.
      intros HB g l l' H.
      induction H as [g l|g l l' Hb|g l1 l1' l2 l2' H1 IH1 H2 IH2|g l l' H IH|g l1 l2 l3 H1 IH1 H2 IH2].
      - split; [tauto|apply same_refl].
      - now apply HB.
      - destruct IH1 as [E1 S1]. split.
        + split; intro X; apply app_eq_nil in X; destruct X as [X1 X2].
          * subst l1 l2. assert (l1' = []) as -> by tauto.
            destruct (IH2 g eq_refl) as [E2 _]. assert (l2' = []) as -> by tauto. reflexivity.
          * subst l1' l2'. assert (l1 = []) as -> by tauto.
            destruct (IH2 g eq_refl) as [E2 _]. assert (l2 = []) as -> by tauto. reflexivity.
        + intro g2. rewrite !runL_app. split; intros (g1 & Ha & Hb).
          * exists g1. split; [now apply S1|].
            apply runL_ok in Ha. destruct (IH2 g1 (proj2 Ha)) as [_ S2]. now apply S2.
          * apply S1 in Ha. exists g1. split; [exact Ha|].
            apply runL_ok in Ha. destruct (IH2 g1 (proj2 Ha)) as [_ S2]. now apply S2.
      - destruct IH as [E S]. split; [tauto|now apply same_sym].
      - destruct IH1 as [E1 S1], IH2 as [E2 S2]. split; [tauto|eapply same_trans; eauto].
    Qed.

    (* derived congruences *)
    Lemma LR_cons g x y l l' :
      ListRespell g [x] [y] -> (forall g1, f g x = Ok g1 -> ListRespell g1 l l') ->
      ListRespell g (x :: l) (y :: l').
    Proof.
      intros H1 H2. apply (LR_app g [x] [y] l l' H1). intros g1 Hg1. apply H2.
      cbn [foldM] in Hg1. destruct (f g x); [exact Hg1|discriminate Hg1].
    Qed.

    Lemma LR_skip g x l l' :
      (forall g1, f g x = Ok g1 -> ListRespell g1 l l') -> ListRespell g (x :: l) (x :: l').
    Proof. apply LR_cons. apply LR_refl. Qed.

    (* the item-by-item, reached-state formulation gives a ListRespell *)
    Lemma list_respell_of_reached g l l' :
      List.length l = List.length l' ->
      (forall i x y h, nth_error l i = Some x -> nth_error l' i = Some y ->
                       reached f l g i h -> B h [x] [y]) ->
      ListRespell g l l'.
    Proof.
      revert l' g. induction l as [|x l IH]; intros [|y l'] g Hlen H; try discriminate Hlen;
        [apply LR_refl|].
      apply LR_cons.
      - apply LR_block. exact (H 0%nat x y g eq_refl eq_refl eq_refl).
      - intros g1 Hg1. apply IH; [cbn in Hlen; lia|]. intros i a b h Ha Hb Hr.
        apply (H (S i) a b h); [exact Ha|exact Hb|].
        unfold reached in *. cbn [firstn foldM]. rewrite Hg1. exact Hr.
    Qed.
  End ListRespell.

  (* ================================================================ *)
  (* 3b. single re-spelling steps of one deme, valid at the state h reached so far; one
     constructor per deme-level / epoch-level theorem of DocRules.v, with exactly its
     hypotheses *)

  Inductive DemeStep (ddef edef : list (string * jv)) (h : graph) : jv -> jv -> Prop :=
  | DS_start_root kv :
      absent "start_time" kv -> absent "start_time" ddef ->
      field_nn kv ddef "ancestors" = None ->
      DemeStep ddef edef h (JDict kv) (JDict (("start_time", JNum ninf) :: kv))
  | DS_start_single kv a ad e :
      absent "start_time" kv -> absent "start_time" ddef ->
      field_nn kv ddef "ancestors" = Some (JList [JStr a]) ->
      lookup h a = Ok ad -> d_end ad = Ok e ->
      DemeStep ddef edef h (JDict kv) (JDict (("start_time", JNum e) :: kv))
  | DS_props_single kv a :
      absent "proportions" kv -> absent "proportions" ddef ->
      field_nn kv ddef "ancestors" = Some (JList [a]) ->
      DemeStep ddef edef h (JDict kv) (JDict (("proportions", JList [JNum nf1]) :: kv))
  | DS_props_none kv :
      absent "proportions" kv -> absent "proportions" ddef ->
      field_nn kv ddef "ancestors" = None ->
      DemeStep ddef edef h (JDict kv) (JDict (("proportions", JList []) :: kv))
  | DS_ancestors_none kv :
      absent "ancestors" kv -> absent "ancestors" ddef ->
      DemeStep ddef edef h (JDict kv) (JDict (("ancestors", JList []) :: kv))
  | DS_description kv :
      absent "description" kv -> absent "description" ddef ->
      DemeStep ddef edef h (JDict kv) (JDict (("description", JStr "") :: kv))
  | DS_default_copied kv k v :
      In k ["description"; "start_time"; "ancestors"; "proportions"] ->
      absent k kv -> assoc k ddef = Some v ->
      DemeStep ddef edef h (JDict kv) (JDict ((k, v) :: kv))
  | DS_epoch_last_end_time pre post es ekv :
      absent "epochs" pre -> absent "defaults" pre -> absent "defaults" post ->
      absent "end_time" ekv -> absent "end_time" edef ->
      DemeStep ddef edef h (with_epochs pre post (es ++ [JDict ekv]))
               (with_epochs pre post (es ++ [JDict (("end_time", JNum n0) :: ekv)]))
  | DS_epoch_rate_default pre post es1 es2 ekv k :
      In k ["selfing_rate"; "cloning_rate"] ->
      absent "epochs" pre -> absent "defaults" pre -> absent "defaults" post ->
      absent k ekv -> absent k edef ->
      DemeStep ddef edef h (with_epochs pre post (es1 ++ JDict ekv :: es2))
               (with_epochs pre post (es1 ++ JDict ((k, JNum n0) :: ekv) :: es2))
  | DS_epoch_default_copied pre post es1 es2 ekv k v :
      In k epoch_fields ->
      absent "epochs" pre -> absent "defaults" pre -> absent "defaults" post ->
      absent k ekv -> assoc k edef = Some v ->
      DemeStep ddef edef h (with_epochs pre post (es1 ++ JDict ekv :: es2))
               (with_epochs pre post (es1 ++ JDict ((k, v) :: ekv) :: es2))
  | DS_first_epoch_end_size pre post es2 ekv ss :
      absent "epochs" pre -> absent "defaults" pre -> absent "defaults" post ->
      absent "end_size" ekv -> absent "end_size" edef ->
      field_nn ekv edef "start_size" = Some ss ->
      DemeStep ddef edef h (with_epochs pre post (JDict ekv :: es2))
               (with_epochs pre post (JDict (("end_size", ss) :: ekv) :: es2))
  | DS_first_epoch_start_size pre post es2 ekv es :
      absent "epochs" pre -> absent "defaults" pre -> absent "defaults" post ->
      absent "start_size" ekv -> absent "start_size" edef ->
      field_nn ekv edef "end_size" = Some es ->
      DemeStep ddef edef h (with_epochs pre post (JDict ekv :: es2))
               (with_epochs pre post (JDict (("start_size", es) :: ekv) :: es2)).

  (* any number of steps, in either direction, at the same deme *)
  Definition DemeRespell (ddef edef : list (string * jv)) (h : graph) : jv -> jv -> Prop :=
    Closure (DemeStep ddef edef h).

  Lemma deme_step_sound ddef edef h x y :
    DemeStep ddef edef h x y ->
    (is_dict x, resolve_deme ddef edef h x) = (is_dict y, resolve_deme ddef edef h y).
  Proof.
    intro S. destruct S; (apply f_equal2; [reflexivity|]).
    - now apply doc_deme_start_root.
    - eapply doc_deme_start_single; eassumption.
    - eapply doc_deme_props_single; eassumption.
    - now apply doc_deme_props_none.
    - now apply doc_deme_ancestors_none.
    - now apply doc_deme_description.
    - now apply doc_deme_default_copied.
    - now apply doc_epoch_last_end_time.
    - now apply doc_epoch_rate_default.
    - now apply doc_epoch_default_copied.
    - now apply doc_first_epoch_end_size.
    - now apply doc_first_epoch_start_size.
  Qed.

  Theorem deme_respell_sound ddef edef h x y :
    DemeRespell ddef edef h x y ->
    resolve_deme ddef edef h x = resolve_deme ddef edef h y /\ is_dict x = is_dict y.
  Proof.
    intro H.
    pose proof (closure_inv _ (fun x => (is_dict x, resolve_deme ddef edef h x))
                  (deme_step_sound ddef edef h) x y H) as E.
    cbv beta in E. injection E as E1 E2. auto.
  Qed.

  (* ---- migrations ---- *)
  Inductive MigStep (mdef : list (string * jv)) (h : graph) : jv -> jv -> Prop :=
  | MS_bounds kv s d lo hi :
      field_nn kv mdef "demes" = None ->
      field_nn kv mdef "source" = Some (JStr s) -> field_nn kv mdef "dest" = Some (JStr d) ->
      absent "start_time" kv -> absent "start_time" mdef ->
      absent "end_time" kv -> absent "end_time" mdef ->
      time_intersection h s d None = Ok (lo, hi) -> nle lo hi = true ->
      MigStep mdef h (JDict kv)
              (JDict (("start_time", JNum hi) :: ("end_time", JNum lo) :: kv))
  | MS_default_copied kv k v :
      In k migration_fields -> absent k kv -> assoc k mdef = Some v ->
      MigStep mdef h (JDict kv) (JDict ((k, v) :: kv)).

  Definition MigRespell (mdef : list (string * jv)) (h : graph) : jv -> jv -> Prop :=
    Closure (MigStep mdef h).

  Lemma mig_step_sound mdef h x y :
    MigStep mdef h x y ->
    (is_dict x, resolve_migration mdef h x) = (is_dict y, resolve_migration mdef h y).
  Proof.
    intro S. destruct S; (apply f_equal2; [reflexivity|]).
    - eapply doc_migration_bounds; eassumption.
    - now apply doc_migration_default_copied.
  Qed.

  Theorem mig_respell_sound mdef h x y :
    MigRespell mdef h x y ->
    resolve_migration mdef h x = resolve_migration mdef h y /\ is_dict x = is_dict y.
  Proof.
    intro H.
    pose proof (closure_inv _ (fun x => (is_dict x, resolve_migration mdef h x))
                  (mig_step_sound mdef h) x y H) as E.
    cbv beta in E. injection E as E1 E2. auto.
  Qed.

  (* ---- pulses ---- *)
  Inductive PulseStep (pdef : list (string * jv)) (h : graph) : jv -> jv -> Prop :=
  | PS_default_copied kv k v :
      In k pulse_fields -> absent k kv -> assoc k pdef = Some v ->
      PulseStep pdef h (JDict kv) (JDict ((k, v) :: kv)).

  Definition PulseRespell (pdef : list (string * jv)) (h : graph) : jv -> jv -> Prop :=
    Closure (PulseStep pdef h).

  Lemma pulse_step_sound pdef h x y :
    PulseStep pdef h x y ->
    (is_dict x, resolve_pulse pdef h x) = (is_dict y, resolve_pulse pdef h y).
  Proof.
    intro S. destruct S; (apply f_equal2; [reflexivity|]). now apply doc_pulse_default_copied.
  Qed.

  Theorem pulse_respell_sound pdef h x y :
    PulseRespell pdef h x y ->
    resolve_pulse pdef h x = resolve_pulse pdef h y /\ is_dict x = is_dict y.
  Proof.
    intro H.
    pose proof (closure_inv _ (fun x => (is_dict x, resolve_pulse pdef h x))
                  (pulse_step_sound pdef h) x y H) as E.
    cbv beta in E. injection E as E1 E2. auto.
  Qed.

  (* ---- top level ---- *)
  Inductive TopStep : list (string * jv) -> list (string * jv) -> Prop :=
  | TS_optional kv k v :
      In (k, v) [("description", JStr ""); ("doi", JList []); ("metadata", JDict []);
                 ("migrations", JList []); ("pulses", JList []); ("defaults", JDict [])] ->
      absent k kv ->
      TopStep kv ((k, v) :: kv)
  | TS_generation_time kv :
      assoc "time_units" kv = Some (JStr "generations") -> absent "generation_time" kv ->
      TopStep kv (("generation_time", JNum n1) :: kv).

  Theorem top_step_sound kv kv' : TopStep kv kv' -> fromdict (JDict kv) = fromdict (JDict kv').
  Proof.
    intro S. destruct S.
    - now apply doc_top_optional.
    - now apply doc_top_generation_time.
  Qed.

  (* ================================================================ *)
  (* 3c. the blocks of the three lists *)

  (* one item re-spelt as one item *)
  Inductive OneBlock (R : graph -> jv -> jv -> Prop) (g : graph) : list jv -> list jv -> Prop :=
  | OB_one x y : R g x y -> OneBlock R g [x] [y].

  Lemma one_block_sound (f : graph -> jv -> res graph) (R : graph -> jv -> jv -> Prop) :
    (forall g x y, R g x y -> f g x = f g y /\ is_dict x = is_dict y) ->
    forall g l l', OneBlock R g l l' -> LSound f g l l'.
  Proof.
    intros HR g l l' Hb. destruct Hb as [x y Hxy]. destruct (HR g x y Hxy) as [E1 E2].
    split; [split; discriminate|]. apply same_of_eq.
    unfold runL, dict_check. cbn [forM_ foldM]. now rewrite E1, E2.
  Qed.

  Definition DemesRespell (ddef edef : list (string * jv)) : graph -> list jv -> list jv -> Prop :=
    ListRespell (resolve_deme ddef edef) (OneBlock (DemeRespell ddef edef)).

  Definition PulsesRespell (pdef : list (string * jv)) : graph -> list jv -> list jv -> Prop :=
    ListRespell (resolve_pulse pdef) (OneBlock (PulseRespell pdef)).

  (* migrations: one for one, or ONE symmetric document for its TWO directional documents
     (doc_symmetric_pair, with exactly its hypotheses) *)
  Inductive MigBlock (mdef : list (string * jv)) (g : graph) : list jv -> list jv -> Prop :=
  | MB_one x y : MigRespell mdef g x y -> MigBlock mdef g [x] [y]
  | MB_symmetric_pair kv a b :
      a <> JNull -> b <> JNull ->
      assoc "demes" kv = Some (JList [a; b]) ->
      absent "source" kv -> absent "dest" kv ->
      absent "demes" mdef -> absent "source" mdef -> absent "dest" mdef ->
      MigBlock mdef g [JDict kv]
               [JDict (("source", a) :: ("dest", b) :: remove_key "demes" kv);
                JDict (("source", b) :: ("dest", a) :: remove_key "demes" kv)].

  Definition MigsRespell (mdef : list (string * jv)) : graph -> list jv -> list jv -> Prop :=
    ListRespell (resolve_migration mdef) (MigBlock mdef).

  Lemma mig_block_sound mdef g l l' :
    MigBlock mdef g l l' -> LSound (resolve_migration mdef) g l l'.
  Proof.
    intro Hb. destruct Hb as [x y Hxy|kv a b Na Nb Hdm Hs Hd Mdm Ms Md].
    - apply (one_block_sound (resolve_migration mdef) (MigRespell mdef)).
      + intros g0 x0 y0. apply mig_respell_sound.
      + now constructor.
    - split; [split; discriminate|]. apply same_of_eq.
      unfold runL, dict_check. cbn [forM_ foldM is_dict negb raise_if bind].
      rewrite (doc_symmetric_pair mdef g kv a b Na Nb Hdm Hs Hd Mdm Ms Md).
      destruct (resolve_migration mdef g _) as [g1|e]; cbn [bind]; [|reflexivity].
      destruct (resolve_migration mdef g1 _) as [g2|e]; reflexivity.
  Qed.

  Theorem demes_respell_sound ddef edef g l l' :
    DemesRespell ddef edef g l l' -> LSound (resolve_deme ddef edef) g l l'.
  Proof.
    apply list_respell_sound. apply one_block_sound.
    intros g0 x y. apply deme_respell_sound.
  Qed.

  Theorem migs_respell_sound mdef g l l' :
    MigsRespell mdef g l l' -> LSound (resolve_migration mdef) g l l'.
  Proof. apply list_respell_sound. intros g0 l0 l0'. apply mig_block_sound. Qed.

  Theorem pulses_respell_sound pdef g l l' :
    PulsesRespell pdef g l l' -> LSound (resolve_pulse pdef) g l l'.
  Proof.
    apply list_respell_sound. apply one_block_sound.
    intros g0 x y. apply pulse_respell_sound.
  Qed.

  (* ================================================================ *)
  (* 4. whole documents *)

  Inductive DocRespell : jv -> jv -> Prop :=
  | DocR_refl d : DocRespell d d
  | DocR_sym d d' : DocRespell d d' -> DocRespell d' d
  | DocR_trans d1 d2 d3 : DocRespell d1 d2 -> DocRespell d2 d3 -> DocRespell d1 d3
  (* keys permuted inside any mapping of the document *)
  | DocR_keys d d' : KeyOrd d d' -> DocRespell d d'
  (* an optional top-level key written out *)
  | DocR_top kv kv' : TopStep kv kv' -> DocRespell (JDict kv) (JDict kv')
  (* the deme lists are related block by block, each deme at the state reached by the
     preceding demes of the first document, under that document's defaults *)
  | DocR_demes kv kv' dl dl' :
      AgreeOutside "demes" kv kv' ->
      assoc "demes" kv = Some (JList dl) -> assoc "demes" kv' = Some (JList dl') ->
      (forall hd, doc_header kv = Ok hd ->
         DemesRespell (h_ddef hd) (h_edef hd) (h_g0 hd) dl dl') ->
      DocRespell (JDict kv) (JDict kv')
  (* likewise the migration lists, starting from the graph of all the demes *)
  | DocR_migrations kv kv' ml ml' :
      AgreeOutside "migrations" kv kv' ->
      assoc "migrations" kv = Some (JList ml) -> assoc "migrations" kv' = Some (JList ml') ->
      (forall hd g1, doc_header kv = Ok hd -> demes_stage (assoc "demes" kv) hd = Ok g1 ->
         MigsRespell (h_mdef hd) g1 ml ml') ->
      DocRespell (JDict kv) (JDict kv')
  (* and the pulse lists, starting from the graph of all the demes and migrations *)
  | DocR_pulses kv kv' pl pl' :
      AgreeOutside "pulses" kv kv' ->
      assoc "pulses" kv = Some (JList pl) -> assoc "pulses" kv' = Some (JList pl') ->
      (forall hd g1 g2, doc_header kv = Ok hd -> demes_stage (assoc "demes" kv) hd = Ok g1 ->
         migs_stage (assoc "migrations" kv) hd g1 = Ok g2 ->
         PulsesRespell (h_pdef hd) g2 pl pl') ->
      DocRespell (JDict kv) (JDict kv').

  Lemma demes_stage_same dl dl' hd :
    LSound (resolve_deme (h_ddef hd) (h_edef hd)) (h_g0 hd) dl dl' ->
    same (demes_stage (Some (JList dl)) hd) (demes_stage (Some (JList dl')) hd).
  Proof.
    intros [E S]. rewrite !demes_stage_list.
    destruct dl as [|x dl], dl' as [|y dl'].
    - apply same_refl.
    - exfalso. assert (y :: dl' = []) as X by tauto. discriminate X.
    - exfalso. assert (x :: dl = []) as X by tauto. discriminate X.
    - cbn [List.length Nat.eqb raise_if bind]. exact S.
  Qed.

  Lemma fromdict_respell_same d d' : DocRespell d d' -> same (fromdict d) (fromdict d').
  Proof.
    intro H.
    induction H as [d|d d' H IH|d1 d2 d3 H1 IH1 H2 IH2|d d' HK|kv kv' HT
                   |kv kv' dl dl' HA Hd Hd' HR|kv kv' ml ml' HA Hm Hm' HR
                   |kv kv' pl pl' HA Hp Hp' HR].
    - apply same_refl.
    - now apply same_sym.
    - eapply same_trans; eauto.
    - apply same_of_rrel. now apply fromdict_ko.
    - apply same_of_eq. now apply top_step_sound.
    - apply fromdict_same_stages.
      + apply (doc_header_ext "demes"); [cbn; tauto|exact HA].
      + intros hd Hhd. rewrite Hd, Hd'. apply demes_stage_same.
        apply demes_respell_sound. now apply HR.
      + intros hd g1 _ _. rewrite (agree_other _ "migrations" _ _ HA) by discriminate.
        apply same_refl.
      + intros hd g1 g2 _ _ _. rewrite (agree_other _ "pulses" _ _ HA) by discriminate.
        apply same_refl.
    - apply fromdict_same_stages.
      + apply (doc_header_ext "migrations"); [cbn; tauto|exact HA].
      + intros hd _. rewrite (agree_other _ "demes" _ _ HA) by discriminate. apply same_refl.
      + intros hd g1 Hhd Hg1. rewrite Hm, Hm', !migs_stage_list.
        apply same_bind; [|intros; apply same_refl].
        apply migs_respell_sound. now apply HR.
      + intros hd g1 g2 _ _ _. rewrite (agree_other _ "pulses" _ _ HA) by discriminate.
        apply same_refl.
    - apply fromdict_same_stages.
      + apply (doc_header_ext "pulses"); [cbn; tauto|exact HA].
      + intros hd _. rewrite (agree_other _ "demes" _ _ HA) by discriminate. apply same_refl.
      + intros hd g1 _ _. rewrite (agree_other _ "migrations" _ _ HA) by discriminate.
        apply same_refl.
      + intros hd g1 g2 Hhd Hg1 Hg2. rewrite Hp, Hp', !pulses_stage_list.
        apply same_bind; [|intros; apply same_refl].
        apply pulses_respell_sound. now apply (HR hd g1 g2).
  Qed.

  (* MAIN THEOREM: documents related by any composition of re-spellings resolve to the same
     graph, or are both rejected *)
  Theorem fromdict_respell d d' : DocRespell d d' -> SameOutcome (fromdict d) (fromdict d').
  Proof. intro H. apply SameOutcome_iff. now apply fromdict_respell_same. Qed.

  Corollary fromdict_respell_ok d d' g : DocRespell d d' -> fromdict d = Ok g -> fromdict d' = Ok g.
  Proof. intros H. apply (fromdict_respell_same d d' H g). Qed.
End DocCompose.

(* ================================================================== *)
(* 5. A computed instance over the exact-rational numbers NumQ.

   Two roots A (alive until 50) and R, and B descending from A; a symmetric migration B <-> R
   and a pulse R -> B whose proportions come from the top-level defaults.  The second
   document differs from the first by SEVEN re-spellings at once:
     - deme B: the end_time of its last epoch written out (0), its start_time written out
       (50, the end of its single ancestor: needs the state reached after A), its
       proportions written out ([1.0]) — three steps at the same deme;
     - the symmetric migration replaced by its two directional documents;
     - the pulse: the default proportions copied into the pulse;
     - top level: "description": "" written out;
     - keys permuted at top level and inside deme B. *)

Definition dc_q (n d : Z) (i : bool) : qx := QF (n # Z.to_pos d) i.
Definition dc_JI (n : Z) : @jv NumQ := JNum (dc_q n 1 true).
Definition dc_JF (n d : Z) : @jv NumQ := JNum (dc_q n d false).

Definition dc_kvA : list (string * @jv NumQ) :=
  [("name", JStr "A"); ("epochs", JList [JDict [("start_size", dc_JI 1000); ("end_time", dc_JI 50)]])].
Definition dc_kvR : list (string * @jv NumQ) :=
  [("name", JStr "R"); ("epochs", JList [JDict [("start_size", dc_JI 300); ("end_time", dc_JI 0)]])].
(* B as a human writes it *)
Definition dc_kvB : list (string * @jv NumQ) :=
  [("name", JStr "B"); ("ancestors", JList [JStr "A"]);
   ("epochs", JList [JDict [("start_size", dc_JI 500)]])].
(* ... with the end time of the last epoch *)
Definition dc_kvB1 : list (string * @jv NumQ) :=
  [("name", JStr "B"); ("ancestors", JList [JStr "A"]);
   ("epochs", JList [JDict [("end_time", JNum n0); ("start_size", dc_JI 500)]])].
(* ... and the start time *)
Definition dc_kvB2 : list (string * @jv NumQ) := ("start_time", dc_JI 50) :: dc_kvB1.
(* ... and the proportions *)
Definition dc_kvB3 : list (string * @jv NumQ) := ("proportions", JList [JNum nf1]) :: dc_kvB2.
(* ... in another key order *)
Definition dc_kvB4 : list (string * @jv NumQ) :=
  [("name", JStr "B"); ("start_time", dc_JI 50); ("ancestors", JList [JStr "A"]);
   ("proportions", JList [JNum nf1]);
   ("epochs", JList [JDict [("end_time", JNum n0); ("start_size", dc_JI 500)]])].

Definition dc_kvM : list (string * @jv NumQ) :=
  [("demes", JList [JStr "B"; JStr "R"]); ("rate", dc_JF 1 1000)].
Definition dc_kvM1 : list (string * @jv NumQ) :=
  [("source", JStr "B"); ("dest", JStr "R"); ("rate", dc_JF 1 1000)].
Definition dc_kvM2 : list (string * @jv NumQ) :=
  [("source", JStr "R"); ("dest", JStr "B"); ("rate", dc_JF 1 1000)].

Definition dc_kvP : list (string * @jv NumQ) :=
  [("sources", JList [JStr "R"]); ("dest", JStr "B"); ("time", dc_JI 20)].
Definition dc_kvP1 : list (string * @jv NumQ) := ("proportions", JList [dc_JF 1 10]) :: dc_kvP.

Definition dc_defaults : @jv NumQ :=
  JDict [("pulse", JDict [("proportions", JList [dc_JF 1 10])])].

Definition dc_top (demes migs pulses : list (@jv NumQ)) : list (string * @jv NumQ) :=
  [("time_units", JStr "generations"); ("defaults", dc_defaults);
   ("demes", JList demes); ("migrations", JList migs); ("pulses", JList pulses)].

Definition dc_kv1 := dc_top [JDict dc_kvA; JDict dc_kvB; JDict dc_kvR] [JDict dc_kvM] [JDict dc_kvP].
Definition dc_kv2 := dc_top [JDict dc_kvA; JDict dc_kvB3; JDict dc_kvR] [JDict dc_kvM] [JDict dc_kvP].
Definition dc_kv3 :=
  dc_top [JDict dc_kvA; JDict dc_kvB3; JDict dc_kvR] [JDict dc_kvM1; JDict dc_kvM2] [JDict dc_kvP].
Definition dc_kv4 :=
  dc_top [JDict dc_kvA; JDict dc_kvB3; JDict dc_kvR] [JDict dc_kvM1; JDict dc_kvM2] [JDict dc_kvP1].
Definition dc_kv5 : list (string * @jv NumQ) := ("description", JStr "") :: dc_kv4.
(* the keys of dc_kv5 in their order, deme B in its final key order *)
Definition dc_kv5' : list (string * @jv NumQ) :=
  ("description", JStr "")
  :: dc_top [JDict dc_kvA; JDict dc_kvB4; JDict dc_kvR] [JDict dc_kvM1; JDict dc_kvM2] [JDict dc_kvP1].
Definition dc_kv6 : list (string * @jv NumQ) :=
  [("time_units", JStr "generations"); ("description", JStr ""); ("defaults", dc_defaults);
   ("demes", JList [JDict dc_kvA; JDict dc_kvB4; JDict dc_kvR]);
   ("migrations", JList [JDict dc_kvM1; JDict dc_kvM2]); ("pulses", JList [JDict dc_kvP1])].

Definition dc_doc1 : @jv NumQ := JDict dc_kv1.
Definition dc_doc2 : @jv NumQ := JDict dc_kv6.

Definition dc_dummy : @graph NumQ := mkGraph "" "" n0 [] JNull [] [] [] [].
Definition dc_dummy_deme : @deme NumQ := mkDeme "" "" n0 [] [] [].

(* the states reached in the first document *)
Definition dc_g0 : @graph NumQ :=
  Eval vm_compute in match doc_header dc_kv1 with Ok hd => h_g0 hd | Err _ => dc_dummy end.
Definition dc_gA : @graph NumQ :=
  Eval vm_compute in
    match resolve_deme [] [] dc_g0 (JDict dc_kvA) with Ok g => g | Err _ => dc_dummy end.
Definition dc_adA : @deme NumQ := Eval vm_compute in nth 0 (g_demes dc_gA) dc_dummy_deme.

Ltac dc_triv := first [reflexivity | vm_compute; reflexivity].

(* --- the three steps at deme B, at the state reached after A --- *)
Lemma dc_deme_B : DemeRespell [] [] dc_gA (JDict dc_kvB) (JDict dc_kvB3).
Proof.
  apply (C_trans _ _ (JDict dc_kvB1)); [|apply (C_trans _ _ (JDict dc_kvB2))]; apply C_step.
  - exact (DS_epoch_last_end_time [] [] dc_gA
             [("name", JStr "B"); ("ancestors", JList [JStr "A"])] [] []
             [("start_size", dc_JI 500)] eq_refl eq_refl eq_refl eq_refl eq_refl).
  - apply (DS_start_single [] [] dc_gA dc_kvB1 "A" dc_adA (dc_q 50 1 true)); dc_triv.
  - apply (DS_props_single [] [] dc_gA dc_kvB2 (JStr "A")); dc_triv.
Qed.

Lemma dc_step_demes : DocRespell (JDict dc_kv1) (JDict dc_kv2).
Proof.
  apply (DocR_demes dc_kv1 dc_kv2 [JDict dc_kvA; JDict dc_kvB; JDict dc_kvR]
           [JDict dc_kvA; JDict dc_kvB3; JDict dc_kvR]).
  - exact (agree_outside_mid "demes"
             [("time_units", JStr "generations"); ("defaults", dc_defaults)]
             [("migrations", JList [JDict dc_kvM]); ("pulses", JList [JDict dc_kvP])] _ _).
  - reflexivity.
  - reflexivity.
  - intros hd Hhd. vm_compute in Hhd. injection Hhd as <-. cbn [h_ddef h_edef h_g0].
    unfold DemesRespell. apply LR_skip. intros g1 Hg1. vm_compute in Hg1. injection Hg1 as <-.
    apply LR_cons; [|intros; apply LR_refl].
    apply LR_block, OB_one. exact dc_deme_B.
Qed.

(* --- the symmetric migration, at the state reached after the three demes --- *)
Lemma dc_step_migrations : DocRespell (JDict dc_kv2) (JDict dc_kv3).
Proof.
  apply (DocR_migrations dc_kv2 dc_kv3 [JDict dc_kvM] [JDict dc_kvM1; JDict dc_kvM2]).
  - exact (agree_outside_mid "migrations"
             [("time_units", JStr "generations"); ("defaults", dc_defaults);
              ("demes", JList [JDict dc_kvA; JDict dc_kvB3; JDict dc_kvR])]
             [("pulses", JList [JDict dc_kvP])] _ _).
  - reflexivity.
  - reflexivity.
  - intros hd g1 Hhd _. vm_compute in Hhd. injection Hhd as <-. cbn [h_mdef].
    unfold MigsRespell. apply LR_block.
    apply (MB_symmetric_pair [] g1 dc_kvM (JStr "B") (JStr "R"));
      first [reflexivity | intro X; discriminate X].
Qed.

(* --- the pulse, with the proportions of the top-level defaults --- *)
Lemma dc_step_pulses : DocRespell (JDict dc_kv3) (JDict dc_kv4).
Proof.
  apply (DocR_pulses dc_kv3 dc_kv4 [JDict dc_kvP] [JDict dc_kvP1]).
  - exact (agree_outside_mid "pulses"
             [("time_units", JStr "generations"); ("defaults", dc_defaults);
              ("demes", JList [JDict dc_kvA; JDict dc_kvB3; JDict dc_kvR]);
              ("migrations", JList [JDict dc_kvM1; JDict dc_kvM2])] [] _ _).
  - reflexivity.
  - reflexivity.
  - intros hd g1 g2 Hhd _ _. vm_compute in Hhd. injection Hhd as <-. cbn [h_pdef].
    unfold PulsesRespell. apply LR_block, OB_one, C_step.
    apply (PS_default_copied _ g2 dc_kvP "proportions" (JList [dc_JF 1 10])); try dc_triv.
    cbn; tauto.
Qed.

(* --- top level --- *)
Lemma dc_step_top : DocRespell (JDict dc_kv4) (JDict dc_kv5).
Proof.
  apply DocR_top. apply (TS_optional dc_kv4 "description" (JStr "")); [cbn; tauto|reflexivity].
Qed.

(* --- key order --- *)
Ltac dc_nodup := repeat (apply NoDup_cons; [cbn; intuition discriminate|]); apply NoDup_nil.
Ltac dc_same := split; [reflexivity|split; [intros _; reflexivity|apply KO_refl]].
Ltac dc_rel H :=
  split; [reflexivity|split; [let X := fresh "X" in intro X; cbn in X; discriminate X|exact H]].

Lemma dc_Forall2_same (kv : list (string * @jv NumQ)) :
  Forall2 (fun a b => fst a = fst b /\ (fst a = "metadata" -> snd a = snd b) /\
                      KeyOrd (snd a) (snd b)) kv kv.
Proof. induction kv as [|a kv IH]; constructor; [dc_same|exact IH]. Qed.

Lemma dc_ko_B : KeyOrd (JDict dc_kvB3) (JDict dc_kvB4).
Proof.
  apply (KO_dict dc_kvB3 dc_kvB3 dc_kvB4); [apply dc_Forall2_same| |dc_nodup].
  unfold dc_kvB3, dc_kvB2, dc_kvB1, dc_kvB4.
  apply (Permutation_cons_app
           [("name", JStr "B"); ("start_time", dc_JI 50); ("ancestors", JList [JStr "A"])]
           [("epochs", JList [JDict [("end_time", JNum n0); ("start_size", dc_JI 500)]])]).
  apply perm_swap.
Qed.

Lemma dc_step_keys : DocRespell (JDict dc_kv5) (JDict dc_kv6).
Proof.
  apply DocR_keys. apply (KO_dict dc_kv5 dc_kv5' dc_kv6).
  - constructor; [dc_same|]. constructor; [dc_same|]. constructor; [dc_same|].
    constructor; [|apply dc_Forall2_same].
    assert (KeyOrd (JList [JDict dc_kvA; JDict dc_kvB3; JDict dc_kvR])
                   (JList [JDict dc_kvA; JDict dc_kvB4; JDict dc_kvR])) as K.
    { apply KO_list. constructor; [apply KO_refl|]. constructor; [exact dc_ko_B|].
      constructor; [apply KO_refl|]. constructor. }
    dc_rel K.
  - apply perm_swap.
  - dc_nodup.
Qed.

(* the two documents are related by the composition *)
Theorem dc_docs_respell : DocRespell dc_doc1 dc_doc2.
Proof.
  unfold dc_doc1, dc_doc2.
  apply (DocR_trans _ (JDict dc_kv2)); [exact dc_step_demes|].
  apply (DocR_trans _ (JDict dc_kv3)); [exact dc_step_migrations|].
  apply (DocR_trans _ (JDict dc_kv4)); [exact dc_step_pulses|].
  apply (DocR_trans _ (JDict dc_kv5)); [exact dc_step_top|].
  exact dc_step_keys.
Qed.

Definition dc_g : @graph NumQ :=
  Eval vm_compute in match fromdict dc_doc1 with Ok g => g | Err _ => dc_dummy end.

Example dc_doc1_resolves : fromdict dc_doc1 = Ok dc_g.
Proof. vm_compute. reflexivity. Qed.

(* by the theorem ... *)
Theorem dc_doc2_resolves_by_theorem : fromdict dc_doc2 = Ok dc_g.
Proof. exact (fromdict_respell_ok dc_doc1 dc_doc2 dc_g dc_docs_respell dc_doc1_resolves). Qed.

Theorem dc_same_outcome : SameOutcome (fromdict dc_doc1) (fromdict dc_doc2).
Proof. exact (fromdict_respell dc_doc1 dc_doc2 dc_docs_respell). Qed.

(* ... and independently by computation *)
Example dc_doc2_resolves : fromdict dc_doc2 = Ok dc_g.
Proof. vm_compute. reflexivity. Qed.

Example dc_docs_differ : dc_doc1 <> dc_doc2.
Proof. unfold dc_doc1, dc_doc2, dc_kv1, dc_kv6, dc_top. intro X. discriminate X. Qed.

(* the common graph is not trivial: three demes, B starting at 50 from A, the symmetric
   migration resolved into two, one pulse with the default proportions *)
Example dc_g_shape :
  map d_name (g_demes dc_g) = ["A"; "B"; "R"] /\
  map d_start (g_demes dc_g) = [ninf; dc_q 50 1 true; ninf] /\
  map d_props (g_demes dc_g) = [[]; [nf1]; []] /\
  map (fun m => (m_src m, m_dst m, m_start m, m_end m)) (g_migs dc_g)
  = [("B", "R", dc_q 50 1 true, dc_q 0 1 true); ("R", "B", dc_q 50 1 true, dc_q 0 1 true)] /\
  map (fun p => (p_srcs p, p_dst p, p_props p)) (g_pulses dc_g)
  = [(["R"], "B", [dc_q 1 10 false])].
Proof. repeat split. Qed.

Print Assumptions SameOutcome_refl.
Print Assumptions SameOutcome_sym.
Print Assumptions SameOutcome_trans.
Print Assumptions foldM_reached_ext.
Print Assumptions fromdict_demes_reached_ext.
Print Assumptions fromdict_migrations_reached_ext.
Print Assumptions fromdict_pulses_reached_ext.
Print Assumptions deme_respell_sound.
Print Assumptions mig_respell_sound.
Print Assumptions pulse_respell_sound.
Print Assumptions top_step_sound.
Print Assumptions demes_respell_sound.
Print Assumptions migs_respell_sound.
Print Assumptions pulses_respell_sound.
Print Assumptions fromdict_respell.
Print Assumptions fromdict_respell_ok.
Print Assumptions dc_docs_respell.
Print Assumptions dc_doc2_resolves_by_theorem.
Print Assumptions dc_same_outcome.
